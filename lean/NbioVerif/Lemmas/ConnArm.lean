import NbioVerif.Lemmas.ConnData
/-! ConnFull: the arming invariant (C04 safety core) and its preservation by every step -/
namespace ConnFull

/-- the agreement between the write queue, the conn's belief (`isWAdded`) and the kernel's epoll
    registration -/
structure InvA (g : Cfg) (s : S) : Prop where
  /-- the conn believes EPOLLOUT is armed exactly when a backlog exists -/
  wadd : s.closed = false → s.hung = false → (s.isWAdded = true ↔ s.wl ≠ [])
  /-- once registered, the kernel's interest set agrees with that belief (ET: EPOLLOUT always) -/
  kout : s.closed = false → s.reg = true → s.kOut = (s.isWAdded || g.mode == .et)
  /-- only ONESHOT disarms -/
  nos : g.mode ≠ .oneshot → s.disarmed = false ∧ s.rearm = false
  /-- an event is only taken from a registered descriptor -/
  rr : s.rearm = true → s.reg = true
  /-- a disarmed descriptor has its re-arm (or its close) pending in the poller -/
  dis : s.closed = false → s.disarmed = true → s.rearm = true ∨ s.evErr = true

theorem invA_init (g : Cfg) : InvA g init := by
  constructor <;> simp [init]

/-- `t` differs from `s` only in data fields and the queue did not become empty -/
structure Grow (s t : S) : Prop where
  e : E t = E s
  closed : t.closed = s.closed
  hung : t.hung = s.hung
  ne : s.wl ≠ [] → t.wl ≠ []

theorem Grow.refl (s : S) : Grow s s := ⟨rfl, rfl, rfl, id⟩
theorem Grow.trans {s t u : S} (h1 : Grow s t) (h2 : Grow t u) : Grow s u :=
  ⟨h2.e.trans h1.e, h2.closed.trans h1.closed, h2.hung.trans h1.hung, fun h => h2.ne (h1.ne h)⟩

theorem Enq.grow {g : Cfg} {s t : S} {x : Bytes} (h : Enq g s t x) : Grow s t :=
  ⟨h.e, h.closed, h.hung, fun hne he => hne (h.emp.mp he).1⟩

theorem E_fields {s t : S} (h : E t = E s) :
    t.isWAdded = s.isWAdded ∧ t.rearm = s.rearm ∧ t.evErr = s.evErr ∧ t.reg = s.reg ∧ t.kOut = s.kOut ∧
    t.disarmed = s.disarmed ∧ t.ctl = s.ctl ∧ t.onClose = s.onClose := by
  simpa [E] using h

/-- a data-only change that keeps the emptiness of the queue keeps the arming invariant -/
theorem invA_grow {g : Cfg} {s t : S} (hi : InvA g s) (hg : Grow s t) (hemp : s.wl = [] → t.wl = []) : InvA g t := by
  obtain ⟨e1, e2, e3, e4, e5, e6, _, _⟩ := E_fields hg.e
  constructor
  · intro hc hh
    rw [e1, hi.wadd (hg.closed ▸ hc) (hg.hung ▸ hh)]
    constructor
    · exact hg.ne
    · intro h1 h2; exact h1 (hemp h2)
  · rw [hg.closed, e4, e5, e1]; exact hi.kout
  · rw [e6, e2]; exact hi.nos
  · rw [e2, e4]; exact hi.rr
  · rw [hg.closed, e6, e2, e3]; exact hi.dis

theorem invA_closeNow {g : Cfg} {s : S} (hi : InvA g s) : InvA g (closeNow s) := by
  constructor <;> simp [closeNow]
  · exact hi.nos
  · exact hi.rr

/-- Write's tail on a state whose queue is non-empty: arm -/
theorem invA_arm {g : Cfg} {s t : S} (hi : InvA g s) (hc : s.closed = false) (hg : Grow s t) (hne : t.wl ≠ []) :
    InvA g (cModWrite g t) := by
  obtain ⟨e1, e2, e3, e4, e5, e6, _, _⟩ := E_fields hg.e
  have hc' : t.closed = false := hg.closed ▸ hc
  have hko := hi.kout hc
  have hno := hi.nos
  have hrr := hi.rr
  have hdi := hi.dis hc
  rw [← e1, ← e4, ← e5] at hko
  rw [← e6, ← e2] at hno
  rw [← e2, ← e4] at hrr
  rw [← e6, ← e2, ← e3] at hdi
  have hD := D_cModWrite g t
  simp only [D, Prod.mk.injEq] at hD
  obtain ⟨d1, d2, d3, _, _, _⟩ := hD
  cases hm : g.mode <;> cases hw : t.isWAdded <;> cases hr : t.reg <;>
    (constructor <;> simp_all [cModWrite, pModWrite, kctl])

theorem invA_closeNow_grow {g : Cfg} {s t : S} (hi : InvA g s) (hg : Grow s t) : InvA g (closeNow t) := by
  obtain ⟨e1, e2, e3, e4, e5, e6, _, _⟩ := E_fields hg.e
  constructor <;> simp [closeNow]
  · rw [e6, e2]; exact hi.nos
  · rw [e2, e4]; exact hi.rr

theorem invA_finishCall {g : Cfg} {s : S} (r : S × Ret) (hi : InvA g s) (hc : s.closed = false) (hg : Grow s r.1) :
    InvA g (finishCall g r).1 := by
  unfold finishCall
  split
  · simp only
    split
    · rename_i he
      exact invA_grow hi hg (fun _ => isEmpty_eq_true he)
    · rename_i he
      exact invA_arm hi hc hg (isEmpty_ne_true he)
  · exact invA_closeNow_grow hi hg

theorem grow_writeInner (g : Cfg) (s : S) (b : Bytes) (k : KAns) (hp : AllPos s.wl) :
    Grow s (writeInner g s b k).1 := by
  unfold writeInner
  split
  · exact Grow.refl s
  split
  · exact Grow.refl s
  split
  · split
    · exact Grow.refl s
    · simp only
      split
      · exact Grow.trans (by exact ⟨rfl, rfl, rfl, id⟩) (enq_enqueue g _ _ (by exact hp)).grow
      · exact ⟨rfl, rfl, rfl, id⟩
  · exact Grow.trans (by exact ⟨rfl, rfl, rfl, id⟩) (enq_enqueue g _ _ (by exact hp)).grow

theorem grow_writevInner (g : Cfg) (s : S) (bs : List Bytes) (k : KAns) (hp : AllPos s.wl) :
    Grow s (writevInner g s bs k).1 := by
  unfold writevInner
  simp only
  split
  · exact Grow.refl s
  split
  · exact Grow.trans (by exact ⟨rfl, rfl, rfl, id⟩) (enq_foldl g bs _ (by exact hp)).grow
  split
  · exact Grow.refl s
  split
  · exact Grow.refl s
  split
  · exact Grow.trans (by exact ⟨rfl, rfl, rfl, id⟩) (enq_queueRest g bs _ _ (by exact hp)).grow
  · exact ⟨rfl, rfl, rfl, id⟩

theorem invA_write (g : Cfg) (s : S) (b : Bytes) (k : KAns) (hd : InvD g s) (hi : InvA g s) :
    InvA g (write g s b k).1 := by
  unfold write
  split
  · exact hi
  split
  · exact hi
  · rename_i _ hc
    exact invA_finishCall _ hi (by simpa using hc) (grow_writeInner g s b k hd.pos)

theorem invA_writev (g : Cfg) (s : S) (bs : List Bytes) (k : KAns) (hd : InvD g s) (hi : InvA g s) :
    InvA g (writev g s bs k).1 := by
  unfold writev
  split
  · exact hi
  split
  · exact hi
  · rename_i _ hc
    have hc : s.closed = false := by simpa using hc
    split
    · exact invA_finishCall _ hi hc (grow_writeInner g s _ k hd.pos)
    · exact invA_finishCall _ hi hc (grow_writevInner g s bs k hd.pos)

/-! ### Sendfile -/

theorem grow_enqueueFile (s : S) (off rem : Nat) : Grow s (enqueueFile s off rem) :=
  ⟨rfl, rfl, rfl, fun _ => by simp [enqueueFile, pushItem]⟩

theorem invA_sendfileLoop (g : Cfg) (ks : List KAns) :
    ∀ (s0 s : S) (off rem : Nat), InvA g s0 → s0.closed = false → s0.wl = [] → Grow s0 s → s.wl = [] →
      InvA g (sendfileLoop g s off rem ks).1 := by
  induction ks with
  | nil =>
    intro s0 s off rem hi hc hwl hg hsw
    unfold sendfileLoop
    split
    · exact invA_grow hi hg (fun _ => hsw)
    · exact invA_arm hi hc (hg.trans (Grow.trans (by exact ⟨rfl, rfl, rfl, id⟩) (grow_enqueueFile _ off rem)))
        (by simp [enqueueFile, pushItem])
  | cons k ks ih =>
    intro s0 s off rem hi hc hwl hg hsw
    unfold sendfileLoop
    split
    · exact invA_grow hi hg (fun _ => hsw)
    split
    · exact invA_arm hi hc (hg.trans (Grow.trans (by exact ⟨rfl, rfl, rfl, id⟩) (grow_enqueueFile _ off rem)))
        (by simp [enqueueFile, pushItem])
    · exact ih s0 s off rem hi hc hwl hg hsw
    · exact invA_closeNow_grow hi hg
    · simp only
      split
      · exact invA_grow hi hg (fun _ => hsw)
      · exact ih s0 _ _ _ hi hc hwl (hg.trans ⟨rfl, rfl, rfl, fun h => absurd hsw h⟩) hsw

theorem invA_sendfile (g : Cfg) (s : S) (off len : Nat) (ks : List KAns) (hi : InvA g s) :
    InvA g (sendfile g s off len ks).1 := by
  unfold sendfile
  split
  · exact hi
  split
  · exact hi
  rename_i _ hc
  have hc : s.closed = false := by simpa using hc
  simp only
  split
  · exact hi
  split
  · rename_i hne
    have hne : s.wl ≠ [] := by
      intro h; simp [h] at hne
    refine invA_grow hi (Grow.trans (by exact ⟨rfl, rfl, rfl, id⟩) (grow_enqueueFile _ off _)) (fun h => absurd h hne)
  · rename_i hne
    have hwl : s.wl = [] := by
      cases h : s.wl with
      | nil => rfl
      | cons a l => simp [h] at hne
    have := invA_sendfileLoop g ks s s off (sendRange g off len) hi hc hwl (Grow.refl s) hwl
    split <;> exact this

/-! ### flush -/

/-- the arming invariant without the `dis` clause (which is suspended while an event is handled) -/
structure InvK (g : Cfg) (s : S) : Prop where
  wadd : s.closed = false → s.hung = false → (s.isWAdded = true ↔ s.wl ≠ [])
  kout : s.closed = false → s.reg = true → s.kOut = (s.isWAdded || g.mode == .et)
  nos : g.mode ≠ .oneshot → s.disarmed = false ∧ s.rearm = false
  rr : s.rearm = true → s.reg = true

theorem InvA.toK {g : Cfg} {s : S} (h : InvA g s) : InvK g s := ⟨h.wadd, h.kout, h.nos, h.rr⟩

/-- the kernel-side clauses as a predicate of the poller/kernel fields alone -/
def KOK (g : Cfg) (e : Bool × Bool × Bool × Bool × Bool × Bool × List Ctl × Nat) : Prop :=
  match e with
  | (isWAdded, rearm, _, reg, kOut, disarmed, _, _) =>
    (reg = true → kOut = (isWAdded || g.mode == .et)) ∧
    (g.mode ≠ .oneshot → disarmed = false ∧ rearm = false) ∧ (rearm = true → reg = true)

theorem invK_flushLoop (g : Cfg) : ∀ (fuel : Nat) (s : S) (ks : List KAns),
    s.closed = false → s.isWAdded = true → KOK g (E s) → InvK g (flushLoop g fuel s ks) := by
  intro fuel
  induction fuel with
  | zero =>
    intro s ks hc hw hk
    obtain ⟨k1, k2, k3⟩ := hk
    unfold flushLoop
    exact ⟨by simp, fun _ => k1, k2, k3⟩
  | succ fuel ih =>
    intro s ks hc hw hk
    have stay : ∀ t tl, s.wl = t :: tl → InvK g s := by
      intro t tl hwl
      obtain ⟨k1, k2, k3⟩ := hk
      exact ⟨fun _ _ => by simp [hw, hwl], fun _ => k1, k2, k3⟩
    have closeit : InvK g (closeNow s) := by
      obtain ⟨k1, k2, k3⟩ := hk
      exact ⟨by simp [closeNow], by simp [closeNow], k2, k3⟩
    unfold flushLoop
    split
    · -- drained: c.resetRead()
      rename_i hwl
      obtain ⟨k1, k2, k3⟩ := hk
      have hD := D_cResetRead g s
      simp only [D, Prod.mk.injEq] at hD
      obtain ⟨d1, d2, d3, _, _, _⟩ := hD
      cases hm : g.mode <;> cases hr : s.reg <;>
        (constructor <;> simp_all [cResetRead, pResetRead, kctl])
    · rename_i d off tl hwl
      simp only
      split
      · exact ih s ks hc hw hk
      split
      · exact stay _ _ hwl
      · exact stay _ _ hwl
      · exact ih s _ hc hw hk
      · exact closeit
      · split
        · exact ih s _ hc hw hk
        split
        · exact ih _ _ (by exact hc) (by exact hw) (by exact hk)
        · exact ih _ _ (by exact hc) (by exact hw) (by exact hk)
    · rename_i off rem tl hwl
      split
      · exact ih s ks hc hw hk
      split
      · exact stay _ _ hwl
      · exact stay _ _ hwl
      · exact ih s _ hc hw hk
      · exact closeit
      · simp only
        split
        · exact ih s _ hc hw hk
        split
        · exact ih _ _ (by exact hc) (by exact hw) (by exact hk)
        · exact ih _ _ (by exact hc) (by exact hw) (by exact hk)

/-- what a step may do to the fields the `dis` clause speaks about: it can only re-arm -/
structure Calm (s t : S) : Prop where
  reg : t.reg = s.reg
  rearm : t.rearm = s.rearm
  evErr : t.evErr = s.evErr
  dis : t.disarmed = true → s.disarmed = true

theorem Calm.refl (s : S) : Calm s s := ⟨rfl, rfl, rfl, id⟩
theorem Calm.trans {s t u : S} (h1 : Calm s t) (h2 : Calm t u) : Calm s u :=
  ⟨h2.reg.trans h1.reg, h2.rearm.trans h1.rearm, h2.evErr.trans h1.evErr, fun h => h1.dis (h2.dis h)⟩

theorem calm_cResetRead (g : Cfg) (s : S) : Calm s (cResetRead g s) := by
  cases hm : g.mode <;> cases hr : s.reg <;> cases hw : s.isWAdded <;> cases hc : s.closed <;>
    (constructor <;> simp_all [cResetRead, pResetRead, kctl])

theorem calm_flushLoop (g : Cfg) : ∀ (fuel : Nat) (s : S) (ks : List KAns), Calm s (flushLoop g fuel s ks) := by
  intro fuel
  induction fuel with
  | zero => intro s ks; unfold flushLoop; exact ⟨rfl, rfl, rfl, id⟩
  | succ fuel ih =>
    intro s ks
    unfold flushLoop
    split
    · exact calm_cResetRead g s
    · simp only
      split
      · exact ih s ks
      split
      · exact Calm.refl s
      · exact Calm.refl s
      · exact ih s _
      · exact ⟨rfl, rfl, rfl, id⟩
      · split
        · exact ih s _
        split
        · exact Calm.trans (by exact ⟨rfl, rfl, rfl, id⟩) (ih _ _)
        · exact Calm.trans (by exact ⟨rfl, rfl, rfl, id⟩) (ih _ _)
    · split
      · exact ih s ks
      split
      · exact Calm.refl s
      · exact Calm.refl s
      · exact ih s _
      · exact ⟨rfl, rfl, rfl, id⟩
      · simp only
        split
        · exact ih s _
        split
        · exact Calm.trans (by exact ⟨rfl, rfl, rfl, id⟩) (ih _ _)
        · exact Calm.trans (by exact ⟨rfl, rfl, rfl, id⟩) (ih _ _)

theorem invK_flush (g : Cfg) (s : S) (ks : List KAns) (hi : InvK g s) (hh : s.hung = false) : InvK g (flush g s ks) := by
  unfold flush
  split
  · exact hi
  rename_i hc
  have hc : s.closed = false := by simpa using hc
  split
  · exact hi
  · rename_i hne
    have hw : s.isWAdded = true := (hi.wadd hc hh).mpr (isEmpty_ne_true hne)
    exact invK_flushLoop g _ s ks hc hw ⟨hi.kout hc, hi.nos, hi.rr⟩

theorem calm_flush (g : Cfg) (s : S) (ks : List KAns) : Calm s (flush g s ks) := by
  unfold flush
  split
  · exact Calm.refl s
  split
  · exact Calm.refl s
  · exact calm_flushLoop g _ s ks

/-! ### registration, events, close -/

theorem invA_register (g : Cfg) (s : S) (hi : InvA g s) : InvA g (register g s) := by
  unfold register
  split
  · exact hi
  · rename_i h
    have h3 : (s.hung = false ∧ s.reg = false) ∧ s.closed = false := by simpa using h
    obtain ⟨⟨hh, hr⟩, hc⟩ := h3
    have hwa := hi.wadd hc hh
    have hno := hi.nos
    have hrr := hi.rr
    split
    · rename_i he
      have hwl : s.wl = [] := isEmpty_eq_true he
      cases hm : g.mode <;> cases hw : s.isWAdded <;> cases hre : s.rearm <;>
        (constructor <;> simp_all [pAddRead, kctl])
    · rename_i he
      have hwl : s.wl ≠ [] := isEmpty_ne_true he
      cases hm : g.mode <;> cases hw : s.isWAdded <;> cases hre : s.rearm <;>
        (constructor <;> simp_all [pAddReadWrite, kctl])

theorem deliverable_some {s : S} {o i e : Bool}
    (h : ¬ (!((deliverable s o i e).1 || (deliverable s o i e).2.1 || (deliverable s o i e).2.2)) = true) :
    s.hung = false ∧ s.reg = true ∧ s.closed = false ∧ s.disarmed = false ∧ s.rearm = false ∧ s.evErr = false ∧
    ((deliverable s o i e).1 || (deliverable s o i e).2.1 || (deliverable s o i e).2.2) = true := by
  unfold deliverable at h ⊢
  split at h
  · simp at h
  · rename_i hg
    simp at hg
    obtain ⟨⟨⟨⟨⟨h1, h2⟩, h3⟩, h4⟩, h5⟩, h6⟩ := hg
    rw [if_neg (by simp [h1, h2, h3, h4, h5, h6])]
    refine ⟨h1, h2, h3, h4, h5, h6, ?_⟩
    revert h
    cases o <;> cases i <;> cases e <;> cases s.kOut <;> simp

theorem invA_evTake (g : Cfg) (s : S) (o i e : Bool) (ks : List KAns) (hi : InvA g s) :
    InvA g (evTake g s o i e ks) := by
  unfold evTake
  simp only
  split
  · exact hi
  · rename_i hdl
    obtain ⟨hh, hr, hc, hdis, hre, hee, hany⟩ := deliverable_some hdl
    generalize deliverable s o i e = d at hany ⊢
    -- the kernel disarms (ONESHOT)
    have h1 : InvK g (if (g.mode == Mode.oneshot) = true then { s with disarmed := true } else s) ∧
        Calm s (if (g.mode == Mode.oneshot) = true then { s with disarmed := false } else s) ∧
        ((if (g.mode == Mode.oneshot) = true then { s with disarmed := true } else s).disarmed = true → g.mode = .oneshot) ∧
        (if (g.mode == Mode.oneshot) = true then { s with disarmed := true } else s).hung = false ∧
        (if (g.mode == Mode.oneshot) = true then { s with disarmed := true } else s).reg = true := by
      split
      · rename_i hm
        have hm : g.mode = .oneshot := by simpa using hm
        exact ⟨⟨hi.wadd, hi.kout, fun h => absurd hm h, hi.rr⟩, ⟨rfl, rfl, rfl, by simp [hdis]⟩, fun _ => hm, hh, hr⟩
      · exact ⟨hi.toK, Calm.refl s, fun h => by simp [hdis] at h, hh, hr⟩
    obtain ⟨k1, _, k3, k4, k5⟩ := h1
    generalize (if (g.mode == Mode.oneshot) = true then { s with disarmed := true } else s) = s1 at k1 k3 k4 k5 ⊢
    -- the poller flushes
    have h2 : InvK g (if d.1 = true then flush g s1 ks else s1) ∧ Calm s1 (if d.1 = true then flush g s1 ks else s1) := by
      split
      · exact ⟨invK_flush g s1 ks k1 k4, calm_flush g s1 ks⟩
      · exact ⟨k1, Calm.refl s1⟩
    obtain ⟨k6, k7⟩ := h2
    generalize (if d.1 = true then flush g s1 ks else s1) = s2 at k6 k7 ⊢
    constructor
    · exact k6.wadd
    · exact k6.kout
    · intro hm
      refine ⟨(k6.nos hm).1, ?_⟩
      have : (g.mode == Mode.oneshot) = false := by simpa using hm
      simp [this]
    · intro _
      show s2.reg = true
      rw [k7.reg]; exact k5
    · intro _ hd2
      have hm := k3 (k7.dis hd2)
      show (g.mode == Mode.oneshot && (d.1 || d.2.1)) = true ∨ d.2.2 = true
      cases h1 : d.1 <;> cases h2 : d.2.1 <;> cases h3 : d.2.2 <;> simp_all

theorem invA_evEnd (g : Cfg) (s : S) (hi : InvA g s) : InvA g (evEnd g s) := by
  unfold evEnd
  split
  · exact hi
  · rename_i hh
    have hh : s.hung = false := by simpa using hh
    simp only
    have h1 : InvA g (if s.rearm = true then resetPollerEvent g { s with rearm := false } else s) := by
      split
      · rename_i hre
        have hreg := hi.rr hre
        have hm : g.mode = .oneshot := by
          cases hm : g.mode
          · exact absurd (hi.nos (by simp [hm])).2 (by simp [hre])
          · exact absurd (hi.nos (by simp [hm])).2 (by simp [hre])
          · rfl
        have hwa := hi.wadd
        have hko := hi.kout
        have hdi := hi.dis
        cases hc : s.closed <;> cases hw : s.isWAdded <;> cases hwl : s.wl <;>
          (constructor <;> simp_all [resetPollerEvent, pResetRead, pModWrite, kctl])
      · exact hi
    generalize (if s.rearm = true then resetPollerEvent g { s with rearm := false } else s) = t at h1 ⊢
    split
    · split
      · rename_i hc
        exact ⟨h1.wadd, h1.kout, h1.nos, h1.rr, fun h => by simp [hc] at h⟩
      · have hn := h1.nos
        have hr := h1.rr
        constructor <;> simp [closeNow]
        · exact hn
        · exact hr
    · exact h1

theorem invA_close (g : Cfg) (s : S) (hi : InvA g s) : InvA g (close s) := by
  unfold close
  split
  · exact hi
  · exact invA_closeNow hi

theorem invA_step (g : Cfg) (s : S) (op : Op) (hd : InvD g s) (hi : InvA g s) : InvA g (step g s op) := by
  cases op with
  | write b k => exact invA_write g s b k hd hi
  | writev bs k => exact invA_writev g s bs k hd hi
  | sendfile off len ks => exact invA_sendfile g s off len ks hi
  | register => exact invA_register g s hi
  | evTake o i e ks => exact invA_evTake g s o i e ks hi
  | evEnd => exact invA_evEnd g s hi
  | close => exact invA_close g s hi

theorem inv_run (g : Cfg) (ops : List Op) : ∀ (s : S), InvD g s → InvA g s → InvD g (run g s ops) ∧ InvA g (run g s ops) := by
  induction ops with
  | nil => intro s h1 h2; exact ⟨h1, h2⟩
  | cons op ops ih => intro s h1 h2; exact ih _ (invD_step g s op h1) (invA_step g s op h1 h2)

end ConnFull
