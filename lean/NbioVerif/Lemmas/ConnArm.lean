import NbioVerif.Lemmas.ConnClose
/-! ConnFull: the arming invariant (C04 safety core) and its preservation by every step -/
namespace ConnFull

/-- the agreement between the write queue, the conn's belief (`isWAdded`) and the kernel's epoll
    registration -/
structure InvA (g : Cfg) (s : S) : Prop where
  /-- the conn believes EPOLLOUT is armed exactly when a backlog exists, or the connect is in progress, or it was
      registered for writing by a dial that connected at once and has not been reset to reading yet -/
  wadd : s.closed = false → s.hung = false → (s.isWAdded = true ↔ (s.wl ≠ [] ∨ s.connecting = true ∨ s.idle = true))
  /-- once registered, the kernel's interest set agrees with that belief (ET: EPOLLOUT always) -/
  kout : s.closed = false → s.reg = true → s.kOut = (s.isWAdded || g.mode == .et)
  /-- only ONESHOT disarms -/
  nos : g.mode ≠ .oneshot → s.disarmed = false ∧ s.rearm = false
  /-- an event is only taken from a registered descriptor -/
  rr : s.rearm = true → s.reg = true
  /-- a disarmed descriptor has its re-arm (or its close) pending in the poller -/
  dis : s.closed = false → s.disarmed = true → s.rearm = true ∨ s.evErr = true
  /-- the connected callback only runs for a connect that was in progress; while the connect is in
      progress the only event with a tail is the one that completes it -/
  cev : s.connEv = true → s.connecting = true
  cre : s.rearm = true → s.connecting = true → s.connEv = true
  cnr : s.connecting = true → s.reg = true
  idr : s.idle = true → s.reg = true

theorem invA_init (g : Cfg) : InvA g init := by
  constructor <;> simp [init]

/-- `t` differs from `s` only in data fields and the queue did not become empty -/
structure Grow (s t : S) : Prop where
  e : E t = E s
  closed : t.closed = s.closed
  hung : t.hung = s.hung
  ne : s.wl ≠ [] → t.wl ≠ []

theorem Grow.refl (s : S) : Grow s s := ⟨rfl, rfl, rfl, id⟩
theorem Grow.trans {s t u : S} (h1 : Grow s t) (h2 : Grow t u) : Grow s u :=
  ⟨h2.e.trans h1.e, h2.closed.trans h1.closed, h2.hung.trans h1.hung, fun h => h2.ne (h1.ne h)⟩

theorem Enq.grow {g : Cfg} {s t : S} {x : Bytes} (h : Enq g s t x) : Grow s t :=
  ⟨h.e, h.closed, h.hung, fun hne he => hne (h.emp.mp he).1⟩

theorem E_fields {s t : S} (h : E t = E s) :
    t.isWAdded = s.isWAdded ∧ t.rearm = s.rearm ∧ t.evErr = s.evErr ∧ t.reg = s.reg ∧ t.kOut = s.kOut ∧
    t.disarmed = s.disarmed ∧ t.connecting = s.connecting ∧ t.connEv = s.connEv := by
  simp only [E, Prod.mk.injEq] at h
  obtain ⟨h1, h2, h3, h4, h5, h6, _, _, h9, h10, _⟩ := h
  exact ⟨h1, h2, h3, h4, h5, h6, h9, h10⟩

theorem E_idle {s t : S} (h : E t = E s) : t.idle = s.idle := by
  simp only [E, Prod.mk.injEq] at h
  exact h.2.2.2.2.2.2.2.2.2.2

/-- a data-only change that keeps the emptiness of the queue keeps the arming invariant -/
theorem invA_grow {g : Cfg} {s t : S} (hi : InvA g s) (hg : Grow s t) (hemp : s.wl = [] → t.wl = []) : InvA g t := by
  obtain ⟨e1, e2, e3, e4, e5, e6, e7, e8⟩ := E_fields hg.e
  constructor
  · intro hc hh
    rw [e1, e7, E_idle hg.e, hi.wadd (hg.closed ▸ hc) (hg.hung ▸ hh)]
    constructor
    · intro h; rcases h with h | h
      · exact Or.inl (hg.ne h)
      · exact Or.inr h
    · intro h; rcases h with h | h
      · exact Or.inl (fun h2 => h (hemp h2))
      · exact Or.inr h
  · rw [hg.closed, e4, e5, e1]; exact hi.kout
  · rw [e6, e2]; exact hi.nos
  · rw [e2, e4]; exact hi.rr
  · rw [hg.closed, e6, e2, e3]; exact hi.dis
  · rw [e8, e7]; exact hi.cev
  · rw [e2, e7, e8]; exact hi.cre
  · rw [e7, e4]; exact hi.cnr
  · rw [E_idle hg.e, e4]; exact hi.idr

theorem invA_closeNow {g : Cfg} {s : S} (hi : InvA g s) : InvA g (closeNow s) := by
  constructor <;> simp [closeNow]
  · exact hi.nos
  · exact hi.rr
  · exact hi.cev
  · exact hi.cre
  · exact hi.cnr
  · exact hi.idr

/-- Write's tail on a state whose queue is non-empty: arm -/
theorem invA_arm {g : Cfg} {s t : S} (hi : InvA g s) (hc : s.closed = false) (hg : Grow s t) (hne : t.wl ≠ []) :
    InvA g (cModWrite g t) := by
  obtain ⟨e1, e2, e3, e4, e5, e6, e7, e8⟩ := E_fields hg.e
  have hc' : t.closed = false := hg.closed ▸ hc
  have hko := hi.kout hc
  have hno := hi.nos
  have hrr := hi.rr
  have hdi := hi.dis hc
  have hce := hi.cev
  have hcr := hi.cre
  have hcn := hi.cnr
  have hid := hi.idr
  rw [← E_idle hg.e, ← e4] at hid
  rw [← e7, ← e4] at hcn
  rw [← e1, ← e4, ← e5] at hko
  rw [← e6, ← e2] at hno
  rw [← e2, ← e4] at hrr
  rw [← e6, ← e2, ← e3] at hdi
  rw [← e8, ← e7] at hce
  rw [← e2, ← e7, ← e8] at hcr
  have hD := D_cModWrite g t
  simp only [D, Prod.mk.injEq] at hD
  obtain ⟨d1, d2, d3, _, _, _⟩ := hD
  cases hm : g.mode <;> cases hw : t.isWAdded <;> cases hr : t.reg <;>
    (constructor <;> simp_all [cModWrite, pModWrite, kctl])

theorem invA_closeNow_grow {g : Cfg} {s t : S} (hi : InvA g s) (hg : Grow s t) : InvA g (closeNow t) := by
  obtain ⟨e1, e2, e3, e4, e5, e6, e7, e8⟩ := E_fields hg.e
  constructor <;> simp [closeNow]
  · rw [e6, e2]; exact hi.nos
  · rw [e2, e4]; exact hi.rr
  · rw [e8, e7]; exact hi.cev
  · rw [e2, e7, e8]; exact hi.cre
  · rw [e7, e4]; exact hi.cnr
  · rw [E_idle hg.e, e4]; exact hi.idr

theorem invA_flip {g : Cfg} {s : S} (hi : InvA g s) : InvA g (flip s) := by
  constructor <;> simp [flip]
  · exact hi.nos
  · exact hi.rr
  · exact hi.cev
  · exact hi.cre
  · exact hi.cnr
  · exact hi.idr

theorem invA_flip_grow {g : Cfg} {s t : S} (hi : InvA g s) (hg : Grow s t) : InvA g (flip t) := by
  obtain ⟨e1, e2, e3, e4, e5, e6, e7, e8⟩ := E_fields hg.e
  constructor <;> simp [flip]
  · rw [e6, e2]; exact hi.nos
  · rw [e2, e4]; exact hi.rr
  · rw [e8, e7]; exact hi.cev
  · rw [e2, e7, e8]; exact hi.cre
  · rw [e7, e4]; exact hi.cnr
  · rw [E_idle hg.e, e4]; exact hi.idr

/-- the teardown of a connection whose flag is set -/
theorem invA_teardown {g : Cfg} {s : S} (hi : InvA g s) (htp : s.tearPending = true → s.closed = true) :
    InvA g (teardown s) := by
  unfold teardown
  split
  · rename_i ht
    have hc := htp ht
    exact ⟨fun h => by simp [hc] at h, fun h => by simp [hc] at h, hi.nos, hi.rr, fun h => by simp [hc] at h,
      hi.cev, hi.cre, hi.cnr, hi.idr⟩
  · exact hi

theorem invA_finishCall {g : Cfg} {s : S} (r : S × Ret) (hi : InvA g s) (hc : s.closed = false) (hg : Grow s r.1) :
    InvA g (finishCall g r).1 := by
  unfold finishCall
  split
  · simp only
    split
    · rename_i he
      exact invA_grow hi (hg.trans (u := stopTimer r.1) ⟨rfl, rfl, rfl, id⟩) (fun _ => isEmpty_eq_true he)
    · rename_i he
      exact invA_arm hi hc hg (isEmpty_ne_true he)
  · exact invA_flip_grow hi hg

theorem grow_writeInner (g : Cfg) (s : S) (b : Bytes) (k : KAns) (hp : AllPos s.wl) :
    Grow s (writeInner g s b k).1 := by
  unfold writeInner
  split
  · exact Grow.refl s
  split
  · exact Grow.refl s
  split
  · split
    · exact Grow.refl s
    · simp only
      split
      · exact Grow.trans (by exact ⟨rfl, rfl, rfl, id⟩) (enq_enqueue g _ _ (by exact hp)).grow
      · exact ⟨rfl, rfl, rfl, id⟩
  · exact Grow.trans (by exact ⟨rfl, rfl, rfl, id⟩) (enq_enqueue g _ _ (by exact hp)).grow

theorem grow_writevInner (g : Cfg) (s : S) (bs : List Bytes) (k : KAns) (hp : AllPos s.wl) :
    Grow s (writevInner g s bs k).1 := by
  unfold writevInner
  simp only
  split
  · exact Grow.refl s
  split
  · exact Grow.trans (by exact ⟨rfl, rfl, rfl, id⟩) (enq_foldl g bs _ (by exact hp)).grow
  split
  · exact Grow.refl s
  split
  · exact Grow.refl s
  split
  · exact Grow.trans (by exact ⟨rfl, rfl, rfl, id⟩) (enq_queueRest g bs _ _ (by exact hp)).grow
  · exact ⟨rfl, rfl, rfl, id⟩

theorem invA_write (g : Cfg) (s : S) (b : Bytes) (k : KAns) (hd : InvD g s) (hi : InvA g s) :
    InvA g (write g s b k).1 := by
  unfold write
  split
  · exact hi
  split
  · exact hi
  · rename_i _ hc
    exact invA_finishCall _ hi (by simpa using hc) (grow_writeInner g s b k hd.pos)

theorem invA_writev (g : Cfg) (s : S) (bs : List Bytes) (k : KAns) (hd : InvD g s) (hi : InvA g s) :
    InvA g (writev g s bs k).1 := by
  unfold writev
  split
  · exact hi
  split
  · exact hi
  · rename_i _ hc
    have hc : s.closed = false := by simpa using hc
    split
    · exact invA_finishCall _ hi hc (grow_writeInner g s _ k hd.pos)
    · exact invA_finishCall _ hi hc (grow_writevInner g s bs k hd.pos)

/-! ### Sendfile -/

theorem grow_enqueueFile (s : S) (off rem : Nat) : Grow s (enqueueFile s off rem) :=
  ⟨rfl, rfl, rfl, fun _ => by simp [enqueueFile, pushItem]⟩

theorem invA_sendfileLoop (g : Cfg) (ks : List KAns) :
    ∀ (s0 s : S) (off rem : Nat), InvA g s0 → s0.closed = false → s0.wl = [] → Grow s0 s → s.wl = [] →
      InvA g (sendfileLoop g s off rem ks).1 := by
  induction ks with
  | nil =>
    intro s0 s off rem hi hc hwl hg hsw
    unfold sendfileLoop
    split
    · exact invA_grow hi hg (fun _ => hsw)
    · exact invA_arm hi hc (hg.trans (Grow.trans (by exact ⟨rfl, rfl, rfl, id⟩) (grow_enqueueFile _ off rem)))
        (by simp [enqueueFile, pushItem])
  | cons k ks ih =>
    intro s0 s off rem hi hc hwl hg hsw
    unfold sendfileLoop
    split
    · exact invA_grow hi hg (fun _ => hsw)
    split
    · exact invA_arm hi hc (hg.trans (Grow.trans (by exact ⟨rfl, rfl, rfl, id⟩) (grow_enqueueFile _ off rem)))
        (by simp [enqueueFile, pushItem])
    · exact ih s0 s off rem hi hc hwl hg hsw
    · exact invA_closeNow_grow hi hg
    · simp only
      split
      · exact invA_grow hi hg (fun _ => hsw)
      · exact ih s0 _ _ _ hi hc hwl (hg.trans ⟨rfl, rfl, rfl, fun h => absurd hsw h⟩) hsw

theorem invA_sendfile (g : Cfg) (s : S) (off len : Nat) (ks : List KAns) (hi : InvA g s) :
    InvA g (sendfile g s off len ks).1 := by
  unfold sendfile
  split
  · exact hi
  split
  · exact hi
  rename_i _ hc
  have hc : s.closed = false := by simpa using hc
  simp only
  split
  · exact hi
  split
  · rename_i hne
    have hne : s.wl ≠ [] := by
      intro h; simp [h] at hne
    refine invA_grow hi (Grow.trans (by exact ⟨rfl, rfl, rfl, id⟩) (grow_enqueueFile _ off _)) (fun h => absurd h hne)
  · rename_i hne
    have hwl : s.wl = [] := by
      cases h : s.wl with
      | nil => rfl
      | cons a l => simp [h] at hne
    have := invA_sendfileLoop g ks s s off (sendRange g off len) hi hc hwl (Grow.refl s) hwl
    split <;> exact this

/-! ### flush -/

/-- the arming invariant without the `dis` clause (which is suspended while an event is handled) -/
structure InvK (g : Cfg) (s : S) : Prop where
  wadd : s.closed = false → s.hung = false → (s.isWAdded = true ↔ (s.wl ≠ [] ∨ s.connecting = true ∨ s.idle = true))
  kout : s.closed = false → s.reg = true → s.kOut = (s.isWAdded || g.mode == .et)
  nos : g.mode ≠ .oneshot → s.disarmed = false ∧ s.rearm = false
  rr : s.rearm = true → s.reg = true
  cev : s.connEv = true → s.connecting = true
  cre : s.rearm = true → s.connecting = true → s.connEv = true
  cnr : s.connecting = true → s.reg = true
  idr : s.idle = true → s.reg = true

theorem InvA.toK {g : Cfg} {s : S} (h : InvA g s) : InvK g s := ⟨h.wadd, h.kout, h.nos, h.rr, h.cev, h.cre, h.cnr, h.idr⟩

/-- the kernel-side clauses as a predicate of the poller/kernel fields alone (no connect in progress) -/
def KOK (g : Cfg) (e : Bool × Bool × Bool × Bool × Bool × Bool × List Ctl × Nat × Bool × Bool × Bool) : Prop :=
  match e with
  | (isWAdded, rearm, _, reg, kOut, disarmed, _, _, connecting, connEv, idle) =>
    (reg = true → kOut = (isWAdded || g.mode == .et)) ∧
    (g.mode ≠ .oneshot → disarmed = false ∧ rearm = false) ∧ (rearm = true → reg = true) ∧
    connecting = false ∧ connEv = false ∧ (idle = true → reg = true)

theorem invK_flushLoop (g : Cfg) : ∀ (fuel : Nat) (s : S) (ks : List KAns),
    s.closed = false → s.isWAdded = true → KOK g (E s) → InvK g (flushLoop g fuel s ks) := by
  intro fuel
  induction fuel with
  | zero =>
    intro s ks hc hw hk
    obtain ⟨k1, k2, k3, k4, k5, k6⟩ := hk
    unfold flushLoop
    exact ⟨by simp, fun _ => k1, k2, k3, by simp [k5], by simp [k4], by simp [k4], k6⟩
  | succ fuel ih =>
    intro s ks hc hw hk
    have stay : ∀ t tl, s.wl = t :: tl → InvK g s := by
      intro t tl hwl
      obtain ⟨k1, k2, k3, k4, k5, k6⟩ := hk
      exact ⟨fun _ _ => by simp [hw, hwl], fun _ => k1, k2, k3, by simp [k5], by simp [k4], by simp [k4], k6⟩
    have closeit : InvK g (closeNow s) := by
      obtain ⟨k1, k2, k3, k4, k5, k6⟩ := hk
      exact ⟨by simp [closeNow], by simp [closeNow], k2, k3, by simp [closeNow, k5], by simp [closeNow, k4], by simp [closeNow, k4], by simpa [closeNow] using k6⟩
    unfold flushLoop
    split
    · -- drained: c.resetRead()
      rename_i hwl
      obtain ⟨k1, k2, k3, k4, k5, k6⟩ := hk
      have hD := D_cResetRead g (stopTimer s)
      simp only [D, Prod.mk.injEq] at hD
      obtain ⟨d1, d2, d3, _, _, _⟩ := hD
      cases hm : g.mode <;> cases hr : s.reg <;>
        (constructor <;> simp_all [cResetRead, pResetRead, kctl, stopTimer])
    · rename_i d off tl hwl
      simp only
      split
      · exact ih s ks hc hw hk
      split
      · exact stay _ _ hwl
      · exact stay _ _ hwl
      · exact ih s _ hc hw hk
      · exact closeit
      · split
        · exact ih s _ hc hw hk
        split
        · exact ih _ _ (by exact hc) (by exact hw) (by exact hk)
        · exact ih _ _ (by exact hc) (by exact hw) (by exact hk)
    · rename_i off rem tl hwl
      split
      · exact ih s ks hc hw hk
      split
      · exact stay _ _ hwl
      · exact stay _ _ hwl
      · exact ih s _ hc hw hk
      · exact closeit
      · simp only
        split
        · exact ih s _ hc hw hk
        split
        · exact ih _ _ (by exact hc) (by exact hw) (by exact hk)
        · exact ih _ _ (by exact hc) (by exact hw) (by exact hk)

/-- what a step may do to the fields the `dis` clause speaks about: it can only re-arm -/
structure Calm (s t : S) : Prop where
  reg : t.reg = s.reg
  rearm : t.rearm = s.rearm
  evErr : t.evErr = s.evErr
  dis : t.disarmed = true → s.disarmed = true
  connecting : t.connecting = s.connecting
  connEv : t.connEv = s.connEv

theorem Calm.refl (s : S) : Calm s s := ⟨rfl, rfl, rfl, id, rfl, rfl⟩
theorem Calm.trans {s t u : S} (h1 : Calm s t) (h2 : Calm t u) : Calm s u :=
  ⟨h2.reg.trans h1.reg, h2.rearm.trans h1.rearm, h2.evErr.trans h1.evErr, fun h => h1.dis (h2.dis h),
   h2.connecting.trans h1.connecting, h2.connEv.trans h1.connEv⟩

theorem calm_cResetRead (g : Cfg) (s : S) : Calm s (cResetRead g s) := by
  cases hm : g.mode <;> cases hr : s.reg <;> cases hw : s.isWAdded <;> cases hc : s.closed <;> cases hwl : s.wl <;>
    (constructor <;> simp_all [cResetRead, pResetRead, kctl])

theorem calm_flushLoop (g : Cfg) : ∀ (fuel : Nat) (s : S) (ks : List KAns), Calm s (flushLoop g fuel s ks) := by
  intro fuel
  induction fuel with
  | zero => intro s ks; unfold flushLoop; exact ⟨rfl, rfl, rfl, id, rfl, rfl⟩
  | succ fuel ih =>
    intro s ks
    unfold flushLoop
    split
    · exact Calm.trans (t := stopTimer s) ⟨rfl, rfl, rfl, id, rfl, rfl⟩ (calm_cResetRead g _)
    · simp only
      split
      · exact ih s ks
      split
      · exact Calm.refl s
      · exact Calm.refl s
      · exact ih s _
      · exact ⟨rfl, rfl, rfl, id, rfl, rfl⟩
      · split
        · exact ih s _
        split
        · exact Calm.trans (by exact ⟨rfl, rfl, rfl, id, rfl, rfl⟩) (ih _ _)
        · exact Calm.trans (by exact ⟨rfl, rfl, rfl, id, rfl, rfl⟩) (ih _ _)
    · split
      · exact ih s ks
      split
      · exact Calm.refl s
      · exact Calm.refl s
      · exact ih s _
      · exact ⟨rfl, rfl, rfl, id, rfl, rfl⟩
      · simp only
        split
        · exact ih s _
        split
        · exact Calm.trans (by exact ⟨rfl, rfl, rfl, id, rfl, rfl⟩) (ih _ _)
        · exact Calm.trans (by exact ⟨rfl, rfl, rfl, id, rfl, rfl⟩) (ih _ _)

theorem invK_flush (g : Cfg) (s : S) (ks : List KAns) (hi : InvK g s) (hh : s.hung = false)
    (hcn : s.connecting = false) : InvK g (flush g s ks) := by
  unfold flush
  split
  · exact hi
  rename_i hc
  have hc : s.closed = false := by simpa using hc
  split
  · rename_i he
    -- nothing to flush: `c.resetRead()` drops the write interest a dial that connected at once was registered
    -- with (`idle`); otherwise nothing is armed for an empty queue and it is a no-op
    have hwl : s.wl = [] := by cases hs : s.wl <;> simp_all
    have hce : s.connEv = false := by
      cases h : s.connEv
      · rfl
      · have := hi.cev h; simp [hcn] at this
    have hwa := hi.wadd hc hh
    have hko := hi.kout hc
    have hno := hi.nos
    have hrr := hi.rr
    have hid := hi.idr
    have hD := D_cResetRead g s
    simp only [D, Prod.mk.injEq] at hD
    obtain ⟨d1, d2, d3, _, _, _⟩ := hD
    cases hm : g.mode <;> cases hr : s.reg <;> cases hw : s.isWAdded <;> cases hidl : s.idle <;>
      (constructor <;> simp_all [cResetRead, pResetRead, kctl])
  · rename_i hne
    have hw : s.isWAdded = true := (hi.wadd hc hh).mpr (Or.inl (isEmpty_ne_true hne))
    have hce : s.connEv = false := by
      cases h : s.connEv
      · rfl
      · have := hi.cev h; simp [hcn] at this
    exact invK_flushLoop g _ s ks hc hw ⟨hi.kout hc, hi.nos, hi.rr, hcn, hce, hi.idr⟩

theorem calm_flush (g : Cfg) (s : S) (ks : List KAns) : Calm s (flush g s ks) := by
  unfold flush
  split
  · exact Calm.refl s
  split
  · exact calm_cResetRead g s
  · exact calm_flushLoop g _ s ks

/-! ### registration, events, close -/

theorem invA_register (g : Cfg) (s : S) (hi : InvA g s) : InvA g (register g s) := by
  unfold register
  split
  · exact hi
  · rename_i h
    have h3 : (s.hung = false ∧ s.reg = false) ∧ s.closed = false := by simpa using h
    obtain ⟨⟨hh, hr⟩, hc⟩ := h3
    have hwa := hi.wadd hc hh
    have hno := hi.nos
    have hrr := hi.rr
    have hce := hi.cev
    have hcr := hi.cre
    have hcnr := hi.cnr
    have hidr := hi.idr
    split
    · rename_i he
      have hwl : s.wl = [] := isEmpty_eq_true he
      cases hm : g.mode <;> cases hw : s.isWAdded <;> cases hre : s.rearm <;> cases hcn : s.connecting <;>
        (constructor <;> simp_all [pAddRead, kctl])
    · rename_i he
      have hwl : s.wl ≠ [] := isEmpty_ne_true he
      cases hm : g.mode <;> cases hw : s.isWAdded <;> cases hre : s.rearm <;> cases hcn : s.connecting <;>
        (constructor <;> simp_all [pAddReadWrite, kctl])

theorem invA_registerDial (g : Cfg) (s : S) (hi : InvA g s) : InvA g (registerDial g s) := by
  unfold registerDial
  split
  · exact hi
  · rename_i h
    have h3 : (s.hung = false ∧ s.reg = false) ∧ s.closed = false := by simpa using h
    obtain ⟨⟨hh, hr⟩, hc⟩ := h3
    have hno := hi.nos
    have hrr := hi.rr
    have hce := hi.cev
    cases hm : g.mode <;> cases hre : s.rearm <;> cases hcv : s.connEv <;>
      (constructor <;> simp_all [pAddReadWrite, kctl])

theorem invA_registerDialNow (g : Cfg) (s : S) (hi : InvA g s) : InvA g (registerDialNow g s) := by
  unfold registerDialNow
  split
  · exact hi
  · rename_i h
    have h3 : (s.hung = false ∧ s.reg = false) ∧ s.closed = false := by simpa using h
    obtain ⟨⟨hh, hr⟩, hc⟩ := h3
    have hno := hi.nos
    have hrr := hi.rr
    have hce := hi.cev
    have hcr := hi.cre
    have hcnr := hi.cnr
    cases hm : g.mode <;> cases hre : s.rearm <;> cases hcv : s.connEv <;> cases hcn : s.connecting <;>
      (constructor <;> simp_all [pAddReadWrite, kctl])

theorem deliverable_some {s : S} {o i e : Bool}
    (h : ¬ (!((deliverable s o i e).1 || (deliverable s o i e).2.1 || (deliverable s o i e).2.2)) = true) :
    s.hung = false ∧ s.reg = true ∧ s.closed = false ∧ s.disarmed = false ∧ s.rearm = false ∧ s.evErr = false ∧
    s.connEv = false ∧
    ((deliverable s o i e).1 || (deliverable s o i e).2.1 || (deliverable s o i e).2.2) = true := by
  unfold deliverable at h ⊢
  split at h
  · simp at h
  · rename_i hg
    simp at hg
    obtain ⟨⟨⟨⟨⟨⟨h1, h2⟩, h3⟩, h4⟩, h5⟩, h6⟩, h7⟩ := hg
    rw [if_neg (by simp [h1, h2, h3, h4, h5, h6, h7])]
    refine ⟨h1, h2, h3, h4, h5, h6, h7, ?_⟩
    revert h
    cases o <;> cases i <;> cases e <;> cases s.kOut <;> cases s.connecting <;> simp

theorem invA_evTake (g : Cfg) (s : S) (o i e : Bool) (ks : List KAns) (hi : InvA g s) :
    InvA g (evTake g s o i e ks) := by
  unfold evTake
  simp only
  split
  · exact hi
  · rename_i hdl
    obtain ⟨hh, hr, hc, hdis, hre, hee, hcv, hany⟩ := deliverable_some hdl
    -- while the connect is in progress no read part is delivered
    have hin : s.connecting = true → (deliverable s o i e).2.1 = false := by
      intro hcn
      unfold deliverable
      split <;> simp [hcn]
    generalize deliverable s o i e = d at hany hin ⊢
    -- the kernel disarms (ONESHOT)
    have h1 : InvK g (if (g.mode == Mode.oneshot) = true then { s with disarmed := true } else s) ∧
        ((if (g.mode == Mode.oneshot) = true then { s with disarmed := true } else s).disarmed = true → g.mode = .oneshot) ∧
        (if (g.mode == Mode.oneshot) = true then { s with disarmed := true } else s).hung = false ∧
        (if (g.mode == Mode.oneshot) = true then { s with disarmed := true } else s).reg = true ∧
        (if (g.mode == Mode.oneshot) = true then { s with disarmed := true } else s).connEv = false ∧
        (if (g.mode == Mode.oneshot) = true then { s with disarmed := true } else s).connecting = s.connecting := by
      split
      · rename_i hm
        have hm : g.mode = .oneshot := by simpa using hm
        exact ⟨⟨hi.wadd, hi.kout, fun h => absurd hm h, hi.rr, hi.cev, hi.cre, hi.cnr, hi.idr⟩, fun _ => hm, hh, hr, hcv, rfl⟩
      · exact ⟨hi.toK, fun h => by simp [hdis] at h, hh, hr, hcv, rfl⟩
    obtain ⟨k1, k3, k4, k5, k8, k9⟩ := h1
    generalize (if (g.mode == Mode.oneshot) = true then { s with disarmed := true } else s) = s1 at k1 k3 k4 k5 k8 k9 ⊢
    by_cases hA : d.1 = true ∧ s1.connecting = true
    · -- EPOLLOUT completes the connect: the connected callback starts (no flush)
      obtain ⟨hd1, hcn⟩ := hA
      rw [if_pos hd1, if_pos hcn]
      constructor
      · exact k1.wadd
      · exact k1.kout
      · intro hm
        refine ⟨(k1.nos hm).1, ?_⟩
        have : (g.mode == Mode.oneshot) = false := by simpa using hm
        simp [this]
      · intro _; exact k5
      · intro _ hd2
        have hm := k3 hd2
        left
        show (g.mode == Mode.oneshot && (d.1 || d.2.1)) = true
        simp [hm, hd1]
      · intro _; exact hcn
      · intro _ _; rfl
      · exact k1.cnr
      · exact k1.idr
    · -- otherwise: flush (or nothing for the EPOLLOUT part)
      have hs2 : (if d.1 = true then (if s1.connecting = true then { s1 with connEv := true } else flush g s1 ks) else s1) =
          (if d.1 = true then flush g s1 ks else s1) := by
        by_cases hd1 : d.1 = true
        · have hcn : ¬ s1.connecting = true := fun h => hA ⟨hd1, h⟩
          simp [hd1, hcn]
        · simp [hd1]
      rw [hs2]
      have h2 : InvK g (if d.1 = true then flush g s1 ks else s1) ∧ Calm s1 (if d.1 = true then flush g s1 ks else s1) := by
        split
        · rename_i hd1
          have hcn : s1.connecting = false := by
            cases h : s1.connecting
            · rfl
            · exact absurd ⟨hd1, h⟩ hA
          exact ⟨invK_flush g s1 ks k1 k4 hcn, calm_flush g s1 ks⟩
        · exact ⟨k1, Calm.refl s1⟩
      obtain ⟨k6, k7⟩ := h2
      generalize (if d.1 = true then flush g s1 ks else s1) = s2 at k6 k7 ⊢
      constructor
      · exact k6.wadd
      · exact k6.kout
      · intro hm
        refine ⟨(k6.nos hm).1, ?_⟩
        have : (g.mode == Mode.oneshot) = false := by simpa using hm
        simp [this]
      · intro _
        show s2.reg = true
        rw [k7.reg]; exact k5
      · intro _ hd2
        have hm := k3 (k7.dis hd2)
        show (g.mode == Mode.oneshot && (d.1 || d.2.1)) = true ∨ d.2.2 = true
        cases h1 : d.1 <;> cases h2 : d.2.1 <;> cases h3 : d.2.2 <;> simp_all
      · exact k6.cev
      · -- rearm while the connect is still in progress: impossible here (no read part is delivered
        -- then, and the EPOLLOUT part would have started the connected callback)
        intro hra hcn2
        exfalso
        have hra' : (g.mode == Mode.oneshot && (d.1 || d.2.1)) = true := hra
        have hc1 : s1.connecting = true := by rw [← k7.connecting]; exact hcn2
        have hsc : s.connecting = true := by rw [← k9]; exact hc1
        have hd2 := hin hsc
        have hd1 : d.1 = false := by
          cases h : d.1
          · rfl
          · exact absurd ⟨h, hc1⟩ hA
        simp [hd1, hd2] at hra'
      · exact k6.cnr
      · exact k6.idr

theorem invA_evEnd (g : Cfg) (s : S) (hi : InvA g s) : InvA g (evEnd g s) := by
  unfold evEnd
  split
  · exact hi
  · rename_i hh
    have hh : s.hung = false := by simpa using hh
    simp only
    -- the end of the connected callback: `c.onConnected = nil; c.resetRead()`
    have h0 : InvA g (if s.connEv = true then cResetRead g { s with connecting := false, connEv := false } else s) ∧
        (if s.connEv = true then cResetRead g { s with connecting := false, connEv := false } else s).hung = false ∧
        (if s.connEv = true then cResetRead g { s with connecting := false, connEv := false } else s).connEv = false := by
      split
      · rename_i hcv
        have hcn := hi.cev hcv
        have hwa := hi.wadd
        have hko := hi.kout
        have hno := hi.nos
        have hrr := hi.rr
        have hdi := hi.dis
        have hcr := hi.cre
        have hcnr := hi.cnr
        have hidr := hi.idr
        have hD := D_cResetRead g { s with connecting := false, connEv := false }
        simp only [D, Prod.mk.injEq] at hD
        obtain ⟨d1, d2, d3, _, _, _⟩ := hD
        refine ⟨?_, by rw [d2]; exact hh, by rw [(calm_cResetRead g _).connEv]⟩
        cases hm : g.mode <;> cases hc : s.closed <;> cases hw : s.isWAdded <;> cases hwl : s.wl <;> cases hr : s.reg <;>
          (constructor <;> simp_all [cResetRead, pResetRead, kctl])
      · rename_i hcv
        exact ⟨hi, hh, by simpa using hcv⟩
    obtain ⟨h0, hh0, hcv0⟩ := h0
    generalize (if s.connEv = true then cResetRead g { s with connecting := false, connEv := false } else s) = s0 at h0 hh0 hcv0 ⊢
    have h1 : InvA g (if s0.rearm = true then resetPollerEvent g { s0 with rearm := false } else s0) := by
      split
      · rename_i hre
        have hreg := h0.rr hre
        have hm : g.mode = .oneshot := by
          cases hm : g.mode
          · exact absurd (h0.nos (by simp [hm])).2 (by simp [hre])
          · exact absurd (h0.nos (by simp [hm])).2 (by simp [hre])
          · rfl
        have hwa := h0.wadd
        have hko := h0.kout
        have hdi := h0.dis
        have hce := h0.cev
        have hcr := h0.cre hre
        have hcnr := h0.cnr
        have hidr := h0.idr
        cases hc : s0.closed <;> cases hw : s0.isWAdded <;> cases hwl : s0.wl <;> cases hcn : s0.connecting <;>
          (constructor <;> simp_all [resetPollerEvent, pResetRead, pModWrite, kctl])
      · exact h0
    generalize (if s0.rearm = true then resetPollerEvent g { s0 with rearm := false } else s0) = t at h1 ⊢
    split
    · split
      · rename_i hc
        exact ⟨h1.wadd, h1.kout, h1.nos, h1.rr, fun h => by simp [hc] at h, h1.cev, h1.cre, h1.cnr, h1.idr⟩
      · have hn := h1.nos
        have hr := h1.rr
        have hce := h1.cev
        have hcr := h1.cre
        have hcn := h1.cnr
        have hid := h1.idr
        constructor <;> simp [flipWE, flip, stopTimer]
        · exact hn
        · exact hr
        · exact hce
        · exact hcr
        · exact hcn
        · exact hid
    · exact h1

theorem invA_evConnEnd (g : Cfg) (s : S) (hi : InvA g s) : InvA g (evConnEnd g s) := by
  unfold evConnEnd
  split
  · exact hi
  · rename_i hh
    have hh : s.hung = false := by simpa using hh
    split
    · rename_i hcv
      have hcn := hi.cev hcv
      have hwa := hi.wadd
      have hko := hi.kout
      have hno := hi.nos
      have hrr := hi.rr
      have hdi := hi.dis
      have hcr := hi.cre
      have hcnr := hi.cnr
      have hidr := hi.idr
      have hD := D_cResetRead g { s with connecting := false, connEv := false }
      simp only [D, Prod.mk.injEq] at hD
      obtain ⟨d1, d2, d3, _, _, _⟩ := hD
      cases hm : g.mode <;> cases hc : s.closed <;> cases hw : s.isWAdded <;> cases hwl : s.wl <;> cases hr : s.reg <;>
        (constructor <;> simp_all [cResetRead, pResetRead, kctl])
    · exact hi

theorem invA_evRearm (g : Cfg) (s : S) (hi : InvA g s) : InvA g (evRearm g s) := by
  unfold evRearm
  split
  · exact hi
  · rename_i hg
    have hg2 : s.hung = false ∧ s.connEv = false := by simpa using hg
    obtain ⟨hh, hcv0⟩ := hg2
    split
    · rename_i hre
      have hreg := hi.rr hre
      have hm : g.mode = .oneshot := by
        cases hm : g.mode
        · exact absurd (hi.nos (by simp [hm])).2 (by simp [hre])
        · exact absurd (hi.nos (by simp [hm])).2 (by simp [hre])
        · rfl
      have hwa := hi.wadd
      have hko := hi.kout
      have hdi := hi.dis
      have hce := hi.cev
      have hcr := hi.cre hre
      have hcnr := hi.cnr
      have hidr := hi.idr
      cases hc : s.closed <;> cases hw : s.isWAdded <;> cases hwl : s.wl <;> cases hcn : s.connecting <;>
        (constructor <;> simp_all [resetPollerEvent, pResetRead, pModWrite, kctl])
    · exact hi

theorem invA_evErrClose (g : Cfg) (s : S) (hi : InvA g s) : InvA g (evErrClose s) := by
  unfold evErrClose
  split
  · exact hi
  · split
    · split
      · rename_i hc
        exact ⟨hi.wadd, hi.kout, hi.nos, hi.rr, fun h => by simp [hc] at h, hi.cev, hi.cre, hi.cnr, hi.idr⟩
      · have hn := hi.nos
        have hr := hi.rr
        have hce := hi.cev
        have hcr := hi.cre
        have hcn := hi.cnr
        have hid := hi.idr
        constructor <;> simp [flipWE, flip, stopTimer]
        · exact hn
        · exact hr
        · exact hce
        · exact hcr
        · exact hcn
        · exact hid
    · exact hi

/-- the arming invariant does not mention the deadline fields -/
theorem InvA.timer {g : Cfg} {s t : S} (h : InvA g s) (hd : D t = D s) (he : E t = E s) : InvA g t :=
  invA_grow h ⟨he, by simpa [D] using (congrArg (·.1) hd), by simpa [D] using (congrArg (·.2.1) hd),
    fun hne => by rw [show t.wl = s.wl by simpa [D] using (congrArg (·.2.2.1) hd)]; exact hne⟩
    (fun hw => by rw [show t.wl = s.wl by simpa [D] using (congrArg (·.2.2.1) hd)]; exact hw)

theorem invA_flipWE {g : Cfg} {s : S} (hi : InvA g s) : InvA g (flipWE s) :=
  invA_flip (hi.timer (t := stopTimer s) rfl rfl)

theorem invA_flipClosed (g : Cfg) (s : S) (hi : InvA g s) : InvA g (flipClosed s) := by
  unfold flipClosed
  split
  · exact hi
  · exact invA_flipWE hi

theorem invA_setWriteDeadline (g : Cfg) (s : S) (z : Bool) (hi : InvA g s) : InvA g (setWriteDeadline s z) := by
  unfold setWriteDeadline
  split
  · exact hi
  · exact hi.timer rfl rfl

theorem invA_timerExpire (g : Cfg) (s : S) (hi : InvA g s) : InvA g (timerExpire s) := by
  unfold timerExpire
  split
  · exact hi.timer rfl rfl
  · exact hi

theorem invA_timerFire (g : Cfg) (s : S) (hi : InvA g s) : InvA g (timerFire s) := by
  unfold timerFire
  split
  · exact hi
  · split
    · exact hi.timer rfl rfl
    · exact invA_flipWE (hi.timer (t := { s with firePending := false }) rfl rfl)

theorem invA_step (g : Cfg) (s : S) (op : Op) (hd : InvD g s) (hi : InvA g s)
    (htp : s.tearPending = true → s.closed = true) : InvA g (step g s op) := by
  cases op with
  | write b ks => exact (invA_write g s b _ hd hi).timer (D_ghost _ _ _) (E_ghost _ _ _)
  | writev bs ks => exact (invA_writev g s bs _ hd hi).timer (D_ghost _ _ _) (E_ghost _ _ _)
  | sendfile off len ks => exact (invA_sendfile g s off len ks hi).timer (D_ghost _ _ _) (E_ghost _ _ _)
  | register => exact (invA_register g s hi).timer (D_ghost _ _ _) (E_ghost _ _ _)
  | registerDial => exact (invA_registerDial g s hi).timer (D_ghost _ _ _) (E_ghost _ _ _)
  | registerDialNow => exact (invA_registerDialNow g s hi).timer (D_ghost _ _ _) (E_ghost _ _ _)
  | evTake o i e ks => exact (invA_evTake g s _ i e ks hi).timer (D_ghost _ _ _) (E_ghost _ _ _)
  | evEnd => exact invA_evEnd g s hi
  | evConnEnd => exact invA_evConnEnd g s hi
  | evRearm => exact invA_evRearm g s hi
  | evErrClose => exact invA_evErrClose g s hi
  | flipClosed => exact invA_flipClosed g s hi
  | teardown => exact invA_teardown hi htp
  | setWriteDeadline z => exact invA_setWriteDeadline g s z hi
  | timerExpire => exact invA_timerExpire g s hi
  | timerFire => exact invA_timerFire g s hi

/-- all invariants, for every op sequence -/
theorem inv_run3 (g : Cfg) (ops : List Op) : ∀ (s : S), InvD g s → InvA g s → InvT s →
    InvD g (run g s ops) ∧ InvA g (run g s ops) ∧ InvT (run g s ops) := by
  induction ops with
  | nil => intro s h1 h2 h3; exact ⟨h1, h2, h3⟩
  | cons op ops ih =>
    intro s h1 h2 h3
    exact ih _ (invD_step g s op h1 h3.tp) (invA_step g s op h1 h2 h3.tp) (invT_step g s op h3)

theorem inv_run (g : Cfg) (ops : List Op) : ∀ (s : S), InvD g s → InvA g s → InvT s →
    InvD g (run g s ops) ∧ InvA g (run g s ops) := by
  intro s h1 h2 h3
  exact ⟨(inv_run3 g ops s h1 h2 h3).1, (inv_run3 g ops s h1 h2 h3).2.1⟩

end ConnFull
