import NbioVerif.Model.ClientPool
/-! invariant of the client pool bookkeeping -/
namespace ClientPool

structure Inv (max : Nat) (s : St) : Prop where
  /-- every ClientConn created is in exactly one of idle / busy, once -/
  conns : (s.idle ++ s.busy).Perm (List.range s.count)
  bound : s.count ≤ max
  /-- a request waits only while no conn is free and none can be created -/
  wait  : s.waiting ≠ [] → s.idle = [] ∧ s.count = max
  /-- every request is assigned, waiting or failed — exactly one of them, once -/
  reqs  : (s.assigned.map (·.1) ++ s.waiting ++ s.failed).Perm (List.range s.nreq)
  /-- a ClientConn that is in use is not marked closed … unless it was closed after the hand-over -/
  dead_lt : ∀ c ∈ s.dead, c < s.count

theorem inv_init (max : Nat) : Inv max {} := by
  constructor <;> simp

theorem assign_idle (s : St) (r c : Nat) : (assign s r c).idle = s.idle := rfl
theorem assign_busy (s : St) (r c : Nat) : (assign s r c).busy = s.busy ++ [c] := rfl
theorem assign_count (s : St) (r c : Nat) : (assign s r c).count = s.count := rfl
theorem assign_waiting (s : St) (r c : Nat) : (assign s r c).waiting = s.waiting := rfl
theorem assign_failed (s : St) (r c : Nat) : (assign s r c).failed = s.failed := rfl
theorem assign_nreq (s : St) (r c : Nat) : (assign s r c).nreq = s.nreq := rfl
theorem assign_assigned (s : St) (r c : Nat) : (assign s r c).assigned = s.assigned ++ [(r, c)] := rfl

theorem dead_assign (s : St) (r c : Nat) (h : ∀ x ∈ s.dead, x < s.count) :
    ∀ x ∈ (assign s r c).dead, x < (assign s r c).count := by
  intro x hx
  simp only [assign, List.mem_filter] at hx
  exact h x hx.1

theorem inv_step {max : Nat} {s s' : St} (op : Op) (h : Inv max s) (hs : step max s op = some s') :
    Inv max s' := by
  cases op with
  | get =>
    simp only [step] at hs
    split at hs
    · rename_i c rest hi
      cases hs
      have hi' : s.idle = c :: rest := hi
      constructor
      · rw [assign_idle, assign_busy, assign_count]
        have := h.conns; rw [hi'] at this
        simp only
        refine List.Perm.trans ?_ this
        have h1 : (rest ++ (s.busy ++ [c])).Perm (c :: (rest ++ s.busy)) := by
          rw [← List.append_assoc]
          exact List.perm_append_comm.trans (by simp)
        simpa using h1
      · exact h.bound
      · intro hw
        have hw' : s.waiting ≠ [] := hw
        have := (h.wait hw').1; rw [hi'] at this; cases this
      · rw [assign_assigned, assign_waiting, assign_failed, assign_nreq]
        simp only [List.map_append, List.map_cons, List.map_nil]
        have hne : s.waiting = [] := by
          by_cases hw : s.waiting = []
          · exact hw
          · have := (h.wait hw).1; rw [hi'] at this; cases this
        have := h.reqs
        rw [hne] at this ⊢
        simp only [List.append_nil] at this ⊢
        rw [List.range_succ]
        have h2 : (List.map (·.1) s.assigned ++ [s.nreq] ++ s.failed).Perm
            (List.map (·.1) s.assigned ++ s.failed ++ [s.nreq]) := by
          rw [List.append_assoc, List.append_assoc]
          exact List.Perm.append_left _ List.perm_append_comm
        exact h2.trans (this.append_right _)
      · exact dead_assign _ _ _ h.dead_lt
    · rename_i hi
      have hi' : s.idle = [] := hi
      split at hs
      · rename_i hlt
        have hlt' : s.count < max := hlt
        cases hs
        constructor
        · rw [assign_idle, assign_busy, assign_count]
          simp only [hi', List.nil_append]
          have := h.conns; rw [hi', List.nil_append] at this
          rw [List.range_succ]
          exact this.append_right _
        · rw [assign_count]; simp only; omega
        · intro hw
          have hw' : s.waiting ≠ [] := hw
          have := (h.wait hw').2; omega
        · rw [assign_assigned, assign_waiting, assign_failed, assign_nreq]
          simp only [List.map_append, List.map_cons, List.map_nil]
          have hne : s.waiting = [] := by
            by_cases hw : s.waiting = []
            · exact hw
            · have := (h.wait hw).2; omega
          have := h.reqs
          rw [hne] at this ⊢
          simp only [List.append_nil] at this ⊢
          rw [List.range_succ]
          have h2 : (List.map (·.1) s.assigned ++ [s.nreq] ++ s.failed).Perm
              (List.map (·.1) s.assigned ++ s.failed ++ [s.nreq]) := by
            rw [List.append_assoc, List.append_assoc]
            exact List.Perm.append_left _ List.perm_append_comm
          exact h2.trans (this.append_right _)
        · intro x hx
          have := dead_assign { s with nreq := s.nreq + 1, count := s.count + 1 } s.nreq s.count
            (by intro y hy; have := h.dead_lt y hy; simp only; omega) x hx
          exact this
      · rename_i hge
        have hge' : ¬ s.count < max := hge
        cases hs
        constructor
        · exact h.conns
        · exact h.bound
        · intro _
          refine ⟨hi', ?_⟩
          have := h.bound
          show s.count = max
          omega
        · simp only
          have := h.reqs
          rw [List.range_succ]
          have h2 : (List.map (·.1) s.assigned ++ (s.waiting ++ [s.nreq]) ++ s.failed).Perm
              (List.map (·.1) s.assigned ++ s.waiting ++ s.failed ++ [s.nreq]) := by
            simp only [List.append_assoc]
            exact List.Perm.append_left _ (List.Perm.append_left _ List.perm_append_comm)
          exact h2.trans (this.append_right _)
        · exact h.dead_lt
  | release c =>
    simp only [step] at hs
    split at hs
    · rename_i hb
      have hmem : c ∈ s.busy := by simpa using hb
      have hperm : (s.idle ++ (s.busy.erase c ++ [c])).Perm (List.range s.count) := by
        refine List.Perm.trans ?_ h.conns
        exact List.Perm.append_left _ ((List.perm_append_comm).trans (List.perm_cons_erase hmem).symm)
      split at hs
      · rename_i r w hw
        have hw' : s.waiting = r :: w := hw
        cases hs
        have hidle := (h.wait (by rw [hw']; simp)).1
        constructor
        · rw [assign_idle, assign_busy, assign_count]; exact hperm
        · exact h.bound
        · intro _; exact ⟨hidle, (h.wait (by rw [hw']; simp)).2⟩
        · rw [assign_assigned, assign_waiting, assign_failed, assign_nreq]
          simp only [List.map_append, List.map_cons, List.map_nil]
          have := h.reqs; rw [hw'] at this
          refine List.Perm.trans ?_ this
          simp only [List.append_assoc, List.cons_append, List.nil_append]
          exact List.Perm.refl _
        · exact dead_assign _ _ _ h.dead_lt
      · rename_i hw
        cases hs
        constructor
        · simp only
          refine List.Perm.trans ?_ hperm
          simp only [List.append_assoc]
          exact List.Perm.append_left _ List.perm_append_comm
        · exact h.bound
        · intro hne; exact absurd hw hne
        · exact h.reqs
        · exact h.dead_lt
    · cases hs
  | timeout r =>
    simp only [step] at hs
    split at hs
    · rename_i hb
      have hmem : r ∈ s.waiting := by simpa using hb
      cases hs
      constructor
      · exact h.conns
      · exact h.bound
      · intro _; exact h.wait (List.ne_nil_of_mem hmem)
      · simp only
        refine List.Perm.trans ?_ h.reqs
        simp only [List.append_assoc]
        refine List.Perm.append_left _ ?_
        have h1 : (s.waiting.erase r ++ (s.failed ++ [r])).Perm (r :: (s.waiting.erase r ++ s.failed)) := by
          rw [← List.append_assoc]
          exact List.perm_append_comm.trans (by simp)
        refine h1.trans ?_
        have h2 : (r :: s.waiting.erase r).Perm s.waiting := (List.perm_cons_erase hmem).symm
        simpa using h2.append_right s.failed
      · exact h.dead_lt
    · cases hs
  | connClosed c =>
    simp only [step] at hs
    split at hs
    · rename_i hg
      simp only [Bool.and_eq_true, decide_eq_true_eq] at hg
      cases hs
      exact { h with
        dead_lt := by
          intro x hx
          simp only [List.mem_append, List.mem_cons, List.not_mem_nil, or_false] at hx
          rcases hx with hx | hx
          · exact h.dead_lt x hx
          · subst hx; exact hg.1 }
    · cases hs

theorem inv_run {max : Nat} (ops : List Op) : ∀ {s : St}, Inv max s → Inv max (run max s ops) := by
  induction ops with
  | nil => intro s h; exact h
  | cons op ops ih =>
    intro s h
    simp only [run]
    split
    · rename_i s' hs; exact ih (inv_step op h hs)
    · exact ih h

end ClientPool
