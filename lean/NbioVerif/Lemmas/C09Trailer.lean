import NbioVerif.Lemmas.C09Main
/-! The trailer keys: `Response.trailer` is written by eoncodeHead only, from the header map of the encoding state. The first
block is generated from the `_hasBody` block of C09Proj (fields `trailer`, `headEncoded`). -/
namespace Resp

@[simp] theorem chunkTail_trailer (g : Cfg) (r : R) (nb d : Bytes) : (chunkTail g r nb d).1.trailer = r.trailer := by
  unfold chunkTail; dsimp only; (repeat' split) <;> simp [*]
@[simp] theorem chunkTail_headEncoded (g : Cfg) (r : R) (nb d : Bytes) : (chunkTail g r nb d).1.headEncoded = r.headEncoded := by
  unfold chunkTail; dsimp only; (repeat' split) <;> simp [*]
@[simp] theorem appendTail_trailer (g : Cfg) (r : R) (bb d : Bytes) (cl : Nat) : (appendTail g r bb d cl).1.trailer = r.trailer := by
  unfold appendTail; dsimp only; (repeat' split) <;> simp [*]
@[simp] theorem sendDirect_trailer (g : Cfg) (r : R) (d : Bytes) : (sendDirect g r d).1.trailer = r.trailer := by
  unfold sendDirect; dsimp only; (repeat' split) <;> simp [*]
@[simp] theorem sendCached_trailer (g : Cfg) (r : R) (bb : Bytes) : (sendCached g r bb).1.trailer = r.trailer := by
  unfold sendCached; dsimp only; (repeat' split) <;> simp [*]
@[simp] theorem appendBody_trailer (g : Cfg) (r : R) (d : Bytes) (cl : Nat) : (appendBody g r d cl).1.trailer = r.trailer := by
  unfold appendBody
  dsimp only
  split
  · split <;> simp
  · split
    · split
      · rename_i heq; have := congrArg Prod.fst heq; dsimp only at this; rw [← this]; simp
      · rename_i heq; have := congrArg Prod.fst heq; dsimp only at this
        split <;> simp [← this]
    · simp

@[simp] theorem writeHeader_trailer (r : R) (c : Nat) (st : Bytes) : (writeHeader r c st).trailer = r.trailer := by
  unfold writeHeader; dsimp only; repeat' split
  all_goals rfl
@[simp] theorem checkChunked_trailer (g : Cfg) (r : R) : (checkChunked g r).trailer = r.trailer := by
  unfold checkChunked; dsimp only; repeat' split
  all_goals rfl
@[simp] theorem checkChunked_headEncoded (g : Cfg) (r : R) : (checkChunked g r).headEncoded = r.headEncoded := by
  unfold checkChunked; dsimp only; repeat' split
  all_goals rfl
@[simp] theorem writeHeader_headEncoded (r : R) (c : Nat) (st : Bytes) : (writeHeader r c st).headEncoded = r.headEncoded := by
  unfold writeHeader; dsimp only; repeat' split
  all_goals rfl
@[simp] theorem contentLength_trailer (r : R) : (contentLength r).1.trailer = r.trailer := by
  unfold contentLength; dsimp only; repeat' split
  all_goals rfl
@[simp] theorem contentLength_headEncoded (r : R) : (contentLength r).1.headEncoded = r.headEncoded := by
  unfold contentLength; dsimp only; repeat' split
  all_goals rfl
@[simp] theorem contentLength_header (r : R) : (contentLength r).1.header = r.header := by
  unfold contentLength; dsimp only; repeat' split
  all_goals rfl

/-- the trailer keys of a state whose head is encoded are the declared ones (of the header map `h0` the body
phase started with) -/
def TrK (h0 : Header) (r : R) : Prop :=
  r.headEncoded = true → r.trailer.map (·.1) = (hget h0 kTrailer).eraseDups

theorem trailerOf_keys (h : Header) : (trailerOf h).map (·.1) = (hget h kTrailer).eraseDups := by
  unfold trailerOf
  rw [List.map_map]
  simp [Function.comp_def]

theorem eoncodeHead_trk (g : Cfg) (h0 : Header) (r : R) (hk : hget r.header kTrailer = hget h0 kTrailer) (h : TrK h0 r) :
    TrK h0 (eoncodeHead g r) := by
  cases he : r.headEncoded with
  | true => rw [eoncodeHead_enc g r he]; exact h
  | false =>
    rw [eoncodeHead_new g r he]
    intro _
    show (trailerOf r.header).map (·.1) = _
    rw [trailerOf_keys, hk]

/-- anything that leaves `trailer` and `headEncoded` alone -/
theorem trk_same (h0 : Header) (r r' : R) (h1 : r'.trailer = r.trailer) (h2 : r'.headEncoded = r.headEncoded) (h : TrK h0 r) :
    TrK h0 r' := by
  intro he; rw [h1]; exact h (by rw [← h2]; exact he)

theorem takeHead_trk (g : Cfg) (h0 : Header) (r : R) (l cl : Nat) (hk : hget r.header kTrailer = hget h0 kTrailer)
    (h : TrK h0 r) : TrK h0 (takeHead g r l cl).1 := by
  unfold takeHead
  split
  · have h1 := eoncodeHead_trk g h0 r hk h
    generalize eoncodeHead g r = r1 at *
    dsimp only
    (repeat' split) <;> exact trk_same h0 r1 _ (by simp) (by simp) h1
  · exact h

theorem writeChunk_trk (g : Cfg) (h0 : Header) (r : R) (d : Bytes) (hk : hget r.header kTrailer = hget h0 kTrailer)
    (h : TrK h0 r) : TrK h0 (writeChunk g r d).1 := by
  unfold writeChunk
  have h1 := eoncodeHead_trk g h0 r hk h
  generalize eoncodeHead g r = r1 at *
  dsimp only
  (repeat' split) <;> exact trk_same h0 r1 _ (by simp [*]) (by simp [*]) h1

theorem writeBody_trk (g : Cfg) (h0 : Header) (r : R) (d : Bytes) (hk : hget r.header kTrailer = hget h0 kTrailer)
    (h : TrK h0 r) : TrK h0 (writeBody g r d).1 := by
  unfold writeBody
  split
  · exact writeChunk_trk g h0 r d hk h
  · have c1 := contentLength_trailer r
    have c2 := contentLength_headEncoded r
    have c3 := contentLength_header r
    generalize contentLength r = p at *
    obtain ⟨r1, v⟩ := p
    dsimp only at c1 c2 c3 ⊢
    have h1 : TrK h0 r1 := trk_same h0 r r1 c1 c2 h
    cases v with
    | none => exact h1
    | some cl =>
      dsimp only
      unfold writeIdent
      split
      · exact h1
      · have h2 := takeHead_trk g h0 r1 d.length cl (by rw [c3]; exact hk) h1
        generalize takeHead g r1 d.length cl = q at *
        obtain ⟨r2, ok⟩ := q
        cases ok with
        | false => exact h2
        | true => exact trk_same h0 r2 _ (by simp) (by simp) h2

/-- in a body-phase state (prelude done) -/
theorem write_trk (g : Cfg) (h0 : Header) (r : R) (d : Bytes) (hp : Pre r) (hk : hget r.header kTrailer = hget h0 kTrailer)
    (h : TrK h0 r) : TrK h0 (write g r d).1 := by
  by_cases hne : d = []
  · subst hne; simpa [write] using h
  · rw [write_unfold g r d hne hp]
    exact writeBody_trk g h0 _ d hk (trk_same h0 r _ rfl rfl h)

theorem flushOp_trk (g : Cfg) (h0 : Header) (r : R) (hp : Pre r) (hk : hget r.header kTrailer = hget h0 kTrailer)
    (h : TrK h0 r) : TrK h0 (flushOp g r) := by
  rw [flushOp_unfold g r hp]
  have h1 := eoncodeHead_trk g h0 (markDelim r) (by simpa using hk) (trk_same h0 r _ (by simp) (by simp) h)
  exact trk_same h0 _ _ (by simp) (by simp) h1

end Resp
