import NbioVerif.Model.Http
namespace Http
open Scan

theorem block_pos (p : P) (n : Nat) (h : block p = some n) : 0 < n := by
  unfold block at h
  split at h
  · split at h
    · cases h; omega
    · cases h
  · split at h
    · cases h; omega
    · cases h
  · cases h

/-- a state produced by a byte step is a block state only via the two `start = i+1` transitions -/
theorem enter_byte (g : Cfg) (s : P) (tok : Bytes) (c : UInt8) (s' : P) (u : Upd) (evs : List Ev) (n : Nat)
    (hstep : byteStep g s tok c = .ok s' u evs) (hblk : block s' = some n) : u = .next := by
  unfold byteStep at hstep
  split at hstep
  all_goals (simp only [ok, er] at hstep)
  all_goals (repeat' split at hstep)
  all_goals (first
    | (cases hstep; done)
    | (cases hstep; rfl)
    | (cases hstep; simp [block, handleMessage] at hblk; done)
    | (cases hstep; simp [block, handleMessage] at hblk; split at hblk <;> simp at hblk; done)
    | (cases hstep; simp [block, handleMessage] at hblk; split at hblk <;> simp_all; done)
    | (cases hstep; simp_all [block, handleMessage]; done)
    | (rename_i hp; have := parseChunk_st _ _ _ hp; cases hstep; simp_all [block]; done)
    | skip)

theorem wf (g : Cfg) : WF (machine g) :=
  ⟨fun s tok c s' u evs n h1 h2 => enter_byte g s tok c s' u evs n h1 h2, fun s n h => block_pos s n h⟩

end Http
