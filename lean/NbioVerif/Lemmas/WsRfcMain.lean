import NbioVerif.Lemmas.WsRfcRun
/-! C13: Parse (model) and the RFC transcription agree on every byte string -/
namespace Ws
open WsF

theorem judge_need_of_partial (g : Cfg) (s : S) (f : Rfc.Frame) (total : Nat) (ht : f.topbit = false)
    (hsz : sizeCheck g (msgLen s) (szHdr f.op f.declared) = none) (hp : f.partial = true) :
    judge g s (.frame f total) = .need := by
  simp [judge, ht, hsz, hp]

theorem judge_err_of_size (g : Cfg) (s : S) (f : Rfc.Frame) (total : Nat) (ht : f.topbit = false)
    (hsz : (sizeCheck g (msgLen s) (szHdr f.op f.declared)).isSome = true) :
    ∃ er, judge g s (.frame f total) = .err er := by
  cases h : sizeCheck g (msgLen s) (szHdr f.op f.declared) with
  | none => rw [h] at hsz; cases hsz
  | some er => exact ⟨er, by simp [judge, ht, h]⟩

theorem judge_complete (g : Cfg) (s : S) (f : Rfc.Frame) (total : Nat) (ht : f.topbit = false) (hp : f.partial = false) :
    judge g s (.frame f total) =
      match sizeCheck g (msgLen s) (szHdr f.op f.declared) with
      | some er => .err er
      | none =>
        match validFrame g f.op f.fin f.r1 f.r2 f.r3 s.k.expecting with
        | some er => .err er
        | none => .frame total f.op f.payload f.fin f.r1 := by
  simp only [judge, ht, hp, Bool.false_eq_true, if_false]
  rfl

theorem inv_nwrites (k : K) (st : Rfc.St) (n : Nat) (h : Inv k st) : Inv { k with nwrites := n } st :=
  ⟨h.alive, h.exp, h.idle, h.busy⟩

theorem agree_closed_reject (g : Cfg) (e : Env) (i0 : Nat) (r : PR) (evs : List Rfc.Ev) (i : Int) (why : Rfc.Reason) (tail : List Act)
    (hc : r.s.k.connClosed = true) (hacts : r.acts = actsOf g e i0 evs ++ tail) (hnd : NoDeliver tail) :
    Agree g e i0 r { verdict := .reject why, at_ := i, evs } := by
  unfold Agree
  simp only
  exact ⟨Or.inr hc, tail, hacts, hnd⟩

theorem noDeliver_append_close (a : List Act) (h : NoDeliver a) : NoDeliver (a ++ [.closeConn]) := by
  intro t p hm
  rcases List.mem_append.mp hm with hm | hm
  · exact h t p hm
  · simp at hm

/-- model and specification compute the same inflate verdict -/
theorem infl_link (g : Cfg) (e : Env) (k1 : K) (st1 : Rfc.St) (hcomp : k1.compress = st1.comp) (hacc : k1.message.getD [] = st1.acc) :
    (if st1.comp then (rfcOf g e).infl st1.acc else Rfc.TInfl.ok st1.acc) =
      match inflOf g e k1 with
      | .ok b => .ok b
      | .tooLarge _ => .big
      | _ => .err := by
  unfold inflOf
  rw [hcomp, hacc]
  cases st1.comp with
  | false => rfl
  | true => simp only [if_true, rfcOf]; rfl

theorem run_agree (g : Cfg) (e : Env) (i0 : Nat) : ∀ (n : Nat) (s : S) (acts : List Act) (st : Rfc.St) (i : Nat) (evs : List Rfc.Ev),
    s.cache.length ≤ n → Within g s → Inv s.k st → acts = actsOf g e i0 evs → s.k.nwrites = i0 + nReplies evs →
    Agree g e i0 (run g e s acts) (RfcM.run (rfcOf g e) st i evs (RfcM.decode (n + 1) s.cache)) := by
  intro n
  induction n with
  | zero =>
    intro s acts st i evs hn hw hi ha hnw
    have hc : s.cache = [] := List.eq_nil_of_length_eq_zero (by omega)
    have hnf : nextFrame g s = .need := by simp [nextFrame, decodeHdr, hc]
    rw [run_unfold, hnf, hc]
    simp only [RfcM.decode, RfcM.decode1, RfcM.run]
    exact agree_idle g e i0 s acts evs _ st hi ha
  | succ n ih =>
    intro s acts st i evs hn hw hi ha hnw
    rw [run_unfold, nextFrame_eq_judge g s hw]
    rw [RfcM.decode]
    cases hd : RfcM.decode1 s.cache with
    | need =>
      simp only [judge, RfcM.run]
      exact agree_idle g e i0 s acts evs _ st hi ha
    | frame f total =>
      simp only
      cases hp : f.partial with
      | true =>
        -- trailing frame whose payload is not there yet
        simp only [if_true, RfcM.run]
        cases hchk : Rfc.hdrCheck (rfcOf g e) st f with
        | none =>
          obtain ⟨ht, hsz, _, _⟩ := hdr_accept g e s.k st f hi hchk
          rw [judge_need_of_partial g s f total ht hsz hp]
          simp only [hp, if_true]
          exact agree_idle g e i0 s acts evs _ st hi ha
        | some why =>
          simp only [hp, Bool.true_and]
          cases htb : f.topbit with
          | true =>
            have hj : judge g s (.frame f total) = .err .invalidFragment := by simp [judge, htb]
            rw [hj]
            simp only [Bool.not_true, Bool.false_and, Bool.false_eq_true, if_false]
            exact agree_fail g e i0 _ _ acts _ evs _ why ha
          | false =>
            simp only [Bool.not_false, Bool.true_and]
            by_cases hwhy : why = .ctlLen ∨ why = .tooBig
            · have hsz := (hdr_reject g e s.k st f why hi htb hchk).2 hwhy
              obtain ⟨er, hj⟩ := judge_err_of_size g s f total htb hsz
              rw [hj]
              have : (why != Rfc.Reason.ctlLen && why != Rfc.Reason.tooBig) = false := by
                rcases hwhy with h | h <;> subst h <;> decide
              simp only [this, Bool.false_eq_true, if_false]
              exact agree_fail g e i0 _ _ acts _ evs _ why ha
            · have : (why != Rfc.Reason.ctlLen && why != Rfc.Reason.tooBig) = true := by
                simp only [not_or] at hwhy
                simp [hwhy.1, hwhy.2]
              simp only [this, if_true]
              -- the model either waits or fails on the size checks: both are allowed here
              cases hsz : sizeCheck g (msgLen s) (szHdr f.op f.declared) with
              | none =>
                rw [judge_need_of_partial g s f total htb hsz hp]
                unfold Agree
                exact ⟨[], by simp [ha], noDeliver_nil⟩
              | some er =>
                have hj : judge g s (.frame f total) = .err er := by simp [judge, htb, hsz]
                rw [hj]
                exact agree_fail_may g e i0 _ _ acts _ evs _ why ha
      | false =>
        simp only [Bool.false_eq_true, if_false]
        obtain ⟨htb, hplen, _⟩ := decode1_complete s.cache f total hd hp
        have hjc := judge_complete g s f total htb hp
        cases hchk : Rfc.hdrCheck (rfcOf g e) st f with
        | some why =>
          rw [rfc_run_reject _ _ _ _ _ _ why hchk hp]
          -- the model takes its error exit at this frame
          have hr := (hdr_reject g e s.k st f why hi htb hchk).1
          rw [hjc]
          cases hsz : sizeCheck g (msgLen s) (szHdr f.op f.declared) with
          | some er => exact agree_fail g e i0 _ _ acts _ evs _ why ha
          | none =>
            simp only
            cases hv : validFrame g f.op f.fin f.r1 f.r2 f.r3 s.k.expecting with
            | some er => exact agree_fail g e i0 _ _ acts _ evs _ why ha
            | none =>
              simp only
              have hop : f.op > 10 := by
                rcases hr with h | h | h
                · have : msgLen s = s.k.len := rfl
                  rw [← this, hsz] at h; cases h
                · rw [hv] at h; cases h
                · exact h
              have haf : applyFrame g e s.k f.op f.payload f.fin f.r1 = .fail s.k .invalidFragment := by
                unfold applyFrame
                simp [show ¬ f.op ≤ 2 by omega, hop]
              rw [haf]
              exact agree_fail g e i0 _ _ acts _ evs _ why ha
        | none =>
          obtain ⟨_, hsz, hv, hop10⟩ := hdr_accept g e s.k st f hi hchk
          have hsz' : sizeCheck g (msgLen s) (szHdr f.op f.declared) = none := hsz
          rw [hjc, hsz']
          simp only [hv]
          have hnf : nextFrame g s = .frame total f.op f.payload f.fin f.r1 := by
            rw [nextFrame_eq_judge g s hw, hd, hjc, hsz']; simp only [hv]
          have htot := nextFrame_total g s total f.op f.payload f.fin f.r1 hnf
          have hdl : (s.cache.drop total).length ≤ n := by simp only [List.length_drop]; omega
          have hops : f.op ≤ 2 ∨ f.op = 8 ∨ f.op = 9 ∨ f.op = 10 := by
            have h' : (validFrame g f.op f.fin f.r1 f.r2 f.r3 s.k.expecting).isSome = false := by rw [hv]; rfl
            rw [validFrame_isSome] at h'
            simp only [Bool.or_eq_false_iff, Bool.and_eq_false_iff, decide_eq_false_iff_not] at h'
            have := h'.1.1.1.2
            omega
          rcases hops with hop | hop | hop | hop
          · -- data frame
            have hvd := validFrame_none_data g f.op f.fin f.r1 f.r2 f.r3 s.k.expecting hv hop
            rw [hi.exp] at hvd
            have hinv := inv_data s.k st f hi hvd
            simp only at hinv
            obtain ⟨hk1, hty, hcomp, hacc, htyp, hin, hnw1⟩ := hinv
            rw [rfc_run_data _ _ _ _ _ _ hchk hp hop]
            have hda : applyFrame g e s.k f.op f.payload f.fin f.r1 =
                (if f.fin then finishMsg g e (appendBody (startMsg s.k f.op f.r1) f.payload)
                 else .next { appendBody (startMsg s.k f.op f.r1) f.payload with expecting := true } []) := by
              unfold applyFrame dataFrame; simp [hop]
            cases hfin : f.fin with
            | false =>
              have haf : applyFrame g e s.k f.op f.payload false f.r1 =
                  .next { appendBody (startMsg s.k f.op f.r1) f.payload with expecting := true } [] := by
                rw [hfin] at hda; simpa using hda
              rw [hfin] at hnf
              rw [haf]
              simp only [Bool.not_false, if_true, List.append_nil]
              have hw' := applyFrame_within g e s total f.op f.payload false f.r1 _ _ hw hnf haf
              refine ih { cache := s.cache.drop total, k := _ } acts (stData st f) (i + 1) evs hdl hw' ?_ ha ?_
              · exact ⟨hk1, (by rw [hin]), (fun h => by rw [hin] at h; cases h), (fun _ => ⟨hty, hcomp, hacc, htyp⟩)⟩
              · simpa [hnw1] using hnw
            | true =>
              have haf : applyFrame g e s.k f.op f.payload true f.r1 = finishMsg g e (appendBody (startMsg s.k f.op f.r1) f.payload) := by
                rw [hfin] at hda; simpa using hda
              rw [hfin] at hnf
              rw [haf]
              simp only [Bool.not_true, Bool.false_eq_true, if_false]
              rw [infl_link g e _ (stData st f) hcomp hacc]
              cases hr : inflOf g e (appendBody (startMsg s.k f.op f.r1) f.payload) with
              | ok out =>
                simp only
                by_cases hbad : ((stData st f).typ == 1 && !utf8Valid out) = true
                · simp only [hbad, if_true]
                  simp only [Bool.and_eq_true, beq_iff_eq, Bool.not_eq_true'] at hbad
                  obtain ⟨a, k', hfm, hk', hnd⟩ := finish_badutf8 g e _ out hr hk1 (by rw [hty]; exact hbad.1) hbad.2
                  rw [hfm]
                  simp only
                  have hrc := run_closed g e _ { cache := s.cache.drop total, k := k' } (acts ++ (a ++ [.closeConn])) hdl hk'
                  exact agree_closed_reject g e i0 _ evs _ _ _ hrc.2 (by rw [hrc.1, ha]) (noDeliver_append_close a hnd)
                · have hbad' : ((stData st f).typ == 1 && !utf8Valid out) = false := by simpa using hbad
                  simp only [hbad', Bool.false_eq_true, if_false]
                  have hgood : (appendBody (startMsg s.k f.op f.r1) f.payload).msgType = 2 ∨
                      ((appendBody (startMsg s.k f.op f.r1) f.payload).msgType = 1 ∧ utf8Valid out = true) := by
                    rw [hty]
                    rcases htyp with h1 | h2
                    · right
                      simp only [h1, beq_self_eq_true, Bool.true_and, Bool.not_eq_false'] at hbad'
                      exact ⟨h1, hbad'⟩
                    · exact Or.inl h2
                  have hfm := finish_deliver g e _ out hr hk1 hgood
                  rw [hfm]
                  simp only
                  have hw' := applyFrame_within g e s total f.op f.payload true f.r1 _ _ hw hnf (by rw [haf, hfm])
                  refine ih { cache := s.cache.drop total, k := _ } _ {} (i + 1) _ hdl hw' ?_ ?_ ?_
                  · exact ⟨hk1, rfl, (fun _ => ⟨rfl, rfl, rfl⟩), (fun h => by cases h)⟩
                  · rw [actsOf_append, ha, hty]; rfl
                  · simp only [nReplies_append, nReplies, Nat.add_zero]
                    simpa [hnw1] using hnw
              | tooLarge hd =>
                simp only
                obtain ⟨k', er, hfm⟩ := finish_fail g e _ (by intro out h; rw [hr] at h; cases h)
                rw [hfm]
                exact agree_fail g e i0 _ _ acts _ evs _ _ ha
              | failed hd =>
                simp only
                obtain ⟨k', er, hfm⟩ := finish_fail g e _ (by intro out h; rw [hr] at h; cases h)
                rw [hfm]
                exact agree_fail g e i0 _ _ acts _ evs _ _ ha
              | stuck =>
                simp only
                obtain ⟨k', er, hfm⟩ := finish_fail g e _ (by intro out h; rw [hr] at h; cases h)
                rw [hfm]
                exact agree_fail g e i0 _ _ acts _ evs _ _ ha
          · -- close
            have hd125 : f.payload.length ≤ 125 := by
              rw [hplen]; exact sizeCheck_none_ctl g _ _ _ hsz (by rw [hop]; decide)
            obtain ⟨a, k', haf, hk', hnd, hvalid⟩ := apply_close g e s.k f.payload f.fin f.r1 hi.alive hd125
            rw [hop] at hnf ⊢
            rw [haf, rfc_run_close _ _ _ _ _ _ hchk hp hop]
            simp only
            have hrc := run_closed g e _ { cache := s.cache.drop total, k := k' } (acts ++ (a ++ [.closeConn])) hdl hk'
            have hacts : (run g e { cache := s.cache.drop total, k := k' } (acts ++ (a ++ [.closeConn]))).acts =
                actsOf g e i0 evs ++ (a ++ [.closeConn]) := by rw [hrc.1, ha]
            by_cases h0 : f.payload.length = 0
            · have hp0 : f.payload = [] := List.eq_nil_of_length_eq_zero h0
              simp only [h0, beq_self_eq_true, if_true]
              unfold Agree
              simp only
              refine ⟨hrc.2, ?_⟩
              rw [hacts, hvalid (Or.inl h0), actsOf_append, hp0, ← hnw]
              simp [actsOf]
            · have hb0 : (f.payload.length == 0) = false := by simp [h0]
              simp only [hb0, Bool.false_eq_true, if_false]
              by_cases h1 : f.payload.length = 1
              · simp only [h1, beq_self_eq_true, if_true]
                exact agree_closed_reject g e i0 _ evs _ _ _ hrc.2 hacts (noDeliver_append_close a hnd)
              · have hb1 : (f.payload.length == 1) = false := by simp [h1]
                simp only [hb1, Bool.false_eq_true, if_false]
                by_cases hcc : RfcM.closeCodeOk (beDec (f.payload.take 2)) = true
                · simp only [hcc, Bool.not_true, Bool.false_eq_true, if_false]
                  by_cases hu : utf8Valid (f.payload.drop 2) = true
                  · simp only [hu, Bool.not_true, Bool.false_eq_true, if_false]
                    unfold Agree
                    simp only
                    refine ⟨hrc.2, ?_⟩
                    have hv2 : f.payload.length ≥ 2 := by omega
                    rw [hacts, hvalid (Or.inr ⟨hv2, by rw [validCloseCode_rfc]; exact hcc, hu⟩), actsOf_append, ← hnw]
                    simp [actsOf]
                  · have hu' : utf8Valid (f.payload.drop 2) = false := by simpa using hu
                    simp only [hu', Bool.not_false, if_true]
                    exact agree_closed_reject g e i0 _ evs _ _ _ hrc.2 hacts (noDeliver_append_close a hnd)
                · have hcc' : RfcM.closeCodeOk (beDec (f.payload.take 2)) = false := by simpa using hcc
                  simp only [hcc', Bool.not_false, if_true]
                  exact agree_closed_reject g e i0 _ evs _ _ _ hrc.2 hacts (noDeliver_append_close a hnd)
          · -- ping
            have hd125 : f.payload.length ≤ 125 := by
              rw [hplen]; exact sizeCheck_none_ctl g _ _ _ hsz (by rw [hop]; decide)
            have haf := apply_ping g e s.k f.payload f.fin f.r1 hi.alive hd125
            rw [hop] at hnf ⊢
            rw [haf, rfc_run_ping _ _ _ _ _ _ hchk hp hop]
            simp only
            have hw' := applyFrame_within g e s total 9 f.payload f.fin f.r1 _ _ hw hnf haf
            refine ih { cache := s.cache.drop total, k := { s.k with nwrites := s.k.nwrites + 1 } } _ st (i + 1) _ hdl hw'
              (inv_nwrites _ _ _ hi) ?_ ?_
            · rw [actsOf_append, ha, hnw]; rfl
            · simp only [nReplies_append, nReplies]; omega
          · -- pong
            have haf := apply_pong g e s.k f.payload f.fin f.r1 hi.alive
            rw [hop] at hnf ⊢
            rw [haf, rfc_run_pong _ _ _ _ _ _ hchk hp hop]
            simp only [List.append_nil]
            have hw' := applyFrame_within g e s total 10 f.payload f.fin f.r1 _ _ hw hnf haf
            exact ih { cache := s.cache.drop total, k := s.k } acts st (i + 1) evs hdl hw' hi ha hnw

end Ws
