import NbioVerif.Model.Ws
/-! C15 helper lemmas: sizes of what `nextFrame` hands out -/
namespace Ws

theorem maskSpec_length (key b : Bytes) : (maskSpec key b).length = b.length := by
  simp [maskSpec]

theorem frameBody_length (cache : Bytes) (h : HdrInfo) (hc : cache.length ≥ h.headLen + h.bodyLen.toNat) :
    (frameBody cache h).length = h.bodyLen.toNat := by
  unfold frameBody
  have : ((cache.drop h.headLen).take h.bodyLen.toNat).length = h.bodyLen.toNat := by
    rw [List.length_take, List.length_drop]; omega
  simp only
  split
  · rw [maskSpec_length, this]
  · exact this

/-- what `nextFrame` returns when it returns a frame, in terms of the decoded header -/
theorem nextFrame_frame_inv (g : Cfg) (s : S) (total op : Nat) (body : Bytes) (fin r1 : Bool)
    (h : nextFrame g s = .frame total op body fin r1) :
    ∃ hd : HdrInfo, decodeHdr s.cache = some (.ok hd) ∧ sizeCheck g (msgLen s) hd = none ∧ 0 ≤ hd.bodyLen ∧
      s.cache.length ≥ hd.headLen + hd.bodyLen.toNat ∧ validFrame g hd.opcode hd.fin hd.r1 hd.r2 hd.r3 s.k.expecting = none ∧
      total = hd.headLen + hd.bodyLen.toNat ∧ op = hd.opcode ∧ body = frameBody s.cache hd ∧ fin = hd.fin ∧ r1 = hd.r1 := by
  unfold nextFrame at h
  split at h
  · cases h
  · cases h
  · rename_i hd hdec
    split at h
    · cases h
    · rename_i hsz
      split at h
      · rename_i hc
        split at h
        · cases h
        · rename_i hv
          cases h
          exact ⟨hd, hdec, hsz, hc.1, hc.2, hv, rfl, rfl, rfl, rfl, rfl⟩
      · cases h

/-- a data frame handed out by nextFrame fits into the limit together with what is already assembled -/
theorem nextFrame_fits (g : Cfg) (s : S) (hl : g.msgLimit > 0) (total op : Nat) (body : Bytes) (fin r1 : Bool)
    (h : nextFrame g s = .frame total op body fin r1) (hop : isControl op = false) :
    msgLen s + body.length ≤ g.msgLimit := by
  obtain ⟨hd, _, hsz, h0, hc, _, _, hop', hb, _, _⟩ := nextFrame_frame_inv g s total op body fin r1 h
  subst hb; subst hop'
  rw [frameBody_length _ _ hc]
  unfold sizeCheck at hsz
  split at hsz
  · cases hsz
  · rename_i hnl
    simp only [hop, Bool.not_false, Bool.true_and, tooLarge, hl, decide_true, decide_eq_true_eq] at hnl
    omega

/-- a control frame handed out by nextFrame carries at most 125 bytes -/
theorem nextFrame_control_le (g : Cfg) (s : S) (total op : Nat) (body : Bytes) (fin r1 : Bool)
    (h : nextFrame g s = .frame total op body fin r1) (hop : isControl op = true) : body.length ≤ 125 := by
  obtain ⟨hd, _, hsz, h0, hc, _, _, hop', hb, _, _⟩ := nextFrame_frame_inv g s total op body fin r1 h
  subst hb; subst hop'
  rw [frameBody_length _ _ hc]
  unfold sizeCheck at hsz
  split at hsz
  · cases hsz
  · split at hsz
    · cases hsz
    · rename_i hn
      simp only [hop, Bool.and_true, decide_eq_true_eq] at hn
      omega

/-- the invariant: what is assembled so far is within the limit -/
def Within (g : Cfg) (s : S) : Prop := g.msgLimit > 0 → msgLen s ≤ g.msgLimit

def delivered (acts : List Act) : List Bytes :=
  acts.filterMap (fun a => match a with | .deliver _ p => some p | _ => none)

end Ws
