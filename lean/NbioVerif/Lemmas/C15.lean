import NbioVerif.Model.Ws
/-! probe: C15 — with a message length limit, no buffered partial message and no delivered message exceeds it -/
namespace Ws

theorem maskSpec_length (key b : Bytes) : (maskSpec key b).length = b.length := by
  simp [maskSpec]

theorem frameBody_length (cache : Bytes) (h : HdrInfo) (hc : cache.length ≥ h.headLen + h.bodyLen.toNat) :
    (frameBody cache h).length = h.bodyLen.toNat := by
  unfold frameBody
  have : ((cache.drop h.headLen).take h.bodyLen.toNat).length = h.bodyLen.toNat := by
    rw [List.length_take, List.length_drop]; omega
  simp only
  split
  · rw [maskSpec_length, this]
  · exact this

/-- a frame handed out by nextFrame fits into the limit together with what is already assembled -/
theorem nextFrame_fits (g : Cfg) (s : S) (hl : g.msgLimit > 0) (total op : Nat) (body : Bytes) (fin r1 : Bool)
    (h : nextFrame g s = .frame total op body fin r1) : msgLen s + body.length ≤ g.msgLimit := by
  unfold nextFrame at h
  split at h
  · cases h
  · cases h
  · rename_i hd hdec
    split at h
    · cases h
    · rename_i hsz
      split at h
      · rename_i hc
        split at h
        · cases h
        · cases h
          rw [frameBody_length _ _ hc.2]
          unfold sizeCheck at hsz
          split at hsz
          · cases hsz
          · rename_i hnl
            simp only [tooLarge, hl, decide_true, Bool.true_and, decide_eq_true_eq] at hnl
            have := hc.1
            omega
      · cases h

/-- the invariant: what is assembled so far is within the limit -/
def Within (g : Cfg) (s : S) : Prop := g.msgLimit > 0 → msgLen s ≤ g.msgLimit

def delivered (acts : List Act) : List Bytes :=
  acts.filterMap (fun a => match a with | .deliver _ p => some p | _ => none)

theorem handleWs_delivers (g : Cfg) (s : S) (op : Nat) (m : Bytes) :
    ∀ p ∈ delivered (handleWs g s op m).1, p = m := by
  unfold handleWs send
  intro p hp
  simp only [] at hp
  repeat' split at hp
  all_goals (simp [delivered, List.filterMap_map, List.filterMap_append] at hp)
  all_goals (first | exact hp | (try (obtain ⟨_, _, h⟩ := hp; exact h.symm)))

end Ws
