import NbioVerif.Model.Resp
/-! Framing invariant of the response model (`Resp`): what is on the wire plus what is buffered equals
the head (if encoded) followed by the framed body so far.  One `_spec` lemma per Go paragraph. -/
namespace Resp

/-- the connection never fails -/
def NoFail (g : Cfg) : Prop := g.failAt = 0

section send
variable (g : Cfg) (hg : NoFail g) (r : R) (b : Bytes)
include hg

theorem send_ok : send g r b = ({ r with attempts := r.attempts + 1, wire := r.wire ++ [b] }, true) := by
  unfold send; simp [show g.failAt = 0 from hg]
end send

/-- bytes buffered in the head buffer / body buffer -/
def bufB (r : R) : Bytes := r.buffer.getD []
def bodyB (r : R) : Bytes := r.bodyBuffer.getD []

/-- `sent ++ buffer ++ bodyBuffer = head ++ B`, in continuation form (robust under `simp`) -/
def Bytes' (r : R) (hd : Option Bytes) (B : Bytes) : Prop :=
  ∀ X, r.wire.flatten ++ (bufB r ++ (bodyB r ++ X)) = hd.getD [] ++ (B ++ X)

structure Base (r : R) (hd : Option Bytes) (B : Bytes) : Prop where
  bytes : Bytes' r hd B
  henc : r.headEncoded = hd.isSome
  nobuf : r.headEncoded = false → r.buffer = none
  nowire : r.headEncoded = false → r.wire.flatten = []

/-- the head as a ghost: fixed by the first eoncodeHead -/
def hdAfter (g : Cfg) (r : R) (hd : Option Bytes) : Option Bytes :=
  if r.headEncoded then hd else some (g.head r)

theorem eoncodeHead_enc (g : Cfg) (r : R) (he : r.headEncoded = true) : eoncodeHead g r = r := by
  unfold eoncodeHead; simp [he]
theorem eoncodeHead_new (g : Cfg) (r : R) (he : r.headEncoded = false) :
    eoncodeHead g r = { r with headEncoded := true, buffer := some (g.head r), trailer := trailerOf r.header } := by
  unfold eoncodeHead; simp [he]

theorem eoncodeHead_base (g : Cfg) (r : R) (hd B) (h : Base r hd B) :
    Base (eoncodeHead g r) (hdAfter g r hd) B ∧ (eoncodeHead g r).headEncoded = true := by
  cases he : r.headEncoded with
  | true =>
    have e2 : hdAfter g r hd = hd := by unfold hdAfter; simp [he]
    rw [eoncodeHead_enc g r he, e2]; exact ⟨h, he⟩
  | false =>
    have e2 : hdAfter g r hd = some (g.head r) := by unfold hdAfter; simp [he]
    rw [eoncodeHead_new g r he, e2]
    obtain ⟨h1, h2, h3, h4⟩ := h
    have hb := h3 he
    have hw := h4 he
    have hdn : hd = none := by
      cases hd with
      | none => rfl
      | some x => rw [he] at h2; simp at h2
    subst hdn
    refine ⟨⟨?_, rfl, ?_, ?_⟩, rfl⟩
    · intro X
      have := h1 X
      simp only [bufB, bodyB, hb, hw, Option.getD_none, Option.getD_some, List.nil_append] at this ⊢
      rw [this]
    · intro hc; simp at hc
    · intro hc; simp at hc

@[simp] theorem eoncodeHead_body (g : Cfg) (r : R) : (eoncodeHead g r).bodyBuffer = r.bodyBuffer := by
  unfold eoncodeHead; split <;> rfl
@[simp] theorem eoncodeHead_wire (g : Cfg) (r : R) : (eoncodeHead g r).wire = r.wire := by
  unfold eoncodeHead; split <;> rfl
@[simp] theorem eoncodeHead_chunked (g : Cfg) (r : R) : (eoncodeHead g r).chunked = r.chunked := by
  unfold eoncodeHead; split <;> rfl
@[simp] theorem eoncodeHead_cc (g : Cfg) (r : R) : (eoncodeHead g r).chunkChecked = r.chunkChecked := by
  unfold eoncodeHead; split <;> rfl
@[simp] theorem eoncodeHead_sc (g : Cfg) (r : R) : (eoncodeHead g r).statusCode = r.statusCode := by
  unfold eoncodeHead; split <;> rfl
@[simp] theorem eoncodeHead_status (g : Cfg) (r : R) : (eoncodeHead g r).status = r.status := by
  unfold eoncodeHead; split <;> rfl
@[simp] theorem eoncodeHead_header (g : Cfg) (r : R) : (eoncodeHead g r).header = r.header := by
  unfold eoncodeHead; split <;> rfl
@[simp] theorem eoncodeHead_cl (g : Cfg) (r : R) : (eoncodeHead g r).contentLen = r.contentLen := by
  unfold eoncodeHead; split <;> rfl
@[simp] theorem eoncodeHead_hasBody (g : Cfg) (r : R) : (eoncodeHead g r).hasBody = r.hasBody := by
  unfold eoncodeHead; split <;> rfl
@[simp] theorem eoncodeHead_bw (g : Cfg) (r : R) : (eoncodeHead g r).bodyWritten = r.bodyWritten := by
  unfold eoncodeHead; split <;> rfl

/-- chunked mode: the body buffer is never used -/
structure ChInv (r : R) (hd : Option Bytes) (B : Bytes) : Prop extends Base r hd B where
  nobody : r.bodyBuffer = none

/-- one chunk -/
def chunkEnc (d : Bytes) : Bytes := chunkHdr d.length ++ d ++ CRLF

theorem chunkTail_spec (g : Cfg) (hg : NoFail g) (r : R) (hd : Option Bytes) (B nb d : Bytes)
    (hbuf : r.buffer = none) (hbody : r.bodyBuffer = none) (he : r.headEncoded = true) (hh : hd.isSome = true)
    (hb : ∀ X, r.wire.flatten ++ (nb ++ X) = hd.getD [] ++ (B ++ X)) :
    ChInv (chunkTail g r nb d).1 hd (B ++ (d ++ CRLF)) ∧ (chunkTail g r nb d).2 = .ok d.length := by
  unfold chunkTail
  dsimp only
  split
  · refine ⟨⟨⟨?_, ?_, ?_, ?_⟩, ?_⟩, rfl⟩
    · intro X
      have := hb (d ++ CRLF ++ X)
      simpa [bufB, bodyB, hbody, List.append_assoc] using this
    · simp [he, hh]
    · simp [he]
    · simp [he]
    · exact hbody
  · rw [send_ok g hg]
    refine ⟨⟨⟨?_, ?_, ?_, ?_⟩, ?_⟩, rfl⟩
    · intro X
      have := hb (d ++ CRLF ++ X)
      simpa [bufB, bodyB, hbody, hbuf, List.append_assoc] using this
    · simp [he, hh]
    · simp [he]
    · simp [he]
    · exact hbody

theorem writeChunk_spec (g : Cfg) (hg : NoFail g) (r : R) (hd : Option Bytes) (B : Bytes) (h : ChInv r hd B)
    (d : Bytes) :
    ChInv (writeChunk g r d).1 (hdAfter g r hd) (B ++ chunkEnc d) ∧ (writeChunk g r d).2 = .ok d.length := by
  obtain ⟨hb, he⟩ := eoncodeHead_base g r hd B h.toBase
  have hbody : (eoncodeHead g r).bodyBuffer = none := by simp [h.nobody]
  unfold writeChunk
  dsimp only
  generalize eoncodeHead g r = r1 at *
  generalize hdAfter g r hd = hd1 at *
  have hh : hd1.isSome = true := by rw [← hb.henc, he]
  unfold chunkEnc
  cases hbuf : r1.buffer with
  | none =>
    have hb0 : ∀ X, r1.wire.flatten ++ X = hd1.getD [] ++ (B ++ X) := by
      intro X; have := hb.bytes X; simpa [bufB, bodyB, hbuf, hbody] using this
    dsimp only
    split
    · refine ⟨⟨⟨?_, ?_, ?_, ?_⟩, ?_⟩, rfl⟩
      · intro X
        have := hb0 (chunkHdr d.length ++ d ++ CRLF ++ X)
        simpa [bufB, bodyB, hbody, List.append_assoc] using this
      · simp [he, hh]
      · simp [he]
      · simp [he]
      · exact hbody
    · have := chunkTail_spec g hg r1 hd1 (B ++ chunkHdr d.length) (chunkHdr d.length) d
        hbuf hbody he hh (by intro X; have := hb0 (chunkHdr d.length ++ X); simpa [List.append_assoc] using this)
      simpa [List.append_assoc] using this
  | some b =>
    have hb0 : ∀ X, r1.wire.flatten ++ (b ++ X) = hd1.getD [] ++ (B ++ X) := by
      intro X; have := hb.bytes X; simpa [bufB, bodyB, hbuf, hbody] using this
    dsimp only
    split
    · refine ⟨⟨⟨?_, ?_, ?_, ?_⟩, ?_⟩, rfl⟩
      · intro X
        have := hb0 (chunkHdr d.length ++ d ++ CRLF ++ X)
        simpa [bufB, bodyB, hbody, List.append_assoc] using this
      · simp [he, hh]
      · simp [he]
      · simp [he]
      · exact hbody
    · rw [send_ok g hg]
      dsimp only
      have := chunkTail_spec g hg
        { r1 with buffer := none, attempts := r1.attempts + 1, wire := r1.wire ++ [b ++ chunkHdr d.length] }
        hd1 (B ++ chunkHdr d.length) [] d rfl hbody he hh
        (by intro X; have := hb0 (chunkHdr d.length ++ X); simpa [List.append_assoc] using this)
      simpa [List.append_assoc] using this

end Resp
