import NbioVerif.Model.Lmux
/-! Invariants of the ListenerMux model: every accepted conn is in exactly one place; the A budget. -/
namespace Lmux

theorem connsIn_append (a b : List Ev) : connsIn (a ++ b) = connsIn a ++ connsIn b := by
  induction a with
  | nil => rfl
  | cons e r ih => cases e <;> simp [connsIn, ih]

@[simp] theorem connsIn_conn (c : Nat) : connsIn [Ev.conn c] = [c] := rfl
@[simp] theorem connsIn_err : connsIn [Ev.err] = [] := rfl

structure Inv (s : St) : Prop where
  /-- every conn id handed out so far is in exactly one place, no other id anywhere -/
  once   : ∀ c, (located s).count c = if c < s.nextId then 1 else 0
  /-- the counter is the number of conns routed to A minus the Decrease calls, and within the budget -/
  budget : s.onlineA + s.decs = (connsIn s.chA).length + s.handedA.length ∧ s.onlineA ≤ s.maxA ∧ s.decs ≤ s.handedA.length
  /-- the mux goroutine holds a conn only while alive; the real listener is closed exactly by Stop -/
  alive  : (s.held.isSome → s.muxAlive = true) ∧ (s.open_ = !s.stopping) ∧ (s.chClosed = true → s.stopping = true)

theorem inv_init (m : Nat) : Inv (init m) := by
  refine ⟨?_, ?_, ?_⟩ <;> simp [init, located, connsIn]

theorem take_spec {cc g : Bool} {ch ch' : List Ev} {r : Got} (h : take cc g ch = some (r, ch')) :
    (∃ c, r = .conn c ∧ ch = .conn c :: ch') ∨ (r = .err ∧ ch = .err :: ch') ∨ (r = .closed ∧ ch' = ch ∧ cc = true) := by
  unfold take at h
  split at h
  · rename_i e rest
    split at h
    · rename_i hc
      simp at h; obtain ⟨rfl, rfl⟩ := h
      simp at hc
      exact Or.inr (Or.inr ⟨rfl, rfl, hc.1⟩)
    · cases e with
      | conn c => simp at h; obtain ⟨rfl, rfl⟩ := h; exact Or.inl ⟨c, rfl, rfl⟩
      | err => simp at h; obtain ⟨rfl, rfl⟩ := h; exact Or.inr (Or.inl ⟨rfl, rfl⟩)
  · split at h
    · rename_i hc
      simp at h; obtain ⟨rfl, rfl⟩ := h
      exact Or.inr (Or.inr ⟨rfl, rfl, hc⟩)
    · cases h

theorem inv_step {g : Cfg} {s s' : St} {a : Act} (h : Inv s) (hs : step g s a = some s') : Inv s' := by
  obtain ⟨h1, ⟨h2, h2', h2d⟩, ⟨h3, h4⟩⟩ := h
  cases a with
  | accept =>
    simp only [step] at hs
    split at hs
    · rename_i hc
      simp only [Bool.and_eq_true] at hc
      cases hs
      have hh : s.held = none := by cases hq : s.held <;> simp [hq] at hc ⊢
      refine ⟨?_, ⟨by simpa using h2, h2', h2d⟩, ⟨fun _ => hc.1.1, h4⟩⟩
      intro c
      have := h1 c
      simp only [located, hh] at this
      simp only [located, List.count_append, List.count_cons, List.count_nil] at this ⊢
      by_cases hcn : c = s.nextId
      · subst hcn; simp at this ⊢; omega
      · have : (s.nextId == c) = false := by simp; exact fun e => hcn e.symm
        simp [this]
        split <;> split at * <;> omega
    · cases hs
  | route =>
    simp only [step] at hs
    split at hs
    · rename_i c hh
      have ha := h3 (by simp [hh])
      split at hs
      · cases hs
        refine ⟨?_, ⟨?_, by simpa using ‹s.onlineA + 1 ≤ s.maxA›, h2d⟩, ⟨by simp, h4⟩⟩
        · intro c'
          have := h1 c'
          simp only [located, hh, connsIn_append, connsIn_conn, List.count_append, List.count_cons, List.count_nil] at this ⊢
          omega
        · simp [connsIn_append]; omega
      · cases hs
        refine ⟨?_, ⟨by simpa using h2, h2', h2d⟩, ⟨by simp, h4⟩⟩
        intro c'
        have := h1 c'
        simp only [located, hh, connsIn_append, connsIn_conn, List.count_append, List.count_cons, List.count_nil] at this ⊢
        omega
    · cases hs
  | acceptErr =>
    simp only [step] at hs
    split at hs
    · cases hs
      refine ⟨?_, ⟨by simpa [connsIn_append] using h2, h2', h2d⟩, ⟨?_, h4⟩⟩
      · intro c'
        have := h1 c'
        simpa [located, connsIn_append] using this
      · rename_i hc
        simp only [Bool.and_eq_true] at hc
        intro hsome
        have : s.held = none := by cases hq : s.held <;> simp [hq] at hc ⊢
        simp [this] at hsome
    · cases hs
  | takeA g =>
    simp only [step] at hs
    cases ht : take s.chClosed g s.chA with
    | none => simp [ht] at hs
    | some p =>
      obtain ⟨r, ch⟩ := p
      simp [ht] at hs
      rcases take_spec ht with ⟨c, rfl, hch⟩ | ⟨rfl, hch⟩ | ⟨rfl, hch, _⟩
      · cases hs
        refine ⟨?_, ⟨?_, h2', by simp only [List.length_append, List.length_singleton]; omega⟩, ⟨h3, h4⟩⟩
        · intro c'
          have := h1 c'
          simp only [located, hch, connsIn, List.count_append, List.count_cons, List.count_nil] at this ⊢
          omega
        · simp only [hch, connsIn, List.length_cons, List.length_append, List.length_singleton, List.length_nil] at h2 ⊢; omega
      · cases hs
        refine ⟨?_, ⟨?_, h2', h2d⟩, ⟨h3, h4⟩⟩
        · intro c'; have := h1 c'; simpa [located, hch, connsIn] using this
        · simpa [hch, connsIn] using h2
      · cases hs; subst hch
        exact ⟨h1, ⟨h2, h2', h2d⟩, ⟨h3, h4⟩⟩
  | takeB g =>
    simp only [step] at hs
    cases ht : take s.chClosed g s.chB with
    | none => simp [ht] at hs
    | some p =>
      obtain ⟨r, ch⟩ := p
      simp [ht] at hs
      rcases take_spec ht with ⟨c, rfl, hch⟩ | ⟨rfl, hch⟩ | ⟨rfl, hch, _⟩
      · cases hs
        refine ⟨?_, ⟨h2, h2', h2d⟩, ⟨h3, h4⟩⟩
        intro c'
        have := h1 c'
        simp only [located, hch, connsIn, List.count_append, List.count_cons, List.count_nil] at this ⊢
        omega
      · cases hs
        refine ⟨?_, ⟨h2, h2', h2d⟩, ⟨h3, h4⟩⟩
        intro c'; have := h1 c'; simpa [located, hch, connsIn] using this
      · cases hs; subst hch
        exact ⟨h1, ⟨h2, h2', h2d⟩, ⟨h3, h4⟩⟩
  | decrease =>
    simp only [step] at hs
    split at hs
    · cases hs
      exact ⟨h1, ⟨by simp only; omega, by simp only; omega, by simp only; omega⟩, ⟨h3, h4⟩⟩
    · cases hs
  | stop =>
    simp only [step] at hs
    split at hs
    · cases hs
    · split at hs <;> (cases hs; exact ⟨h1, ⟨h2, h2', h2d⟩, ⟨h3, by simp⟩⟩)
  | stopFinish =>
    simp only [step] at hs
    split at hs
    · rename_i hc
      simp only [Bool.and_eq_true, Bool.not_eq_true'] at hc
      cases hs
      have hheld : s.held = none := by
        cases hq : s.held with
        | none => rfl
        | some c => have := h3 (by simp [hq]); rw [hc.2] at this; cases this
      refine ⟨?_, ⟨?_, ?_, h2d⟩, ⟨by simp [hheld], h4.1, fun _ => hc.1.1.2⟩⟩
      · intro c'
        have := h1 c'
        simp only [located, hheld, connsIn, List.count_append, List.count_nil] at this ⊢
        omega
      · simp only [connsIn, List.length_nil]; omega
      · simp only; omega
    · cases hs

theorem inv_run {g : Cfg} {s : St} (as : List Act) (h : Inv s) : Inv (run g s as) := by
  induction as generalizing s with
  | nil => exact h
  | cons a as ih =>
    simp only [run]
    split
    · rename_i s' hs; exact ih (inv_step h hs)
    · exact ih h

end Lmux
