import NbioVerif.Model.WsMask
import NbioVerif.Lemmas.C12Frame
/-! `maskXOR` as written (64-byte stride, 8-byte stride, byte tail) computes the bytewise definition -/
namespace Ws

theorem maskSpec_getElem (key b : Bytes) (i : Nat) (h : i < (maskSpec key b).length) :
    (maskSpec key b)[i] = b[i]'(by simpa [maskSpec] using h) ^^^ key[i % 4]! := by
  simp [maskSpec]

theorem maskSpec_length' (key b : Bytes) : (maskSpec key b).length = b.length := by simp [maskSpec]

/-- masking distributes over concatenation at offsets that are multiples of four -/
theorem maskSpec_append (key a b : Bytes) (ha : a.length % 4 = 0) :
    maskSpec key (a ++ b) = maskSpec key a ++ maskSpec key b := by
  apply List.ext_getElem
  · simp [maskSpec_length']
  · intro i h1 h2
    by_cases hi : i < a.length
    · have hi2 : i < (maskSpec key a).length := by simpa [maskSpec_length'] using hi
      have e1 : (maskSpec key a ++ maskSpec key b)[i] = (maskSpec key a)[i] := List.getElem_append_left hi2
      rw [e1, maskSpec_getElem, maskSpec_getElem, List.getElem_append_left hi]
    · have hi' : a.length ≤ i := by omega
      have hi2 : (maskSpec key a).length ≤ i := by simpa [maskSpec_length'] using hi'
      have e1 : (maskSpec key a ++ maskSpec key b)[i] = (maskSpec key b)[i - (maskSpec key a).length]'(by
          simp only [List.length_append] at h2; omega) := List.getElem_append_right hi2
      rw [e1, maskSpec_getElem, maskSpec_getElem, List.getElem_append_right hi']
      simp only [maskSpec_length']
      have : (i - a.length) % 4 = i % 4 := by omega
      rw [this]

/-- one 8-byte word step is the bytewise definition on that word -/
theorem word8_eq (key w : Bytes) (hk : key.length = 4) (hw : w.length = 8) : word8 key w = maskSpec key w := by
  match key, hk with
  | [k0, k1, k2, k3], _ =>
    match w, hw with
    | [a, b, c, d, e, f, g, h], _ => rfl

theorem tailMask_eq (key b : Bytes) : tailMask key b = maskSpec key b := rfl

theorem loop8_eq (key : Bytes) (hk : key.length = 4) : ∀ (fuel : Nat) (b : Bytes), loop8 key fuel b = maskSpec key b := by
  intro fuel
  induction fuel with
  | zero => intro b; rfl
  | succ n ih =>
    intro b
    unfold loop8
    split
    · rename_i h8
      have hl : (b.take 8).length = 8 := by rw [List.length_take]; omega
      rw [word8_eq key _ hk hl, ih, ← maskSpec_append key _ _ (by rw [hl]), List.take_append_drop]
    · rfl

theorem take64 (b : Bytes) : b.take 64 =
    b.take 8 ++ (b.drop 8).take 8 ++ (b.drop 16).take 8 ++ (b.drop 24).take 8 ++ (b.drop 32).take 8 ++ (b.drop 40).take 8
      ++ (b.drop 48).take 8 ++ (b.drop 56).take 8 := by
  rw [show 64 = 56 + 8 from rfl, List.take_add, show 56 = 48 + 8 from rfl, List.take_add, show 48 = 40 + 8 from rfl, List.take_add,
    show 40 = 32 + 8 from rfl, List.take_add, show 32 = 24 + 8 from rfl, List.take_add, show 24 = 16 + 8 from rfl, List.take_add,
    show 16 = 8 + 8 from rfl, List.take_add]

theorem block64_eq (key b : Bytes) (hk : key.length = 4) (hb : b.length ≥ 64) : block64 key b = maskSpec key (b.take 64) := by
  have l (k : Nat) (hk' : k + 8 ≤ 64) : ((b.drop k).take 8).length = 8 := by
    rw [List.length_take, List.length_drop]; omega
  have l0 : (b.take 8).length = 8 := by rw [List.length_take]; omega
  rw [take64]
  unfold block64
  rw [maskSpec_append, maskSpec_append, maskSpec_append, maskSpec_append, maskSpec_append, maskSpec_append, maskSpec_append]
  · rw [word8_eq key _ hk l0, word8_eq key _ hk (l 8 (by omega)), word8_eq key _ hk (l 16 (by omega)), word8_eq key _ hk (l 24 (by omega)),
      word8_eq key _ hk (l 32 (by omega)), word8_eq key _ hk (l 40 (by omega)), word8_eq key _ hk (l 48 (by omega)),
      word8_eq key _ hk (l 56 (by omega))]
  all_goals (simp only [List.length_append, l0, l 8 (by omega), l 16 (by omega), l 24 (by omega), l 32 (by omega), l 40 (by omega), l 48 (by omega)])

theorem loop64_eq (key : Bytes) (hk : key.length = 4) : ∀ (fuel : Nat) (b : Bytes), loop64 key fuel b = maskSpec key b := by
  intro fuel
  induction fuel with
  | zero => intro b; exact loop8_eq key hk _ b
  | succ n ih =>
    intro b
    unfold loop64
    split
    · rename_i h64
      have hl : (b.take 64).length = 64 := by rw [List.length_take]; omega
      rw [block64_eq key b hk h64, ih, ← maskSpec_append key _ _ (by rw [hl]), List.take_append_drop]
    · exact loop8_eq key hk _ b

/-- C12 (masking): the strided `maskXOR` is the bytewise `b[i] ^= key[i % 4]` for every length and key -/
theorem maskFast_eq_spec (key b : Bytes) (hk : key.length = 4) : maskFast key b = maskSpec key b :=
  loop64_eq key hk _ b

theorem maskFast_involutive (key b : Bytes) (hk : key.length = 4) : maskFast key (maskFast key b) = b := by
  rw [maskFast_eq_spec key _ hk, maskFast_eq_spec key _ hk, maskSpec_involutive]

end Ws
