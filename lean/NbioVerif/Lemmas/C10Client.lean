import NbioVerif.Model.ClientFifo
/-! C10 (c): invariants of the client handler FIFO -/
namespace ClientFifo

/-- requests whose callback has been invoked, in invocation order -/
def called (s : St) : List Nat := s.calls.map (·.1)

theorem called_failAll (s : St) : called (failAll s) = called s ++ s.handlers := by
  simp [called, failAll, List.map_map, Function.comp_def]

/-- the part of the invariant that holds for every op sequence -/
structure Inv (s : St) : Prop where
  /-- callbacks invoked ++ callbacks pending = the Do calls so far, each exactly once -/
  once : (called s ++ s.handlers).Perm (List.range s.nextId)
  closed_conn : s.closed = true → s.conn = none
  none_empty : s.conn = none → s.handlers = []
  len : s.sent.length = s.rcvd.length
  conn_lt : ∀ e, s.conn = some e → e < s.sent.length

theorem inv_init : Inv {} := by
  constructor <;> simp [called]

theorem inv_failAll {s : St} (ho : (called s ++ s.handlers).Perm (List.range s.nextId))
    (hl : s.sent.length = s.rcvd.length) : Inv (failAll s) := by
  constructor
  · simp only [called_failAll]; simpa [failAll] using ho
  · intro _; simp [failAll]
  · intro _; simp [failAll]
  · simpa [failAll] using hl
  · intro e he; simp [failAll] at he

/-- a new pending callback -/
theorem once_push {s : St} (h : (called s ++ s.handlers).Perm (List.range s.nextId)) :
    (called (push s) ++ (push s).handlers).Perm (List.range (push s).nextId) := by
  simp only [push, called]
  rw [List.range_succ, ← List.append_assoc]
  exact h.append_right _

theorem once_dial {s : St} (h : (called s ++ s.handlers).Perm (List.range s.nextId)) :
    (called (dial s) ++ (dial s).handlers).Perm (List.range (dial s).nextId) := h

theorem inv_step (s : St) (op : Op) (h : Inv s) : Inv (step s op) := by
  cases op with
  | do_ dialOk sendOk =>
    simp only [step]
    split
    · -- closed: immediate error callback, nothing pending changes
      rename_i hc
      have hn := h.none_empty (h.closed_conn hc)
      constructor
      · simp only [refuse, called, List.map_append, List.map_cons, List.map_nil, hn, List.append_nil]
        have := h.once; simp only [called, hn, List.append_nil] at this
        rw [List.range_succ]; exact this.append_right _
      · exact h.closed_conn
      · exact h.none_empty
      · exact h.len
      · exact h.conn_lt
    · rename_i hc
      have hc' : s.closed = false := by simpa using hc
      split
      · rename_i e he
        split
        · -- request written to the live connection
          constructor
          · exact once_push h.once
          · intro hh; simp only [wrote, push] at hh; rw [hc'] at hh; cases hh
          · intro hh; simp only [wrote, push] at hh; rw [he] at hh; cases hh
          · simpa [wrote, push] using h.len
          · intro e' hh; simp only [wrote, push] at hh; simpa [wrote, push] using h.conn_lt e' hh
        · exact inv_failAll (once_push h.once) h.len
      · split
        · exact inv_failAll (once_push h.once) h.len
        · split
          · constructor
            · exact once_push h.once
            · intro hh; simp only [wrote, dial, push] at hh; rw [hc'] at hh; cases hh
            · intro hh; simp [wrote, dial, push] at hh
            · simpa [wrote, dial, push] using h.len
            · intro e' hh; simp only [wrote, dial, push, Option.some.injEq] at hh; subst hh; simp [wrote, dial, push]
          · exact inv_failAll (once_dial (once_push h.once)) (by simpa [dial, push] using h.len)
  | onResponse e expired =>
    simp only [step]
    split
    · split
      · rename_i hcl h0 rest hh
        have ho : (called (pop (deliver s e) h0 rest (label s e)) ++ (pop (deliver s e) h0 rest (label s e)).handlers).Perm
            (List.range (pop (deliver s e) h0 rest (label s e)).nextId) := by
          have := h.once; rw [hh] at this
          simpa [pop, deliver, called] using this
        split
        · exact inv_failAll ho (by simpa [pop, deliver] using h.len)
        · constructor
          · exact ho
          · exact h.closed_conn
          · intro hn
            have hn' : s.conn = none := hn
            have := h.none_empty hn'; rw [hh] at this; cases this
          · simpa [pop, deliver] using h.len
          · exact h.conn_lt
      · exact { h with len := by simpa [deliver] using h.len }
    · exact { h with len := by simpa [deliver] using h.len }
  | closeAll =>
    simp only [step]
    split
    · exact inv_failAll (s := { s with closed := true }) h.once h.len
    · exact h
  | connClosed e =>
    simp only [step]
    split
    · exact inv_failAll (s := { s with closed := true }) h.once h.len
    · exact h
  | reset =>
    simp only [step]
    split
    · rename_i hc
      have hn := h.none_empty (h.closed_conn hc)
      constructor
      · have := h.once; rw [hn] at this; exact this
      · intro hh; cases hh
      · intro _; rfl
      · exact h.len
      · intro e' hh; cases hh
    · exact h

theorem inv_run (ops : List Op) : ∀ (s : St), Inv s → Inv (run s ops) := by
  induction ops with
  | nil => intro s h; exact h
  | cons op ops ih => intro s h; exact ih _ (inv_step s op h)

/-! ### matching: the callback of request k receives the response that answers request k

Environment hypothesis (`EnvOK`): on the connection the ClientConn currently uses, the parser delivers a
response only for a request that was written to it — C10 (a) for the server at the other end: exactly
one response per request, in order.  Nothing is assumed about older connections: their late responses
and close notifications are ignored by the (repaired) code. -/

def okOp (s : St) : Op → Prop
  | .onResponse e _ => s.conn = some e → s.rcvd.getD e 0 < (s.sent.getD e []).length
  | _ => True

def EnvOK : St → List Op → Prop
  | _, [] => True
  | s, op :: ops => okOp s op ∧ EnvOK (step s op) ops

structure Match (s : St) : Prop where
  cur : ∀ e, s.conn = some e →
          s.rcvd.getD e 0 ≤ (s.sent.getD e []).length ∧
          s.handlers = (s.sent.getD e []).drop (s.rcvd.getD e 0)
  labels : ∀ c ∈ s.calls, ∀ lbl, c.2 = Out.resp lbl → lbl = some c.1

theorem getD_modify_same {β} (l : List β) (e : Nat) (f : β → β) (d : β) (he : e < l.length) :
    (l.modify e f).getD e d = f (l.getD e d) := by
  simp [List.getD_eq_getElem?_getD, List.getElem?_eq_getElem he]

theorem getD_modify_other {β} (l : List β) (e e' : Nat) (f : β → β) (d : β) (he : e ≠ e') :
    (l.modify e f).getD e' d = l.getD e' d := by
  simp only [List.getD_eq_getElem?_getD, List.getElem?_modify, he, if_false]
  cases l[e']? <;> rfl

theorem match_failAll {s : St} (hl : ∀ c ∈ s.calls, ∀ lbl, c.2 = Out.resp lbl → lbl = some c.1) :
    Match (failAll s) := by
  constructor
  · intro e he; simp [failAll] at he
  · intro c hc lbl hlbl
    simp only [failAll, List.mem_append, List.mem_map] at hc
    rcases hc with hc | ⟨x, _, hx⟩
    · exact hl c hc lbl hlbl
    · subst hx; cases hlbl

theorem match_step (s : St) (op : Op) (hi : Inv s) (h : Match s) (hok : okOp s op) : Match (step s op) := by
  cases op with
  | do_ dialOk sendOk =>
    simp only [step]
    split
    · constructor
      · exact h.cur
      · intro c hc lbl hlbl
        simp only [refuse, List.mem_append, List.mem_cons, List.not_mem_nil, or_false] at hc
        rcases hc with hc | hc
        · exact h.labels c hc lbl hlbl
        · subst hc; cases hlbl
    · split
      · rename_i e he
        obtain ⟨hle, hh⟩ := h.cur e he
        have hlt := hi.conn_lt e he
        split
        · constructor
          · intro e' hh'
            simp only [wrote, push] at hh'
            rw [he] at hh'; cases hh'
            simp only [wrote, push]
            rw [getD_modify_same _ _ _ _ hlt]
            refine ⟨by simp only [List.length_append, List.length_cons, List.length_nil]; omega, ?_⟩
            rw [List.drop_append_of_le_length hle, hh]
          · exact h.labels
        · exact match_failAll h.labels
      · rename_i hn
        split
        · exact match_failAll h.labels
        · split
          · have hemp := hi.none_empty hn
            constructor
            · intro e' hh'
              simp only [wrote, dial, push, Option.some.injEq] at hh'
              subst hh'
              simp only [wrote, dial, push]
              rw [getD_modify_same _ _ _ _ (by simp)]
              simp [List.getD_eq_getElem?_getD, hi.len, hemp]
            · exact h.labels
          · exact match_failAll h.labels
  | onResponse e expired =>
    simp only [step]
    split
    · rename_i hguard
      simp only [Bool.and_eq_true, Bool.not_eq_true', beq_iff_eq] at hguard
      obtain ⟨hcl, hce⟩ := hguard
      have hlt := hok hce
      obtain ⟨_, hdrop⟩ := h.cur e hce
      have helt := hi.conn_lt e hce
      split
      · rename_i h0 rest hh
        rw [List.drop_eq_getElem_cons hlt, hh] at hdrop
        injection hdrop with hhead htail
        have hlabel : label s e = some h0 := by
          simp only [label]
          rw [List.getElem?_eq_getElem hlt, hhead]
        have hlabels : ∀ c ∈ (pop (deliver s e) h0 rest (label s e)).calls,
            ∀ lbl, c.2 = Out.resp lbl → lbl = some c.1 := by
          intro c hc lbl hlbl
          simp only [pop, deliver, List.mem_append, List.mem_cons, List.not_mem_nil, or_false] at hc
          rcases hc with hc | hc
          · exact h.labels c hc lbl hlbl
          · subst hc; simp only [Out.resp.injEq] at hlbl; rw [← hlbl, hlabel]
        split
        · exact match_failAll hlabels
        · constructor
          · intro e' hh2
            simp only [pop, deliver] at hh2
            rw [hce] at hh2; cases hh2
            simp only [pop, deliver]
            rw [getD_modify_same _ _ _ _ (by rw [← hi.len]; exact helt)]
            exact ⟨by omega, htail⟩
          · exact hlabels
      · -- a solicited response with nothing pending: impossible (pending = drop … ≠ [])
        rename_i hemp
        rw [hemp, List.drop_eq_getElem_cons hlt] at hdrop; cases hdrop
    · -- closed, or a response of a connection that is no longer current: ignored
      rename_i hguard
      constructor
      · intro e' hh2
        simp only [deliver] at hh2
        obtain ⟨hle, hdrop⟩ := h.cur e' hh2
        have hne : e ≠ e' := by
          intro heq; subst heq
          apply hguard
          simp only [Bool.and_eq_true, Bool.not_eq_true', beq_iff_eq]
          refine ⟨?_, hh2⟩
          cases hc : s.closed with
          | false => rfl
          | true => have := hi.closed_conn hc; rw [hh2] at this; cases this
        simp only [deliver]
        rw [getD_modify_other _ _ _ _ _ hne]
        exact ⟨hle, hdrop⟩
      · exact h.labels
  | closeAll =>
    simp only [step]
    split
    · exact match_failAll (s := { s with closed := true }) h.labels
    · exact h
  | connClosed e =>
    simp only [step]
    split
    · exact match_failAll (s := { s with closed := true }) h.labels
    · exact h
  | reset =>
    simp only [step]
    split
    · constructor
      · intro e' hh; cases hh
      · exact h.labels
    · exact h

theorem match_run (ops : List Op) : ∀ (s : St), Inv s → Match s → EnvOK s ops → Match (run s ops) := by
  induction ops with
  | nil => intro s _ h _; exact h
  | cons op ops ih =>
    intro s hi h hok
    exact ih _ (inv_step s op hi) (match_step s op hi h hok.1) hok.2

theorem match_init : Match {} := by
  constructor <;> simp

end ClientFifo
