import NbioVerif.Lemmas.C07Scan
/-! C07 decision table: `request.Close` as computed by `ServerProcessor.OnComplete` equals RFC 7230 §6.3 persistence
    on the agreed domain (every Connection field value is a single option: no comma, no HTAB). -/
namespace Http

theorem dropWhile_congr {α : Type} (p q : α → Bool) (l : List α) (h : ∀ x ∈ l, p x = q x) :
    l.dropWhile p = l.dropWhile q := by
  induction l with
  | nil => rfl
  | cons a as ih =>
    simp only [List.dropWhile_cons, h a (by simp)]
    split
    · exact ih (fun x hx => h x (by simp [hx]))
    · rfl

theorem mem_of_mem_dropWhile {α : Type} (p : α → Bool) (l : List α) (x : α) (h : x ∈ l.dropWhile p) : x ∈ l :=
  (List.dropWhile_sublist p).subset h

/-- without HTAB, trimming OWS is trimming spaces -/
theorem trim_eq_trimSpaces (v : Bytes) (h : v.contains 9 = false) : trim v = trimSpaces v := by
  have hv : ∀ x ∈ v, (x == 32 || x == 9) = (x == 32) := by
    intro x hx
    have : x ≠ 9 := by intro e; subst e; simp at h; exact h hx
    simp [this]
  simp only [trim, trimSpaces, trimRightSpaces]
  rw [dropWhile_congr _ (· == 32) v hv]
  congr 1
  apply dropWhile_congr
  intro x hx
  exact hv x (mem_of_mem_dropWhile _ _ _ (List.mem_reverse.mp hx))

/-- a value without a comma is a one-element list -/
theorem splitComma_nocomma (v : Bytes) (h : v.contains 44 = false) : splitComma v = [v] := by
  unfold splitComma
  induction v with
  | nil => rfl
  | cons c cs ih =>
    have hc : c ≠ 44 := by intro e; subst e; simp at h
    have hcs : cs.contains 44 = false := by
      simp only [List.contains_eq_mem, decide_eq_false_iff_not, List.mem_cons, not_or] at h ⊢
      exact h.2
    simp only [List.foldr_cons, ih hcs]
    simp [hc]

/-- the connection options of single-option values -/
theorem listElems_single (vs : List Bytes) (h : vs.all (fun v => !v.contains 44 && !v.contains 9) = true) :
    (listElems vs).map (·.map toLower) =
      ((vs.map fun v => (trimSpaces v).map toLower).filter (· ≠ [])) := by
  induction vs with
  | nil => rfl
  | cons v vs ih =>
    simp only [List.all_cons, Bool.and_eq_true, Bool.not_eq_eq_eq_not, Bool.not_true] at h
    obtain ⟨⟨h1, h2⟩, hr⟩ := h
    have ih' := ih (by simpa using hr)
    simp only [listElems, List.map_cons, List.flatten_cons, List.map_append, splitComma_nocomma v h1,
      trim_eq_trimSpaces v h2] at ih' ⊢
    rw [ih']
    by_cases he : trimSpaces v = []
    · simp [he]
    · simp [he]

/-- `scanConnection` finds `close` iff some value is `close`, and, when there is no `close`, `keep-alive` iff some
    value is `keep-alive` -/
theorem scanConnection_spec (ts : List Bytes) :
    (scanConnection ts).1 = (ts.map fun v => (trimSpaces v).map toLower).contains (str "close") ∧
    ((scanConnection ts).1 = false →
      (scanConnection ts).2 = (ts.map fun v => (trimSpaces v).map toLower).contains (str "keep-alive")) := by
  induction ts with
  | nil => simp [scanConnection]
  | cons v vs ih =>
    obtain ⟨i1, i2⟩ := ih
    simp only [scanConnection, List.map_cons, List.contains_cons]
    by_cases hc : (trimSpaces v).map toLower = str "close"
    · simp [hc]
    · have hne : (str "close" == List.map toLower (trimSpaces v)) = false := by
        simp only [beq_eq_false_iff_ne, ne_eq]; exact fun e => hc e.symm
      simp only [hc, if_false, hne, Bool.false_or]
      by_cases hk : (trimSpaces v).map toLower = str "keep-alive"
      · simp only [hk, if_true]
        refine ⟨i1, fun _ => ?_⟩
        simp
      · have hnk : (str "keep-alive" == List.map toLower (trimSpaces v)) = false := by
          simp only [beq_eq_false_iff_ne, ne_eq]; exact fun e => hk e.symm
        simp only [hk, if_false, hnk, Bool.false_or]
        exact ⟨i1, i2⟩

theorem contains_filter_ne_nil (l : List Bytes) (x : Bytes) (hx : x ≠ []) :
    (l.filter (· ≠ [])).contains x = l.contains x := by
  simp [hx]

/-- decision table: `closeDecision` (nbhttp) = `rfc7230Close` (RFC 7230 §6.3) when every Connection value is a single
    connection option -/
theorem closeDecision_rfc (major minor : Nat) (vs : List Bytes)
    (h : vs.all (fun v => !v.contains 44 && !v.contains 9) = true) :
    closeDecision major minor vs = rfc7230Close major minor ((listElems vs).map (·.map toLower)) := by
  rw [listElems_single vs h]
  have ⟨s1, s2⟩ := scanConnection_spec vs
  simp only [closeDecision, rfc7230Close]
  by_cases hm : major < 1
  · simp [hm]
  · simp only [hm, if_false]
    rw [contains_filter_ne_nil _ _ (by decide), contains_filter_ne_nil _ _ (by decide)]
    cases hsc : scanConnection vs with
    | mk c k =>
      rw [hsc] at s1 s2
      simp only at s1 s2
      rw [← s1]
      cases c with
      | true => simp
      | false =>
        rw [← s2 rfl]
        simp

end Http
