import NbioVerif.Model.Ws
/-!
# `Engine.ReadLimit > 0`: the read-limit test only adds one kind of refusal

`ReadLimit` enters `Conn.Parse` in one place: a call whose data would bring the retained bytes above the limit (and
that finds retained bytes) fails with `ErrTooLong` before anything is parsed.  Every other call is the call of the same
endpoint without a read limit.  Hence a run of `feed` under a read limit is the run without one, cut at the first
such call.
-/
namespace Ws

/-- the same configuration without a read limit -/
def Cfg.noRL (g : Cfg) : Cfg := { g with readLimit := 0 }

/-- the Parse call on `data` in state `s` is refused by the read-limit test -/
def OverRL (g : Cfg) (s : S) (data : Bytes) : Prop :=
  data ≠ [] ∧ g.readLimit > 0 ∧ s.cache ≠ [] ∧ s.cache.length + data.length > g.readLimit

theorem nextFrame_noRL (g : Cfg) (s : S) : nextFrame g.noRL s = nextFrame g s := rfl
theorem applyFrame_noRL (g : Cfg) (e : Env) (k : K) (op : Nat) (b : Bytes) (fin r1 : Bool) :
    applyFrame g.noRL e k op b fin r1 = applyFrame g e k op b fin r1 := rfl
theorem failWith_noRL (g : Cfg) (e : Env) (c : Bytes) (k : K) (a : List Act) (er : Err) :
    failWith g.noRL e c k a er = failWith g e c k a er := rfl

theorem frameLoop_noRL (g : Cfg) (e : Env) : ∀ (fuel : Nat) (s : S) (acts : List Act),
    frameLoop g.noRL e fuel s acts = frameLoop g e fuel s acts := by
  intro fuel
  induction fuel with
  | zero => intro s acts; rfl
  | succ n ih =>
    intro s acts
    simp only [frameLoop, nextFrame_noRL, applyFrame_noRL, failWith_noRL, ih]

theorem parse_over (g : Cfg) (e : Env) (s : S) (data : Bytes) (h : OverRL g s data) :
    parse g e s data = ⟨s, [], some .tooLong⟩ := by
  obtain ⟨h1, h2, h3, h4⟩ := h
  unfold parse
  have hd : (data == []) = false := by
    cases data with
    | nil => exact absurd rfl h1
    | cons _ _ => rfl
  simp [hd, h2, h3, h4]

theorem parse_within (g : Cfg) (e : Env) (s : S) (data : Bytes) (h : ¬ OverRL g s data) :
    parse g e s data = parse g.noRL e s data := by
  unfold parse
  by_cases hd : (data == []) = true
  · simp [hd]
  · have hne : data ≠ [] := by intro h0; exact hd (by simp [h0])
    have hc : (decide (g.readLimit > 0) && decide (s.cache ≠ []) && decide (s.cache.length + data.length > g.readLimit)) = false := by
      cases hx : (decide (g.readLimit > 0) && decide (s.cache ≠ []) && decide (s.cache.length + data.length > g.readLimit)) with
      | false => rfl
      | true =>
        simp only [Bool.and_eq_true, decide_eq_true_eq] at hx
        exact absurd ⟨hne, hx.1.1, hx.1.2, hx.2⟩ h
    have h0 : (decide (g.noRL.readLimit > 0) && decide (s.cache ≠ []) && decide (s.cache.length + data.length > g.noRL.readLimit)) = false := by
      simp [Cfg.noRL]
    simp only [hd, hc, h0, Bool.false_eq_true, if_false, frameLoop_noRL]

/-- **the read limit cuts the run, nothing else**: under a read limit, `feed` is `feed` without one — same state, same
    actions, same error — or there is a first segment refused by the read-limit test, and then the result is the state and
    the actions the unlimited endpoint has after the segments before it, with `ErrTooLong` -/
theorem feed_readLimit (g : Cfg) (e : Env) : ∀ (segs : List Bytes) (s : S) (acts : List Act),
    feed g e s segs acts = feed g.noRL e s segs acts ∨
    ∃ pre seg post, segs = pre ++ seg :: post ∧ (feed g.noRL e s pre acts).err = none ∧
      OverRL g (feed g.noRL e s pre acts).s seg ∧
      feed g e s segs acts = ⟨(feed g.noRL e s pre acts).s, (feed g.noRL e s pre acts).acts, some .tooLong⟩ := by
  intro segs
  induction segs with
  | nil => intro s acts; left; rfl
  | cons seg segs ih =>
    intro s acts
    by_cases ho : OverRL g s seg
    · right
      refine ⟨[], seg, segs, rfl, rfl, ho, ?_⟩
      simp [feed, parse_over g e s seg ho]
    · have hp := parse_within g e s seg ho
      cases herr : (parse g.noRL e s seg).err with
      | some er =>
        left
        simp only [feed, hp, herr]
      | none =>
        rcases ih (parse g.noRL e s seg).s (acts ++ (parse g.noRL e s seg).acts) with h | ⟨pre, sg, post, h1, h2, h3, h4⟩
        · left
          simp only [feed, hp, herr, h]
        · right
          refine ⟨seg :: pre, sg, post, by simp [h1], ?_, ?_, ?_⟩
          · simpa only [feed, herr] using h2
          · simpa only [feed, herr] using h3
          · simp only [feed, hp, herr, h4]

end Ws
