import NbioVerif.Lemmas.ReadPathUdp
import NbioVerif.Lemmas.ReadPathDeliver
/-! ReadPath: datagram delivery — attributed datagrams, plus the one a parked task holds, plus the kernel queue
(truncated to the buffer, as recvfrom does) are exactly the datagrams sent, in order; every non-empty attributed
datagram is one callback with exactly its bytes on its session. -/
namespace ReadPath

def trunc (g : Cfg) (x : Addr × List UInt8) : Addr × List UInt8 := (x.1, x.2.take g.rbs)

def inflightD (s : St) : List (Addr × List UInt8) := match s.task with
  | .rd (.data (some a) b) _ => [(a, b)]
  | _ => []

def ansD : Ans → List (Addr × List UInt8)
  | .data (some a) b => [(a, b)]
  | _ => []

def deqPairs (s : St) : List (Addr × List UInt8) := s.deqD.map (fun e => (e.1, e.2.2))

/-- the callback an attributed datagram causes (`if n > 0`) -/
def cb (e : Addr × Nat × List UInt8) : Option (Nat × List UInt8) := if e.2.2.isEmpty then none else some (e.2.1, e.2.2)

structure DelD (g : Cfg) (s : St) : Prop where
  order : g.udp = true → deqPairs s ++ inflightD s ++ s.k.dq.map (trunc g) = s.sentD.map (trunc g)
  calls : g.udp = true → s.dlv = s.deqD.filterMap cb
  src : g.udp = true → ∀ b h, s.task ≠ .rd (.data none b) h

theorem consume_deq (g : Cfg) (s : St) (a : Ans) (hn : ∀ b, a ≠ .data none b) :
    deqPairs (consume g s a).2 = deqPairs s ++ ansD a ∧
    (s.dlv = s.deqD.filterMap cb → (consume g s a).2.dlv = (consume g s a).2.deqD.filterMap cb) := by
  unfold consume ansD
  cases a with
  | data src b =>
    cases src with
    | none => exact absurd rfl (hn b)
    | some x =>
      obtain ⟨h1, h2, h3, h4, h5, h6, h7, h8, h9, h10, h11, h12, h13, h14, h15⟩ := session_frame s x
      dsimp only
      by_cases hb : b.isEmpty = true
      · split <;> simp [deqPairs, h12, h13, cb, hb]
      · split <;> simp [deqPairs, h12, h13, cb, hb]
  | zero => simp [deqPairs]
  | eagain => simp [deqPairs]
  | eintr => simp [deqPairs]
  | closed => simp [deqPairs]
  | err => simp only [closeWith, deqPairs]; split <;> simp

theorem doRead_dgrams (g : Cfg) (s : St) (hu : g.udp = true) :
    ansD (doRead g s).1 ++ (doRead g s).2.k.dq.map (trunc g) = s.k.dq.map (trunc g) ∧
    ∀ b, (doRead g s).1 ≠ .data none b := by
  rcases hd : doRead g s with ⟨a, t⟩
  have h := doRead_rel' g s a t hd
  cases h with
  | dgram x d rest hc hi hu' hq => simp [ansD, hq, trunc]
  | bytes hc hi hu' hq => rw [hu] at hu'; cases hu'
  | _ => simp [ansD]

theorem taskRead_dgrams (g : Cfg) (s : St) (bh : Bool) (hu : g.udp = true) :
    deqPairs (taskRead g s bh) ++ inflightD (taskRead g s bh) ++ (taskRead g s bh).k.dq.map (trunc g) = deqPairs s ++ s.k.dq.map (trunc g) ∧
    (taskRead g s bh).sentD = s.sentD ∧ (taskRead g s bh).dlv = s.dlv ∧ (taskRead g s bh).deqD = s.deqD ∧
    ∀ b h, (taskRead g s bh).task ≠ .rd (.data none b) h := by
  unfold taskRead
  split
  · simp [setTask, deqPairs, inflightD]
  · obtain ⟨f1, f2, f3, f4, f5, f6, f7, f8, f9, f10, f11, _⟩ := doRead_frame g s
    obtain ⟨hb, hn⟩ := doRead_dgrams g s hu
    simp only [setTask]
    refine ⟨?_, f10, f8, f11, fun b h' h => ?_⟩
    · have hi : inflightD { (doRead g s).2 with task := TS.rd (doRead g s).1 bh } = ansD (doRead g s).1 := by
        simp only [inflightD, ansD]
        cases (doRead g s).1 with
        | data src b => cases src <;> rfl
        | _ => rfl
      have hd : deqPairs { (doRead g s).2 with task := TS.rd (doRead g s).1 bh } = deqPairs s := by
        simp only [deqPairs, f11]
      rw [hi, hd, List.append_assoc, hb]
    · simp only [TS.rd.injEq] at h; exact hn b h.1

theorem deld_init (g : Cfg) : DelD g init := ⟨fun _ => rfl, fun _ => rfl, fun _ b h' h => by simp [init] at h⟩

theorem deld_step (g : Cfg) (s s' : St) (a : Act) (hc : Core g s) (hd : DelD g s) (hs : step g s a = some s') :
    DelD g s' := by
  by_cases hu : g.udp = true
  case neg => exact ⟨fun h => absurd h hu, fun h => absurd h hu, fun h => absurd h hu⟩
  obtain ⟨ho, hcalls, hsrc⟩ := hd
  have ho := ho hu
  have hcalls := hcalls hu
  have hsrc := hsrc hu
  cases a with
  | push b =>
    simp only [step] at hs
    split at hs
    · cases hs
    · next h => simp [hu] at h
  | dgram x b =>
    simp only [step] at hs
    split at hs
    · cases hs
    · cases hs
      refine ⟨fun _ => ?_, fun _ => hcalls, fun _ => hsrc⟩
      simp only [deqPairs, inflightD] at ho ⊢
      simp only [List.map_append, List.map_cons, List.map_nil, ← ho, List.append_assoc]
  | eof => simp only [step] at hs; split at hs <;> cases hs; all_goals exact ⟨fun _ => ho, fun _ => hcalls, fun _ => hsrc⟩
  | rderr => simp only [step] at hs; cases hs; exact ⟨fun _ => ho, fun _ => hcalls, fun _ => hsrc⟩
  | intr n => simp only [step] at hs; cases hs; exact ⟨fun _ => ho, fun _ => hcalls, fun _ => hsrc⟩
  | stale => simp only [step] at hs; split at hs <;> cases hs; all_goals exact ⟨fun _ => ho, fun _ => hcalls, fun _ => hsrc⟩
  | report i o =>
    obtain ⟨r1, r2, _, _, _, _, _, _, r9, r10, r11, r12, _⟩ := report_frame g s s' i o hs
    have ht := report_task g s s' i o hc hs
    have hi : inflightD s' = inflightD s := by
      rcases ht with h | ⟨h1, h2⟩
      · simp only [inflightD, h]
      · simp only [inflightD, h1, h2]
    refine ⟨fun _ => ?_, fun _ => by rw [r9, r12]; exact hcalls, fun _ b hx h => ?_⟩
    · simp only [deqPairs] at ho ⊢
      rw [hi, r2, r11, r12]; exact ho
    · rcases ht with h' | ⟨_, h'⟩
      · rw [h'] at h; exact hsrc b hx h
      · rw [h'] at h; cases h
  | pstep =>
    simp only [step] at hs
    unfold pstep at hs
    split at hs
    · cases hs
    · next i fl hps =>
      cases hs
      have hasync : g.isAsync = false := by
        cases ha : g.isAsync
        · rfl
        · exact absurd hps (hc.psok.asyncPs ha i fl)
      have htn := (hc.gate.sync hasync).1
      obtain ⟨f1, f2, f3, f4, f5, f6, f7, f8, f9, f10, f11, _⟩ := doRead_frame g s
      obtain ⟨k1, k2, k3, k4, k5, k6, k7, k8, k9, _⟩ := consume_frame g (doRead g s).2 (doRead g s).1
      obtain ⟨hb, hn⟩ := doRead_dgrams g s hu
      obtain ⟨c1, c2⟩ := consume_deq g (doRead g s).2 (doRead g s).1 hn
      have hi0 : inflightD s = [] := by simp only [inflightD, htn]
      have hi2 : inflightD (consume g (doRead g s).2 (doRead g s).1).2 = [] := by simp only [inflightD, k4, f5, htn]
      have hd0 : deqPairs (doRead g s).2 = deqPairs s := by simp only [deqPairs, f11]
      refine ⟨fun _ => ?_, fun _ => ?_, fun _ b hx h => ?_⟩
      · show deqPairs (consume g (doRead g s).2 (doRead g s).1).2 ++ inflightD (consume g (doRead g s).2 (doRead g s).1).2 ++
          (consume g (doRead g s).2 (doRead g s).1).2.k.dq.map (trunc g) = (consume g (doRead g s).2 (doRead g s).1).2.sentD.map (trunc g)
        rw [c1, hi2, k1, k9, f10, hd0, ← ho, hi0]
        simp only [List.append_nil, List.append_assoc]
        rw [hb]
      · exact c2 (by rw [f8, f11]; exact hcalls)
      · have : (consume g (doRead g s).2 (doRead g s).1).2.task = .rd (.data none b) hx := h
        rw [k4, f5, htn] at this; cases this
    · next fl hps =>
      cases hs
      have : (finish g s fl).dlv = s.dlv ∧ (finish g s fl).task = s.task ∧ (finish g s fl).k.dq = s.k.dq ∧
          (finish g s fl).sentD = s.sentD ∧ (finish g s fl).deqD = s.deqD := by
        unfold finish rearm closeHang
        dsimp only
        repeat' split
        all_goals simp
      obtain ⟨h1, h2, h3, h4, h5⟩ := this
      refine ⟨fun _ => ?_, fun _ => ?_, fun _ b hx h => ?_⟩
      · show deqPairs (finish g s fl) ++ inflightD (finish g s fl) ++ (finish g s fl).k.dq.map (trunc g) = (finish g s fl).sentD.map (trunc g)
        simp only [deqPairs, inflightD, h2, h3, h4, h5] at ho ⊢
        exact ho
      · show (finish g s fl).dlv = (finish g s fl).deqD.filterMap cb
        rw [h1, h5]; exact hcalls
      · have : (finish g s fl).task = .rd (.data none b) hx := h
        rw [h2] at this; exact hsrc b hx this
  | tstep =>
    simp only [step] at hs
    unfold tstep at hs
    split at hs
    · cases hs
    · next ht =>
      cases hs
      obtain ⟨h1, h2, h3, h4, h5⟩ := taskRead_dgrams g s s.hup hu
      refine ⟨fun _ => ?_, fun _ => by rw [h3, h4]; exact hcalls, fun _ => h5⟩
      rw [h1, h2, ← ho]; simp [inflightD, ht]
    · next a hbt ht =>
      cases hs
      obtain ⟨k1, k2, k3, k4, k5, k6, k7, k8, k9, _⟩ := consume_frame g s a
      have hn : ∀ b, a ≠ .data none b := fun b h => hsrc b hbt (by rw [ht, h])
      obtain ⟨c1, c2⟩ := consume_deq g s a hn
      have c2 := c2 hcalls
      have hia : inflightD s = ansD a := by
        simp only [inflightD, ht, ansD]
        cases a with
        | data src b => cases src <;> rfl
        | _ => rfl
      have hgoal : deqPairs (consume g s a).2 ++ (consume g s a).2.k.dq.map (trunc g) = (consume g s a).2.sentD.map (trunc g) := by
        rw [c1, k1, k9, ← ho, hia]
      cases hnx : (consume g s a).1 with
      | again =>
        obtain ⟨h1, h2, h3, h4, h5⟩ := taskRead_dgrams g (consume g s a).2 hbt hu
        simp only [taskNext]
        exact ⟨fun _ => by rw [h1, h2]; exact hgoal, fun _ => by rw [h3, h4]; exact c2, fun _ => h5⟩
      | dead =>
        refine ⟨fun _ => ?_, fun _ => c2, fun _ b hx h => by cases h⟩
        show deqPairs (consume g s a).2 ++ [] ++ (consume g s a).2.k.dq.map (trunc g) = (consume g s a).2.sentD.map (trunc g)
        rw [List.append_nil]; exact hgoal
      | brk =>
        simp only [taskNext]
        have hr : ∀ t : St, deqPairs (rearm t) = deqPairs t ∧ (rearm t).k.dq = t.k.dq ∧ (rearm t).sentD = t.sentD ∧
            (rearm t).dlv = t.dlv ∧ (rearm t).deqD = t.deqD := by
          intro t; unfold rearm; split <;> simp [deqPairs]
        have hcl : ∀ t : St, deqPairs (closeHang t) = deqPairs t ∧ (closeHang t).k.dq = t.k.dq ∧ (closeHang t).sentD = t.sentD ∧
            (closeHang t).dlv = t.dlv ∧ (closeHang t).deqD = t.deqD := by
          intro t; unfold closeHang; split <;> simp [deqPairs]
        split
        · obtain ⟨r1, r2, r3, r4, r5⟩ := hcl (consume g s a).2
          refine ⟨fun _ => ?_, fun _ => ?_, fun _ b hx h => by cases h⟩
          · show deqPairs (closeHang (consume g s a).2) ++ [] ++ (closeHang (consume g s a).2).k.dq.map (trunc g) = (closeHang (consume g s a).2).sentD.map (trunc g)
            rw [List.append_nil, r1, r2, r3]; exact hgoal
          · show (closeHang (consume g s a).2).dlv = (closeHang (consume g s a).2).deqD.filterMap cb
            rw [r4, r5]; exact c2
        split
        · obtain ⟨r1, r2, r3, r4, r5⟩ := hr (consume g s a).2
          refine ⟨fun _ => ?_, fun _ => ?_, fun _ b hx h => by cases h⟩
          · show deqPairs (rearm (consume g s a).2) ++ [] ++ (rearm (consume g s a).2).k.dq.map (trunc g) = (rearm (consume g s a).2).sentD.map (trunc g)
            rw [List.append_nil, r1, r2, r3]; exact hgoal
          · show (rearm (consume g s a).2).dlv = (rearm (consume g s a).2).deqD.filterMap cb
            rw [r4, r5]; exact c2
        · split
          · refine ⟨fun _ => ?_, fun _ => c2, fun _ b hx h => by cases h⟩
            show deqPairs (consume g s a).2 ++ [] ++ (consume g s a).2.k.dq.map (trunc g) = (consume g s a).2.sentD.map (trunc g)
            rw [List.append_nil]; exact hgoal
          · refine ⟨fun _ => ?_, fun _ => c2, fun _ b hx h => by cases h⟩
            show deqPairs (consume g s a).2 ++ [] ++ (consume g s a).2.k.dq.map (trunc g) = (consume g s a).2.sentD.map (trunc g)
            rw [List.append_nil]; exact hgoal
    · next v ht =>
      cases hs
      obtain ⟨h1, h2, h3, h4, h5⟩ := taskRead_dgrams g s s.hup hu
      refine ⟨fun _ => ?_, fun _ => by rw [h3, h4]; exact hcalls, fun _ => h5⟩
      rw [h1, h2, ← ho]; simp [inflightD, ht]

theorem deld_run (g : Cfg) (as : List Act) : ∀ s, Core g s → DelD g s → DelD g (run g s as) := by
  induction as with
  | nil => intro s _ h; exact h
  | cons a as ih =>
    intro s hc h
    simp only [run]
    split
    · next s' hs => exact ih s' (core_step g s s' a hc hs) (deld_step g s s' a hc h hs)
    · exact ih s hc h

end ReadPath
