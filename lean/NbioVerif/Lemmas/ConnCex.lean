import NbioVerif.Model.ConnFull
namespace ConnFull

/-- C04 counterexample 1 (LT): a backlog created inside the open callback (before EPOLL_CTL_ADD)
    is never armed: MOD fails with ENOENT, ADD registers read only, isWAdded stays true. -/
theorem c04_cex_open_before_register :
    let g : Cfg := ⟨true, .lt, 0⟩
    let s1 := (write g {} [1, 2, 3] (.wrote 1)).1      -- inside OnOpen
    let s2 := pAddRead g s1                             -- addConn registers afterwards
    let s3 := (write g s2 [4] .eagain).1                -- any later write: isWAdded already true, no MOD
    armedOK g s2 = false ∧ armedOK g s3 = false ∧ s3.wl.length = 1 ∧ s3.ctl = [⟨false, true, false⟩, ⟨true, false, true⟩] := by
  decide

/-- C04 counterexample 2 (ET+ONESHOT): EPOLLOUT-only event, flush stops at EAGAIN, nobody re-arms. -/
theorem c04_cex_oneshot_eagain :
    let g : Cfg := ⟨true, .oneshot, 0⟩
    let s1 := pAddRead g {}
    let s2 := (write g s1 [1, 2, 3] (.wrote 1)).1       -- backlog, MOD arms R+W+ONESHOT
    let s3 := event g s2 true false [.wrote 1, .eagain] -- EPOLLOUT fires (disarms), flush: 1 byte then EAGAIN
    armedOK g s2 = true ∧ armedOK g s3 = false ∧ s3.wl.length = 1 := by
  decide

/-- C01 counterexample (Writev): partial direct write drops the buffers after the partially written one
    and reports (nwrite, nil). -/
theorem c01_cex_writev :
    let g : Cfg := ⟨true, .lt, 0⟩
    let s1 := pAddRead g {}
    let r := writev g s1 [[1, 2], [3, 4], [5, 6]] (.wrote 3)
    r.2 = .ok 3 ∧ r.1.wire = [1, 2, 3] ∧ (r.1.wl.map (fun t => t.data.drop t.off)) = [[4]] := by
  decide

end ConnFull
