import NbioVerif.Model.Life
/-! C03 — invariant of the lifecycle model (see Properties/C03.lean for the property theorems) -/
namespace Life

def isAddKind (c : Conn) : Prop := c.kind = .add ∨ c.kind = .acc

structure LI (c : Conn) : Prop where
  closeLe : c.closeN ≤ 1
  open1 : c.opens ≤ 1
  phase : c.kind ≠ .dial → (c.add = 0 ∨ c.add = 1 ∨ c.add = 5) → c.opens = 0 ∧ c.pSet = false
  phase1 : c.add = 1 → c.closed = true → c.raced = true
  dialAdd : c.kind = .dial → c.add = 0
  dialNoneP : c.kind = .dial → c.dial = .none → c.pSet = false
  openFlag : c.closed = false → c.cause = none ∧ c.td = none ∧ c.closeN = 0 ∧ c.fdOpen = true ∧ c.unmanaged = false ∧ c.byDialTimer = false
  tdOk : ∀ e, c.td = some e → c.closed = true ∧ c.cause = some e ∧ c.closeN = 0 ∧ c.fdOpen = true
  doneOk : c.closed = true → c.td = none →
    c.cause = some c.cerr ∧ c.fdOpen = false ∧ c.dial ≠ .pending ∧
    (c.pSet = true → c.kind ≠ .udp → c.unmanaged = false → c.closeN = 1) ∧ (c.add ≠ 3 → c.inTable = false)
  unmanagedOk : c.unmanaged = true → c.pSet = true → c.raced = true
  pOpen : c.pSet = true → (c.kind = .add ∨ c.kind = .acc ∨ c.kind = .sess) → c.opens ≥ 1
  early : c.early = false
  dial0 : c.dial = .none → c.dialN = 0
  dialP : c.dial = .pending → c.dialN = 0
  dialD : c.dial = .done → c.dialN = 1
  dialOk : c.dialOk ≤ c.dialN ∧ (c.dialOk ≥ 1 → c.kres = some none)
  wgOk : c.wg = (if c.pSet = true ∧ c.kind ≠ .udp then 1 else 0) - (c.closeN : Int)
  wTd : c.wT = true → c.wTdial = true → c.closed = true ∨ c.dial = .pending
  byDial : c.byDialTimer = true → c.dialOk = 0 ∧ c.closed = true

theorem li_init (k : Kind) : LI (mk k) := by
  constructor <;> simp [mk]

/-- destructure the invariant into the context and let `simp_all`/`omega` finish each field -/
macro "li_auto" h:ident : tactic => `(tactic| (
  have hh := $h
  obtain ⟨a1, a2, a3, a4, a5, a6, a7, a8, a9, a10, a11, a12, a13, a14, a15, a16, a17, a18, a19⟩ := hh
  constructor <;> simp_all <;> omega))

macro "li_simp" h:ident : tactic => `(tactic| (
  have hh := $h
  obtain ⟨a1, a2, a3, a4, a5, a6, a7, a8, a9, a10, a11, a12, a13, a14, a15, a16, a17, a18, a19⟩ := hh
  constructor <;> simp_all <;> try omega))

theorem li_flip (c : Conn) (e : Err) (st : Bool) (h : LI c) : LI (flip c e st) := by
  unfold flip
  split
  · exact h
  · next hc =>
    have hc' : c.closed = false := by simpa using hc
    obtain ⟨o1, o2, o3, o4, o5, o6⟩ := h.openFlag hc'
    li_auto h

theorem li_teardown (c : Conn) (h : LI c) : LI (teardown c) := by
  unfold teardown
  split
  · exact h
  · next e he =>
    obtain ⟨t1, t2, t3, t4⟩ := h.tdOk e he
    by_cases hp : c.pSet = true ∧ c.kind ≠ .udp <;> by_cases hd : c.dial = .pending <;>
      simp only [hp, hd, ↓reduceIte] <;> li_simp h

end Life
