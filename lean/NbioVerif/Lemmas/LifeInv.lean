import NbioVerif.Model.Life
/-! C03 — invariant of the lifecycle model (see Properties/C03.lean for the property theorems) -/
namespace Life

structure LI (c : Conn) : Prop where
  closeLe : c.closeN ≤ 1
  closeP : c.closeN ≥ 1 → c.pSet = true ∧ c.kind ≠ .udp
  open1 : c.opens ≤ 1
  openP : c.opens ≥ 1 → c.pSet = true ∧ c.kind ≠ .udp ∧ c.kind ≠ .dial
  phase : c.kind ≠ .dial → (c.add = 0 ∨ c.add = 1 ∨ c.add = 6) → c.pSet = false
  phase2 : c.add = 2 → c.opens = 0 ∧ c.pSet = true
  phase1 : c.add = 2 → c.closed = true → c.raced = true
  phase1a : (c.add = 1 ∨ c.add = 4) → c.closed = false
  addK : c.add ≠ 0 → c.kind ≠ .dial
  addK2 : (c.add = 1 ∨ c.add = 2 ∨ c.add = 3 ∨ c.add = 4 ∨ c.add = 6) → (c.kind = .add ∨ c.kind = .acc)
  vis0 : c.visible = true → c.kind = .dial ∨ c.add ≥ 3
  racedK : c.raced = true → c.kind = .add
  dialNoneP : c.kind = .dial → c.dial = .none → c.pSet = false
  dialK : c.dial ≠ .none → c.kind = .dial
  openFlag : c.closed = false → c.cause = none ∧ c.td = none ∧ c.closeN = 0 ∧ c.fdOpen = true ∧ c.unmanaged = false ∧ c.byDialTimer = false
  tdOk : ∀ e, c.td = some e → c.closed = true ∧ c.cause = some e ∧ c.closeN = 0 ∧ c.fdOpen = true
  doneOk : c.closed = true → c.td = none →
    c.cause = some c.cerr ∧ c.fdOpen = false ∧ c.dial ≠ .pending ∧
    (c.kind ≠ .udp → c.unmanaged = false → c.closeN = 1) ∧ c.inTable = false
  unmanagedOk : c.unmanaged = true → c.pSet = false
  pOpen : c.pSet = true → (c.kind = .add ∨ c.kind = .acc) → c.add ≠ 2 → c.opens ≥ 1
  pOpenS : c.pSet = true → c.kind = .sess → c.opens ≥ 1
  early : c.early = true → c.raced = true
  dial0 : c.dial = .none → c.dialN = 0
  dialP : c.dial = .pending → c.dialN = 0
  dialD : c.dial = .done → c.dialN = 1
  dialOk : c.dialOk ≤ c.dialN ∧ (c.dialOk ≥ 1 → c.kres = some none)
  kresNone : c.dial = .none → c.kres = none
  wgOk : c.wg = (if c.opens ≥ 1 ∨ (c.kind = .dial ∧ c.pSet = true) then 1 else 0) - (c.closeN : Int)
  wTd : c.wT = true → c.wTdial = true → c.closed = true ∨ c.dial = .pending
  byDial : c.byDialTimer = true → c.dialOk = 0 ∧ c.closed = true

theorem li_init (k : Kind) : LI (mk k) := by
  constructor <;> simp [mk]

/-- destructure the invariant into the context and let `simp_all`/`omega` finish each field (with a case split on
    the kind of conn where a field needs it) -/
macro "li_auto" h:ident c:ident : tactic => `(tactic| (
  have hh := $h
  obtain ⟨a1, a2, a3, a4, a5, a6, a7, a8, a9, a10, a11, a12, a13, a14, a15, a16, a17, a18, a19, a20, a21, a22, a23, a24,
    a25, a26, a27, a28, a29⟩ := hh
  constructor <;> simp_all <;> first
    | omega
    | grind
    | (cases hk : Conn.kind $c <;> simp_all <;> first | omega | grind)))

/-- whoever can flip the flag while `addConn` is between its closed test and its open notification is the caller of
    `AddConn` itself: accepted conns are not reachable by anybody else before they were announced -/
theorem flip_who (c : Conn) (h : LI c) (hg : c.visible = true ∨ c.kind = .add) : c.add = 2 → c.kind = .add := by
  intro ha
  rcases hg with hv | hk
  · rcases h.vis0 hv with hd | h3
    · exact absurd hd (h.addK (by omega))
    · omega
  · exact hk

theorem free_ok (c : Conn) (hf : free c = true) : c.add ≠ 1 ∧ c.add ≠ 4 := by
  simp only [free, Bool.and_eq_true, bne_iff_ne, ne_eq] at hf
  exact hf

theorem li_flip (c : Conn) (e : Err) (st : Bool) (h : LI c) (hr : c.add = 2 → c.kind = .add) (hn1 : c.add ≠ 1 ∧ c.add ≠ 4) :
    LI (flip c e st) := by
  unfold flip
  split
  · exact h
  · next hc =>
    have hc' : c.closed = false := by simpa using hc
    obtain ⟨o1, o2, o3, o4, o5, o6⟩ := h.openFlag hc'
    li_auto h c

/-- a close notification before the open notification needs the `AddConn`/`Close` race -/
theorem teardown_early (c : Conn) (h : LI c) (e : Err) (he : c.td = some e)
    (hx : c.pSet = true ∧ c.kind ≠ .udp ∧ c.opens = 0 ∧ c.kind ≠ .dial) : c.raced = true := by
  obtain ⟨hp, hu, ho, hd⟩ := hx
  have hcl := (h.tdOk e he).1
  by_cases h2 : c.add = 2
  · exact h.phase1 h2 hcl
  · cases hk : c.kind with
    | add => have := h.pOpen hp (Or.inl hk) h2; omega
    | acc => have := h.pOpen hp (Or.inr hk) h2; omega
    | sess => have := h.pOpenS hp hk; omega
    | udp => exact absurd hk hu
    | dial => exact absurd hk hd

set_option maxHeartbeats 1600000 in
theorem li_teardown (c : Conn) (h : LI c) : LI (teardown c) := by
  unfold teardown
  split
  · exact h
  · next e he =>
    obtain ⟨t1, t2, t3, t4⟩ := h.tdOk e he
    have hearly := teardown_early c h e he
    by_cases hp : c.pSet = true ∧ c.kind ≠ .udp <;> by_cases hd : c.dial = .pending <;>
      simp only [hp, hd, ↓reduceIte] <;> li_auto h c

theorem li_timerW (c : Conn) (h : LI c) (hw : c.wT = true) (hr : c.add = 2 → c.kind = .add) (hn1 : c.add ≠ 1 ∧ c.add ≠ 4) :
    LI (timerW c) := by
  unfold timerW
  split
  · exact h
  · next hc =>
    have hc' : c.closed = false := by simpa using hc
    obtain ⟨o1, o2, o3, o4, o5, o6⟩ := h.openFlag hc'
    have hwd := h.wTd hw
    have hd := h.dialP
    have hok := h.dialOk.1
    simp only [flip, hc', Bool.false_eq_true, ↓reduceIte]
    li_auto h c

theorem li_dialed (c : Conn) (h : LI c) (hkd : c.kind = .dial) (hk : c.kres.isSome = true) : LI (dialed c) := by
  have hr : c.add = 2 → c.kind = .add := fun ha => absurd hkd (h.addK (by omega))
  have hn1 : c.add ≠ 1 ∧ c.add ≠ 4 := ⟨fun h1 => absurd hkd (h.addK (by omega)), fun h1 => absurd hkd (h.addK (by omega))⟩
  unfold dialed
  split
  · exact h
  · next hp =>
    have hp' : c.dial = .pending := by simpa using hp
    have hlog : LI { c with log := c.log + 1 } := by li_auto h c
    dsimp only
    split
    · next e he => exact li_flip _ e true hlog hr hn1
    · next hne =>
      split
      · exact hlog
      · next hcl =>
        have hkr : c.kres = some none := by
          cases hkk : c.kres with
          | none => rw [hkk] at hk; cases hk
          | some r =>
            cases r with
            | none => rfl
            | some e => exact absurd hkk (by intro h'; exact hne e (by simpa using h'))
        have hc' : c.closed = false := by simpa using hcl
        obtain ⟨o1, o2, o3, o4, o5, o6⟩ := h.openFlag hc'
        have hdn := h.dialP hp'
        li_auto h c

set_option maxHeartbeats 800000 in
theorem li_addCheck (c : Conn) (h : LI c) (hg : ((c.kind == .add || c.kind == .acc) && c.add == 0) = true) :
    LI (addCheck c) := by
  unfold addCheck; split
  · li_auto h c
  · next hc => have hc' : c.closed = false := by simpa using hc
               li_auto h c

theorem li_addP (c : Conn) (h : LI c) (hg : ((c.kind == .add || c.kind == .acc) && c.add == 1) = true) :
    LI (addP c) := by
  unfold addP; li_auto h c

theorem li_addOpen (c : Conn) (h : LI c) (hg : ((c.kind == .add || c.kind == .acc) && c.add == 2) = true) :
    LI (addOpen c) := by
  unfold addOpen; li_auto h c

set_option maxHeartbeats 800000 in
theorem li_addTable (c : Conn) (h : LI c) (hg : ((c.kind == .add || c.kind == .acc) && c.add == 3) = true) :
    LI (addTable c) := by
  unfold addTable; split
  · li_auto h c
  · next hc => have hc' : c.closed = false := by simpa using hc
               li_auto h c

set_option maxHeartbeats 800000 in
theorem li_addReg (c : Conn) (h : LI c) (hg : ((c.kind == .add || c.kind == .acc) && c.add == 4) = true) :
    LI (addReg c) := by
  unfold addReg; li_auto h c

theorem li_sessOpen (c : Conn) (h : LI c) (hg : (c.kind == .sess && c.add == 0 && !c.closed) = true) :
    LI (sessOpen c) := by
  unfold sessOpen; li_auto h c

theorem li_udpListen (c : Conn) (h : LI c) (hg : (c.kind == .udp && c.add == 0 && !c.closed) = true) :
    LI (udpListen c) := by
  unfold udpListen; li_auto h c

theorem li_dialStart (c : Conn) (h : LI c) (hg : (c.kind == .dial && c.dial == .none && !c.closed) = true) :
    LI (dialStart c) := by
  unfold dialStart; li_auto h c

theorem li_dialStartFail (c : Conn) (e : Err) (h : LI c)
    (hg : (c.kind == .dial && c.dial == .none && !c.closed) = true) : LI (dialStartFail c e) := by
  unfold dialStartFail; li_auto h c

theorem li_dialNow (c : Conn) (h : LI c) (hg : (c.kind == .dial && c.dial == .none && !c.closed) = true) :
    LI (dialNow c) := by
  unfold dialNow; li_auto h c

theorem li_armDial (c : Conn) (h : LI c) : LI (armDial c) := by
  unfold armDial; split
  · li_auto h c
  · exact h

theorem li_kconnect (c : Conn) (r : Option Err) (h : LI c)
    (hg : (c.kind == .dial && c.dial == .pending && c.kres.isNone) = true) : LI { c with kres := some r } := by
  li_auto h c

theorem li_setDl (c : Conn) (r w : Bool) (h : LI c) (hg : (c.visible && !c.closed && free c) = true) :
    LI { c with rT := c.rT || r, wT := c.wT || w, wTdial := if w && !c.wT then false else c.wTdial } := by
  li_auto h c

theorem li_clearW (c : Conn) (h : LI c) : LI { c with wT := false, wTdial := false } := by
  li_auto h c

theorem li_setQ (c : Conn) (q : List Item) (h : LI c) : LI { c with q := q } := by
  li_auto h c

theorem li_userOp (c : Conn) (sys : Nat) (h : LI c) : LI (userOp c sys).1 := by
  unfold userOp; split
  · exact h
  · li_auto h c

theorem li_step (c c' : Conn) (a : Act) (h : LI c) (hs : step c a = some c') : LI c' := by
  cases a with
  | addCheck => simp only [step] at hs; split at hs <;> cases hs; next hg => exact li_addCheck c h hg
  | addP => simp only [step] at hs; split at hs <;> cases hs; next hg => exact li_addP c h hg
  | addOpen => simp only [step] at hs; split at hs <;> cases hs; next hg => exact li_addOpen c h hg
  | addTable => simp only [step] at hs; split at hs <;> cases hs; next hg => exact li_addTable c h hg
  | addReg => simp only [step] at hs; split at hs <;> cases hs; next hg => exact li_addReg c h hg
  | sessOpen => simp only [step] at hs; split at hs <;> cases hs; next hg => exact li_sessOpen c h hg
  | udpListen => simp only [step] at hs; split at hs <;> cases hs; next hg => exact li_udpListen c h hg
  | dialStart => simp only [step] at hs; split at hs <;> cases hs; next hg => exact li_dialStart c h hg
  | dialStartFail e => simp only [step] at hs; split at hs <;> cases hs; next hg => exact li_dialStartFail c e h hg
  | dialNow => simp only [step] at hs; split at hs <;> cases hs; next hg => exact li_dialNow c h hg
  | armDial => simp only [step] at hs; split at hs <;> cases hs; exact li_armDial c h
  | kconnect r => simp only [step] at hs; split at hs <;> cases hs; next hg => exact li_kconnect c r h hg
  | dialed =>
    simp only [step] at hs; split at hs <;> cases hs
    next hg => simp only [Bool.and_eq_true, beq_iff_eq] at hg; exact li_dialed c h hg.1.1 hg.2
  | flip e st =>
    simp only [step] at hs; split at hs <;> cases hs
    next hg =>
      simp only [Bool.and_eq_true, Bool.or_eq_true, beq_iff_eq] at hg
      exact li_flip c e st h (flip_who c h hg.1) (free_ok c hg.2)
  | teardown => simp only [step] at hs; split at hs <;> cases hs; exact li_teardown c h
  | timerR =>
    simp only [step] at hs; split at hs <;> cases hs
    next hg =>
      simp only [Bool.and_eq_true] at hg
      exact li_flip c _ true h (flip_who c h (Or.inl hg.1.2)) (free_ok c hg.2)
  | timerW =>
    simp only [step] at hs; split at hs <;> cases hs
    next hg =>
      simp only [Bool.and_eq_true] at hg
      exact li_timerW c h hg.1.1 (flip_who c h (Or.inl hg.1.2)) (free_ok c hg.2)
  | setDl r w => simp only [step] at hs; split at hs <;> cases hs; next hg => exact li_setDl c r w h hg
  | clearW => simp only [step] at hs; split at hs <;> cases hs; exact li_clearW c h
  | setQ q => simp only [step] at hs; split at hs <;> cases hs; exact li_setQ c q h
  | op sys => simp only [step] at hs; split at hs <;> cases hs; exact li_userOp c sys h

theorem li_run (as : List Act) : ∀ c, LI c → LI (run c as) := by
  induction as with
  | nil => intro c h; exact h
  | cons a as ih =>
    intro c h
    simp only [run]
    split
    · next c' hs => exact ih c' (li_step c c' a h hs)
    · exact ih c h

theorem li_runAll (as : List Act) : ∀ c c', LI c → runAll c as = some c' → LI c' := by
  induction as with
  | nil => intro c c' h hr; simp only [runAll, Option.some.injEq] at hr; subst hr; exact h
  | cons a as ih =>
    intro c c' h hr
    simp only [runAll] at hr
    split at hr
    · next c1 hs => exact ih c1 c' (li_step c c1 a h hs) hr
    · cases hr

end Life
