import NbioVerif.Model.ConnFull
import NbioVerif.Generated.Src_Epoll
import NbioVerif.Generated.Src_ConnConst
/-! Bridge: the poller's epoll registrations as `Model/ConnFull.lean` abstracts them (`kctl s add out`
per epoll mode) equal what `poller.setRead` / `setReadWrite` and their four wrappers in
poller_epoll.go — translated from source by tools/go2lean — ask the kernel for: the same operation
(ADD/MOD), write interest exactly when the model says so, no call where the model has none; and every
mask carries the error / hang-up / read bits and the mode bits the read-path and lifecycle models
(`Model/ReadPath.lean`: `rdhup`, edge / one-shot semantics) rely on. -/
namespace ConnFull

def EPOLLIN : UInt32 := 0x1
def EPOLLPRI : UInt32 := 0x2
def EPOLLOUT : UInt32 := 0x4
def EPOLLERR : UInt32 := 0x8
def EPOLLHUP : UInt32 := 0x10
def EPOLLRDHUP : UInt32 := 0x2000
def EPOLLONESHOT : UInt32 := 0x40000000
def EPOLLET : UInt32 := 0x80000000

/-- `Config.EpollMod` / `Config.EPOLLONESHOT` of the three supported modes -/
def Mode.epollMod : Mode → UInt32 | .lt => 0 | .et => EPOLLET | .oneshot => EPOLLET
def Mode.oneshotBit : Mode → UInt32 | .oneshot => EPOLLONESHOT | _ => 0

/-- the bits every registration must carry, per mode -/
def Mode.mandatory : Mode → UInt32
  | .lt => EPOLLERR ||| EPOLLHUP ||| EPOLLRDHUP ||| EPOLLPRI ||| EPOLLIN
  | .et => EPOLLERR ||| EPOLLHUP ||| EPOLLRDHUP ||| EPOLLPRI ||| EPOLLIN ||| EPOLLET
  | .oneshot => EPOLLERR ||| EPOLLHUP ||| EPOLLRDHUP ||| EPOLLPRI ||| EPOLLIN ||| EPOLLET ||| EPOLLONESHOT

/-- an `epoll_ctl` call as the model sees it: `(add, out)`; `none` = no call, or a mask that is not
    exactly the mandatory bits of the mode plus possibly EPOLLOUT -/
def abstractCtl (m : Mode) : Option (Int × UInt32) → Option (Option (Bool × Bool))
  | none => some none
  | some (op, mask) =>
    if (op == 1 || op == 3) && (mask == m.mandatory || mask == (m.mandatory ||| EPOLLOUT)) then
      some (some (op == 1, mask &&& EPOLLOUT != 0))
    else none

def applyCtl (s : S) : Option (Bool × Bool) → S
  | none => s
  | some (add, out) => kctl s add out

theorem src_pModWrite (g : Cfg) (s : S) (fd : Int) :
    (abstractCtl g.mode (Src.Epoll.modWrite g.mode.epollMod g.mode.oneshotBit fd)).map (applyCtl s) = some (pModWrite g s) := by
  unfold pModWrite; cases g.mode <;> rfl

theorem src_pResetRead (g : Cfg) (s : S) (fd : Int) :
    (abstractCtl g.mode (Src.Epoll.resetRead g.mode.epollMod g.mode.oneshotBit fd)).map (applyCtl s) = some (pResetRead g s) := by
  unfold pResetRead; cases g.mode <;> rfl

theorem src_pAddRead (g : Cfg) (s : S) (fd : Int) :
    (abstractCtl g.mode (Src.Epoll.addRead g.mode.epollMod g.mode.oneshotBit fd)).map (applyCtl s) = some (pAddRead g s) := by
  unfold pAddRead; cases g.mode <;> rfl

theorem src_pAddReadWrite (g : Cfg) (s : S) (fd : Int) :
    (abstractCtl g.mode (Src.Epoll.addReadWrite g.mode.epollMod g.mode.oneshotBit fd)).map (applyCtl s) = some (pAddReadWrite g s) := by
  unfold pAddReadWrite; cases g.mode <;> rfl

/-- every mask the six functions can pass to `epoll_ctl`, in every mode and for ADD and MOD, consists of
    the mandatory bits of the mode (so EPOLLRDHUP, EPOLLERR, EPOLLHUP, EPOLLIN are always asked for; EPOLLET
    in both edge modes; EPOLLONESHOT exactly in one-shot mode) plus possibly EPOLLOUT -/
theorem src_masks_wellformed : ∀ (m : Mode) (op : Int), op = 1 ∨ op = 3 →
    ∀ r ∈ [Src.Epoll.setRead m.epollMod m.oneshotBit op 0, Src.Epoll.setReadWrite m.epollMod m.oneshotBit op 0],
      (abstractCtl m r).isSome = true := by
  intro m op hop r hr
  rcases hop with rfl | rfl <;> cases m <;> simp at hr <;> rcases hr with rfl | rfl <;> decide

/-- `maxCache` is the source constant `maxWriteCacheOrFlushSize` -/
theorem src_maxCache : (maxCache : Int) = Src.ConnConst.maxWriteCacheOrFlushSize := by decide

end ConnFull
