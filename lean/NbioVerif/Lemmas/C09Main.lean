import NbioVerif.Lemmas.C09Run
import NbioVerif.Lemmas.C09Delim
/-! Framing invariant over whole handler programs: Flush at invariant level, the body-phase run,
flushResponse, and the start state. -/
namespace Resp

/-- Flush without its close-delimiting decision -/
def flushCore (g : Cfg) (r : R) : R := flushBodyBuf g (flushBuf g (eoncodeHead g r))

theorem flushOp_unfold (g : Cfg) (r : R) (hp : Pre r) :
    flushOp g r = flushBodyBuf g (flushBuf g (eoncodeHead g (markDelim r))) := by
  unfold flushOp; rw [prelude_id g r hp]

/-- `closeDelim` is not part of the invariant -/
theorem winv_markDelim (v : Option Nat) (r : R) (hd B) (h : WInv v r hd B) : WInv v (markDelim r) hd B := by
  unfold markDelim
  split
  · refine ⟨h.pre, ?_, ?_⟩
    · intro hc
      have := h.ch hc
      exact ⟨⟨this.bytes, this.henc, this.nobuf, this.nowire⟩, this.nobody⟩
    · intro hc
      obtain ⟨hi, hv⟩ := h.idn hc
      refine ⟨⟨⟨hi.bytes, hi.henc, hi.nobuf, hi.nowire⟩, hi.one⟩, ?_⟩
      rw [← hv]; exact verdict_eq _ _ rfl rfl
  · exact h

theorem flushCore_spec (g : Cfg) (hg : NoFail g) (v : Option Nat) (r : R) (hd : Option Bytes) (B : Bytes)
    (h : WInv v r hd B) :
    WInv v (flushCore g r) (hdAfter g r hd) B ∧ (flushCore g r).chunked = r.chunked ∧
      (flushCore g r).header = r.header := by
  unfold flushCore
  have hbase : Base r hd B := by
    cases hc : r.chunked with
    | true => exact (h.ch hc).toBase
    | false => exact (h.idn hc).1.toBase
  obtain ⟨hb1, he1⟩ := eoncodeHead_base g r hd B hbase
  obtain ⟨hb2, hz2, hn2⟩ := flushBuf_spec g hg _ _ B hb1 he1
  have he2 : (flushBuf g (eoncodeHead g r)).headEncoded = true := by simp [he1]
  obtain ⟨hb3, hz3, hn3⟩ := flushBodyBuf_spec g hg _ _ B hb2 he2 hz2
  have he3 : (flushBodyBuf g (flushBuf g (eoncodeHead g r))).headEncoded = true := by simp [he1]
  refine ⟨⟨?_, ?_, ?_⟩, by simp, by simp⟩
  · exact ⟨by simp [h.pre.1], by simp; exact h.pre.2⟩
  · intro hc
    have hc' : r.chunked = true := by simpa using hc
    refine ⟨hb3, ?_⟩
    rw [hn3]; simp [(h.ch hc').nobody]
  · intro hc
    have hc' : r.chunked = false := by simpa using hc
    obtain ⟨hi, hv⟩ := h.idn hc'
    refine ⟨⟨hb3, ?_⟩, ?_⟩
    · intro hcl
      refine ⟨by intro hf; rw [he3] at hf; exact absurd hf (by simp), ?_⟩
      intro hne
      rw [hn3]
      simp only [flushBuf_bodyBuffer, eoncodeHead_body]
      have hne1 : (eoncodeHead g r).buffer ≠ none := by
        intro hcn
        apply hne
        simp only [flushBodyBuf_buffer]
        exact hn2.mpr hcn
      cases hre : r.headEncoded with
      | false => exact (hi.one hcl).1 hre
      | true => rw [eoncodeHead_enc g r hre] at hne1; exact (hi.one hcl).2 hne1
    · rw [← hv]; exact verdict_eq _ _ (by simp) (by simp)

theorem flushOp_spec (g : Cfg) (hg : NoFail g) (v : Option Nat) (r : R) (hd : Option Bytes) (B : Bytes)
    (h : WInv v r hd B) :
    WInv v (flushOp g r) (hdAfter g (markDelim r) hd) B ∧ (flushOp g r).chunked = r.chunked ∧
      (flushOp g r).header = r.header := by
  rw [flushOp_unfold g r h.pre]
  obtain ⟨a, b, c⟩ := flushCore_spec g hg v (markDelim r) hd B (winv_markDelim v r hd B h)
  unfold flushCore at a b c
  exact ⟨a, by rw [b]; simp, by rw [c]; simp⟩

/-! ### the body phase of a handler -/

/-- body-phase operations: writes, flushes and header changes (trailer values, typically) -/
inductive BOp
  | write (d : Bytes) | flush | setH (k v : Bytes) | addH (k v : Bytes) | delH (k : Bytes)

def BOp.toOp : BOp → Op
  | .write d => .write d
  | .flush => .flush
  | .setH k v => .setHeader k v
  | .addH k v => .addHeader k v
  | .delH k => .delHeader k

/-- once the framing is decided the handler does not change Content-Length any more -/
def BOp.ok : BOp → Prop
  | .setH k _ => k ≠ kCL
  | .addH k _ => k ≠ kCL
  | .delH k => k ≠ kCL
  | _ => True

/-- run the body phase; second component = the payloads of the writes that were accepted -/
def runB (g : Cfg) : R → List BOp → R × List Bytes
  | r, [] => (r, [])
  | r, .write d :: ops =>
    let (r', w) := write g r d
    let (r'', acc) := runB g r' ops
    (r'', (match w with | .ok _ => [d] | _ => []) ++ acc)
  | r, op :: ops => runB g (step g r op.toOp).1 ops

def framed (chunked : Bool) (ds : List Bytes) : Bytes :=
  (ds.map fun d => if d = [] then [] else frame chunked d).flatten

/-- what a body-phase operation does to the header map -/
def BOp.onHeader : BOp → Header → Header
  | .setH k v, h => hset h k v
  | .addH k v, h => hadd h k v
  | .delH k, h => hdel h k
  | _, h => h

/-- status code, reason phrase and framing flag of a state, and a property `K` of its header map -/
def Line (K : Header → Prop) (sc : Nat) (st : Bytes) (ch : Bool) (r : R) : Prop :=
  r.statusCode = sc ∧ r.status = st ∧ r.chunked = ch ∧ K r.header

/-- the ghost head is what `g.head` made of SOME state with this status line, framing flag and header
property -/
def HeadOf (g : Cfg) (K : Header → Prop) (sc : Nat) (st : Bytes) (ch : Bool) (hd : Option Bytes) : Prop :=
  ∀ H, hd = some H → ∃ rE, H = g.head rE ∧ Line K sc st ch rE

theorem headOf_after (g : Cfg) (K) (sc st ch) (r : R) (hd : Option Bytes) (hl : Line K sc st ch r)
    (h : HeadOf g K sc st ch hd) : HeadOf g K sc st ch (hdAfter g r hd) := by
  unfold hdAfter
  split
  · exact h
  · intro H hH
    cases hH
    exact ⟨r, rfl, hl⟩

theorem runB_spec (g : Cfg) (hg : NoFail g) (v : Option Nat) (ops : List BOp) (hok : ∀ op ∈ ops, op.ok)
    (K : Header → Prop) (hKops : ∀ op ∈ ops, ∀ h, K h → K (op.onHeader h))
    (sc : Nat) (st : Bytes) (ch : Bool)
    (r : R) (hd : Option Bytes) (B : Bytes) (h : WInv v r hd B) (hl : Line K sc st ch r)
    (hh : HeadOf g K sc st ch hd) :
    ∃ hd', WInv v (runB g r ops).1 hd' (B ++ framed r.chunked (runB g r ops).2) ∧
      (hd.isSome = true → hd' = hd) ∧ (runB g r ops).1.chunked = r.chunked ∧
      Line K sc st ch (runB g r ops).1 ∧ HeadOf g K sc st ch hd' := by
  induction ops generalizing r hd B with
  | nil => exact ⟨hd, by simpa [runB, framed] using h, fun _ => rfl, rfl, hl, hh⟩
  | cons op ops ih =>
    have hok' : ∀ op ∈ ops, op.ok := fun o ho => hok o (List.mem_cons_of_mem _ ho)
    have hK' : ∀ op ∈ ops, ∀ h, K h → K (op.onHeader h) := fun o ho => hKops o (List.mem_cons_of_mem _ ho)
    have hKop := hKops op (List.mem_cons_self ..)
    have hop : op.ok := hok op (List.mem_cons_self ..)
    cases op with
    | write d =>
      simp only [runB]
      by_cases hne : d = []
      · subst hne
        have e0 : write g r [] = (r, .ok 0) := by unfold write; simp
        rw [e0]
        dsimp only
        obtain ⟨hd', i1, i2, i3, i4, i5⟩ := ih hok' hK' r hd B h hl hh
        refine ⟨hd', ?_, i2, i3, i4, i5⟩
        simpa [framed] using i1
      · rw [write_unfold g r d hne h.pre]
        have h2 := winv_hasBody v r hd B h
        by_cases hc : r.chunked = true
        · obtain ⟨w1, w2, w3, w4⟩ := writeBody_chunked_spec g hg v _ hd B d h2 hc
          have hproj := writeBody_proj g { r with hasBody := true } d
          generalize writeBody g { r with hasBody := true } d = p at *
          obtain ⟨r', w⟩ := p
          dsimp only at w1 w2 w3 w4 ⊢
          subst w2
          have hl2 : Line K sc st ch ({ r with hasBody := true } : R) := hl
          have hl' : Line K sc st ch r' := by
            obtain ⟨p1, p2, p3, _, p5⟩ := hproj
            exact ⟨p1.trans hl.1, p2.trans hl.2.1, p3.trans hl.2.2.1, by rw [p5]; exact hl.2.2.2⟩
          obtain ⟨hd', i1, i2, i3, i4, i5⟩ := ih hok' hK' r' _ _ w1 hl' (headOf_after g K sc st ch _ hd hl2 hh)
          refine ⟨hd', ?_, ?_, ?_, i4, i5⟩
          · rw [w3] at i1
            simpa [framed, frame, hne, hc, List.append_assoc] using i1
          · intro hs
            apply i2 _ |>.trans
            · unfold hdAfter
              have : r.headEncoded = true := by rw [(h.ch hc).henc]; exact hs
              simp [this]
            · unfold hdAfter
              have : r.headEncoded = true := by rw [(h.ch hc).henc]; exact hs
              simp [this, hs]
          · rw [i3, w3, hc]
        · have hc : r.chunked = false := by simpa using hc
          have hw := writeBody_identity_spec g hg v _ hd B d h2 hc
          dsimp only at hw
          have hproj := writeBody_proj g { r with hasBody := true } d
          generalize writeBody g { r with hasBody := true } d = p at *
          obtain ⟨r', w⟩ := p
          dsimp only at hw hproj ⊢
          obtain ⟨w1, w2, w3⟩ := hw
          have hl' : Line K sc st ch r' := by
            obtain ⟨p1, p2, p3, _, p5⟩ := hproj
            exact ⟨p1.trans hl.1, p2.trans hl.2.1, p3.trans hl.2.2.1, by rw [p5]; exact hl.2.2.2⟩
          have hl3 : Line K sc st ch (contentLength ({ r with hasBody := true } : R)).1 := by
            obtain ⟨p1, p2, p3, _, p5⟩ := contentLength_proj ({ r with hasBody := true } : R)
            exact ⟨p1.trans hl.1, p2.trans hl.2.1, p3.trans hl.2.2.1, by rw [p5]; exact hl.2.2.2⟩
          rcases w3 with ⟨wa, wb⟩ | ⟨wa, wb⟩
          · subst wa
            have hh' : HeadOf g K sc st ch (if v.getD 0 > 0 then hdAfter g (contentLength ({ r with hasBody := true } : R)).1 hd else hd) := by
              split
              · exact headOf_after g K sc st ch _ hd hl3 hh
              · exact hh
            obtain ⟨hd', i1, i2, i3, i4, i5⟩ := ih hok' hK' r' _ _ wb hl' hh'
            refine ⟨hd', ?_, ?_, ?_, i4, i5⟩
            · rw [w1] at i1
              simpa [framed, frame, hne, hc, List.append_assoc] using i1
            · intro hs
              have hre : r.headEncoded = true := by rw [(h.idn hc).1.henc]; exact hs
              have hre3 : (contentLength ({ r with hasBody := true } : R)).1.headEncoded = true := by
                rcases contentLength_fst ({ r with hasBody := true } : R) with e | ⟨n, e⟩ <;> rw [e] <;> exact hre
              have e1 : (if v.getD 0 > 0 then hdAfter g (contentLength ({ r with hasBody := true } : R)).1 hd else hd) = hd := by
                split
                · unfold hdAfter; simp [hre3]
                · rfl
              rw [e1] at i2
              exact i2 hs
            · rw [i3, w1, hc]
          · obtain ⟨hd', i1, i2, i3, i4, i5⟩ := ih hok' hK' r' _ _ wb hl' hh
            refine ⟨hd', ?_, i2, by rw [i3, w1, hc], i4, i5⟩
            rw [w1] at i1
            rcases wa with wa | wa <;> subst wa <;> simpa [framed, hc] using i1
    | flush =>
      simp only [runB, BOp.toOp, step]
      obtain ⟨f1, f2, f3⟩ := flushOp_spec g hg v r hd B h
      have hl' : Line K sc st ch (flushOp g r) := by
        refine ⟨?_, ?_, ?_, by rw [f3]; exact hl.2.2.2⟩
        · rw [flushOp_unfold g r h.pre]; simp [hl.1]
        · rw [flushOp_unfold g r h.pre]; simp [hl.2.1]
        · rw [f2]; exact hl.2.2.1
      have hlm : Line K sc st ch (markDelim r) :=
        ⟨by simp [hl.1], by simp [hl.2.1], by simp [hl.2.2.1], by simp; exact hl.2.2.2⟩
      obtain ⟨hd', i1, i2, i3, i4, i5⟩ := ih hok' hK' _ _ _ f1 hl' (headOf_after g K sc st ch _ hd hlm hh)
      refine ⟨hd', by rw [f2] at i1; exact i1, ?_, by rw [i3, f2], i4, i5⟩
      intro hs
      have hre : r.headEncoded = true := by
        cases hc : r.chunked with
        | true => rw [(h.ch hc).henc]; exact hs
        | false => rw [(h.idn hc).1.henc]; exact hs
      have e1 : hdAfter g (markDelim r) hd = hd := by unfold hdAfter; simp [hre]
      rw [e1] at i2
      exact i2 hs
    | setH k val =>
      simp only [runB, BOp.toOp, step]
      have := winv_header v r hd B (hset r.header k val) h (hget_hset_ne _ _ _ _ (fun hc => hop hc.symm))
      exact ih hok' hK' _ _ _ this ⟨hl.1, hl.2.1, hl.2.2.1, hKop _ hl.2.2.2⟩ hh
    | addH k val =>
      simp only [runB, BOp.toOp, step]
      have := winv_header v r hd B (hadd r.header k val) h (hget_hadd_ne _ _ _ _ (fun hc => hop hc.symm))
      exact ih hok' hK' _ _ _ this ⟨hl.1, hl.2.1, hl.2.2.1, hKop _ hl.2.2.2⟩ hh
    | delH k =>
      simp only [runB, BOp.toOp, step]
      have := winv_header v r hd B (hdel r.header k) h (hget_hdel_ne _ _ _ (fun hc => hop hc.symm))
      exact ih hok' hK' _ _ _ this ⟨hl.1, hl.2.1, hl.2.2.1, hKop _ hl.2.2.2⟩ hh

end Resp

namespace Resp

/-! ### flushResponse -/

theorem lastChunk_nobuf (r : R) : lastChunk { r with buffer := none } = lastChunk r := rfl

theorem finish_spec (g : Cfg) (hg : NoFail g) (v : Option Nat) (r : R) (hd : Option Bytes) (B : Bytes)
    (h : WInv v r hd B) :
    (finish g r).1.wire.flatten =
        (hdAfter g r hd).getD [] ++ B ++ (if r.chunked then lastChunk (eoncodeHead g r) else []) ∧
      (finish g r).2 = (g.reqClose || r.closeDelim) ∧ (hdAfter g r hd).isSome = true := by
  unfold finish
  rw [prelude_id g r h.pre]
  have hbase : Base r hd B := by
    cases hc : r.chunked with
    | true => exact (h.ch hc).toBase
    | false => exact (h.idn hc).1.toBase
  obtain ⟨hb1, he1⟩ := eoncodeHead_base g r hd B hbase
  have hsome : (hdAfter g r hd).isSome = true := by rw [← hb1.henc, he1]
  dsimp only
  by_cases hc : r.chunked = true
  · have hbody : (eoncodeHead g r).bodyBuffer = none := by simp [(h.ch hc).nobody]
    obtain ⟨c1, c2⟩ := flushChunked_spec g hg _ _ B hb1.bytes hbody
    simp only [eoncodeHead_chunked, hc, ↓reduceIte]
    rw [lastChunk_nobuf] at c2
    exact ⟨c2, by simp [c1], hsome⟩
  · have hc' : r.chunked = false := by simpa using hc
    obtain ⟨c1, c2⟩ := flushIdentity_spec g hg _ _ B hb1.bytes
    simp only [eoncodeHead_chunked, hc', Bool.false_eq_true, ↓reduceIte]
    exact ⟨by simpa using c2, by simp [c1], hsome⟩

/-! ### the state a handler starts its body phase in -/

/-- nothing written, nothing buffered, head not encoded (header map, status, flags arbitrary) -/
structure Fresh (r : R) : Prop where
  wire : r.wire = []
  buffer : r.buffer = none
  body : r.bodyBuffer = none
  henc : r.headEncoded = false

theorem writeHeader_proj (r : R) (code : Nat) (st : Bytes) :
    (writeHeader r code st).wire = r.wire ∧ (writeHeader r code st).buffer = r.buffer ∧
    (writeHeader r code st).bodyBuffer = r.bodyBuffer ∧ (writeHeader r code st).headEncoded = r.headEncoded ∧
    (writeHeader r code st).chunkChecked = r.chunkChecked ∧ (writeHeader r code st).chunked = r.chunked := by
  unfold writeHeader
  dsimp only
  (repeat' split) <;> exact ⟨rfl, rfl, rfl, rfl, rfl, rfl⟩

theorem writeHeader200_sc (r : R) : (writeHeader200 r).statusCode ≠ 0 := by
  unfold writeHeader200 writeHeader
  dsimp only
  by_cases h : r.statusCode = 0
  · have h1 : (r.statusCode == 0 && (200 : Nat) != 0) = true := by simp [h]
    have h2 : (decide (100 ≤ (200 : Nat)) && decide ((200 : Nat) ≤ 999)) = true := by decide
    simp only [h1, h2, ↓reduceIte]
    (repeat' split) <;> simp
  · have h1 : (r.statusCode == 0 && (200 : Nat) != 0) = false := by simp [h]
    simp only [h1, Bool.false_eq_true, ↓reduceIte]
    exact h

theorem checkChunked_proj (g : Cfg) (r : R) :
    (checkChunked g r).wire = r.wire ∧ (checkChunked g r).buffer = r.buffer ∧
    (checkChunked g r).bodyBuffer = r.bodyBuffer ∧ (checkChunked g r).headEncoded = r.headEncoded ∧
    (checkChunked g r).chunkChecked = true ∧ (checkChunked g r).statusCode = r.statusCode ∧
    (checkChunked g r).status = r.status := by
  unfold checkChunked
  dsimp only
  (repeat' split) <;> simp_all

theorem fresh_prelude (g : Cfg) (r : R) (hf : Fresh r) : Fresh (checkChunked g (writeHeader200 r)) := by
  obtain ⟨c1, c2, c3, c4, _, _, _⟩ := checkChunked_proj g (writeHeader200 r)
  obtain ⟨w1, w2, w3, w4, _, _⟩ := writeHeader_proj r 200 stOK
  unfold writeHeader200 at *
  exact ⟨c1.trans (w1.trans hf.wire), c2.trans (w2.trans hf.buffer), c3.trans (w3.trans hf.body),
    c4.trans (w4.trans hf.henc)⟩

theorem pre_prelude (g : Cfg) (r : R) : Pre (checkChunked g (writeHeader200 r)) := by
  obtain ⟨_, _, _, _, c5, c6, _⟩ := checkChunked_proj g (writeHeader200 r)
  exact ⟨c5, by rw [c6]; exact writeHeader200_sc r⟩

theorem start_winv (r : R) (hf : Fresh r) (hp : Pre r) : WInv (verdict r) r none [] := by
  have hb : Base r none [] := by
    refine ⟨?_, by simp [hf.henc], fun _ => hf.buffer, fun _ => by simp [hf.wire]⟩
    intro X
    simp [bufB, bodyB, hf.wire, hf.buffer, hf.body]
  exact ⟨hp, fun _ => ⟨hb, hf.body⟩, fun _ => ⟨⟨hb, fun _ => ⟨fun _ => hf.body, fun _ => hf.body⟩⟩, rfl⟩⟩

end Resp

namespace Resp

/-! ### identity framing without Content-Length: without Flush the head stays unencoded -/

theorem writeBody_noenc (g : Cfg) (r : R) (d : Bytes) (hc : r.chunked = false)
    (hv : verdict r = none ∨ verdict r = some 0) :
    (writeBody g r d).1.headEncoded = r.headEncoded := by
  unfold writeBody
  have hcf : ¬ (r.chunked = true) := by simp [hc]
  rw [if_neg hcf]
  unfold verdict at hv
  have hfst := contentLength_fst r
  generalize contentLength r = p at *
  obtain ⟨r3, v3⟩ := p
  dsimp only at hv hfst
  have h3 : r3.headEncoded = r.headEncoded := by
    rcases hfst with e | ⟨n, e⟩ <;> rw [e]
  rcases hv with hv | hv
  · subst hv; exact h3
  · subst hv
    dsimp only
    unfold writeIdent
    have : ¬ ((decide (0 > 0) && decide (r3.bodyWritten + d.length > 0)) = true) := by simp
    rw [if_neg this]
    have ht : takeHead g r3 d.length 0 = (r3, true) := by unfold takeHead; simp
    rw [ht]
    dsimp only
    rw [appendBody_headEncoded, h3]

theorem writeIdent_contentLen (g : Cfg) (r : R) (d : Bytes) (cl : Nat) :
    (writeIdent g r d cl).1.contentLen = r.contentLen := by
  unfold writeIdent
  split
  · rfl
  · split
    · rename_i heq; have := congrArg Prod.fst heq; dsimp only at this; rw [← this]; simp
    · rename_i heq; have := congrArg Prod.fst heq; dsimp only at this; simp [← this]

theorem writeBody_verdict (g : Cfg) (r : R) (d : Bytes) (hc : r.chunked = false) :
    verdict (writeBody g r d).1 = verdict r := by
  unfold writeBody
  have hcf : ¬ (r.chunked = true) := by simp [hc]
  rw [if_neg hcf]
  have hvc := verdict_cached r
  have hpr := contentLength_proj r
  generalize contentLength r = p at *
  obtain ⟨r3, v3⟩ := p
  dsimp only at hvc hpr
  cases v3 with
  | none => exact hvc
  | some cl =>
    dsimp only
    rw [← hvc]
    exact verdict_eq r3 _ (writeIdent_contentLen g r3 d cl) (writeIdent_proj g r3 d cl).2.2.2.2

theorem runB_noenc (g : Cfg) (v : Option Nat) (ops : List BOp) (hnf : ∀ op ∈ ops, op ≠ .flush)
    (hok : ∀ op ∈ ops, op.ok) (r : R) (hp : Pre r) (hc : r.chunked = false) (he : r.headEncoded = false)
    (hv : v = none ∨ v = some 0) (hvr : verdict r = v) :
    (runB g r ops).1.headEncoded = false := by
  induction ops generalizing r with
  | nil => exact he
  | cons op ops ih =>
    have hnf' : ∀ op ∈ ops, op ≠ .flush := fun o ho => hnf o (List.mem_cons_of_mem _ ho)
    have hok' : ∀ op ∈ ops, op.ok := fun o ho => hok o (List.mem_cons_of_mem _ ho)
    have hop : op.ok := hok op (List.mem_cons_self ..)
    cases op with
    | write d =>
      simp only [runB]
      have hw : Pre (write g r d).1 ∧ (write g r d).1.headEncoded = false ∧ (write g r d).1.chunked = false ∧
          verdict (write g r d).1 = v := by
        by_cases hne : d = []
        · subst hne
          have e0 : write g r [] = (r, .ok 0) := by unfold write; simp
          rw [e0]; exact ⟨hp, he, hc, hvr⟩
        · rw [write_unfold g r d hne hp]
          have hv2 : verdict ({ r with hasBody := true } : R) = v := by
            rw [← hvr]; exact verdict_eq _ _ rfl rfl
          obtain ⟨p1, _, p3, p4, _⟩ := writeBody_proj g { r with hasBody := true } d
          refine ⟨⟨by rw [p4]; exact hp.1, by rw [p1]; exact hp.2⟩, ?_, by rw [p3]; exact hc, ?_⟩
          · exact (writeBody_noenc g { r with hasBody := true } d hc (by rw [hv2]; exact hv)).trans he
          · exact (writeBody_verdict g { r with hasBody := true } d hc).trans hv2
      generalize write g r d = p at *
      obtain ⟨r', w⟩ := p
      exact ih hnf' hok' r' hw.1 hw.2.2.1 hw.2.1 hw.2.2.2
    | flush => exact absurd rfl (hnf .flush (List.mem_cons_self ..))
    | setH k val =>
      simp only [runB, BOp.toOp, step]
      exact ih hnf' hok' _ hp hc he (by rw [← hvr]; exact verdict_hdr r _ (hget_hset_ne _ _ _ _ (fun hc => hop hc.symm)))
    | addH k val =>
      simp only [runB, BOp.toOp, step]
      exact ih hnf' hok' _ hp hc he (by rw [← hvr]; exact verdict_hdr r _ (hget_hadd_ne _ _ _ _ (fun hc => hop hc.symm)))
    | delH k =>
      simp only [runB, BOp.toOp, step]
      exact ih hnf' hok' _ hp hc he (by rw [← hvr]; exact verdict_hdr r _ (hget_hdel_ne _ _ _ (fun hc => hop hc.symm)))

end Resp
