import NbioVerif.Model.Alloc
/-! Heap invariant of the allocator model and its preservation, primitive by primitive. -/
namespace Alloc

/-! ### regions under the primitives -/

theorem region_of_lt (s : St) (rid : Nat) (h : rid < s.regions.length) : s.region rid = s.regions[rid] := by
  simp [St.region, List.getD_eq_getElem?_getD, List.getElem?_eq_getElem h]

@[simp] theorem modify_length (s : St) (rid : Nat) (f : Region → Region) :
    (s.modify rid f).regions.length = s.regions.length := by simp [St.modify]
@[simp] theorem modify_pool (s : St) (rid : Nat) (f : Region → Region) : (s.modify rid f).pool = s.pool := rfl
@[simp] theorem modify_live (s : St) (rid : Nat) (f : Region → Region) : (s.modify rid f).live = s.live := rfl

theorem region_modify_self (s : St) (rid : Nat) (f : Region → Region) (h : rid < s.regions.length) :
    (s.modify rid f).region rid = f (s.region rid) := by
  simp [St.region, St.modify, List.getD_eq_getElem?_getD, h]

theorem region_modify_other (s : St) (rid r : Nat) (f : Region → Region) (h : r ≠ rid) :
    (s.modify rid f).region r = s.region r := by
  simp [St.region, St.modify, List.getD_eq_getElem?_getD, Ne.symm h]

@[simp] theorem own_length (s : St) (rid : Nat) (o : Owner) : (s.own rid o).regions.length = s.regions.length := by
  simp [St.own]
@[simp] theorem own_pool (s : St) (rid : Nat) (o : Owner) : (s.own rid o).pool = s.pool := rfl
@[simp] theorem own_live (s : St) (rid : Nat) (o : Owner) : (s.own rid o).live = s.live := rfl
theorem region_own_self (s : St) (rid : Nat) (o : Owner) (h : rid < s.regions.length) :
    (s.own rid o).region rid = { s.region rid with owner := o } := region_modify_self s rid _ h
theorem region_own_other (s : St) (rid r : Nat) (o : Owner) (h : r ≠ rid) :
    (s.own rid o).region r = s.region r := region_modify_other s rid r _ h

@[simp] theorem alloc_length (s : St) (c : Nat) (i : Bytes) : (s.alloc c i).1.regions.length = s.regions.length + 1 := by
  simp [St.alloc]
@[simp] theorem alloc_rid (s : St) (c : Nat) (i : Bytes) : (s.alloc c i).2 = s.regions.length := rfl
@[simp] theorem alloc_pool (s : St) (c : Nat) (i : Bytes) : (s.alloc c i).1.pool = s.pool := rfl
@[simp] theorem alloc_live (s : St) (c : Nat) (i : Bytes) : (s.alloc c i).1.live = s.live := rfl

theorem region_alloc_old (s : St) (c : Nat) (i : Bytes) (r : Nat) (h : r < s.regions.length) :
    (s.alloc c i).1.region r = s.region r := by
  simp [St.region, St.alloc, List.getD_eq_getElem?_getD, List.getElem?_append_left h]

theorem region_alloc_new (s : St) (c : Nat) (i : Bytes) :
    (s.alloc c i).1.region s.regions.length = ⟨c, (i ++ zeros c).take c, .none⟩ := by
  simp [St.region, St.alloc, List.getD_eq_getElem?_getD]

theorem alloc_new_len (c : Nat) (i : Bytes) : ((i ++ zeros c).take c).length = c := by
  simp [zeros]

theorem overwrite_length (b : Bytes) (off : Nat) (d : Bytes) (h : off + d.length ≤ b.length) :
    (overwrite b off d).length = b.length := by
  simp [overwrite]; omega

/-! ### lookup under bind / remove -/

theorem lookup_bind_self (s : St) (h : Nat) (x : Handle) : (s.bind h x).lookup h = some x := by
  simp [St.bind, St.lookup]

theorem find_filter_ne (l : List (Nat × Handle)) (h k : Nat) (hk : k ≠ h) :
    (l.filter (·.1 != h)).find? (·.1 == k) = l.find? (·.1 == k) := by
  induction l with
  | nil => rfl
  | cons a as ih =>
    by_cases ha : a.1 = h
    · have h1 : (a.1 != h) = false := by simp [ha]
      have h2 : (a.1 == k) = false := by
        have : ¬ h = k := Ne.symm hk
        simp [ha, this]
      simp only [List.filter_cons, h1, Bool.false_eq_true, if_false, List.find?_cons, h2, ih]
    · have h1 : (a.1 != h) = true := by simp [ha]
      simp only [List.filter_cons, h1, if_true, List.find?_cons, ih]

theorem lookup_bind_other (s : St) (h k : Nat) (x : Handle) (hk : k ≠ h) : (s.bind h x).lookup k = s.lookup k := by
  have : ¬ h = k := Ne.symm hk
  simp [St.bind, St.lookup, List.find?_cons, this, find_filter_ne _ h k hk]

theorem lookup_remove_other (s : St) (h k : Nat) (hk : k ≠ h) : (s.remove h).lookup k = s.lookup k := by
  simp [St.remove, St.lookup, find_filter_ne _ h k hk]

theorem lookup_remove_self (s : St) (h : Nat) : (s.remove h).lookup h = none := by
  simp only [St.remove, St.lookup, Option.map_eq_none_iff, List.find?_eq_none]
  intro a ha
  have := (List.mem_filter.mp ha).2
  simpa using this

theorem lookup_live_eq {s s' : St} (h : s'.live = s.live) (k : Nat) : s'.lookup k = s.lookup k := by
  simp [St.lookup, h]

/-! ### the invariant -/

/-- capacities the aligned allocator makes itself: above the threshold, or a class size -/
def alignedCap0 (c : Nat) : Prop := maxAligned < c ∨ ∃ i, i < nClasses ∧ c = classSize i

/-- capacities that may occur in the aligned allocator's heap: its own, and those of *foreign* buffers (not handed out
    by the allocator, e.g. the empty slice passed to `Append`) that `Free` ignores: zero, or not a multiple of 32 -/
def alignedCap (c : Nat) : Prop := alignedCap0 c ∨ c = 0 ∨ c % minAligned ≠ 0

/-- region `rid` may be written on behalf of handle name `h`: nobody else owns it -/
def scratch (h : Nat) (s : St) (rid : Nat) : Prop :=
  rid < s.regions.length ∧ ((s.region rid).owner = .none ∨ (s.region rid).owner = .live h)

/-- the heap invariant, with handle name `h` exempted (`h = none`: nobody exempted) -/
structure InvX (g : Cfg) (h : Option Nat) (s : St) : Prop where
  regs : ∀ rid, rid < s.regions.length → (s.region rid).bytes.length = (s.region rid).cap
  live : ∀ k x, some k ≠ h → s.lookup k = some x →
           x.rid < s.regions.length ∧ (s.region x.rid).owner = .live k ∧ x.len ≤ (s.region x.rid).cap
  pool : ∀ e, e ∈ s.pool → e.rid < s.regions.length ∧ (s.region e.rid).owner = .pooled e.tag e.cls
  acap : g.kind = .aligned → ∀ rid, rid < s.regions.length → alignedCap (s.region rid).cap
  acls : g.kind = .aligned → ∀ e, e ∈ s.pool → (s.region e.rid).cap = classSize e.cls

abbrev Inv (g : Cfg) (s : St) : Prop := InvX g none s

theorem Inv.exempt {g : Cfg} {s : St} (hi : Inv g s) (h : Nat) : InvX g (some h) s :=
  ⟨hi.regs, fun k x _ hl => hi.live k x (by simp) hl, hi.pool, hi.acap, hi.acls⟩

theorem inv_init (g : Cfg) : Inv g {} := by
  constructor <;> simp [St.lookup]

/-- what an allocator operation on behalf of `h` does to the rest of the heap: it only extends it,
    does not touch the handle table, leaves every region owned by another live handle alone, keeps
    capacities, and keeps scratch regions scratch -/
structure Ext (h : Nat) (s0 s : St) : Prop where
  mono : s0.regions.length ≤ s.regions.length
  live : s.live = s0.live
  keep : ∀ rid k, rid < s0.regions.length → (s0.region rid).owner = .live k → k ≠ h → s.region rid = s0.region rid
  caps : ∀ rid, rid < s0.regions.length → (s.region rid).cap = (s0.region rid).cap
  scr  : ∀ rid, scratch h s0 rid → scratch h s rid

theorem Ext.refl (h : Nat) (s : St) : Ext h s s := ⟨Nat.le_refl _, rfl, fun _ _ _ _ _ => rfl, fun _ _ => rfl, fun _ h => h⟩

theorem Ext.trans {h : Nat} {s0 s1 s2 : St} (a : Ext h s0 s1) (b : Ext h s1 s2) : Ext h s0 s2 := by
  refine ⟨Nat.le_trans a.mono b.mono, by rw [b.live, a.live], ?_, ?_, fun r hr => b.scr r (a.scr r hr)⟩
  · intro rid k hr ho hk
    have h1 := a.keep rid k hr ho hk
    rw [← h1]
    exact b.keep rid k (Nat.lt_of_lt_of_le hr a.mono) (by rw [h1]; exact ho) hk
  · intro rid hr
    rw [b.caps rid (Nat.lt_of_lt_of_le hr a.mono), a.caps rid hr]

/-! ### primitives preserve the exempted invariant -/

theorem alloc_ok (g : Cfg) (h : Nat) (s : St) (c : Nat) (i : Bytes) (hi : InvX g (some h) s)
    (hc : g.kind = .aligned → alignedCap c) :
    InvX g (some h) (s.alloc c i).1 ∧ Ext h s (s.alloc c i).1 ∧ scratch h (s.alloc c i).1 s.regions.length ∧
      ((s.alloc c i).1.region s.regions.length).cap = c := by
  have hnew := region_alloc_new s c i
  refine ⟨?_, ?_, ?_, by rw [hnew]⟩
  · constructor
    · intro rid hr
      simp at hr
      by_cases h1 : rid < s.regions.length
      · rw [region_alloc_old s c i rid h1]; exact hi.regs rid h1
      · have : rid = s.regions.length := by omega
        subst this; rw [hnew]; exact alloc_new_len c i
    · intro k x hk hl
      have hl' : s.lookup k = some x := by simpa [St.lookup] using hl
      obtain ⟨h1, h2, h3⟩ := hi.live k x hk hl'
      rw [region_alloc_old s c i x.rid h1]
      exact ⟨by simp; omega, h2, h3⟩
    · intro e he
      obtain ⟨h1, h2⟩ := hi.pool e he
      rw [region_alloc_old s c i e.rid h1]
      exact ⟨by simp; omega, h2⟩
    · intro ha rid hr
      simp at hr
      by_cases h1 : rid < s.regions.length
      · rw [region_alloc_old s c i rid h1]; exact hi.acap ha rid h1
      · have : rid = s.regions.length := by omega
        subst this; rw [hnew]; exact hc ha
    · intro ha e he
      obtain ⟨h1, _⟩ := hi.pool e he
      rw [region_alloc_old s c i e.rid h1]; exact hi.acls ha e he
  · refine ⟨by simp, rfl, fun rid k hr _ _ => region_alloc_old s c i rid hr,
      fun rid hr => by rw [region_alloc_old s c i rid hr], ?_⟩
    intro rid ⟨hr, ho⟩
    exact ⟨by simp; omega, by rw [region_alloc_old s c i rid hr]; exact ho⟩
  · exact ⟨by simp, by rw [hnew]; exact .inl rfl⟩

/-- a modification of a scratch region that keeps its capacity and owner and the length invariant -/
theorem modify_ok (g : Cfg) (h : Nat) (s : St) (rid : Nat) (f : Region → Region) (hi : InvX g (some h) s)
    (hs : scratch h s rid) (hcap : (f (s.region rid)).cap = (s.region rid).cap)
    (hown : (f (s.region rid)).owner = (s.region rid).owner)
    (hlen : (f (s.region rid)).bytes.length = (s.region rid).cap) :
    InvX g (some h) (s.modify rid f) ∧ Ext h s (s.modify rid f) := by
  obtain ⟨hr, ho⟩ := hs
  have hself := region_modify_self s rid f hr
  have hoth := fun r (hne : r ≠ rid) => region_modify_other s rid r f hne
  -- rid is not owned by another live handle, nor pooled
  have hnl : ∀ k, k ≠ h → (s.region rid).owner ≠ .live k := by
    intro k hk he; rcases ho with ho | ho <;> rw [ho] at he <;> cases he; exact hk rfl
  have hnp : ∀ t c, (s.region rid).owner ≠ .pooled t c := by
    intro t c he; rcases ho with ho | ho <;> rw [ho] at he <;> cases he
  refine ⟨?_, ?_⟩
  · constructor
    · intro r hr'
      simp at hr'
      by_cases h1 : r = rid
      · subst h1; rw [hself, hcap]; exact hlen
      · rw [hoth r h1]; exact hi.regs r hr'
    · intro k x hk hl
      have hl' : s.lookup k = some x := by simpa [St.lookup] using hl
      obtain ⟨h1, h2, h3⟩ := hi.live k x hk hl'
      have hne : x.rid ≠ rid := by
        intro he; rw [he] at h2; exact hnl k (by intro hk'; exact hk (by rw [hk'])) h2
      rw [hoth x.rid hne]; exact ⟨by simpa using h1, h2, h3⟩
    · intro e he
      obtain ⟨h1, h2⟩ := hi.pool e he
      have hne : e.rid ≠ rid := by intro he'; rw [he'] at h2; exact hnp _ _ h2
      rw [hoth e.rid hne]; exact ⟨by simpa using h1, h2⟩
    · intro ha r hr'
      simp at hr'
      by_cases h1 : r = rid
      · subst h1; rw [hself, hcap]; exact hi.acap ha r hr'
      · rw [hoth r h1]; exact hi.acap ha r hr'
    · intro ha e he
      obtain ⟨h1, h2⟩ := hi.pool e he
      have hne : e.rid ≠ rid := by intro he'; rw [he'] at h2; exact hnp _ _ h2
      rw [hoth e.rid hne]; exact hi.acls ha e he
  · refine ⟨by simp, rfl, ?_, ?_, ?_⟩
    · intro r k hr' hok hk
      have hne : r ≠ rid := by intro he; rw [he] at hok; exact hnl k hk hok
      exact hoth r hne
    · intro r _
      by_cases h1 : r = rid
      · subst h1; rw [hself, hcap]
      · rw [hoth r h1]
    · intro r ⟨hr', ho'⟩
      refine ⟨by simpa using hr', ?_⟩
      by_cases h1 : r = rid
      · subst h1; rw [hself, hown]; exact ho'
      · rw [hoth r h1]; exact ho'

theorem write_ok (g : Cfg) (h : Nat) (s : St) (rid off : Nat) (d : Bytes) (hi : InvX g (some h) s)
    (hs : scratch h s rid) (hfit : off + d.length ≤ (s.region rid).cap) :
    InvX g (some h) (s.write rid off d) ∧ Ext h s (s.write rid off d) := by
  have hl := hi.regs rid hs.1
  exact modify_ok g h s rid _ hi hs rfl rfl (by simp only; rw [overwrite_length _ _ _ (by omega), hl])

end Alloc
