import NbioVerif.Lemmas.WsLimits
import NbioVerif.Lemmas.WsTables
/-! C13: the model of Parse against the RFC 6455 transcription, frame sequence level -/
namespace Ws
open WsF

/-- the RFC predicate instantiated for an endpoint: same role, extension and limit; masking direction not enforced;
    "inflate" = what the decompressor really produced for that message, as `readAll` saw it -/
def rfcOf (g : Cfg) (e : Env) : Rfc.Cfg :=
  { server := !g.isClient, compress := g.enableCompression, limit := g.msgLimit, strict := false,
    infl := fun m => match readAll g.msgLimit (m.length * 2) (e.inflate m) with
      | .ok b => .ok b
      | .tooLarge _ => .big
      | _ => .err }

/-- the actions the RFC's events stand for on this endpoint; `i` = frames written before -/
def actsOf (g : Cfg) (e : Env) : Nat → List Rfc.Ev → List Act
  | _, [] => []
  | i, .deliver t p :: r => .deliver t p :: actsOf g e i r
  | i, .pong p :: r => .write (encodeFrame g.isClient (e.keyAt i) 10 true true p false) :: actsOf g e (i + 1) r
  | i, .close p :: r => .write (encodeFrame g.isClient (e.keyAt i) 8 true true p false) :: actsOf g e (i + 1) r

def nReplies : List Rfc.Ev → Nat
  | [] => 0
  | .deliver _ _ :: r => nReplies r
  | _ :: r => nReplies r + 1

theorem actsOf_append (g : Cfg) (e : Env) : ∀ (a b : List Rfc.Ev) (i : Nat),
    actsOf g e i (a ++ b) = actsOf g e i a ++ actsOf g e (i + nReplies a) b := by
  intro a
  induction a with
  | nil => intro b i; simp [actsOf, nReplies]
  | cons x xs ih =>
    intro b i
    cases x with
    | deliver t p => simp [actsOf, nReplies, ih]
    | pong p => simp only [List.cons_append, actsOf, nReplies, ih, List.cons.injEq, true_and]; rw [show i + 1 + nReplies xs = i + (nReplies xs + 1) by omega]
    | close p => simp only [List.cons_append, actsOf, nReplies, ih, List.cons.injEq, true_and]; rw [show i + 1 + nReplies xs = i + (nReplies xs + 1) by omega]

theorem countWrites_actsOf (g : Cfg) (e : Env) : ∀ (a : List Rfc.Ev) (i : Nat), countWrites (actsOf g e i a) = nReplies a := by
  intro a
  induction a with
  | nil => intro i; rfl
  | cons x xs ih =>
    intro i
    cases x with
    | deliver t p => simpa [actsOf, nReplies, countWrites] using ih i
    | pong p => simpa [actsOf, nReplies, countWrites] using ih (i + 1)
    | close p => simpa [actsOf, nReplies, countWrites] using ih (i + 1)

theorem countWrites_append (a b : List Act) : countWrites (a ++ b) = countWrites a + countWrites b := by
  simp [countWrites, List.filter_append]

/-- big-endian 16-bit encode after decode -/
theorem be16_beDec (x y : UInt8) : be16 (beDec [x, y]) = [x, y] := by
  have hx := x.toNat_lt
  have hy := y.toNat_lt
  have e : beDec [x, y] = y.toNat + 256 * x.toNat := by simp [beDec, decLE]
  rw [e]
  simp only [be16, beEnc, encLE, List.reverse_cons, List.reverse_nil, List.nil_append, List.cons_append]
  have h1 : (y.toNat + 256 * x.toNat) % 256 = y.toNat := by omega
  have h2 : (y.toNat + 256 * x.toNat) / 256 % 256 = x.toNat := by omega
  simp [b, h1, h2]

/-- correspondence between what Parse keeps and the state of the RFC's fragmentation rules -/
structure Inv (k : K) (st : Rfc.St) : Prop where
  alive : k.connClosed = false
  exp : k.expecting = st.inMsg
  idle : st.inMsg = false → k.message = none ∧ k.msgType = 0 ∧ st.acc = []
  busy : st.inMsg = true → k.msgType = st.typ ∧ k.compress = st.comp ∧ k.message.getD [] = st.acc ∧ (st.typ = 1 ∨ st.typ = 2)

theorem inv_init : Inv {} {} := ⟨rfl, rfl, fun _ => ⟨rfl, rfl, rfl⟩, fun h => by cases h⟩

theorem inv_len (k : K) (st : Rfc.St) (h : Inv k st) : k.len = st.acc.length := by
  cases hm : st.inMsg with
  | false =>
    have := h.idle hm
    simp [K.len, this.1, this.2.2]
  | true =>
    have := (h.busy hm).2.2.1
    rw [← this, getD_len]

/-! ### header level -/

theorem hdr_accept (g : Cfg) (e : Env) (k : K) (st : Rfc.St) (f : Rfc.Frame) (hi : Inv k st)
    (h : Rfc.hdrCheck (rfcOf g e) st f = none) :
    f.topbit = false ∧ sizeCheck g k.len (szHdr f.op f.declared) = none ∧
      validFrame g f.op f.fin f.r1 f.r2 f.r3 k.expecting = none ∧ f.op ≤ 10 := by
  have hlen := inv_len k st hi
  have hexp := hi.exp
  unfold Rfc.hdrCheck at h
  split at h; · cases h
  rename_i h1
  split at h; · cases h
  rename_i h2
  split at h; · cases h
  rename_i h3
  split at h; · cases h
  rename_i h4
  split at h; · cases h
  split at h; · cases h
  rename_i h5
  split at h; · cases h
  rename_i h6
  split at h; · cases h
  rename_i h7
  split at h; · cases h
  rename_i h8
  split at h; · cases h
  rename_i h9
  simp only [rfcOf, Bool.or_eq_true, Bool.and_eq_true, Bool.not_eq_true', decide_eq_true_eq, beq_iff_eq, not_or, not_and,
    Bool.not_eq_true, Bool.or_eq_false_iff, Bool.and_eq_false_iff, bne_iff_ne, ne_eq] at h1 h2 h3 h4 h5 h6 h7 h8 h9
  refine ⟨by simpa using h1, ?_, ?_, by omega⟩
  · unfold sizeCheck szHdr isControl tooLarge
    simp only
    by_cases hc : f.op = 8 ∨ f.op = 9 ∨ f.op = 10
    · have hd : ¬ ((f.declared : Int) > 125) := by
        have := h6 (by omega); omega
      rcases hc with hc | hc | hc <;> simp [hc, hd]
    · have hop : f.op ≤ 2 := by omega
      have hn8 : f.op ≠ 8 ∧ f.op ≠ 9 ∧ f.op ≠ 10 := by omega
      by_cases hL : g.msgLimit > 0
      · have := of_decide_eq_false (h9 ⟨hop, by simpa using hL⟩)
        have hnt : ¬ ((k.len : Int) + (f.declared : Int) > (g.msgLimit : Int)) := by omega
        simp [hn8, hL, hnt]
      · simp [hn8, hL]
  · unfold validFrame
    rw [hexp]
    cases hr1 : f.r1 <;> cases hr2 : f.r2 <;> cases hr3 : f.r3 <;> cases hfin : f.fin <;> cases hm : st.inMsg <;>
      simp_all
    all_goals (repeat' split)
    all_goals first | rfl | (exfalso; omega)

/-- `validFrame` refuses exactly when one of its six rules fires -/
theorem validFrame_isSome (g : Cfg) (op : Nat) (fin r1 r2 r3 ex : Bool) :
    (validFrame g op fin r1 r2 r3 ex).isSome =
      ((r1 && (!g.enableCompression || (op != 1 && op != 2))) || (r2 || r3) || (decide (op > 2) && decide (op < 8)) ||
        (!fin && op != 0 && op != 1 && op != 2) || (ex && (op == 1 || op == 2)) || (!ex && op == 0)) := by
  unfold validFrame
  repeat' split
  all_goals simp_all

/-- whatever the RFC refuses at header level, Parse refuses at the same frame (possibly for another reason) -/
theorem hdr_reject (g : Cfg) (e : Env) (k : K) (st : Rfc.St) (f : Rfc.Frame) (why : Rfc.Reason) (hi : Inv k st)
    (ht : f.topbit = false) (h : Rfc.hdrCheck (rfcOf g e) st f = some why) :
    ((sizeCheck g k.len (szHdr f.op f.declared)).isSome = true ∨
      (validFrame g f.op f.fin f.r1 f.r2 f.r3 k.expecting).isSome = true ∨ f.op > 10) ∧
    ((why = .ctlLen ∨ why = .tooBig) → (sizeCheck g k.len (szHdr f.op f.declared)).isSome = true) := by
  have hlen := inv_len k st hi
  have hexp := hi.exp
  have notSz : ∀ w : Rfc.Reason, w ≠ .ctlLen → w ≠ .tooBig → some w = some why →
      ((why = .ctlLen ∨ why = .tooBig) → (sizeCheck g k.len (szHdr f.op f.declared)).isSome = true) := by
    intro w h1 h2 hw hh
    cases hw
    rcases hh with hh | hh
    · exact absurd hh h1
    · exact absurd hh h2
  unfold Rfc.hdrCheck at h
  split at h
  · rename_i c; rw [ht] at c; cases c
  split at h
  · rename_i c
    refine ⟨Or.inr (Or.inl ?_), notSz _ (by decide) (by decide) h⟩
    rw [validFrame_isSome]
    simp only [c, Bool.or_true, Bool.true_or]
  split at h
  · rename_i c
    refine ⟨Or.inr (Or.inl ?_), notSz _ (by decide) (by decide) h⟩
    rw [validFrame_isSome]
    have : (f.r1 && (!g.enableCompression || (f.op != 1 && f.op != 2))) = true := by
      simp only [rfcOf, Bool.and_eq_true, Bool.not_eq_true', Bool.and_eq_false_iff, Bool.or_eq_false_iff, beq_eq_false_iff_ne, ne_eq] at c
      rw [c.1]
      rcases c.2 with c | c
      · simp [c]
      · simp [c.1, c.2]
    simp only [this, Bool.true_or]
  split at h
  · rename_i c
    refine ⟨?_, notSz _ (by decide) (by decide) h⟩
    simp only [Bool.or_eq_true, Bool.and_eq_true, decide_eq_true_eq] at c
    rcases c with c | c
    · right; left
      rw [validFrame_isSome]
      have : (decide (f.op > 2) && decide (f.op < 8)) = true := by simp [c.1, c.2]
      simp only [this, Bool.or_true, Bool.true_or]
    · exact Or.inr (Or.inr c)
  split at h
  · rename_i c; simp [rfcOf] at c
  rename_i c1 c2 c3 c4 _
  have hop : f.op ≤ 2 ∨ f.op = 8 ∨ f.op = 9 ∨ f.op = 10 := by
    simp only [Bool.or_eq_true, Bool.and_eq_true, decide_eq_true_eq, not_or, not_and, Nat.not_lt] at c4
    omega
  split at h
  · rename_i c
    refine ⟨Or.inr (Or.inl ?_), notSz _ (by decide) (by decide) h⟩
    simp only [Bool.and_eq_true, decide_eq_true_eq, Bool.not_eq_true'] at c
    rw [validFrame_isSome]
    have : (!f.fin && f.op != 0 && f.op != 1 && f.op != 2) = true := by
      rw [c.2]
      simp only [Bool.not_false, Bool.true_and, Bool.and_eq_true, bne_iff_ne, ne_eq]
      omega
    simp only [this, Bool.or_true, Bool.true_or]
  split at h
  · rename_i c
    simp only [Bool.and_eq_true, decide_eq_true_eq] at c
    have hop8 : f.op = 8 ∨ f.op = 9 ∨ f.op = 10 := by omega
    have : (sizeCheck g k.len (szHdr f.op f.declared)).isSome = true := by
      unfold sizeCheck szHdr isControl
      have hd : ((f.declared : Int) > 125) := by omega
      rcases hop8 with h8 | h8 | h8 <;> simp [h8, hd]
    exact ⟨Or.inl this, fun _ => this⟩
  split at h
  · rename_i c
    refine ⟨Or.inr (Or.inl ?_), notSz _ (by decide) (by decide) h⟩
    simp only [Bool.and_eq_true, beq_iff_eq, Bool.not_eq_true'] at c
    rw [validFrame_isSome, hexp]
    have : (!st.inMsg && f.op == 0) = true := by simp [c.1, c.2]
    simp only [this, Bool.or_true]
  split at h
  · rename_i c
    refine ⟨Or.inr (Or.inl ?_), notSz _ (by decide) (by decide) h⟩
    rw [validFrame_isSome, hexp]
    have : (st.inMsg && (f.op == 1 || f.op == 2)) = true := by
      rw [Bool.and_comm]; exact c
    simp only [this, Bool.or_true, Bool.true_or]
  split at h
  · rename_i c
    simp only [Bool.and_eq_true, decide_eq_true_eq] at c
    have : (sizeCheck g k.len (szHdr f.op f.declared)).isSome = true := by
      unfold sizeCheck szHdr isControl tooLarge
      have hn8 : f.op ≠ 8 ∧ f.op ≠ 9 ∧ f.op ≠ 10 := by omega
      have hL : g.msgLimit > 0 := c.1.2
      have hbig : ((k.len : Int) + (f.declared : Int) > (g.msgLimit : Int)) := by
        have := c.2
        simp only [rfcOf] at this
        omega
      simp [hn8, hL, hbig]
    exact ⟨Or.inl this, fun _ => this⟩
  · cases h

end Ws
