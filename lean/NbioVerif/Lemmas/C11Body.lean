import NbioVerif.Lemmas.C11Own
import NbioVerif.Model.OwnBody
/-! Ownership invariant of the request side (BodyReader, parser cache) and its composition with the
response twin over the shared heap. -/
namespace Own

/-- the pooled buffers a BodyReader holds -/
def bids (br : BR) : List Nat := br.bufs.map (·.id)

/-- heap-level invariant of the request side: the cache buffer `c` and the body buffers `b` are live,
pairwise distinct, and ids are fresh -/
structure RInv (h : Heap) (c : Option Nat) (b : List Nat) : Prop where
  ok : h.bad = none
  fresh : ∀ x, h.live x = true → x < h.next
  cl : ∀ id, c = some id → h.live id = true
  bl : ∀ id ∈ b, h.live id = true
  nd : b.Nodup
  dj : ∀ id, c = some id → id ∉ b

theorem rinv_touch (h : Heap) (c b) (id : Nat) (e) (hi : RInv h c b) (hl : h.live id = true) :
    RInv (h.touch id e) c b := by
  obtain ⟨h1, h2, h3, h4, h5, h6⟩ := hi
  exact ⟨by rw [Heap.touch_bad _ _ _ hl]; exact h1, by simpa using h2, by simpa using h3, by simpa using h4, h5, h6⟩

theorem rinv_malloc_body (h : Heap) (c b) (n : Nat) (hi : RInv h c b) :
    RInv (h.malloc n).1 c (b ++ [h.next]) ∧ (h.malloc n).1.live h.next = true := by
  obtain ⟨h1, h2, h3, h4, h5, h6⟩ := hi
  refine ⟨⟨by simpa using h1, ?_, ?_, ?_, ?_, ?_⟩, by simp⟩
  · intro x hx
    simp at hx
    rcases hx with hx | hx
    · simp; omega
    · have := h2 x hx; simp; omega
  · intro id hid; simp; exact Or.inr (h3 id hid)
  · intro id hid
    simp at hid ⊢
    rcases hid with hid | hid
    · exact Or.inr (h4 id hid)
    · exact Or.inl hid
  · rw [List.nodup_append]
    refine ⟨h5, by simp, ?_⟩
    intro a ha b' hb'
    simp at hb'
    subst hb'
    intro hc; subst hc
    have := h2 _ (h4 _ ha); omega
  · intro id hid hmem
    simp at hmem
    rcases hmem with hmem | hmem
    · exact h6 id hid hmem
    · subst hmem; have := h2 _ (h3 _ hid); omega

theorem rinv_free_head (h : Heap) (c) (id : Nat) (rest : List Nat) (hi : RInv h c (id :: rest)) :
    RInv (h.free id) c rest := by
  obtain ⟨h1, h2, h3, h4, h5, h6⟩ := hi
  have hl : h.live id = true := h4 id (List.mem_cons_self ..)
  have hnd := List.nodup_cons.mp h5
  refine ⟨by rw [Heap.free_bad _ _ hl]; exact h1, ?_, ?_, ?_, hnd.2, ?_⟩
  · intro x hx; simpa using h2 x (Heap.free_live_le _ _ _ hx)
  · intro i hi'
    rw [Heap.free_live_at _ _ _ hl]
    have : i ≠ id := by
      intro hc; subst hc; exact h6 i hi' (List.mem_cons_self ..)
    simp [this, h3 i hi']
  · intro i hi'
    rw [Heap.free_live_at _ _ _ hl]
    have : i ≠ id := by
      intro hc; subst hc; exact hnd.1 hi'
    simp [this, h4 i (List.mem_cons_of_mem _ hi')]
  · intro i hi' hmem; exact h6 i hi' (List.mem_cons_of_mem _ hmem)

theorem rinv_freeAll (h : Heap) (c) (bufs : List BBuf) (hi : RInv h c (bufs.map (·.id))) :
    RInv (freeAll h bufs) c [] := by
  induction bufs generalizing h with
  | nil => exact hi
  | cons b rest ih =>
    unfold freeAll
    exact ih _ (rinv_free_head h c b.id _ hi)

theorem rinv_free_next (h : Heap) (c b) (id : Nat) (hi : RInv h c b) : ∀ x, (h.free id).live x = true → x < (h.free id).next := by
  intro x hx; simpa using hi.fresh x (Heap.free_live_le _ _ _ hx)

/-- fillLast only logs/touches: liveness, ids and `next` are unchanged -/
theorem fillLast_live (h : Heap) (bufs : List BBuf) (n x : Nat) : (fillLast h bufs n).1.live x = h.live x := by
  induction bufs with
  | nil => rfl
  | cons b rest ih =>
    cases rest with
    | nil => unfold fillLast; split <;> simp
    | cons b2 r2 => unfold fillLast; dsimp only; exact ih

theorem fillLast_inv (h : Heap) (c : Option Nat) (bufs : List BBuf) (n : Nat) (hi : RInv h c (bufs.map (·.id))) :
    RInv (fillLast h bufs n).1 c (bufs.map (·.id)) ∧ (fillLast h bufs n).2.1.map (·.id) = bufs.map (·.id) := by
  induction bufs with
  | nil => exact ⟨hi, rfl⟩
  | cons b rest ih =>
    cases rest with
    | nil =>
      unfold fillLast
      split
      · exact ⟨rinv_touch h c _ b.id none hi (hi.bl b.id (by simp)), rfl⟩
      · exact ⟨hi, rfl⟩
    | cons b2 r2 =>
      unfold fillLast
      dsimp only
      -- the tail satisfies the invariant on its own ids; touching inside it keeps `b` live
      have hnd := List.nodup_cons.mp hi.nd
      have hi' : RInv h c ((b2 :: r2).map (·.id)) :=
        ⟨hi.ok, hi.fresh, hi.cl, fun id hid => hi.bl id (List.mem_cons_of_mem _ hid), hnd.2,
          fun id hid hm => hi.dj id hid (List.mem_cons_of_mem _ hm)⟩
      obtain ⟨i1, i2⟩ := ih hi'
      refine ⟨⟨i1.ok, i1.fresh, i1.cl, ?_, hi.nd, hi.dj⟩, by simp [i2]⟩
      intro id hid
      simp only [List.map_cons, List.mem_cons] at hid
      rcases hid with hid | hid
      · subst hid
        have := fillLast_live h (b2 :: r2) n b.id
        rw [this]; exact hi.bl b.id (by simp)
      · exact i1.bl id (by simpa using hid)

theorem touchSrc_inv (h : Heap) (c : Option Nat) (b) (src : Option Nat) (hi : RInv h c b)
    (hs : src = none ∨ src = c) : RInv (touchSrc h src) c b := by
  cases src with
  | none => exact hi
  | some id =>
    have : c = some id := by
      rcases hs with hs | hs
      · cases hs
      · exact hs.symm
    exact rinv_touch h c b id none hi (hi.cl id this)

theorem brAppend_inv (capOf : Nat → Nat) (maxBody : Nat) (h : Heap) (br : BR) (c src : Option Nat) (n : Nat)
    (hi : RInv h c (bids br)) (hs : src = none ∨ src = c) :
    RInv (brAppend capOf maxBody h br src n).1 c (bids (brAppend capOf maxBody h br src n).2.1) := by
  unfold brAppend
  split
  · exact hi
  · split
    · exact hi
    · dsimp only
      have h1 := touchSrc_inv h c _ src hi hs
      obtain ⟨f1, f2⟩ := fillLast_inv (touchSrc h src) c br.bufs n h1
      split
      · have f1' : RInv (fillLast (touchSrc h src) br.bufs n).1 c ((fillLast (touchSrc h src) br.bufs n).2.1.map (·.id)) := by
          rw [f2]; exact f1
        obtain ⟨m1, m2⟩ := rinv_malloc_body _ c _ (n - (fillLast (touchSrc h src) br.bufs n).2.2) f1'
        have := rinv_touch _ c _ _ none m1 m2
        simpa [bids] using this
      · unfold bids at *
        dsimp only
        rw [f2]; exact f1

theorem brReadLoop_inv (f : Nat) (h : Heap) (br : BR) (c : Option Nat) (need nc : Nat)
    (hi : RInv h c (bids br)) :
    RInv (brReadLoop f h br need nc).1 c (bids (brReadLoop f h br need nc).2.1) := by
  induction f generalizing h br nc with
  | zero => exact hi
  | succ f ih =>
    unfold brReadLoop
    split
    · exact hi
    · cases hb : br.bufs with
      | nil =>
        dsimp only
        unfold bids at *
        rw [hb] at hi
        simpa [hb] using hi
      | cons b rest =>
        dsimp only
        have hi' : RInv h c (b.id :: rest.map (·.id)) := by
          unfold bids at hi; rw [hb] at hi; simpa using hi
        split
        · apply ih
          exact rinv_free_head h c b.id _ hi'
        · have ht := rinv_touch h c _ b.id none hi' (hi'.bl b.id (by simp))
          split
          · apply ih
            exact rinv_free_head _ c b.id _ ht
          · apply ih
            unfold bids
            dsimp only
            simpa using ht

theorem brRead_inv (h : Heap) (br : BR) (c : Option Nat) (need : Nat) (hi : RInv h c (bids br)) :
    RInv (brRead h br need).1 c (bids (brRead h br need).2.1) := by
  unfold brRead
  split
  · exact hi
  · split
    · exact hi
    · exact brReadLoop_inv _ h br c need 0 hi

theorem brClose_inv (h : Heap) (br : BR) (c : Option Nat) (hi : RInv h c (bids br)) :
    RInv (brClose h br).1 c (bids (brClose h br).2) := by
  unfold brClose
  split
  · exact hi
  · exact rinv_freeAll h c br.bufs hi

/-! ### what the request-side operations do NOT touch -/

theorem free_live_other (h : Heap) (id x : Nat) (hx : x ≠ id) : (h.free id).live x = h.live x := by
  unfold Heap.free
  split
  · simp [hx]
  · simp

theorem freeAll_next (h : Heap) (bufs : List BBuf) : (freeAll h bufs).next = h.next := by
  induction bufs generalizing h with
  | nil => rfl
  | cons b rest ih => unfold freeAll; rw [ih]; simp

theorem freeAll_live_other (h : Heap) (bufs : List BBuf) (x : Nat) (hx : x ∉ bufs.map (·.id)) :
    (freeAll h bufs).live x = h.live x := by
  induction bufs generalizing h with
  | nil => rfl
  | cons b rest ih =>
    unfold freeAll
    simp only [List.map_cons, List.mem_cons, not_or] at hx
    rw [ih _ hx.2, free_live_other _ _ _ hx.1]

theorem brReadLoop_frame (f : Nat) (h : Heap) (br : BR) (need nc : Nat) :
    (brReadLoop f h br need nc).1.next = h.next ∧
    (∀ x, x ∉ bids br → (brReadLoop f h br need nc).1.live x = h.live x) ∧
    (∀ id ∈ bids (brReadLoop f h br need nc).2.1, id ∈ bids br) := by
  induction f generalizing h br nc with
  | zero => exact ⟨rfl, fun _ _ => rfl, fun _ h => h⟩
  | succ f ih =>
    unfold brReadLoop
    split
    · exact ⟨rfl, fun _ _ => rfl, fun _ h => h⟩
    · cases hb : br.bufs with
      | nil =>
        dsimp only
        refine ⟨rfl, fun _ _ => rfl, ?_⟩
        intro id hid; unfold bids at *; simp [hb] at hid
      | cons b rest =>
        dsimp only
        have hsub : ∀ id, id ∈ rest.map (·.id) → id ∈ bids br := by
          intro id hid; unfold bids; rw [hb]; simp; exact Or.inr (by simpa using hid)
        have hbin : b.id ∈ bids br := by unfold bids; rw [hb]; simp
        split
        · obtain ⟨i1, i2, i3⟩ := ih (h.free b.id) { br with bufs := rest, index := 0 } nc
          refine ⟨by rw [i1]; simp, ?_, fun id hid => hsub id (i3 id hid)⟩
          intro x hx
          rw [i2 x (fun hc => hx (hsub x hc)), free_live_other _ _ _ (fun hc => hx (by rw [hc]; exact hbin))]
        · split
          · obtain ⟨i1, i2, i3⟩ := ih ((h.touch b.id none).free b.id)
              { br with bufs := rest, index := 0, left := br.left - min (need - nc) (b.len - br.index) }
              (nc + min (need - nc) (b.len - br.index))
            refine ⟨by rw [i1]; simp, ?_, fun id hid => hsub id (i3 id hid)⟩
            intro x hx
            rw [i2 x (fun hc => hx (hsub x hc)), free_live_other _ _ _ (fun hc => hx (by rw [hc]; exact hbin))]
            simp
          · obtain ⟨i1, i2, i3⟩ := ih (h.touch b.id none)
              { br with bufs := b :: rest, index := br.index + min (need - nc) (b.len - br.index),
                        left := br.left - min (need - nc) (b.len - br.index) }
              (nc + min (need - nc) (b.len - br.index))
            have hbe : ∀ (i l : Nat), bids ({ br with bufs := b :: rest, index := i, left := l } : BR) = bids br := by
              intro i l; unfold bids; dsimp only; rw [hb]
            rw [hbe] at i2 i3
            refine ⟨by rw [i1]; simp, ?_, ?_⟩
            · intro x hx
              rw [i2 x hx]
              simp
            · intro id hid; exact i3 id hid

theorem brRead_frame (h : Heap) (br : BR) (need : Nat) :
    (brRead h br need).1.next = h.next ∧
    (∀ x, x ∉ bids br → (brRead h br need).1.live x = h.live x) ∧
    (∀ id ∈ bids (brRead h br need).2.1, id ∈ bids br) := by
  unfold brRead
  split
  · exact ⟨rfl, fun _ _ => rfl, fun _ h => h⟩
  · split
    · exact ⟨rfl, fun _ _ => rfl, fun _ h => h⟩
    · exact brReadLoop_frame _ h br need 0

theorem brClose_frame (h : Heap) (br : BR) :
    (brClose h br).1.next = h.next ∧
    (∀ x, x ∉ bids br → (brClose h br).1.live x = h.live x) ∧
    (∀ id ∈ bids (brClose h br).2, id ∈ bids br) := by
  unfold brClose
  split
  · exact ⟨rfl, fun _ _ => rfl, fun _ h => h⟩
  · refine ⟨freeAll_next _ _, fun x hx => freeAll_live_other _ _ x hx, ?_⟩
    intro id hid; unfold bids at hid; simp at hid

/-! ### the response twin and the request side on one heap -/

/-- the response does not care which snapshot of the foreign ids is used, as long as it is live -/
theorem inv_resnap {B : Nat} {S S' : Nat → Bool} (o : O) (h : Inv B S o)
    (hs : ∀ x, x < B → S' x = true → o.heap.live x = true) : Inv B S' o :=
  ⟨h.ok, h.fresh, h.b1, h.b2, h.ne, h.own1, h.own2, hs, h.basele⟩

/-- a heap change that only concerns ids below `B` (the request side's) keeps the response invariant -/
theorem inv_foreign {B : Nat} {S : Nat → Bool} (o : O) (h' : Heap) (h : Inv B S o)
    (hbad : h'.bad = none) (hnext : h'.next = o.heap.next)
    (hlive : ∀ x, B ≤ x → h'.live x = o.heap.live x)
    (hfresh : ∀ x, h'.live x = true → x < h'.next) : Inv B (fun _ => false) { o with heap := h' } := by
  refine ⟨hbad, hfresh, ?_, ?_, h.ne, h.own1, h.own2, (by intro x _ hc; cases hc), (by rw [hnext]; exact h.basele)⟩
  · intro id n hb; rw [hlive id (h.own1 id n hb)]; exact h.b1 id n hb
  · intro id n hb; rw [hlive id (h.own2 id n hb)]; exact h.b2 id n hb

/-- the handler is running: response invariant, request-side invariant, and the request side's ids are
all older than the response -/
structure HInv (B : Nat) (o : O) (c : Option Nat) (br : BR) : Prop where
  inv : Inv B (fun _ => false) o
  rinv : RInv o.heap c (bids br)
  cold : ∀ id, c = some id → id < B
  bold : ∀ id ∈ bids br, id < B

/-- any step of the response keeps the request side intact -/
theorem hinv_resp {B : Nat} (o o' : O) (c : Option Nat) (br : BR) (h : HInv B o c br)
    (hstep : ∀ S, Inv B S o → Inv B S o') : HInv B o' c br := by
  have hi := hstep o.heap.live (inv_resnap o h.inv (fun _ _ hx => hx))
  refine ⟨inv_resnap o' hi (by intro x _ hc; cases hc), ⟨hi.ok, hi.fresh, ?_, ?_, h.rinv.nd, h.rinv.dj⟩, h.cold, h.bold⟩
  · intro id hid; exact hi.frame id (h.cold id hid) (h.rinv.cl id hid)
  · intro id hid; exact hi.frame id (h.bold id hid) (h.rinv.bl id hid)

theorem runHandler_inv {B : Nat} (hops : List HOp) (o : O) (c : Option Nat) (br : BR) (h : HInv B o c br) :
    HInv B (runHandler o br hops).1 c (runHandler o br hops).2.1 := by
  induction hops generalizing o br with
  | nil => exact h
  | cons op rest ih =>
    cases op with
    | read n =>
      unfold runHandler
      dsimp only
      apply ih
      have r1 := brRead_inv o.heap br c n h.rinv
      obtain ⟨f1, f2, f3⟩ := brRead_frame o.heap br n
      refine ⟨inv_foreign o _ h.inv r1.ok f1 ?_ r1.fresh, r1, h.cold, fun id hid => h.bold id (f3 id hid)⟩
      intro x hx
      exact f2 x (fun hc => by have := h.bold x hc; omega)
    | close =>
      unfold runHandler
      dsimp only
      apply ih
      have r1 := brClose_inv o.heap br c h.rinv
      obtain ⟨f1, f2, f3⟩ := brClose_frame o.heap br
      refine ⟨inv_foreign o _ h.inv r1.ok f1 ?_ r1.fresh, r1, h.cold, fun id hid => h.bold id (f3 id hid)⟩
      intro x hx
      exact f2 x (fun hc => by have := h.bold x hc; omega)
    | resp e rop =>
      unfold runHandler
      apply ih
      exact hinv_resp o _ c br h (fun S hi => step_inv e o rop hi)

/-- between Parse calls / handler calls: the response holds nothing -/
theorem rinv_forget' (h : Heap) (c b) (hi : RInv h c b) : RInv h c [] :=
  ⟨hi.ok, hi.fresh, hi.cl, (by intro id hid; cases hid), List.nodup_nil, (by intro id _ hid; cases hid)⟩

structure PInv (s : PS) : Prop where
  rinv : RInv s.heap (s.cache.map (·.1)) (bids (s.body.getD {}))
  e1 : s.o.buffer = none
  e2 : s.o.bodyBuffer = none

theorem complete_inv (s : PS) (hd : Handler) (h : PInv s) : PInv (complete s hd).1 := by
  unfold complete
  dsimp only
  split
  · have r := brClose_inv s.heap (s.body.getD {}) _ h.rinv
    exact ⟨rinv_forget' _ _ _ r, rfl, rfl⟩
  have h0 : HInv s.heap.next { heap := s.heap } (s.cache.map (·.1)) (s.body.getD {}) := by
    refine ⟨⟨h.rinv.ok, h.rinv.fresh, ?_, ?_, ?_, ?_, ?_, (by intro x _ hc; cases hc), Nat.le_refl _⟩, h.rinv,
      fun id hid => h.rinv.fresh id (h.rinv.cl id hid), fun id hid => h.rinv.fresh id (h.rinv.bl id hid)⟩
    all_goals (intros; simp_all)
  have h1 := runHandler_inv hd.ops _ _ _ h0
  generalize runHandler { heap := s.heap } (s.body.getD {}) hd.ops = p at *
  obtain ⟨o1, br1, out⟩ := p
  dsimp only at h1 ⊢
  have h2 := hinv_resp o1 (finishFlush hd.fin o1).1 _ br1 h1 (fun S hi => finishFlush_inv hd.fin o1 hi)
  generalize (finishFlush hd.fin o1).1 = o2 at *
  have r3 := brClose_inv o2.heap br1 _ h2.rinv
  obtain ⟨f1, f2, f3⟩ := brClose_frame o2.heap br1
  have h3 : HInv s.heap.next { o2 with heap := (brClose o2.heap br1).1 } (s.cache.map (·.1)) (brClose o2.heap br1).2 := by
    refine ⟨inv_foreign o2 _ h2.inv r3.ok f1 ?_ r3.fresh, r3, h2.cold, fun id hid => h2.bold id (f3 id hid)⟩
    intro x hx
    exact f2 x (fun hc => by have := h2.bold x hc; omega)
  have h4 := hinv_resp _ (release { o2 with heap := (brClose o2.heap br1).1 }) _ _ h3 (fun S hi => release_inv _ hi)
  refine ⟨?_, rfl, rfl⟩
  have hb : bids ((none : Option BR).getD {}) = [] := rfl
  show RInv (release { o2 with heap := (brClose o2.heap br1).1 }).heap _ (bids ((none : Option BR).getD {}))
  rw [hb]
  exact ⟨h4.rinv.ok, h4.rinv.fresh, h4.rinv.cl, (by intro id hid; cases hid), List.nodup_nil, (by intro id _ hid; cases hid)⟩

theorem withHeap_proj (s : PS) (h : Heap) :
    (s.withHeap h).heap = h ∧ (s.withHeap h).cache = s.cache ∧ (s.withHeap h).body = s.body ∧
    (s.withHeap h).o.buffer = s.o.buffer ∧ (s.withHeap h).o.bodyBuffer = s.o.bodyBuffer ∧
    (s.withHeap h).closed = s.closed := ⟨rfl, rfl, rfl, rfl, rfl, rfl⟩

theorem events_inv (capOf : Nat → Nat) (maxBody : Nat) (hd : Handler) (evs : List (Option Nat)) (s : PS)
    (h : PInv s) : PInv (events capOf maxBody hd s evs).1 ∧
      (events capOf maxBody hd s evs).1.cache = s.cache ∧ (events capOf maxBody hd s evs).1.closed = s.closed := by
  induction evs generalizing s with
  | nil => exact ⟨h, rfl, rfl⟩
  | cons ev rest ih =>
    cases ev with
    | some n =>
      unfold events
      dsimp only
      have ha := brAppend_inv capOf maxBody s.heap (s.body.getD {}) (s.cache.map (·.1)) (s.cache.map (·.1)) n
        h.rinv (Or.inr rfl)
      have hp : PInv (({ s with body := some (brAppend capOf maxBody s.heap (s.body.getD {}) (s.cache.map (·.1)) n).2.1 } : PS).withHeap
          (brAppend capOf maxBody s.heap (s.body.getD {}) (s.cache.map (·.1)) n).1) :=
        ⟨ha, h.e1, h.e2⟩
      obtain ⟨i1, i2, i3⟩ := ih _ hp
      exact ⟨i1, i2, i3⟩
    | none =>
      unfold events
      dsimp only
      have hc := complete_inv s hd h
      have hcc : (complete s hd).1.cache = s.cache ∧ (complete s hd).1.closed = s.closed := by
        unfold complete; dsimp only; split <;> exact ⟨rfl, rfl⟩
      generalize complete s hd = p at *
      obtain ⟨s1, out⟩ := p
      dsimp only at hc hcc ⊢
      obtain ⟨i1, i2, i3⟩ := ih s1 hc
      exact ⟨i1, i2.trans hcc.1, i3.trans hcc.2⟩

theorem rinv_malloc_cache (h : Heap) (b : List Nat) (n : Nat) (hi : RInv h none b) :
    RInv ((h.malloc n).1.touch h.next none) (some h.next) b := by
  obtain ⟨h1, h2, h3, h4, h5, h6⟩ := hi
  have hl : (h.malloc n).1.live h.next = true := by simp
  refine ⟨by rw [Heap.touch_bad _ _ _ hl]; simpa using h1, ?_, ?_, ?_, h5, ?_⟩
  · intro x hx
    simp at hx ⊢
    rcases hx with hx | hx
    · omega
    · have := h2 x hx; omega
  · intro id hid; cases hid; simp
  · intro id hid; simp; exact Or.inr (h4 id hid)
  · intro id hid hm; cases hid
    have := h2 _ (h4 _ hm); omega

theorem rinv_replace_cache (h : Heap) (old : Nat) (b : List Nat) (n : Nat) (hi : RInv h (some old) b) :
    RInv ((((h.malloc n).1.touch h.next none).touch old none).free old) (some h.next) b := by
  obtain ⟨h1, h2, h3, h4, h5, h6⟩ := hi
  have hlo := h3 old rfl
  have hne : old ≠ h.next := by have := h2 old hlo; omega
  have hl1 : (h.malloc n).1.live h.next = true := by simp
  have hl2 : ((h.malloc n).1.touch h.next none).live old = true := by simp [hlo]
  have hl3 : (((h.malloc n).1.touch h.next none).touch old none).live old = true := by simp [hlo]
  refine ⟨?_, ?_, ?_, ?_, h5, ?_⟩
  · rw [Heap.free_bad _ _ hl3, Heap.touch_bad _ _ _ hl2, Heap.touch_bad _ _ _ hl1]; simpa using h1
  · intro x hx
    have := Heap.free_live_le _ _ _ hx
    simp at this ⊢
    rcases this with hx' | hx'
    · omega
    · have := h2 x hx'; omega
  · intro id hid; cases hid
    rw [Heap.free_live_at _ _ _ hl3]
    simp [Ne.symm hne]
  · intro id hid
    rw [Heap.free_live_at _ _ _ hl3]
    have : id ≠ old := fun hc => h6 old rfl (hc ▸ hid)
    simp [this, h4 id hid]
  · intro id hid hm; cases hid
    have := h2 _ (h4 _ hm); omega

theorem parseExit_inv (s : PS) (total left : Nat) (h : PInv s) : PInv (parseExit s total left) := by
  unfold parseExit
  split
  · cases hc : s.cache with
    | none =>
      dsimp only
      have hr : RInv s.heap none (bids (s.body.getD {})) := by have := h.rinv; rw [hc] at this; exact this
      exact ⟨rinv_malloc_cache s.heap _ left hr, h.e1, h.e2⟩
    | some p =>
      obtain ⟨old, len⟩ := p
      dsimp only
      split
      · have hr : RInv s.heap (some old) (bids (s.body.getD {})) := by have := h.rinv; rw [hc] at this; exact this
        exact ⟨rinv_replace_cache s.heap old _ left hr, h.e1, h.e2⟩
      · exact h
  · cases hc : s.cache with
    | none => exact h
    | some p =>
      obtain ⟨old, len⟩ := p
      dsimp only
      have hr : RInv s.heap (some old) (bids (s.body.getD {})) := by have := h.rinv; rw [hc] at this; exact this
      have hlo := hr.cl old rfl
      refine ⟨⟨?_, ?_, ?_, ?_, hr.nd, ?_⟩, h.e1, h.e2⟩
      · show (s.heap.free old).bad = none
        rw [Heap.free_bad _ _ hlo]; exact hr.ok
      · intro x hx
        have : s.heap.live x = true := Heap.free_live_le _ _ _ hx
        have := hr.fresh x this
        show x < (s.heap.free old).next
        simpa using this
      · intro id hid; cases hid
      · intro id hid
        show (s.heap.free old).live id = true
        rw [Heap.free_live_at _ _ _ hlo]
        have : id ≠ old := fun hcc => hr.dj old rfl (hcc ▸ hid)
        simp [this, hr.bl id hid]
      · intro id hid; cases hid

theorem parse_inv (capOf : Nat → Nat) (maxBody rl : Nat) (hd : Handler) (s : PS) (n : Nat) (res : ParseRes)
    (h : PInv s) : PInv (parse capOf maxBody rl hd s n res).1 := by
  unfold parse
  split
  · exact h
  · split
    · exact h
    · -- the entry paragraph: append to the cache
      have hentry : ∀ s1 total, (match s.cache with
            | some (id, len) =>
              if rl > 0 && len + n > rl then none
              else some (({ s with cache := some (id, len + n) } : PS).withHeap (s.heap.touch id (some (.append id))), len + n)
            | none => some (s, n)) = some (s1, total) → PInv s1 := by
        intro s1 total he
        cases hc : s.cache with
        | none => rw [hc] at he; simp at he; rw [← he.1]; exact h
        | some p =>
          obtain ⟨id, len⟩ := p
          rw [hc] at he
          dsimp only at he
          split at he
          · cases he
          · simp at he
            rw [← he.1]
            have hr : RInv s.heap (some id) (bids (s.body.getD {})) := by have := h.rinv; rw [hc] at this; exact this
            exact ⟨rinv_touch s.heap (some id) _ id (some (.append id)) hr (hr.cl id rfl), h.e1, h.e2⟩
      split
      · exact h
      · rename_i s1 total he
        have h1 := hentry s1 total he
        obtain ⟨e1, _, _⟩ := events_inv capOf maxBody hd res.evs s1 h1
        generalize events capOf maxBody hd s1 res.evs = p at *
        obtain ⟨s2, out⟩ := p
        dsimp only at e1 ⊢
        split
        · exact e1
        · exact parseExit_inv s2 total res.left e1

theorem rinv_forget (h : Heap) (c b) (hi : RInv h c b) : RInv h c [] :=
  ⟨hi.ok, hi.fresh, hi.cl, (by intro id hid; cases hid), List.nodup_nil, (by intro id _ hid; cases hid)⟩

theorem closeAndClean_inv (s : PS) (h : PInv s) : PInv (closeAndClean s) := by
  unfold closeAndClean
  split
  · exact h
  · -- body first, then the cache
    have hb : RInv (closeBody s) (s.cache.map (·.1)) [] := by
      unfold closeBody
      cases hbd : s.body with
      | none =>
        have := h.rinv; rw [hbd] at this
        exact rinv_forget _ _ _ this
      | some br =>
        have := h.rinv; rw [hbd] at this
        exact rinv_forget _ _ _ (brClose_inv s.heap br _ this)
    generalize closeBody s = h1 at *
    refine ⟨?_, h.e1, h.e2⟩
    show RInv (freeCache h1 s.cache) none []
    cases hc : s.cache with
    | none =>
      exact ⟨hb.ok, hb.fresh, (by intro id hid; cases hid), (by intro id hid; cases hid), List.nodup_nil,
        (by intro id hid; cases hid)⟩
    | some p =>
      obtain ⟨id, len⟩ := p
      unfold freeCache
      rw [hc] at hb
      have hl := hb.cl id rfl
      refine ⟨by rw [Heap.free_bad _ _ hl]; exact hb.ok, ?_, (by intro i hi; cases hi), (by intro i hi; cases hi),
        List.nodup_nil, (by intro i hi; cases hi)⟩
      intro x hx
      have := hb.fresh x (Heap.free_live_le _ _ _ hx)
      simpa using this

theorem pstep_inv (capOf : Nat → Nat) (maxBody rl : Nat) (hd : Handler) (s : PS) (op : POp) (h : PInv s) :
    PInv (pstep capOf maxBody rl hd s op) := by
  cases op with
  | parse n res => exact parse_inv capOf maxBody rl hd s n res h
  | close => exact closeAndClean_inv s h

theorem prun_inv (capOf : Nat → Nat) (maxBody rl : Nat) (hd : Handler) (ops : List POp) (s : PS) (h : PInv s) :
    PInv (prun capOf maxBody rl hd s ops) := by
  induction ops generalizing s with
  | nil => exact h
  | cons op rest ih => exact ih _ (pstep_inv capOf maxBody rl hd s op h)

theorem pinv_init : PInv {} :=
  ⟨⟨rfl, (by intro x hx; cases hx), (by intro id hid; cases hid), (by intro id hid; cases hid), List.nodup_nil,
    (by intro id hid; cases hid)⟩, rfl, rfl⟩

end Own
