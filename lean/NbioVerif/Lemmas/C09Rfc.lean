import NbioVerif.Lemmas.C09Choice
import NbioVerif.Lemmas.C09Run
import NbioVerif.Lemmas.C09Head
/-! RFC 7230 §3.3 as CONSTRAINTS on what a server announces, written without reference to how
`checkChunked` computes its decision (the decision table `rfcChunked` of C09Choice mirrors the code's three
disjuncts; this file is the independent side). -/
namespace Resp

theorem hget_hdel_self (h : Header) (k : Bytes) : hget (hdel h k) k = [] := by
  unfold hget hdel
  have : (h.filter (·.1 != k)).find? (·.1 == k) = none := by
    rw [List.find?_eq_none]
    intro x hx
    have := (List.mem_filter.mp hx).2
    simpa using this
  rw [this]

theorem find_map_hit (k : Bytes) (nv : List Bytes) (f : Bytes × List Bytes → List Bytes) (h : Header)
    (hany : h.any (·.1 == k) = true) :
    (h.map (fun e => if e.1 == k then (k, f e) else e)).find? (·.1 == k) =
      (h.find? (·.1 == k)).map (fun e => (k, f e)) := by
  induction h with
  | nil => simp at hany
  | cons e t ih =>
    by_cases he : e.1 = k
    · simp [List.find?_cons, he]
    · have ht : t.any (·.1 == k) = true := by simpa [he] using hany
      simp only [List.map_cons, List.find?_cons]
      have h1 : ((if (e.1 == k) = true then (k, f e) else e).1 == k) = false := by simp [he]
      have h2 : (e.1 == k) = false := by simp [he]
      rw [h1, h2]
      exact ih ht

theorem hget_hset_self (h : Header) (k v : Bytes) : hget (hset h k v) k = [v] := by
  unfold hget hset
  by_cases hany : h.any (·.1 == k) = true
  · rw [if_pos hany, find_map_hit k [v] (fun _ => [v]) h hany]
    obtain ⟨x, hx, hk⟩ := List.any_eq_true.mp hany
    cases hf : h.find? (·.1 == k) with
    | none => rw [List.find?_eq_none] at hf; exact absurd hk (hf x hx)
    | some e => rfl
  · rw [if_neg hany]
    have hn : h.find? (·.1 == k) = none := by
      rw [List.find?_eq_none]
      intro x hx hc
      exact hany (List.any_eq_true.mpr ⟨x, hx, hc⟩)
    simp [List.find?_append, hn]

/-- statuses whose responses never have a body: 1xx, 204, 304 (RFC 7230 §3.3.3 rule 1) -/
def bodiless (status : Nat) : Bool := (100 ≤ status && status < 200) || status == 204 || status == 304

/-- **RFC 7230 §3.3.1–§3.3.3 (and §4.1.2) for a server**, as constraints on what the response announces:
`te` = the head carries `Transfer-Encoding: chunked`, `cl` = the head carries a handler-supplied
`Content-Length`; `chunkedBody` = the body is sent in chunked coding. -/
structure RfcFraming (v11 : Bool) (status : Nat) (asksChunked asksTrailers : Bool)
    (te cl chunkedBody : Bool) : Prop where
  /-- the announcement and the coding agree -/
  coherent : te = chunkedBody
  /-- §3.3.1: MUST NOT send Transfer-Encoding unless the request indicates HTTP/1.1 -/
  te_needs_11 : te = true → v11 = true
  /-- §3.3.1: MUST NOT send Transfer-Encoding with 1xx or 204 (and a 304 has no body to code) -/
  te_not_bodiless : te = true → bodiless status = false
  /-- §3.3.2: MUST NOT send Content-Length when Transfer-Encoding is present -/
  not_both : ¬ (te = true ∧ cl = true)
  /-- §4.1.2: a trailer section exists only in chunked coding; an explicit request for chunked is honoured -/
  honoured : asksChunked = true ∨ asksTrailers = true → te = true
  /-- §3.3.3 rules 3–5 on a persistent connection: a response that may have a body is self-delimiting -/
  delimited : v11 = true → bodiless status = false → te = true ∨ cl = true

/-- what the handler may ask for a given status (beyond `saneFraming`): a final status (not 1xx), and no
chunked coding / trailers on 204 and 304 -/
def saneStatus (hdr : Header) (status : Nat) : Bool :=
  !(100 ≤ status && status < 200) &&
  (!(status == 204 || status == 304) ||
    !((hget hdr kTE).contains (str "chunked") || (hget hdr kTrailer) ≠ []))

/-- the constraints on Booleans: the decision formula satisfies them whenever the handler's requests are
satisfiable -/
theorem rfc_bool (a t v c s1 s204 s304 hcl : Bool)
    (hask : (!(a || t) || v) = true) (hst : (!s1 && (!(s204 || s304) || !(a || t))) = true)
    (hcimp : c = false → hcl = true) (st : Nat) (hbl : bodiless st = (s1 || s204 || s304)) :
    RfcFraming v st a t (a || ((v && c && !s204 && !s304) || t)) (!(a || ((v && c && !s204 && !s304) || t)) && hcl)
      (a || ((v && c && !s204 && !s304) || t)) := by
  refine ⟨rfl, ?_, ?_, ?_, ?_, ?_⟩
  · clear hbl; revert a t v c s1 s204 s304 hcl; decide
  · rw [hbl]; clear hbl; revert a t v c s1 s204 s304 hcl; decide
  · clear hbl; revert a t v c s1 s204 s304 hcl; decide
  · intro h; cases a <;> cases t <;> simp_all
  · rw [hbl]; intro hv hb
    cases a <;> cases t <;> cases v <;> cases c <;> cases s1 <;> cases s204 <;> cases s304 <;> simp_all

/-- the observables of the state after the prelude, as functions of the handler's header map and status -/
theorem framing_obs (g : Cfg) (hdr : Header) (sc : Nat) (st : Bytes) (hs : saneFraming g hdr = true) :
    let b := checkChunked g (writeHeader200 (start hdr sc st))
    let s := if sc = 0 then 200 else sc
    b.statusCode = s ∧
      b.chunked = ((hget hdr kTE).contains (str "chunked") ||
        ((g.proto11 && hfirst hdr kCL == [] && !(s == 204) && !(s == 304)) || decide (hget hdr kTrailer ≠ []))) ∧
      (hget b.header kTE).contains (str "chunked") = b.chunked ∧
      decide (hget b.header kCL ≠ []) = (!b.chunked && decide (hget hdr kCL ≠ [])) := by
  intro b s
  obtain ⟨w1, w2, w3, w4⟩ := writeHeader200_sane g hdr sc st hs
  have hb : b = checkChunked g (writeHeader200 (start hdr sc st)) := rfl
  have hs' : s = if sc = 0 then 200 else sc := rfl
  generalize writeHeader200 (start hdr sc st) = r1 at *
  generalize (if sc = 0 then 200 else sc) = s0 at *
  subst hs'
  have hne1 : kTE ≠ kCL := by decide
  unfold checkChunked at hb
  simp only [w3, Bool.false_eq_true, ↓reduceIte, w1, w2] at hb
  have hcont : [str "chunked"].contains (str "chunked") = true := by decide
  cases ha : (hget hdr kTE).contains (str "chunked") with
  | true =>
    simp only [ha, ↓reduceIte] at hb
    have e1 : b.header = hdel hdr kCL := by rw [hb]
    have e2 : b.chunked = true := by rw [hb]
    have e3 : b.statusCode = s := by (rw [hb]; try exact w2)
    rw [e1, e2, e3, hget_hdel_ne _ _ _ hne1, hget_hdel_self, ha]
    simp
  | false =>
    simp only [ha, Bool.false_eq_true, ↓reduceIte] at hb
    by_cases hc : (g.proto11 && hfirst hdr kCL == [] && s != 204 && s != 304 || decide (hget hdr kTrailer ≠ [])) = true
    · rw [if_pos hc] at hb
      have e1 : b.header = hdel (hset hdr kTE (str "chunked")) kCL := by rw [hb]
      have e2 : b.chunked = true := by rw [hb]
      have e3 : b.statusCode = s := by (rw [hb]; try exact w2)
      rw [e1, e2, e3, hget_hdel_ne _ _ _ hne1, hget_hdel_self, hget_hset_self, hcont]
      refine ⟨rfl, ?_, rfl, by simp⟩
      rw [Bool.false_or]
      simpa [bne] using hc.symm
    · rw [if_neg hc] at hb
      have e1 : b.header = hdr := by (rw [hb]; try exact w1)
      have e2 : b.chunked = false := by (rw [hb]; try exact w4)
      have e3 : b.statusCode = s := by (rw [hb]; try exact w2)
      rw [e1, e2, e3, ha]
      refine ⟨rfl, ?_, rfl, by simp⟩
      rw [Bool.false_or]
      have : (g.proto11 && hfirst hdr kCL == [] && s != 204 && s != 304 || decide (hget hdr kTrailer ≠ [])) = false := by
        simpa using hc
      simpa [bne] using this.symm

/-- **the framing `checkChunked` decides, and the header map it leaves, satisfy the RFC constraints**
(the head encoder prints the header map: stage 2). -/
theorem framing_rfc (g : Cfg) (hdr : Header) (sc : Nat) (st : Bytes) (hs : saneFraming g hdr = true)
    (hst : saneStatus hdr (if sc = 0 then 200 else sc) = true) :
    let b := checkChunked g (writeHeader200 (start hdr sc st))
    RfcFraming g.proto11 b.statusCode ((hget hdr kTE).contains (str "chunked")) (decide (hget hdr kTrailer ≠ []))
      ((hget b.header kTE).contains (str "chunked")) (decide (hget b.header kCL ≠ [])) b.chunked := by
  intro b
  obtain ⟨o1, o2, o3, o4⟩ := framing_obs g hdr sc st hs
  unfold saneFraming at hs
  simp only [Bool.and_eq_true] at hs
  obtain ⟨hask, _⟩ := hs
  unfold saneStatus at hst
  generalize (if sc = 0 then 200 else sc) = s at *
  have hcimp : (hfirst hdr kCL == []) = false → decide (hget hdr kCL ≠ []) = true := by
    intro hcl
    have : hget hdr kCL ≠ [] := by
      intro hc2
      unfold hfirst at hcl
      rw [hc2] at hcl
      simp at hcl
    simpa using this
  have hbl : bodiless s = (decide (100 ≤ s) && decide (s < 200) || s == 204 || s == 304) := rfl
  have main := rfc_bool ((hget hdr kTE).contains (str "chunked")) (decide (hget hdr kTrailer ≠ [])) g.proto11
    (hfirst hdr kCL == []) (decide (100 ≤ s) && decide (s < 200)) (s == 204) (s == 304) (decide (hget hdr kCL ≠ []))
    hask hst hcimp s hbl
  show RfcFraming g.proto11 b.statusCode _ _ _ _ _
  rw [o1, o3, o4, o2]
  exact main

/-- in chunked mode the header map holds NO Content-Length entry at all -/
theorem checkChunked_no_cl (g : Cfg) (r : R) (h0 : r.chunkChecked = false) (hch0 : r.chunked = false)
    (hc : (checkChunked g r).chunked = true) : ∀ e ∈ (checkChunked g r).header, e.1 ≠ kCL := by
  unfold checkChunked at hc ⊢
  simp only [h0, Bool.false_eq_true, ↓reduceIte] at hc ⊢
  split
  · intro e he
    have := (List.mem_filter.mp he).2
    simpa [hdel] using this
  · rename_i hte
    simp only [hte, Bool.false_eq_true, ↓reduceIte] at hc
    split
    · intro e he
      have := (List.mem_filter.mp he).2
      simpa [hdel] using this
    · rename_i hcc
      rw [if_neg hcc] at hc
      rw [hch0] at hc
      cases hc

/-- a value the map holds for a key that is not a declared trailer is printed in the head -/
theorem mem_handlerPairs_of_hget (tk : List Bytes) (h : Header) (k v : Bytes) (hv : v ∈ hget h k)
    (hk : tk.contains k = false) : (k, v) ∈ handlerPairs tk h := by
  unfold hget at hv
  cases hf : h.find? (·.1 == k) with
  | none => rw [hf] at hv; cases hv
  | some e =>
    rw [hf] at hv
    have hmem := List.mem_of_find?_eq_some hf
    have hkey : e.1 = k := by simpa using List.find?_some hf
    unfold handlerPairs
    simp only [List.mem_flatten, List.mem_map]
    refine ⟨_, ⟨e, hmem, rfl⟩, ?_⟩
    rw [hkey, hk]
    simp only [Bool.false_eq_true, ↓reduceIte, List.mem_map]
    exact ⟨v, hv, rfl⟩

/-- no entry for a key: no field with that name in the head -/
theorem not_mem_handlerPairs (tk : List Bytes) (h : Header) (k : Bytes) (hno : ∀ e ∈ h, e.1 ≠ k) :
    ∀ p ∈ handlerPairs tk h, p.1 ≠ k := by
  intro p hp
  unfold handlerPairs at hp
  simp only [List.mem_flatten, List.mem_map] at hp
  obtain ⟨l, ⟨e, he, hl⟩, hpl⟩ := hp
  subst hl
  split at hpl
  · cases hpl
  · simp only [List.mem_map] at hpl
    obtain ⟨v, _, hv⟩ := hpl
    subst hv
    exact hno e he

end Resp
