import NbioVerif.Lemmas.C09Unchunk
/-! Framing choice: `checkChunked` against the RFC rule. -/
namespace Resp

/-- RFC 7230 §3.3.1-3.3.3 for a server: chunked only towards HTTP/1.1, when the handler asked for it
(Transfer-Encoding: chunked, or declared trailers) or when there is no Content-Length to delimit a body
that the status allows -/
def rfcChunked (v11 : Bool) (hdr : Header) (status : Nat) : Bool :=
  v11 && ((hget hdr kTE).contains (str "chunked") || (hget hdr kTrailer) ≠ [] ||
          (hfirst hdr kCL == [] && status != 204 && status != 304))

/-- the handler's framing requests are satisfiable: chunked / trailers only on an HTTP/1.1 request, a
syntactically valid Content-Length -/
def saneFraming (g : Cfg) (hdr : Header) : Bool :=
  let asks := (hget hdr kTE).contains (str "chunked") || (hget hdr kTrailer) ≠ []
  (!asks || g.proto11) &&
  (hfirst hdr kCL == [] || (match parseInt (hfirst hdr kCL) with | some v => v ≥ 0 | none => false))

/-- the response as the handler finds it after its header phase: a header map and possibly a status -/
def start (hdr : Header) (sc : Nat) (st : Bytes) : R := { header := hdr, statusCode := sc, status := st }

theorem writeHeader200_sane (g : Cfg) (hdr : Header) (sc : Nat) (st : Bytes) (hs : saneFraming g hdr = true) :
    (writeHeader200 (start hdr sc st)).header = hdr ∧
    (writeHeader200 (start hdr sc st)).statusCode = (if sc = 0 then 200 else sc) ∧
    (writeHeader200 (start hdr sc st)).chunkChecked = false ∧ (writeHeader200 (start hdr sc st)).chunked = false := by
  unfold start
  unfold saneFraming at hs
  simp only [Bool.and_eq_true, Bool.or_eq_true] at hs
  obtain ⟨_, hcl⟩ := hs
  unfold writeHeader200 writeHeader
  dsimp only
  by_cases h : sc = 0
  · subst h
    have h1 : ((0 : Nat) == 0 && (200 : Nat) != 0) = true := by decide
    have h2 : (decide (100 ≤ (200 : Nat)) && decide ((200 : Nat) ≤ 999)) = true := by decide
    simp only [h1, h2, ↓reduceIte]
    rcases hcl with hcl | hcl
    · have : hfirst hdr kCL = [] := by simpa using hcl
      simp [this]
    · cases hp : parseInt (hfirst hdr kCL) with
      | none => rw [hp] at hcl; simp at hcl
      | some v =>
        rw [hp] at hcl
        simp only [decide_eq_true_eq] at hcl
        simp [hcl]
  · have h1 : (sc == 0 && (200 : Nat) != 0) = false := by simp [h]
    simp only [h1, Bool.false_eq_true, ↓reduceIte, h]
    simp

theorem framing_choice (g : Cfg) (hdr : Header) (sc : Nat) (st : Bytes) (hs : saneFraming g hdr = true) :
    (checkChunked g (writeHeader200 (start hdr sc st))).chunked =
      rfcChunked g.proto11 hdr (if sc = 0 then 200 else sc) := by
  obtain ⟨w1, w2, w3, w4⟩ := writeHeader200_sane g hdr sc st hs
  generalize writeHeader200 (start hdr sc st) = r1 at *
  unfold saneFraming at hs
  simp only [Bool.and_eq_true, Bool.or_eq_true] at hs
  obtain ⟨hask, _⟩ := hs
  unfold checkChunked rfcChunked
  simp only [w3, Bool.false_eq_true, ↓reduceIte, w1, w2]
  generalize (hget hdr kTE).contains (str "chunked") = a at *
  generalize (hfirst hdr kCL == []) = c at *
  generalize g.proto11 = v at *
  generalize (if sc = 0 then 200 else sc) = s at *
  by_cases ht : hget hdr kTrailer = []
  · simp only [ht] at hask ⊢
    cases a <;> cases c <;> cases v <;> simp_all <;> (split <;> simp_all)
  · cases a <;> cases c <;> cases v <;> simp_all
end Resp
