import NbioVerif.Lemmas.ReadPathBasic
/-! ReadPath: the core inductive invariant — gate counter range, task alive iff counter non-zero, at most one
task, one-shot arming discipline, and "unread input is never forgotten" for every mode. The invariant is split
into groups, each a predicate over exactly the state components it depends on, so that a step that does not touch
those components preserves the group by `exact`. -/
namespace ReadPath

structure KindOk (g : Cfg) (reg : Bool) (rq : List UInt8) (dq : List (Addr × List UInt8)) : Prop where
  reg : reg = true
  kindS : g.udp = false → dq = []
  kindD : g.udp = true → rq = []

structure GateOk (g : Cfg) (task : TS) (re : Nat) (closed overlap : Bool) : Prop where
  re2 : re ≤ 2
  osRe : g.mode = .os → re = 0
  sync : g.isAsync = false → task = .none ∧ re = 0
  noClosedAns : ∀ h, task ≠ .rd .closed h
  alive : g.mode = .et → closed = false → (task = .none ↔ re = 0)
  noOverlap : overlap = false

structure PsOk (g : Cfg) (ps : PS) : Prop where
  asyncPs : g.isAsync = true → ∀ i fl, ps ≠ .rd i fl
  rdInn : ∀ i fl, ps = .rd i fl → fl.inn = true
  finAsync : g.isAsync = true → ∀ fl, ps = .fin fl → fl.hang = true
  finSync : g.mode = .os → g.isAsync = false → ∀ fl, ps = .fin fl → fl.hang = true ∨ fl.inn = true

/-- somebody still owes the connection a read (or is about to close / re-arm it) -/
def owes (g : Cfg) (ps : PS) (task : TS) (re : Nat) : Prop :=
  (∃ i fl, ps = .rd i fl) ∨
  (∃ fl, ps = .fin fl ∧ (fl.hang = true ∨ (g.mode = .os ∧ g.isAsync = false ∧ fl.inn = true))) ∨
  task = .queued ∨ (∃ v, task = .dec v) ∨
  (∃ a h, task = .rd a h ∧ (g.mode = .os ∨ a.again g = true ∨ re ≥ 2 ∨ h = true))

structure LostOk (g : Cfg) (armed edge : Bool) (q : Nat) (ps : PS) (task : TS) (re : Nat) (closed : Bool) : Prop where
  osArmed : g.mode = .os → armed = true → task = .none
  osBusy : g.mode = .os → armed = false → closed = false → owes g ps task re
  osEdge : g.mode = .os → armed = true → q > 0 → edge = true
  nolostET : g.mode = .et → q > 0 → closed = false → edge = true ∨ owes g ps task re

/-- the hang-up flag handed to the read task: only in asynchronous configurations, backed by the kernel state,
    seen by a round only if it is set, and — as long as the conn is open — a task is alive that will either close
    at the end of its round (`h`) or go round again (`re ≥ 2`, queued, after its decrement) -/
structure HupOk (g : Cfg) (hup eof rerr : Bool) (task : TS) (re : Nat) (closed : Bool) : Prop where
  sync : g.isAsync = false → hup = false
  backed : hup = true → eof = true ∨ rerr = true
  flag : ∀ a, task = .rd a true → hup = true
  owed : hup = true → closed = false →
    task = .queued ∨ (∃ v, task = .dec v) ∨ (∃ a h, task = .rd a h ∧ (h = true ∨ re ≥ 2))

structure Core (g : Cfg) (s : St) : Prop where
  kind : KindOk g s.k.reg s.k.rq s.k.dq
  gate : GateOk g s.task s.re s.closed s.overlap
  psok : PsOk g s.ps
  lost : LostOk g s.k.armed s.k.edge s.k.qlen s.ps s.task s.re s.closed
  hupok : HupOk g s.hup s.k.eof s.k.rerr s.task s.re s.closed

/-- readiness that the kernel will (re-)report under the mode's semantics -/
def willReport (g : Cfg) (s : St) : Prop :=
  match g.mode with
  | .lt => s.k.reg = true
  | .et => s.k.edge = true
  | .os => s.k.armed = true ∧ s.k.edge = true

theorem core_init (g : Cfg) : Core g init := by
  refine ⟨⟨?_, ?_, ?_⟩, ⟨?_, ?_, ?_, ?_, ?_, ?_⟩, ⟨?_, ?_, ?_, ?_⟩, ⟨?_, ?_, ?_, ?_⟩, ⟨?_, ?_, ?_, ?_⟩⟩ <;> simp [init, K.qlen]

/-- an arrival (edge set, queue possibly longer) keeps `LostOk` -/
theorem lost_arrive (g : Cfg) (armed edge : Bool) (q q' : Nat) (ps : PS) (task : TS) (re : Nat) (closed : Bool)
    (h : LostOk g armed edge q ps task re closed) : LostOk g armed true q' ps task re closed :=
  ⟨h.osArmed, h.osBusy, fun _ _ _ => rfl, fun _ _ _ => Or.inl rfl⟩

/-- environment actions -/
theorem core_env (g : Cfg) (s s' : St) (a : Act) (ha : a.internal = false) (hr : ∀ i o, a ≠ .report i o)
    (h : Core g s) (hs : step g s a = some s') : Core g s' := by
  obtain ⟨hk, hg, hp, hl, hh⟩ := h
  cases a with
  | pstep => simp [Act.internal] at ha
  | tstep => simp [Act.internal] at ha
  | report i o => exact absurd rfl (hr i o)
  | push b =>
    simp only [step] at hs
    split at hs
    · cases hs
    · next hc =>
      cases hs
      simp only [Bool.or_eq_true, not_or, Bool.not_eq_true] at hc
      exact ⟨⟨hk.reg, hk.kindS, fun hu => by simp_all⟩, hg, hp, lost_arrive g _ _ _ _ _ _ _ _ hl, hh⟩
  | dgram a b =>
    simp only [step] at hs
    split at hs
    · cases hs
    · next hc =>
      cases hs
      exact ⟨⟨hk.reg, fun hu => by simp_all, hk.kindD⟩, hg, hp, lost_arrive g _ _ _ _ _ _ _ _ hl, hh⟩
  | eof =>
    simp only [step] at hs
    split at hs
    · cases hs
    · cases hs
      exact ⟨hk, hg, hp, lost_arrive g _ _ _ _ _ _ _ _ hl, ⟨hh.sync, fun _ => Or.inl rfl, hh.flag, hh.owed⟩⟩
  | rderr =>
    simp only [step] at hs
    cases hs
    exact ⟨hk, hg, hp, lost_arrive g _ _ _ _ _ _ _ _ hl, ⟨hh.sync, fun _ => Or.inr rfl, hh.flag, hh.owed⟩⟩
  | intr n =>
    simp only [step] at hs
    cases hs
    exact ⟨hk, hg, hp, hl, hh⟩
  | stale =>
    simp only [step] at hs
    split at hs
    · cases hs
    · next hrd =>
      cases hs
      have hq : s.k.qlen = 0 := by
        simp only [K.readable, Bool.or_eq_true, decide_eq_true_eq, not_or] at hrd
        omega
      refine ⟨hk, hg, hp, ⟨hl.osArmed, hl.osBusy, ?_, ?_⟩, hh⟩
      · intro _ _ hq'; simp only [K.qlen] at hq hq'; omega
      · intro _ hq' _; simp only [K.qlen] at hq hq'; omega

end ReadPath
