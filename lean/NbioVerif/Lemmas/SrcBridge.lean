import NbioVerif.Lemmas.SrcBridgeWs
import NbioVerif.Lemmas.SrcBridgeHttp
import NbioVerif.Lemmas.SrcBridgeConn
import NbioVerif.Lemmas.SrcBridgeAlloc
/-! All bridge lemmas between hand-written model functions and the functions translated from the Go
source by tools/go2lean (docs/go2lean.md).  The per-family files are what the properties list. -/
