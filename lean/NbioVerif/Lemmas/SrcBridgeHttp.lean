import NbioVerif.Model.Http
import NbioVerif.Generated.Src_HttpTab
import NbioVerif.Generated.Src_HttpParse
/-! Bridge: the character classes of `Model/Http.lean` equal the table lookups of nbhttp/table.go as
translated from source (tables' composite literals + `init()` + the five `is…` functions) by
tools/go2lean.  One kernel evaluation of `init` per table, then a pointwise argument. -/
namespace Http

set_option maxRecDepth 100000

theorem getD_tab (f : UInt8 → Bool) (t : List Bool)
    (h : t = (List.range 256).map fun n => f (UInt8.ofNat n)) (c : UInt8) : t.getD c.toNat false = f c := by
  have hc : c.toNat < 256 := c.toNat_lt
  subst h
  rw [List.getD_eq_getElem?_getD, List.getElem?_map, List.getElem?_range hc]
  simp

theorem tab_alpha : Src.HttpTab.globals.alphaCharMap = (List.range 256).map fun n => isAlpha (UInt8.ofNat n) := by decide
theorem tab_num : Src.HttpTab.globals.numCharMap = (List.range 256).map fun n => isNum (UInt8.ofNat n) := by decide
theorem tab_hex : Src.HttpTab.globals.hexCharMap = (List.range 256).map fun n => isHex (UInt8.ofNat n) := by decide
theorem tab_token : Src.HttpTab.globals.tokenCharMap = (List.range 256).map fun n => isToken (UInt8.ofNat n) := by decide
theorem tab_method : Src.HttpTab.globals.validMethodCharMap = (List.range 256).map fun n => isValidMethodChar (UInt8.ofNat n) := by decide

/-- `Http.isAlpha` etc. are `isAlpha` etc. of nbhttp/table.go, for every byte -/
theorem src_isAlpha (c : UInt8) : isAlpha c = Src.HttpTab.isAlpha c := (getD_tab _ _ tab_alpha c).symm
theorem src_isNum (c : UInt8) : isNum c = Src.HttpTab.isNum c := (getD_tab _ _ tab_num c).symm
theorem src_isHex (c : UInt8) : isHex c = Src.HttpTab.isHex c := (getD_tab _ _ tab_hex c).symm
theorem src_isToken (c : UInt8) : isToken c = Src.HttpTab.isToken c := (getD_tab _ _ tab_token c).symm
theorem src_isValidMethodChar (c : UInt8) : isValidMethodChar c = Src.HttpTab.isValidMethodChar c :=
  (getD_tab _ _ tab_method c).symm

/-! ### chunk size: the glue around `strconv.ParseInt` -/

theorem parseNat_lt {base : Nat} {ok : UInt8 → Bool} {b : Bytes} {v : Nat} (h : parseNat base ok b = some v) : v < 2 ^ 62 := by
  unfold parseNat at h
  split at h
  · cases h
  · split at h
    · simp only at h
      split at h
      · cases h; assumption
      · cases h
    · cases h

/-- `strconv.ParseInt(tok, 16, 63)` as the model specifies it (`parseHexSize`): value and nil, or an error -/
def parseInt16 (tok : Bytes) : String → Int → Int → Int × Option String := fun _ _ _ =>
  match parseHexSize tok with
  | some v => ((v : Int), none)
  | none => (0, some "strconv.ParseInt")

/-- `parseAndValidateChunkSize` (nbhttp/parser.go, translated from source) adds nothing to `ParseInt`: it accepts
    exactly the tokens `parseHexSize` accepts, with the same value, and rejects the others -/
theorem src_chunkSize (tok : Bytes) (s : String) :
    Src.HttpParse.parseAndValidateChunkSize (parseInt16 tok) s =
      match parseHexSize tok with
      | some v => ((v : Int), none)
      | none => (-1, some "chunk size parse error %v: %w") := by
  unfold Src.HttpParse.parseAndValidateChunkSize parseInt16
  cases h : parseHexSize tok with
  | none => simp
  | some v =>
    have hv : v < 2 ^ 62 := parseNat_lt h
    have h1 : ¬ ((v : Int) < 0) := by omega
    have h2 : ¬ ((v : Int) > 9223372036854775807) := by omega
    simp [h1, h2]

end Http
