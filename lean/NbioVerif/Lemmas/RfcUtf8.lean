import NbioVerif.Lemmas.RfcM
/-! RFC 3629 (decode the scalar value, require shortest form / no surrogate / ≤ U+10FFFF) = the model's `utf8Valid`
    (Go's table of first- and second-byte ranges) -/
namespace Rfc

/-- two octets -/
theorem l2 (x c : Nat) (hx : x / 32 = 6) (hc : c < 256) :
    (decide (c / 64 = 2) && scalarOk 2 (x % 32 * 64 + c % 64)) =
      (decide (0xC2 ≤ x ∧ x ≤ 0xDF) && (decide (0x80 ≤ c) && decide (c ≤ 0xBF))) := by
  rw [Bool.eq_iff_iff]
  simp [scalarOk]
  omega

/-- three octets: the second-octet ranges A0..BF after E0 (shortest form) and 80..9F after ED (no surrogates) -/
theorem l3 (x c1 c2 : Nat) (hx : x / 16 = 14) (h1 : c1 < 256) (h2 : c2 < 256) :
    (decide (c1 / 64 = 2) && decide (c2 / 64 = 2) && scalarOk 3 ((x % 16 * 64 + c1 % 64) * 64 + c2 % 64)) =
      (decide ((if x = 0xE0 then 0xA0 else 0x80) ≤ c1) && decide (c1 ≤ (if x = 0xED then 0x9F else 0xBF)) &&
        (decide (0x80 ≤ c2) && decide (c2 ≤ 0xBF))) := by
  rw [Bool.eq_iff_iff]
  by_cases e0 : x = 0xE0 <;> by_cases ed : x = 0xED <;> simp [scalarOk, e0, ed] <;> omega

/-- four octets: 90..BF after F0 (shortest form), 80..8F after F4 (≤ U+10FFFF), nothing after F5..F7 -/
theorem l4 (x c1 c2 c3 : Nat) (hx : x / 8 = 30) (h1 : c1 < 256) (h2 : c2 < 256) (h3 : c3 < 256) :
    (decide (c1 / 64 = 2) && decide (c2 / 64 = 2) && decide (c3 / 64 = 2) &&
        scalarOk 4 (((x % 8 * 64 + c1 % 64) * 64 + c2 % 64) * 64 + c3 % 64)) =
      (decide (x ≤ 0xF4) && (decide ((if x = 0xF0 then 0x90 else 0x80) ≤ c1) && decide (c1 ≤ (if x = 0xF4 then 0x8F else 0xBF)) &&
        (decide (0x80 ≤ c2) && decide (c2 ≤ 0xBF)) && (decide (0x80 ≤ c3) && decide (c3 ≤ 0xBF)))) := by
  rw [Bool.eq_iff_iff]
  by_cases e0 : x = 0xF0 <;> by_cases e4 : x = 0xF4 <;> simp [scalarOk, e0, e4] <;> omega

theorem utf8Ok_eq_aux : ∀ (n : Nat) (b : Bytes), b.length ≤ n → utf8Ok b = Ws.utf8Valid b := by
  intro n
  induction n with
  | zero =>
    intro b hb
    have : b = [] := List.eq_nil_of_length_eq_zero (by omega)
    subst this
    simp [utf8Ok, Ws.utf8Valid]
  | succ n ih =>
    intro b hb
    match b, hb with
    | [], _ => simp [utf8Ok, Ws.utf8Valid]
    | b0 :: r, hb =>
      have hx := b0.toNat_lt
      have hr : r.length ≤ n := by simp only [List.length_cons] at hb; omega
      unfold utf8Ok Ws.utf8Valid
      simp only
      by_cases hA : b0.toNat < 0x80
      · simp only [hA, if_true]; exact ih r hr
      · rw [if_neg hA, if_neg hA]
        by_cases h2 : b0.toNat / 32 = 6
        · -- C0..DF
          have n3 : ¬ (0xE0 ≤ b0.toNat) := by omega
          simp only [h2, beq_self_eq_true, if_true]
          match r, hr with
          | [], _ =>
            by_cases hc2 : (decide (0xC2 ≤ b0.toNat) && decide (b0.toNat ≤ 0xDF)) = true
            · simp [hc2]
            · have : ¬ (0xF0 ≤ b0.toNat) := by omega
              simp [hc2, n3, this]
          | c1 :: r', hr' =>
            have h1 := c1.toNat_lt
            have hr'' : r'.length ≤ n := by simp only [List.length_cons] at hr'; omega
            simp only [isCont, contVal, beq_iff_eq]
            rw [ih r' hr'', show ((c1.toNat / 64 == 2) = decide (c1.toNat / 64 = 2)) from rfl, l2 b0.toNat c1.toNat h2 h1]
            by_cases hc2 : 0xC2 ≤ b0.toNat ∧ b0.toNat ≤ 0xDF
            · simp [hc2.1, hc2.2]
            · have : ¬ (0xF0 ≤ b0.toNat) := by omega
              have hc2' : (decide (0xC2 ≤ b0.toNat) && decide (b0.toNat ≤ 0xDF)) = false := by
                simp only [Bool.and_eq_false_iff, decide_eq_false_iff_not]; omega
              simp [hc2, hc2', n3, this]
        · have h2' : (b0.toNat / 32 == 6) = false := by simpa using h2
          rw [h2']
          simp only [Bool.false_eq_true, if_false]
          have nC : (decide (0xC2 ≤ b0.toNat) && decide (b0.toNat ≤ 0xDF)) = false := by
            simp only [Bool.and_eq_false_iff, decide_eq_false_iff_not]; omega
          rw [nC]
          simp only [Bool.false_eq_true, if_false]
          by_cases h3 : b0.toNat / 16 = 14
          · -- E0..EF
            have hE : (decide (0xE0 ≤ b0.toNat) && decide (b0.toNat ≤ 0xEF)) = true := by
              simp only [Bool.and_eq_true, decide_eq_true_eq]; omega
            simp only [h3, beq_self_eq_true, if_true, hE]
            match r, hr with
            | [], _ => rfl
            | [c1], _ => rfl
            | c1 :: c2 :: r', hr' =>
              have h1 := c1.toNat_lt
              have h2c := c2.toNat_lt
              have hr'' : r'.length ≤ n := by simp only [List.length_cons] at hr'; omega
              simp only [isCont, contVal]
              rw [ih r' hr'', show ((c1.toNat / 64 == 2) = decide (c1.toNat / 64 = 2)) from rfl,
                show ((c2.toNat / 64 == 2) = decide (c2.toNat / 64 = 2)) from rfl, l3 b0.toNat c1.toNat c2.toNat h3 h1 h2c]
              simp only [beq_iff_eq]
          · have h3' : (b0.toNat / 16 == 14) = false := by simpa using h3
            rw [h3']
            simp only [Bool.false_eq_true, if_false]
            have nE : (decide (0xE0 ≤ b0.toNat) && decide (b0.toNat ≤ 0xEF)) = false := by
              simp only [Bool.and_eq_false_iff, decide_eq_false_iff_not]; omega
            rw [nE]
            simp only [Bool.false_eq_true, if_false]
            by_cases h4 : b0.toNat / 8 = 30
            · -- F0..F7
              simp only [h4, beq_self_eq_true, if_true]
              by_cases hF : b0.toNat ≤ 0xF4
              · have hF' : (decide (0xF0 ≤ b0.toNat) && decide (b0.toNat ≤ 0xF4)) = true := by
                  simp only [Bool.and_eq_true, decide_eq_true_eq]; omega
                rw [hF']
                simp only [if_true]
                match r, hr with
                | [], _ => rfl
                | [c1], _ => rfl
                | [c1, c2], _ => rfl
                | c1 :: c2 :: c3 :: r', hr' =>
                  have h1 := c1.toNat_lt
                  have h2c := c2.toNat_lt
                  have h3c := c3.toNat_lt
                  have hr'' : r'.length ≤ n := by simp only [List.length_cons] at hr'; omega
                  simp only [isCont, contVal]
                  rw [ih r' hr'', show ((c1.toNat / 64 == 2) = decide (c1.toNat / 64 = 2)) from rfl,
                    show ((c2.toNat / 64 == 2) = decide (c2.toNat / 64 = 2)) from rfl,
                    show ((c3.toNat / 64 == 2) = decide (c3.toNat / 64 = 2)) from rfl,
                    l4 b0.toNat c1.toNat c2.toNat c3.toNat h4 h1 h2c h3c]
                  simp only [beq_iff_eq, hF, decide_true, Bool.true_and]
              · have hF' : (decide (0xF0 ≤ b0.toNat) && decide (b0.toNat ≤ 0xF4)) = false := by
                  simp only [Bool.and_eq_false_iff, decide_eq_false_iff_not]; omega
                rw [hF']
                simp only [Bool.false_eq_true, if_false]
                match r, hr with
                | [], _ => rfl
                | [c1], _ => rfl
                | [c1, c2], _ => rfl
                | c1 :: c2 :: c3 :: r', hr' =>
                  have h1 := c1.toNat_lt
                  have h2c := c2.toNat_lt
                  have h3c := c3.toNat_lt
                  simp only [isCont, contVal]
                  rw [show ((c1.toNat / 64 == 2) = decide (c1.toNat / 64 = 2)) from rfl,
                    show ((c2.toNat / 64 == 2) = decide (c2.toNat / 64 = 2)) from rfl,
                    show ((c3.toNat / 64 == 2) = decide (c3.toNat / 64 = 2)) from rfl,
                    l4 b0.toNat c1.toNat c2.toNat c3.toNat h4 h1 h2c h3c]
                  simp [hF]
            · have h4' : (b0.toNat / 8 == 30) = false := by simpa using h4
              rw [h4']
              have nF : (decide (0xF0 ≤ b0.toNat) && decide (b0.toNat ≤ 0xF4)) = false := by
                simp only [Bool.and_eq_false_iff, decide_eq_false_iff_not]; omega
              rw [nF]
              simp

/-- RFC 3629 validity (this file's decoder-style definition) is the model's `utf8Valid` on every byte string -/
theorem utf8Ok_eq (b : Bytes) : utf8Ok b = Ws.utf8Valid b := utf8Ok_eq_aux b.length b (Nat.le_refl _)

end Rfc
