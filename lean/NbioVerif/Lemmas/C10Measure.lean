import NbioVerif.Model.Pipeline
/-! C10 (a): a measure that every step of the connection itself decreases — with `c10_progress`
(some own step is enabled unless quiescent) this is liveness in safety form: under any scheduler that
keeps taking enabled steps, every request history is worked off after finitely many steps. -/
namespace Pipeline
variable {α : Type}

/-- work left in a list of conn writes: one step per write plus one per byte that may have to be flushed -/
def pcost (ps : List (List α)) : Nat := (ps.map (fun p => 1 + p.length)).sum

/-- work of a whole job: start, its writes, finish -/
def jcost (cfg : Cfg α) (k : Nat) : Nat :=
  match cfg.reqs[k]? with
  | some r => 2 + pcost r.pieces
  | none => 2

def mu (cfg : Cfg α) (s : St α) : Nat :=
  ((List.range' s.next (cfg.reqs.length - s.next)).map (fun k => 1 + jcost cfg k)).sum
  + (match s.cur with
     | some rem => 1 + pcost rem + (s.queue.tail.map (jcost cfg)).sum
     | none => (s.queue.map (jcost cfg)).sum)
  + s.pending.length

theorem sum_append_single (l : List Nat) (x : Nat) : (l ++ [x]).sum = l.sum + x := by
  simp [List.sum_append]

theorem mu_decreases (cfg : Cfg α) (s s' : St α) (a : Act) (hs : step cfg s a = some s')
    (ha : a ≠ Act.extClose) : mu cfg s' < mu cfg s := by
  cases a with
  | parse =>
    simp only [step] at hs
    split at hs
    · rename_i hlt
      have hr : List.range' s.next (cfg.reqs.length - s.next) =
          s.next :: List.range' (s.next + 1) (cfg.reqs.length - (s.next + 1)) := by
        have : cfg.reqs.length - s.next = (cfg.reqs.length - (s.next + 1)) + 1 := by omega
        rw [this, List.range'_succ]
      split at hs
      · cases hs
        simp only [mu, hr, List.map_cons, List.sum_cons]
        omega
      · cases hs
        simp only [mu, hr, List.map_cons, List.sum_cons]
        cases hc : s.cur with
        | none =>
          simp only [List.map_append, List.map_cons, List.map_nil, sum_append_single]
          omega
        | some rem =>
          simp only
          cases hq : s.queue with
          | nil => simp; omega
          | cons k t =>
            simp only [List.cons_append, List.tail_cons, List.map_append, List.map_cons, List.map_nil,
              sum_append_single]
            omega
    · cases hs
  | start =>
    simp only [step] at hs
    split at hs
    · rename_i k t hcur hq
      split at hs
      · rename_i r hr
        cases hs
        simp only [mu, hcur, hq, List.map_cons, List.sum_cons, List.tail_cons, jcost, hr]
        omega
      · cases hs
    · cases hs
  | write k =>
    simp only [step] at hs
    split at hs
    · rename_i p ps hcur
      have hp : pcost (p :: ps) = 1 + p.length + pcost ps := by simp [pcost]
      split at hs
      · cases hs
        simp only [mu, hcur, hp]; omega
      · split at hs
        · cases hs
          simp only [mu, hcur, hp, List.length_drop]; omega
        · cases hs
          simp only [mu, hcur, hp, List.length_append]; omega
    · cases hs
  | flush k =>
    simp only [step] at hs
    split at hs
    · rename_i hg
      simp only [Bool.and_eq_true, Bool.not_eq_true', decide_eq_true_eq] at hg
      obtain ⟨⟨_, hne⟩, hk⟩ := hg
      cases hs
      have hlen : 0 < s.pending.length := by
        cases hp : s.pending with
        | nil => simp [hp] at hne
        | cons _ _ => simp
      simp only [mu, List.length_drop]
      omega
    · cases hs
  | finish =>
    simp only [step] at hs
    split at hs
    · rename_i k q hcur hq
      cases hs
      have hpl : ∀ (b : Bool), (if b = true then ([] : List α) else s.pending).length ≤ s.pending.length := by
        intro b; cases b <;> simp
      simp only [mu, hcur, hq, List.tail_cons, pcost, List.map_nil, List.sum_nil]
      split
      · rename_i r hr
        have := hpl (r.close && !s.closed)
        omega
      · have := hpl (false && !s.closed)
        omega
    · cases hs
  | extClose => exact absurd rfl ha

end Pipeline
