import NbioVerif.Lemmas.C07Body
/-! C07: a whole well-formed message is parsed to exactly its events, and the parser is idle again. -/
namespace Http
open Scan

theorem rfc_none (fs : List (Bytes × Bytes)) (h : rfc7230Framing fs = .none) :
    valuesOf fs (str "Transfer-Encoding") = [] ∧ valuesOf fs (str "Content-Length") = [] := by
  unfold rfc7230Framing at h
  split at h
  · split at h
    · simp only at h; split at h <;> cases h
    · cases h
  · cases h
  · rename_i hte
    split at h
    · rename_i hcl; exact ⟨hte, hcl⟩
    · simp only at h; split at h <;> cases h
    · cases h

theorem rfc_length (fs : List (Bytes × Bytes)) (n : Nat) (h : rfc7230Framing fs = .length n) :
    valuesOf fs (str "Transfer-Encoding") = [] ∧ ∃ v, valuesOf fs (str "Content-Length") = [v] ∧
      trimRightSpaces v ≠ [] ∧ (trimRightSpaces v).all isNum = true ∧ decimal (trimRightSpaces v) < 2 ^ 62 ∧
      n = decimal (trimRightSpaces v) := by
  unfold rfc7230Framing at h
  split at h
  · split at h
    · simp only at h; split at h <;> cases h
    · cases h
  · cases h
  · rename_i hte
    split at h
    · cases h
    · rename_i v hcl
      simp only at h
      split at h
      · rename_i hc
        cases h
        exact ⟨hte, v, hcl, hc.1, hc.2.1, hc.2.2, rfl⟩
      · cases h
    · cases h

theorem rfc_chunked (fs : List (Bytes × Bytes)) (decl : List Bytes) (h : rfc7230Framing fs = .chunked decl) :
    ∃ v, valuesOf fs (str "Transfer-Encoding") = [v] ∧ (trim v).map toLower = str "chunked" ∧
      clValuesOk (valuesOf fs (str "Content-Length")) = true ∧
      (declaredKeys (valuesOf fs (str "Trailer"))).any forbiddenTrailer = false ∧
      decl = (declaredKeys (valuesOf fs (str "Trailer"))).eraseDups := by
  unfold rfc7230Framing at h
  split at h
  · rename_i v hte
    split at h
    · rename_i hv
      simp only at h
      split at h
      · cases h
      · rename_i hf
        cases h
        exact ⟨v, hte, hv.1, hv.2, by simpa using hf, rfl⟩
    · cases h
  · cases h
  · split at h
    · cases h
    · simp only at h; split at h <;> cases h
    · cases h

/-- the message is of the kind the parser is configured for -/
def roleOk (g : Cfg) (m : Msg) : Prop :=
  match m.start with
  | .request _ t pr => g.isClient = false ∧ g.urlOk t = true ∧ g.protoOk pr = true
  | .status pr _ _ => g.isClient = true ∧ g.protoOk pr = true

/-- start line: from an idle parser to the header section -/
theorem start_parse (g : Cfg) (m : Msg) (p : P) (rest : Bytes) (acc : List Ev)
    (hI : Idle g p) (hwf : m.start.wf = true) (hrole : roleOk g m) :
    ∃ tok', specFeed (M g) p [] (m.start.render ++ rest) acc =
      specFeed (M g) { p with st := .headerKeyBefore, noBody := m.bodiless } tok' rest (acc ++ m.start.events) := by
  obtain ⟨start, headers, body⟩ := m
  cases start with
  | request me t pr =>
    simp only [roleOk] at hrole
    obtain ⟨hc, hu, hv⟩ := hrole
    simp only [Start.wf, Bool.and_eq_true, Bool.or_eq_true, beq_iff_eq] at hwf
    obtain ⟨⟨hm, ht⟩, hpr⟩ := hwf
    have ht : t = [42] ∨ (t.head? = some 47 ∧ t.all visible = true) := by
      rcases ht with ⟨h, _⟩ | h
      · exact Or.inl h
      · exact Or.inr h
    have hst : p.st = .methodBefore := by rw [hI.st]; simp [startSt, hc]
    have ht' : ∃ t0 ts, t = t0 :: ts ∧ (t0 = 47 ∨ t0 = 42) ∧ ∀ c ∈ ts, c ≠ SP := by
      rcases ht with ht | ⟨h1, h2⟩
      · exact ⟨42, [], ht, Or.inr rfl, by simp⟩
      · cases t with
        | nil => simp at h1
        | cons t0 ts =>
          simp only [List.head?_cons, Option.some.injEq] at h1
          simp only [List.all_cons, Bool.and_eq_true, List.all_eq_true] at h2
          exact ⟨t0, ts, rfl, Or.inl h1, fun c hc => (visible_facts c (h2.2 c hc)).1⟩
    refine ⟨[], ?_⟩
    have e : ({ p with st := .headerKeyBefore, noBody := false } : P) = { p with st := .headerKeyBefore } := by
      have := hI.noBody
      cases p; simp_all
    simp only [Start.render, Start.events, crlf, Msg.bodiless, e]
    exact request_line g p [] me t pr rest acc hst hI.proto hm ht' (http1x_shape pr hpr).1 hu hv
  | status pr code reason =>
    simp only [roleOk] at hrole
    obtain ⟨hc, hv⟩ := hrole
    simp only [Start.wf, Bool.and_eq_true, beq_iff_eq, bne_iff_ne] at hwf
    obtain ⟨⟨⟨⟨⟨hpr, hl⟩, hd⟩, _⟩, hr0⟩, hrb⟩ := hwf
    have hst : p.st = .clientProtoBefore := by rw [hI.st]; simp [startSt, hc]
    have hr : reason = [] ∨ ∃ r0 rs, reason = r0 :: rs ∧ isAlpha r0 = true ∧ ∀ c ∈ rs, c ≠ CR ∧ c ≠ LF := by
      cases reason with
      | nil => exact Or.inl rfl
      | cons r0 rs =>
        right
        simp only [List.all_cons, Bool.and_eq_true, List.all_eq_true] at hrb
        exact ⟨r0, rs, rfl, hr0, fun c hc => fieldByte_facts c (hrb.2 c hc)⟩
    simp only [Start.render, Start.events, crlf, Msg.bodiless]
    exact status_line g p [] pr code reason rest acc hst hI.proto hI.status hI.statusCode
      (http1x_shape pr hpr).1 (http1x_shape pr hpr).2 hv hl hd hr

/-- C07 on the spec machine: a well-formed message fed to an idle parser yields exactly `eventsOf m`, and the parser
    is idle again with an empty token — the successor starts at offset `|render m|`. -/
theorem msg_parse (g : Cfg) (m : Msg) (p : P) (rest : Bytes) (acc : List Ev)
    (hI : Idle g p) (hwf : wfMsg m = true) (hrole : roleOk g m)
    (hmax : g.maxBody = 0 ∨ m.body.bytes.length ≤ g.maxBody) :
    ∃ p', Idle g p' ∧
      specFeed (M g) p [] (m.render ++ rest) acc = specFeed (M g) p' [] rest (acc ++ eventsOf m) := by
  simp only [wfMsg, Bool.and_eq_true] at hwf
  obtain ⟨⟨⟨hstart, hhdrs⟩, _⟩, hbody, hrest⟩ := hwf
  -- a bodiless response of the agreed domain carries no framing fields
  have hbl : m.bodiless = true → rfc7230Framing m.fields = .none := by
    intro hb
    unfold Msg.bodiless at hb
    split at hb
    · rename_i pr c r hs
      rw [hs] at hrest
      simp only [Bool.and_eq_true, hb, if_true, beq_iff_eq] at hrest
      exact hrest.2
    · cases hb
  -- start line
  obtain ⟨tok1, e1⟩ := start_parse g m p ((m.headers.map Hdr.render).flatten ++ crlf ++ m.body.render ++ rest) acc
    hI hstart hrole
  -- header section
  have hpars : ∀ h ∈ m.headers, h.parsable := fun h hh =>
    Hdr.wf_parsable h (List.all_eq_true.mp hhdrs h hh)
  obtain ⟨tok2, e2⟩ := header_lines g m.headers { p with st := .headerKeyBefore, noBody := m.bodiless } tok1
    (crlf ++ m.body.render ++ rest) (acc ++ m.start.events) rfl hI.hKey hI.hVal hpars
  have hfs : fieldsOf m.headers = m.fields := rfl
  rw [afterHdrs_eq, hfs] at e2
  simp only [hI.te, hI.tr, hI.cl, List.nil_append] at e1 e2
  simp only [List.append_assoc] at e1 e2
  have e12 := e1.trans e2
  simp only [Msg.render, List.append_assoc, e12]
  -- the state at the blank line
  generalize hph : ({ p with st := PState.headerKeyBefore, te := valuesOf m.fields (str "Transfer-Encoding"), tr := valuesOf m.fields (str "Trailer"), cl := valuesOf m.fields (str "Content-Length"), noBody := m.bodiless, headerExists := p.headerExists || !m.headers.isEmpty } : P) = ph
  have hq : Quiet ph := by subst hph; exact ⟨hI.proto, hI.statusCode, hI.status, hI.hKey, hI.hVal⟩
  have hst : ph.st = .headerKeyBefore := by subst hph; rfl
  have hte : ph.te = valuesOf m.fields (str "Transfer-Encoding") := by subst hph; rfl
  have hcl : ph.cl = valuesOf m.fields (str "Content-Length") := by subst hph; rfl
  have htr : ph.tr = valuesOf m.fields (str "Trailer") := by subst hph; rfl
  have hch : ph.chunked = false := by subst hph; exact hI.chunked
  have hnb : ph.noBody = m.bodiless := by subst hph; rfl
  have hbh : ph.bodyHeld = 0 := by subst hph; exact hI.bodyHeld
  have htl : ph.trailer = [] := by subst hph; exact hI.trailer
  generalize hacc : acc ++ (m.start.events ++ List.map (fun h => Ev.header h.key h.evValue) m.headers) = accH
  -- framing
  cases hb : m.body with
  | none =>
    rw [hb] at hbody hmax
    have hfr : rfc7230Framing m.fields = .none := by
      cases hfr : rfc7230Framing m.fields <;> simp [hfr, bodyMatches] at hbody ⊢
    have ⟨t1, t2⟩ := rfc_none _ hfr
    cases hbb : m.bodiless with
    | false =>
      obtain ⟨p', hp', e3⟩ := end_none g ph tok2 rest
        accH hst hq (by rw [hte, t1]) (by rw [hcl, t2]) hch (by rw [hnb, hbb])
      refine ⟨p', hp', ?_⟩
      simp only [Body.render, crlf, List.append_nil, List.nil_append, List.append_assoc, List.cons_append] at e3 ⊢
      rw [e3, ← hacc]
      simp [eventsOf, hb, Body.events, Body.declared, Msg.declared, hbb]
    | true =>
      obtain ⟨p', hp', e3⟩ := end_bodiless g ph tok2 rest
        accH hst hq (by rw [hte, t1]) (by rw [hcl, t2]) hch (by rw [hnb, hbb])
      refine ⟨p', hp', ?_⟩
      simp only [Body.render, crlf, List.append_nil, List.nil_append, List.append_assoc, List.cons_append] at e3 ⊢
      rw [e3, ← hacc]
      simp [eventsOf, hb, Body.events, Msg.declared, hbb]
  | fixed d =>
    rw [hb] at hbody hmax
    simp only [Body.bytes] at hmax
    have hfr : ∃ n, rfc7230Framing m.fields = .length n ∧ d.length = n := by
      cases hfr : rfc7230Framing m.fields <;> simp [hfr, bodyMatches] at hbody ⊢
      exact hbody
    obtain ⟨n, hfr, hn⟩ := hfr
    have hbb : m.bodiless = false := by
      cases hbb : m.bodiless with
      | false => rfl
      | true => rw [hbl hbb] at hfr; cases hfr
    obtain ⟨t1, v, t2, t3, t4, t5, t6⟩ := rfc_length _ _ hfr
    obtain ⟨p', hp', e3⟩ := end_length g ph tok2 rest
      accH v d hst hq
      (by rw [hte, t1]) (by rw [hcl, t2]) hch (by rw [hnb, hbb]) hbh t3 t4 t5 (by rw [hn, t6]) hmax
    refine ⟨p', hp', ?_⟩
    simp only [Body.render, crlf, List.append_nil, List.nil_append, List.append_assoc, List.cons_append] at e3 ⊢
    rw [e3, ← hacc]
    simp [eventsOf, hb, Body.events, Body.declared, Msg.declared, hbb]
  | chunked cs last ext trs =>
    rw [hb] at hbody hmax
    simp only [Body.bytes] at hmax
    have hfr : ∃ decl, rfc7230Framing m.fields = .chunked decl ∧ bodyMatches (.chunked decl) (.chunked cs last ext trs) = true := by
      cases hfr : rfc7230Framing m.fields <;> simp [hfr, bodyMatches] at hbody ⊢
      simpa [bodyMatches] using hbody
    obtain ⟨decl, hfr, hbm⟩ := hfr
    have hbb : m.bodiless = false := by
      cases hbb : m.bodiless with
      | false => rfl
      | true => rw [hbl hbb] at hfr; cases hfr
    obtain ⟨v, t1, t2, tcl, t3, t4⟩ := rfc_chunked _ _ hfr
    simp only [bodyMatches, trailersWf, Bool.and_eq_true, List.all_eq_true, decide_eq_true_eq, beq_iff_eq,
      Bool.or_eq_true, bne_iff_ne, ne_eq] at hbm
    obtain ⟨⟨⟨⟨b1, b2⟩, b3⟩, b4⟩, ⟨⟨⟨c1, c2⟩, c3⟩, c4⟩⟩ := hbm
    have e3 := end_chunked g ph tok2 ((Body.chunked cs last ext trs).render ++ rest)
      accH v hst (by rw [hte, t1]) t2
      (by rw [hcl]; exact tcl) (by rw [htr]; exact t3) htl (by rw [hnb, hbb])
    rw [htr, ← t4] at e3
    obtain ⟨p', hp', e4⟩ := chunked_body g
      { ph with te := [], cl := [], tr := [], chunked := true, contentLength := -1, trailer := decl,
                st := .chunkSizeBefore, headerExists := false }
      [] rest
      (accH ++ [.contentLength (-1)])
      cs last ext trs rfl ⟨hq.proto, hq.statusCode, hq.status, hq.hKey, hq.hVal⟩ rfl
      (fun c hc => Chunk.wf_parsable c (b1 c hc)) b2 (by simpa using b3)
      (ext_parsable ext (by
        rcases b4 with h | h
        · simp [h]
        · simp only [Bool.or_eq_true, decide_eq_true_eq, Bool.and_eq_true, beq_iff_eq, List.all_eq_true]
          exact Or.inr h))
      (fun h hh => ⟨Hdr.wf_parsable h (c1 h hh).1, (c1 h hh).2⟩)
      (by intro k hk
          obtain ⟨h, hh, rfl⟩ := List.mem_map.mp hk
          simpa using c2 h.key (List.mem_map.mpr ⟨h, hh, rfl⟩))
      c3 c4
      (by simp only [hbh, Nat.add_zero]; simpa [chunksLen] using hmax)
    refine ⟨p', hp', ?_⟩
    simp only [crlf, List.append_assoc, List.cons_append, List.nil_append] at e3 e4 ⊢
    rw [e3, e4, ← hacc]
    simp [eventsOf, hb, Body.declared, Msg.declared, hbb]

/-- pipelining: a sequence of well-formed messages -/
theorem msgs_parse (g : Cfg) (ms : List Msg) :
    ∀ (p : P) (rest : Bytes) (acc : List Ev), Idle g p →
      (∀ m ∈ ms, wfMsg m = true ∧ roleOk g m ∧ (g.maxBody = 0 ∨ m.body.bytes.length ≤ g.maxBody)) →
      ∃ p', Idle g p' ∧
        specFeed (M g) p [] ((ms.map Msg.render).flatten ++ rest) acc =
          specFeed (M g) p' [] rest (acc ++ (ms.map eventsOf).flatten) := by
  induction ms with
  | nil => intro p rest acc hI _; exact ⟨p, hI, by simp⟩
  | cons m ms ih =>
    intro p rest acc hI hall
    obtain ⟨h1, h2, h3⟩ := hall m (by simp)
    obtain ⟨p1, hI1, e1⟩ := msg_parse g m p ((ms.map Msg.render).flatten ++ rest) acc hI h1 h2 h3
    obtain ⟨p2, hI2, e2⟩ := ih p1 rest (acc ++ eventsOf m) hI1 (fun x hx => hall x (by simp [hx]))
    refine ⟨p2, hI2, ?_⟩
    simp only [List.map_cons, List.flatten_cons, List.append_assoc] at e1 e2 ⊢
    rw [e1, e2]

end Http
