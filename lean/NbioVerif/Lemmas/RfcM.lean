import NbioVerif.Model.Rfc6455
import NbioVerif.Model.Ws
/-! Proof-side twins of the specification's functions, written with the MODEL's helper definitions (`maskSpec`, `beDec`,
    `utf8Valid`, the model's close-code expression).  The lemmas about Parse are stated over these; `Lemmas/RfcBridge.lean`
    proves them equal to the independent definitions of `Model/Rfc6455.lean`, and the property theorems are transported. -/
namespace RfcM
open WsF (beDec)
open Ws (Bytes maskSpec utf8Valid)
open Rfc (Frame D1 Reason Verdict Ev TInfl Cfg St Res hdrCheck)

/-- one frame given the first two bytes, the declared length and the header length without mask key -/
def mkD1 (b : Bytes) (x0 x1 : UInt8) (declared hl : Nat) (topbit : Bool) : D1 :=
  let masked := x1.toNat ≥ 128
  let hl := if masked then hl + 4 else hl
  let f : Frame := { fin := x0.toNat ≥ 128, r1 := x0.toNat / 64 % 2 == 1, r2 := x0.toNat / 32 % 2 == 1,
                     r3 := x0.toNat / 16 % 2 == 1, masked, op := x0.toNat % 16, topbit, declared }
  if topbit then .frame { f with «partial» := true } 0
  else if b.length < hl + declared then .frame { f with «partial» := true } 0
  else
    let raw := (b.drop hl).take declared
    let key := (b.drop (hl - 4)).take 4
    .frame { f with payload := if masked then maskSpec key raw else raw } (hl + declared)

/-- §5.2 base framing: decode one frame from the front of a byte string -/
def decode1 (b : Bytes) : D1 :=
  match b with
  | x0 :: x1 :: rest =>
    let l7 := x1.toNat % 128
    if l7 == 126 then
      if rest.length < 2 then .need else mkD1 b x0 x1 (beDec (rest.take 2)) 4 false
    else if l7 == 127 then
      if rest.length < 8 then .need
      else
        let v := beDec (rest.take 8)
        mkD1 b x0 x1 v 10 (v ≥ 2 ^ 63)
    else mkD1 b x0 x1 l7 2 false
  | _ => .need

/-- split a byte stream into frames; a trailing incomplete header is dropped, a trailing frame with a complete
    header but incomplete payload is returned with `partial = true` -/
def decode : Nat → Bytes → List Frame
  | 0, _ => []
  | fuel+1, b =>
    match decode1 b with
    | .need => []
    | .frame f total => if f.partial then [f] else f :: decode fuel (b.drop total)

/-- §7.4.1/§7.4.2: codes an endpoint may receive in a close frame -/
def closeCodeOk (c : Nat) : Bool :=
  (1000 ≤ c && c ≤ 1003) || (1007 ≤ c && c ≤ 1011) || (3000 ≤ c && c ≤ 4999)

def run (g : Cfg) : St → Nat → List Ev → List Frame → Res
  | _, _, evs, [] => { verdict := .accept, at_ := -1, evs }
  | s, i, evs, f :: fs =>
    match hdrCheck g s f with
    | some why =>
      if f.partial && !f.topbit && why != .ctlLen && why != .tooBig then { verdict := .accept, at_ := -1, evs, may := some why }
      else { verdict := .reject why, at_ := i, evs }
    | none =>
      if f.partial then { verdict := .accept, at_ := -1, evs }
      else if f.op == 9 then run g s (i + 1) (evs ++ [.pong f.payload]) fs
      else if f.op == 10 then run g s (i + 1) evs fs
      else if f.op == 8 then
        let p := f.payload
        if p.length == 0 then { verdict := .closed, at_ := i, evs := evs ++ [.close []] }
        else if p.length == 1 then { verdict := .reject .closeLen, at_ := i, evs }
        else if !closeCodeOk (beDec (p.take 2)) then { verdict := .reject .closeCode, at_ := i, evs }
        else if !utf8Valid (p.drop 2) then { verdict := .reject .closeUtf8, at_ := i, evs }
        else { verdict := .closed, at_ := i, evs := evs ++ [.close p] }
      else
        let s : St := if f.op != 0 then { inMsg := true, typ := f.op, comp := f.r1, acc := [] } else s
        let s := { s with acc := s.acc ++ f.payload }
        if !f.fin then run g s (i + 1) evs fs
        else
          let r : TInfl := if s.comp then g.infl s.acc else .ok s.acc
          match r with
          | .big => { verdict := .reject .tooBig, at_ := i, evs }
          | .err => { verdict := .reject .inflate, at_ := i, evs }
          | .ok msg =>
            if s.typ == 1 && !utf8Valid msg then { verdict := .reject .utf8, at_ := i, evs }
            else run g {} (i + 1) (evs ++ [.deliver s.typ msg]) fs


end RfcM
