import NbioVerif.Model.PipelineProposed
/-! PROPOSED PATCH ONLY — see Model/PipelineProposed.lean.  C10 (a): invariant of the per-connection pipeline and the facts about `W` / `answered` it needs -/
namespace PipelineProposed
variable {α : Type}

/-! ### W: concatenated responses of a prefix of the requests -/

theorem W_zero (l : List (Req α)) : W l 0 = [] := by simp [W]

theorem W_succ (l : List (Req α)) (j : Nat) (r : Req α) (h : l[j]? = some r) :
    W l (j + 1) = W l j ++ r.resp := by
  simp [W, List.take_add_one, h]

theorem W_prefix (l : List (Req α)) {i j : Nat} (h : i ≤ j) : W l i <+: W l j := by
  obtain ⟨t, ht⟩ := List.take_prefix_take_left (l := l) h
  refine ⟨(t.map Req.resp).flatten, ?_⟩
  simp [W, ← ht]

theorem W_all (l : List (Req α)) : W l l.length = (l.map Req.resp).flatten := by simp [W]

/-! ### answered: index after the first closing request -/

/-- no request with index `< j` has a true close decision -/
def noCloseBefore (l : List (Req α)) (j : Nat) : Prop :=
  ∀ k r, k < j → l[k]? = some r → r.close = false

theorem noCloseBefore_tail {r : Req α} {rs : List (Req α)} {j : Nat}
    (h : noCloseBefore (r :: rs) (j + 1)) : r.close = false ∧ noCloseBefore rs j := by
  refine ⟨h 0 r (by omega) (by simp), ?_⟩
  intro k r' hk hr'
  exact h (k + 1) r' (by omega) (by simpa using hr')

theorem answered_le : ∀ (l : List (Req α)), answered l ≤ l.length
  | [] => by simp [answered]
  | r :: rs => by
    have := answered_le rs
    simp only [answered]; split <;> simp <;> omega

theorem answered_ge : ∀ (l : List (Req α)) (j : Nat), noCloseBefore l j → j ≤ l.length → j ≤ answered l
  | _, 0, _, _ => Nat.zero_le _
  | [], j + 1, _, hl => by simp at hl
  | r :: rs, j + 1, h, hl => by
    obtain ⟨h0, ht⟩ := noCloseBefore_tail h
    have := answered_ge rs j ht (by simpa using hl)
    simp only [answered, h0]; simp; omega

theorem answered_eq : ∀ (l : List (Req α)) (j : Nat) (r : Req α),
    noCloseBefore l j → l[j]? = some r → r.close = true → answered l = j + 1
  | [], _, _, _, hr, _ => by simp at hr
  | r0 :: rs, 0, r, _, hr, hc => by
    simp at hr; subst hr; simp [answered, hc]
  | r0 :: rs, j + 1, r, h, hr, hc => by
    obtain ⟨h0, ht⟩ := noCloseBefore_tail h
    have := answered_eq rs j r ht (by simpa using hr) hc
    simp only [answered, h0]; simp; omega

theorem answered_all : ∀ (l : List (Req α)), noCloseBefore l l.length →
    answered l = l.length ∧ l.any Req.close = false
  | [], _ => by simp [answered]
  | r :: rs, h => by
    obtain ⟨h0, ht⟩ := noCloseBefore_tail (j := rs.length) (by simpa using h)
    obtain ⟨h1, h2⟩ := answered_all rs ht
    simp only [answered, h0]; simp [h1, h2, h0]; omega

theorem any_close_of_get (l : List (Req α)) (j : Nat) (r : Req α) (hr : l[j]? = some r)
    (hc : r.close = true) : l.any Req.close = true := by
  rw [List.any_eq_true]
  exact ⟨r, List.mem_of_getElem? hr, hc⟩

/-- with no closing request among the first `j` and request `j` present, at least `j+1` are answered -/
theorem answered_gt (l : List (Req α)) (j : Nat) (r : Req α)
    (h : noCloseBefore l j) (hr : l[j]? = some r) : j + 1 ≤ answered l := by
  cases hc : r.close with
  | true => rw [answered_eq l j r h hr hc]; exact Nat.le_refl _
  | false =>
    have hlt : j < l.length := by
      have := List.getElem?_eq_some_iff.mp hr; obtain ⟨h1, _⟩ := this; exact h1
    apply answered_ge l (j + 1) _ hlt
    intro k r' hk hr'
    by_cases hkj : k = j
    · subst hkj; rw [hr] at hr'; cases hr'; exact hc
    · exact h k r' (by omega) hr'

/-! ### the invariant -/

structure Inv (cfg : Cfg α) (s : St α) : Prop where
  q_range  : s.queue = List.range' s.fin s.queue.length
  acc_le   : s.fin + s.queue.length ≤ s.next
  next_le  : s.next ≤ cfg.reqs.length
  acc_eq   : (s.closed = false ∨ cfg.sync = true) → s.fin + s.queue.length = s.next
  cur_some : ∀ rem, s.cur = some rem → s.queue ≠ [] ∧ ∃ r pre, cfg.reqs[s.fin]? = some r ∧
               r.pieces = pre ++ rem ∧
               (s.shut = false → s.wire ++ s.pending = W cfg.reqs s.fin ++ pre.flatten)
  cur_none : s.cur = none → s.shut = false → s.wire ++ s.pending = W cfg.reqs s.fin
  no_close : s.shut = false → noCloseBefore cfg.reqs s.fin
  pend     : s.closed = true → s.pending = [] ∧ s.draining = false
  drain    : s.draining = true → s.pending ≠ [] ∧ willClose cfg = true ∧
               answered cfg.reqs ≤ s.fin ∧ s.wire ++ s.pending = ideal cfg
  pre      : s.closed = true → s.wire <+: ideal cfg
  by_srv   : s.byServer = true → s.closed = true ∧ willClose cfg = true ∧
               answered cfg.reqs ≤ s.fin ∧ s.wire = ideal cfg
  why      : s.closed = true → s.byServer = true ∨ s.ext = true
  drop_ext : s.dropped = true → s.ext = true
  handled  : s.handled = List.range (s.fin + (if s.cur.isSome then 1 else 0))

theorem inv_init (cfg : Cfg α) : Inv cfg (init : St α) := by
  constructor <;> simp [init, St.shut, W_zero, noCloseBefore]

theorem shut_false {s : St α} (h : s.shut = false) : s.closed = false ∧ s.draining = false := by
  simpa [St.shut] using h

/-- taken ++ queued is a prefix of the ideal stream while the connection is open -/
theorem total_prefix_of_inv {cfg : Cfg α} {s : St α} (h : Inv cfg s) (hc : s.closed = false) :
    s.wire ++ s.pending <+: ideal cfg := by
  cases hd : s.draining with
  | true => rw [(h.drain hd).2.2.2]; exact List.prefix_refl _
  | false =>
    have hs : s.shut = false := by simp [St.shut, hc, hd]
    have hn := h.no_close hs
    cases hcur : s.cur with
    | none =>
      rw [h.cur_none hcur hs]
      apply W_prefix
      apply answered_ge _ _ hn
      have := h.acc_le; have := h.next_le; omega
    | some rem =>
      obtain ⟨_, r, pre, hr, hp, hw⟩ := h.cur_some rem hcur
      rw [hw hs]
      have h1 : W cfg.reqs s.fin ++ pre.flatten <+: W cfg.reqs (s.fin + 1) := by
        rw [W_succ _ _ r hr]
        refine ⟨rem.flatten, ?_⟩
        simp [Req.resp, hp]
      exact h1.trans (W_prefix _ (answered_gt _ _ r hn hr))

/-- the wire is a prefix of the ideal stream in every state satisfying the invariant -/
theorem wire_prefix_of_inv {cfg : Cfg α} {s : St α} (h : Inv cfg s) : s.wire <+: ideal cfg := by
  cases hc : s.closed with
  | true => exact h.pre hc
  | false => exact (List.prefix_append _ _).trans (total_prefix_of_inv h hc)

theorem head_of_range' {q : List Nat} {k f : Nat} {t : List Nat} (hq : q = List.range' f q.length)
    (hk : q = k :: t) : k = f ∧ t = List.range' (f + 1) t.length := by
  subst hk
  simp only [List.length_cons, List.range'_succ] at hq
  injection hq with h1 h2
  exact ⟨h1, h2⟩

theorem inv_step {cfg : Cfg α} {s s' : St α} (a : Act) (h : Inv cfg s) (hs : step cfg s a = some s') :
    Inv cfg s' := by
  cases a with
  | parse =>
    simp only [step] at hs
    split at hs
    · rename_i hlt
      split at hs
      · rename_i hcl
        cases hs
        simp only [Bool.and_eq_true, Bool.not_eq_true'] at hcl
        obtain ⟨hc, hsy⟩ := hcl
        exact { h with
          acc_le := by have := h.acc_le; simp only; omega
          next_le := by simp only; omega
          acc_eq := by intro hh; simp only at hh; rcases hh with hh | hh <;> simp_all }
      · rename_i hcl
        cases hs
        have hor : s.closed = false ∨ cfg.sync = true := by
          cases hc : s.closed <;> cases hy : cfg.sync <;> simp_all
        have he := h.acc_eq hor
        exact { h with
          q_range := by
            simp only [List.length_append, List.length_cons, List.length_nil]
            rw [List.range'_concat, ← h.q_range]; simp; omega
          acc_le := by simp only [List.length_append, List.length_cons, List.length_nil]; omega
          next_le := by simp only; omega
          acc_eq := by intro _; simp only [List.length_append, List.length_cons, List.length_nil]; omega
          cur_some := by
            intro rem hr
            obtain ⟨_, hx⟩ := h.cur_some rem hr
            exact ⟨by simp, hx⟩ }
    · cases hs
  | start =>
    simp only [step] at hs
    split at hs
    · rename_i k t hcur hq
      split at hs
      · rename_i r hr
        cases hs
        obtain ⟨hk, _⟩ := head_of_range' h.q_range hq
        subst hk
        exact { h with
          cur_some := by
            intro rem hrem
            simp only [Option.some.injEq] at hrem
            subst hrem
            refine ⟨by simp [hq], r, [], hr, by simp, ?_⟩
            intro hc
            have := h.cur_none hcur hc
            simpa using this
          cur_none := by intro hh; simp at hh
          handled := by
            have := h.handled
            simp only [hcur] at this
            simp only [Option.isSome_some, if_true]
            rw [List.range_succ, this]; simp }
      · cases hs
    · cases hs
  | write k =>
    simp only [step] at hs
    split at hs
    · rename_i p ps hcur
      obtain ⟨hq, r, pre, hr, hp, hw⟩ := h.cur_some _ hcur
      have hhandled : s.handled = List.range (s.fin + 1) := by
        have := h.handled; simp only [hcur] at this; simpa using this
      split at hs
      · -- closed or closing: the write fails
        rename_i hc
        have hsh : s.shut = true := hc
        cases hs
        exact { h with
          cur_some := by
            intro rem hrem
            simp only [Option.some.injEq] at hrem
            subst hrem
            refine ⟨hq, r, pre ++ [p], hr, by simp [hp], ?_⟩
            intro hh
            have : s.shut = false := hh
            rw [hsh] at this; cases this
          cur_none := by intro hh; simp at hh
          handled := by simpa using hhandled }
      · rename_i hc
        have hsh : s.shut = false := by simpa [St.shut] using hc
        obtain ⟨hcl, hdr⟩ := shut_false hsh
        split at hs
        · -- empty write list: the kernel takes a part, the rest is queued
          rename_i hpe
          have hpe' : s.pending = [] := by simpa using hpe
          cases hs
          exact { h with
            cur_some := by
              intro rem hrem
              simp only [Option.some.injEq] at hrem
              subst hrem
              refine ⟨hq, r, pre ++ [p], hr, by simp [hp], ?_⟩
              intro _
              have := hw hsh
              rw [hpe', List.append_nil] at this
              simp only [List.append_assoc, List.take_append_drop, this]
              simp
            cur_none := by intro hh; simp at hh
            pend := by intro hh; have : s.closed = true := hh; rw [hcl] at this; cases this
            drain := by intro hh; have : s.draining = true := hh; rw [hdr] at this; cases this
            pre := by intro hh; have : s.closed = true := hh; rw [hcl] at this; cases this
            by_srv := by
              intro hb
              have := (h.by_srv hb).1; rw [hcl] at this; cases this
            handled := by simpa using hhandled }
        · -- behind a backlog: queued whole
          cases hs
          exact { h with
            cur_some := by
              intro rem hrem
              simp only [Option.some.injEq] at hrem
              subst hrem
              refine ⟨hq, r, pre ++ [p], hr, by simp [hp], ?_⟩
              intro _
              have := hw hsh
              simp only [← List.append_assoc, this]
              simp
            cur_none := by intro hh; simp at hh
            pend := by intro hh; have : s.closed = true := hh; rw [hcl] at this; cases this
            drain := by intro hh; have : s.draining = true := hh; rw [hdr] at this; cases this
            handled := by simpa using hhandled }
    · cases hs
  | flush k =>
    simp only [step] at hs
    split at hs
    · rename_i hg
      simp only [Bool.and_eq_true, Bool.not_eq_true', decide_eq_true_eq] at hg
      obtain ⟨⟨hc, hne⟩, _⟩ := hg
      split at hs
      · -- the flush empties the list of a connection that is waiting to close: it closes
        rename_i hfin
        simp only [Bool.and_eq_true, List.isEmpty_iff] at hfin
        obtain ⟨_, hdr⟩ := hfin
        obtain ⟨_, hwc, hans, htot⟩ := h.drain hdr
        cases hs
        exact { h with
          acc_eq := by
            intro hh; simp only at hh
            rcases hh with hh | hh
            · cases hh
            · exact h.acc_eq (Or.inr hh)
          cur_some := by
            intro rem hrem
            obtain ⟨h1, r, pre, h2, h3, _⟩ := h.cur_some rem hrem
            exact ⟨h1, r, pre, h2, h3, by intro hh; simp [St.shut] at hh⟩
          cur_none := by intro _ hh; simp [St.shut] at hh
          no_close := by intro hh; simp [St.shut] at hh
          pend := fun _ => ⟨rfl, rfl⟩
          drain := by intro hh; cases hh
          pre := by intro _; simp only; rw [htot]; exact List.prefix_refl _
          by_srv := fun _ => ⟨rfl, hwc, hans, htot⟩
          why := fun _ => Or.inl rfl }
      · rename_i hfin
        cases hs
        have hkeep : s.wire ++ List.take k s.pending ++ List.drop k s.pending = s.wire ++ s.pending := by
          rw [List.append_assoc, List.take_append_drop]
        have hshut : ∀ (w p : List α), ({ s with wire := w, pending := p } : St α).shut = s.shut := by
          intro w p; rfl
        exact { h with
          cur_some := by
            intro rem hrem
            obtain ⟨h1, r, pre, h2, h3, h4⟩ := h.cur_some rem hrem
            exact ⟨h1, r, pre, h2, h3, by intro hh; simp only; rw [hkeep]; exact h4 hh⟩
          cur_none := by intro h1 h2; simp only; rw [hkeep]; exact h.cur_none h1 h2
          pend := by intro hh; have : s.closed = true := hh; rw [hc] at this; cases this
          drain := by
            intro hh
            have hdr : s.draining = true := hh
            obtain ⟨_, h2, h3, h4⟩ := h.drain hdr
            refine ⟨?_, h2, h3, by simp only; rw [hkeep]; exact h4⟩
            simp only
            intro hemp
            apply hfin
            simp [hemp, hdr]
          pre := by intro hh; have : s.closed = true := hh; rw [hc] at this; cases this
          by_srv := by
            intro hb
            have := (h.by_srv hb).1; rw [hc] at this; cases this }
    · cases hs
  | finish =>
    simp only [step] at hs
    split at hs
    · rename_i k q hcur hq
      obtain ⟨hk, hqt⟩ := head_of_range' h.q_range hq
      subst hk
      obtain ⟨_, r, pre, hr, hp, hw⟩ := h.cur_some _ hcur
      simp only [List.append_nil] at hp
      have hlen : s.queue.length = q.length + 1 := by rw [hq]; simp
      have htot : s.shut = false → s.wire ++ s.pending = W cfg.reqs (s.fin + 1) := by
        intro hc; rw [hw hc, W_succ _ _ r hr, Req.resp, hp]
      have hhandled : s.handled = List.range (s.fin + 1) := by
        have := h.handled; simp only [hcur] at this; simpa using this
      simp only [hr] at hs
      split at hs
      · -- the close decision is acted on
        rename_i hcl
        simp only [Bool.and_eq_true, Bool.not_eq_true'] at hcl
        obtain ⟨⟨hrc, hc⟩, hdr⟩ := hcl
        have hsh : s.shut = false := by simp [St.shut, hc, hdr]
        have hans : answered cfg.reqs = s.fin + 1 := answered_eq _ _ r (h.no_close hsh) hr hrc
        have hwc : willClose cfg = true := any_close_of_get _ _ r hr hrc
        have hid : s.wire ++ s.pending = ideal cfg := by rw [htot hsh, ideal, hans]
        split at hs
        · -- nothing queued: closed now
          rename_i hpe
          have hpe' : s.pending = [] := by simpa using hpe
          cases hs
          have hwire : s.wire = ideal cfg := by rw [← hid, hpe', List.append_nil]
          exact
            { q_range := hqt
              acc_le := by have := h.acc_le; simp only; omega
              next_le := h.next_le
              acc_eq := by
                intro hh; simp only at hh
                rcases hh with hh | hh
                · cases hh
                · have := h.acc_eq (Or.inr hh); simp only; omega
              cur_some := by intro rem hh; simp at hh
              cur_none := by intro _ hh; simp [St.shut] at hh
              no_close := by intro hh; simp [St.shut] at hh
              pend := fun _ => ⟨hpe', hdr⟩
              drain := by intro hh; have : s.draining = true := hh; rw [hdr] at this; cases this
              pre := by intro _; simp only; rw [hwire]; exact List.prefix_refl _
              by_srv := fun _ => ⟨rfl, hwc, by simp only; omega, hwire⟩
              why := fun _ => Or.inl rfl
              drop_ext := h.drop_ext
              handled := by simpa using hhandled }
        · -- a backlog: the connection waits for the flush
          rename_i hpe
          cases hs
          exact
            { q_range := hqt
              acc_le := by have := h.acc_le; simp only; omega
              next_le := h.next_le
              acc_eq := by intro hh; have := h.acc_eq hh; simp only; omega
              cur_some := by intro rem hh; simp at hh
              cur_none := by intro _ hh; simp [St.shut] at hh
              no_close := by intro hh; simp [St.shut] at hh
              pend := by intro hh; have : s.closed = true := hh; rw [hc] at this; cases this
              drain := fun _ => ⟨by simpa using hpe, hwc, by simp only; omega, hid⟩
              pre := by intro hh; have : s.closed = true := hh; rw [hc] at this; cases this
              by_srv := by
                intro hb
                have := (h.by_srv hb).1; rw [hc] at this; cases this
              why := by intro hh; have : s.closed = true := hh; rw [hc] at this; cases this
              drop_ext := h.drop_ext
              handled := by simpa using hhandled }
      · -- no close decision, or already closed / closing
        rename_i hcl
        cases hs
        have hshut : ({ s with cur := none, queue := q, fin := s.fin + 1 } : St α).shut = s.shut := rfl
        exact
          { q_range := hqt
            acc_le := by have := h.acc_le; simp only; omega
            next_le := h.next_le
            acc_eq := by intro hh; have := h.acc_eq hh; simp only; omega
            cur_some := by intro rem hh; simp at hh
            cur_none := by
              intro _ hh
              rw [hshut] at hh
              simpa using htot hh
            no_close := by
              intro hh
              rw [hshut] at hh
              obtain ⟨hc, hdr⟩ := shut_false hh
              have hrc : r.close = false := by
                cases hrr : r.close with
                | false => rfl
                | true => exact absurd (by simp [hrr, hc, hdr]) hcl
              intro k r' hk hr'
              have hk' : k < s.fin + 1 := hk
              by_cases hkf : k = s.fin
              · subst hkf; rw [hr] at hr'; cases hr'; exact hrc
              · exact h.no_close hh k r' (by omega) hr'
            pend := h.pend
            drain := by
              intro hh
              obtain ⟨h1, h2, h3, h4⟩ := h.drain hh
              exact ⟨h1, h2, by simp only; omega, h4⟩
            pre := h.pre
            by_srv := by
              intro hb
              obtain ⟨h1, h2, h3, h4⟩ := h.by_srv hb
              exact ⟨h1, h2, by simp only; omega, h4⟩
            why := h.why
            drop_ext := h.drop_ext
            handled := by simpa using hhandled }
    · cases hs
  | extClose =>
    simp only [step] at hs
    cases hs
    have hpre := wire_prefix_of_inv h
    exact { h with
      acc_eq := by
        intro hh; simp only at hh
        rcases hh with hh | hh
        · cases hh
        · exact h.acc_eq (Or.inr hh)
      cur_some := by
        intro rem hrem
        obtain ⟨h1, r, pre, h2, h3, _⟩ := h.cur_some rem hrem
        exact ⟨h1, r, pre, h2, h3, by intro hh; simp [St.shut] at hh⟩
      cur_none := by intro _ hh; simp [St.shut] at hh
      no_close := by intro hh; simp [St.shut] at hh
      pend := fun _ => ⟨rfl, rfl⟩
      drain := by intro hh; cases hh
      pre := fun _ => hpre
      by_srv := by
        intro hb
        obtain ⟨h1, h2, h3, h4⟩ := h.by_srv hb
        exact ⟨rfl, h2, h3, h4⟩
      why := fun _ => Or.inr rfl
      drop_ext := fun _ => rfl }

theorem inv_run {cfg : Cfg α} (acts : List Act) : ∀ {s : St α}, Inv cfg s → Inv cfg (run cfg s acts) := by
  induction acts with
  | nil => intro s h; exact h
  | cons a as ih =>
    intro s h
    simp only [run]
    split
    · rename_i s' hs; exact ih (inv_step a h hs)
    · exact ih h

/-! ### frame facts of single steps -/

theorem step_closed {cfg : Cfg α} {s s' : St α} (a : Act) (hs : step cfg s a = some s')
    (hc : s.closed = true) : s'.closed = true ∧ s'.wire = s.wire := by
  cases a <;> simp only [step] at hs
  · split at hs
    · split at hs <;> cases hs <;> exact ⟨hc, rfl⟩
    · cases hs
  · split at hs
    · split at hs
      · cases hs; exact ⟨hc, rfl⟩
      · cases hs
    · cases hs
  · split at hs
    · simp only [hc, Bool.true_or, if_true] at hs; cases hs; exact ⟨rfl, rfl⟩
    · cases hs
  · simp [hc] at hs
  · split at hs
    · simp only [hc, Bool.not_true, Bool.and_false, Bool.false_and] at hs
      split at hs
      · rename_i hx; simp at hx
      · cases hs; exact ⟨rfl, rfl⟩
    · cases hs
  · cases hs; simp

theorem step_ext {cfg : Cfg α} {s s' : St α} (a : Act) (hs : step cfg s a = some s')
    (ha : a ≠ .extClose) : s'.ext = s.ext := by
  cases a <;> simp only [step] at hs
  · split at hs
    · split at hs <;> cases hs <;> rfl
    · cases hs
  · split at hs
    · split at hs
      · cases hs; rfl
      · cases hs
    · cases hs
  · split at hs
    · split at hs
      · cases hs; rfl
      · split at hs <;> cases hs <;> rfl
    · cases hs
  · split at hs
    · split at hs <;> cases hs <;> rfl
    · cases hs
  · split at hs
    · (repeat' split at hs) <;> (cases hs; rfl)
    · cases hs
  · exact absurd rfl ha

end PipelineProposed
