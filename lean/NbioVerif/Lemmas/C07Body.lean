import NbioVerif.Lemmas.C07Header
/-! C07 productions: the blank line (framing decision) and the three body forms. -/
namespace Http
open Scan

/-- the scratch fields are at their initial values (they are only non-empty inside the line being scanned) -/
structure Quiet (p : P) : Prop where
  proto : p.proto = []
  statusCode : p.statusCode = 0
  status : p.status = []
  hKey : p.hKey = []
  hVal : p.hVal = []

def startSt (g : Cfg) : PState := if g.isClient then .clientProtoBefore else .methodBefore

/-- the parser between two messages: every field except `contentLength` and `chunkSize` (which are always
    overwritten before they are read) has the value it has in `init g` -/
structure Idle (g : Cfg) (p : P) : Prop extends Quiet p where
  st : p.st = startSt g
  te : p.te = []
  tr : p.tr = []
  cl : p.cl = []
  trailer : p.trailer = []
  chunked : p.chunked = false
  noBody : p.noBody = false
  headerExists : p.headerExists = false
  bodyHeld : p.bodyHeld = 0

theorem idle_init (g : Cfg) : Idle g (init g) := by
  constructor <;> (try constructor) <;> simp [init, startSt]

theorem idle_handleMessage (g : Cfg) (p : P) (hq : Quiet p) (hx : p.headerExists = false) : Idle g (handleMessage g p) := by
  obtain ⟨a, b, c, d, e⟩ := hq
  constructor <;> (try constructor) <;> simp [handleMessage, startSt, *]

/-- blank line of a message without framing fields: no body -/
theorem end_none (g : Cfg) (p : P) (tok rest : Bytes) (acc : List Ev)
    (hp : p.st = .headerKeyBefore) (hq : Quiet p) (hte : p.te = []) (hcl : p.cl = []) (hch : p.chunked = false)
    (hnb : p.noBody = false) :
    ∃ p', Idle g p' ∧ specFeed (M g) p tok ([CR, LF] ++ rest) acc =
      specFeed (M g) p' [] rest (acc ++ [.contentLength (-1), .complete]) := by
  refine ⟨handleMessage g { p with contentLength := -1, st := .headerOverLF, headerExists := false }, ?_, ?_⟩
  · exact idle_handleMessage g _ ⟨hq.proto, hq.statusCode, hq.status, hq.hKey, hq.hVal⟩ rfl
  · simp only [List.cons_append, List.nil_append]
    rw [spec_step g p tok CR _ acc { p with contentLength := -1, st := .headerOverLF } .next [.contentLength (-1)]
          (by simp [block, hp])
          (by simp [byteStep, hp, endOfHeaders, parseTE, parseCL, addTrailerKeys, noBodyOverride, hnb, hte, hcl, hch, ok, CR, SP, bind, Except.bind, pure, Except.pure])]
    rw [spec_step g _ _ LF _ _ (handleMessage g { p with contentLength := -1, st := .headerOverLF, headerExists := false })
          .next [.complete] (by simp [block])
          (by simp [byteStep, hch, ok])]
    simp

/-- blank line of a bodiless response (1xx / 204 / 304) without framing fields: complete, reported length 0 -/
theorem end_bodiless (g : Cfg) (p : P) (tok rest : Bytes) (acc : List Ev)
    (hp : p.st = .headerKeyBefore) (hq : Quiet p) (hte : p.te = []) (hcl : p.cl = []) (hch : p.chunked = false)
    (hnb : p.noBody = true) :
    ∃ p', Idle g p' ∧ specFeed (M g) p tok ([CR, LF] ++ rest) acc =
      specFeed (M g) p' [] rest (acc ++ [.contentLength 0, .complete]) := by
  refine ⟨handleMessage g { p with contentLength := 0, chunked := false, st := .headerOverLF, headerExists := false }, ?_, ?_⟩
  · exact idle_handleMessage g _ ⟨hq.proto, hq.statusCode, hq.status, hq.hKey, hq.hVal⟩ rfl
  · simp only [List.cons_append, List.nil_append]
    rw [spec_step g p tok CR _ acc { p with contentLength := 0, chunked := false, st := .headerOverLF } .next [.contentLength 0]
          (by simp [block, hp])
          (by simp [byteStep, hp, endOfHeaders, parseTE, parseCL, addTrailerKeys, noBodyOverride, hnb, hte, hcl, ok, CR, SP, bind, Except.bind, pure, Except.pure])]
    rw [spec_step g _ _ LF _ _ (handleMessage g { p with contentLength := 0, chunked := false, st := .headerOverLF, headerExists := false })
          .next [.complete] (by simp [block])
          (by simp [byteStep, ok])]
    simp

set_option maxRecDepth 8192 in
theorem num_not_sign (c : UInt8) (h : isNum c = true) : c ≠ 43 ∧ c ≠ 45 := by
  have key := forall_uint8 (fun c => !isNum c || (c != 43 && c != 45)) (by decide) c
  simpa [h] using key

/-- a digit string below 2^62 is a valid Content-Length value -/
theorem parseCL_digits (d : Bytes) (hne : d ≠ []) (hdig : d.all isNum = true) (hlt : decimal d < 2 ^ 62) :
    parseCLValue d = some (Int.ofNat (decimal d)) := by
  have hp : parseNat 10 isNum d = some (decimal d) := by
    simp only [parseNat, hne, if_false, hdig, if_true, decimal] at hlt ⊢
    simp [hlt]
  cases d with
  | nil => exact absurd rfl hne
  | cons c0 cs =>
    have ⟨n1, n2⟩ := num_not_sign c0 (by simp only [List.all_cons, Bool.and_eq_true] at hdig; exact hdig.1)
    unfold parseCLValue
    split
    · rename_i heq; simp only [List.cons.injEq] at heq; exact absurd heq.1 n1
    · rename_i heq; simp only [List.cons.injEq] at heq; exact absurd heq.1 n2
    · rw [hp]; rfl

theorem trimRightSpaces_nil : trimRightSpaces [] = [] := by simp [trimRightSpaces]

/-- `parseTransferEncoding; parseContentLength` for a single numeric Content-Length and no Transfer-Encoding -/
theorem endOfHeaders_length (p : P) (v : Bytes) (hte : p.te = []) (hcl : p.cl = [v])
    (hne : trimRightSpaces v ≠ []) (hdig : (trimRightSpaces v).all isNum = true) (hlt : decimal (trimRightSpaces v) < 2 ^ 62) :
    endOfHeaders p = .ok { p with contentLength := Int.ofNat (decimal (trimRightSpaces v)) } := by
  have hv : v ≠ [] := by intro h; subst h; exact hne trimRightSpaces_nil
  have hp := parseCL_digits _ hne hdig hlt
  simp only [endOfHeaders, parseTE, parseCL, hte, hcl, bind, Except.bind, pure, Except.pure, if_true, List.head?_cons, hv, if_false, hp]
  have : ¬ (Int.ofNat (decimal (trimRightSpaces v)) < 0) := by simp
  simp [this]

/-- blank line + body of a message framed by Content-Length -/
theorem end_length (g : Cfg) (p : P) (tok rest : Bytes) (acc : List Ev) (v body : Bytes)
    (hp : p.st = .headerKeyBefore) (hq : Quiet p) (hte : p.te = []) (hcl : p.cl = [v]) (hch : p.chunked = false)
    (hnb : p.noBody = false) (hbh : p.bodyHeld = 0)
    (hne : trimRightSpaces v ≠ []) (hdig : (trimRightSpaces v).all isNum = true) (hlt : decimal (trimRightSpaces v) < 2 ^ 62)
    (hlen : body.length = decimal (trimRightSpaces v))
    (hmax : g.maxBody = 0 ∨ body.length ≤ g.maxBody) :
    ∃ p', Idle g p' ∧ specFeed (M g) p tok ([CR, LF] ++ body ++ rest) acc =
      specFeed (M g) p' [] rest
        (acc ++ [.contentLength body.length] ++ (if body = [] then [.complete] else [.body body, .complete])) := by
  have hE := endOfHeaders_length p v hte hcl hne hdig hlt
  rw [← hlen] at hE
  have hquiet : ∀ (q : P), q.proto = p.proto → q.statusCode = p.statusCode → q.status = p.status → q.hKey = p.hKey →
      q.hVal = p.hVal → Quiet q := fun q a b c d e => ⟨a ▸ hq.proto, b ▸ hq.statusCode, c ▸ hq.status, d ▸ hq.hKey, e ▸ hq.hVal⟩
  simp only [List.cons_append, List.nil_append, List.append_assoc]
  rw [spec_step g p tok CR _ acc { p with contentLength := Int.ofNat body.length, st := .headerOverLF } .next
        [.contentLength body.length] (by simp [block, hp])
        (by simp [byteStep, hp, hE, addTrailerKeys, noBodyOverride, hnb, hch, ok, CR, SP, pure, Except.pure])]
  by_cases hb : body = []
  · subst hb
    refine ⟨handleMessage g { p with contentLength := 0, st := .headerOverLF, headerExists := false }, ?_, ?_⟩
    · exact idle_handleMessage g _ (hquiet _ rfl rfl rfl rfl rfl) rfl
    · rw [spec_step g _ _ LF _ _ (handleMessage g { p with contentLength := 0, st := .headerOverLF, headerExists := false })
            .next [.complete] (by simp [block]) (by simp [byteStep, hch, ok])]
      simp
  · have hpos : 0 < body.length := List.length_pos_iff.mpr hb
    refine ⟨handleMessage g { p with contentLength := Int.ofNat body.length, st := .bodyContentLength,
                                      headerExists := false, bodyHeld := body.length }, ?_, ?_⟩
    · exact idle_handleMessage g _ (hquiet _ rfl rfl rfl rfl rfl) rfl
    · rw [spec_step g _ _ LF _ _ { p with contentLength := Int.ofNat body.length, st := .bodyContentLength, headerExists := false }
            .next [] (by simp [block])
            (by simp [byteStep, hch, ok, hb])]
      simp only [nextTok_next, List.append_nil]
      have hblk : (M g).block { p with contentLength := Int.ofNat body.length, st := .bodyContentLength, headerExists := false }
          = some body.length := by
        simp [machine, block, hb]
      have := spec_block_full (M g) _ body.length hblk body [] rest
        (acc ++ [.contentLength body.length]) hb (by simp)
      rw [this]
      have hmx : ¬ (0 < g.maxBody ∧ g.maxBody < body.length) := by
        rcases hmax with h | h <;> omega
      simp only [machine, blockDone, List.nil_append, ok, er]
      simp [hmx, hb, hbh]

/-! ### chunked -/

/-- valid Content-Length values pass `parseContentLength` -/
theorem parseCL_ok_of_valid (p : P) (h : clValuesOk p.cl = true) : ∃ q, parseCL p = .ok q := by
  unfold parseCL
  cases hc : p.cl with
  | nil => exact ⟨_, rfl⟩
  | cons v rest =>
    rw [hc] at h
    simp only [clValuesOk, Bool.and_eq_true, List.all_eq_true, beq_iff_eq, decide_eq_true_eq] at h
    obtain ⟨⟨⟨h1, h2⟩, h3⟩, h4⟩ := h
    have hany : (rest.any fun w => trimRightSpaces w != trimRightSpaces v) = false := by
      simp only [List.any_eq_false, bne_iff_ne, ne_eq, Decidable.not_not]
      exact h1
    have hp := parseCL_digits _ h2 (by simpa using h3) h4
    simp only [hany, Bool.false_eq_true, if_false, hp]
    have : ¬ (Int.ofNat (decimal (trimRightSpaces v)) < 0) := by simp
    simp only [this, if_false]
    exact ⟨_, rfl⟩

/-- `parseTransferEncoding; parseContentLength; parseTrailer` for a single `Transfer-Encoding: chunked` (any
    accompanying Content-Length values valid) -/
theorem framing_chunked (p : P) (v : Bytes) (hte : p.te = [v]) (hv : (trim v).map toLower = str "chunked")
    (hclv : clValuesOk p.cl = true)
    (hforb : (declaredKeys p.tr).any forbiddenTrailer = false) (htrailer : p.trailer = []) :
    ∃ p1, endOfHeaders p = .ok p1 ∧ p1.contentLength = -1 ∧ p1.noBody = p.noBody ∧
      addTrailerKeys p1 = .ok { p with te := [], cl := [], tr := [], chunked := true, contentLength := -1,
                                       trailer := (declaredKeys p.tr).eraseDups } := by
  refine ⟨{ p with te := [], cl := [], chunked := true, contentLength := -1 }, ?_, rfl, rfl, ?_⟩
  · obtain ⟨q, hq⟩ := parseCL_ok_of_valid p hclv
    have hte' : parseTE p = .ok { p with te := [], cl := [], chunked := true } := by
      unfold parseTE
      rw [hte]
      simp only [hv, ne_eq, not_true_eq_false, if_false]
      cases hc : p.cl with
      | nil => rfl
      | cons a as => simp only [hq]; rfl
    simp only [endOfHeaders, hte', bind, Except.bind]
    simp [parseCL, pure, Except.pure]
  · by_cases htr : p.tr = []
    · simp [addTrailerKeys, htr, declaredKeys, htrailer, pure, Except.pure]
    · simp [addTrailerKeys, htr, hforb, pure, Except.pure]

/-- the blank line of a chunked message: the parser goes on to the first chunk-size line -/
theorem end_chunked (g : Cfg) (p : P) (tok rest : Bytes) (acc : List Ev) (v : Bytes)
    (hp : p.st = .headerKeyBefore) (hte : p.te = [v]) (hv : (trim v).map toLower = str "chunked")
    (hclv : clValuesOk p.cl = true)
    (hforb : (declaredKeys p.tr).any forbiddenTrailer = false) (htrailer : p.trailer = []) (hnb : p.noBody = false) :
    specFeed (M g) p tok ([CR, LF] ++ rest) acc =
      specFeed (M g)
        { p with te := [], cl := [], tr := [], chunked := true, contentLength := -1,
                 trailer := (declaredKeys p.tr).eraseDups, st := .chunkSizeBefore, headerExists := false }
        [] rest (acc ++ [.contentLength (-1)]) := by
  obtain ⟨p1, h1, h2, h2n, h3⟩ := framing_chunked p v hte hv hclv hforb htrailer
  have hnb1 : p1.noBody = false := by rw [h2n, hnb]
  simp only [List.cons_append, List.nil_append]
  rw [spec_step g p tok CR _ acc
        { p with te := [], cl := [], tr := [], chunked := true, contentLength := -1,
                 trailer := (declaredKeys p.tr).eraseDups, st := .headerOverLF } .next [.contentLength (-1)]
        (by simp [block, hp])
        (by simp [byteStep, hp, h1, h2, h3, noBodyOverride, hnb1, ok, CR, SP])]
  rw [spec_step g _ _ LF _ _
        { p with te := [], cl := [], tr := [], chunked := true, contentLength := -1,
                 trailer := (declaredKeys p.tr).eraseDups, st := .chunkSizeBefore, headerExists := false } .next []
        (by simp [block]) (by simp [byteStep, ok])]
  simp

set_option maxRecDepth 8192 in
theorem hex_facts (c : UInt8) (h : isHex c = true) : c ≠ SP ∧ c ≠ CR ∧ c ≠ LF := by
  have key := forall_uint8 (fun c => !isHex c || (c != SP && c != CR && c != LF)) (by decide) c
  simp only [h, Bool.not_true, Bool.false_or, Bool.and_eq_true, bne_iff_ne, ne_eq] at key
  exact ⟨key.1.1, key.1.2, key.2⟩

/-- a chunk-size line `HEXDIG+ [";" ext] CR`: the size is parsed at the ';' or the CR; after the ';' everything up
    to the CR (except a bare LF) is extension -/
theorem chunk_size_line (g : Cfg) (p : P) (tok : Bytes) (size ext rest : Bytes) (acc : List Ev)
    (hp : p.st = .chunkSizeBefore)
    (hne : size ≠ []) (hhex : size.all isHex = true) (hlt : hexadecimal size < 2 ^ 62)
    (hext : ext = [] ∨ ∃ es, ext = 59 :: es ∧ ∀ c ∈ es, c ≠ CR ∧ c ≠ LF) :
    specFeed (M g) p tok (size ++ ext ++ [CR] ++ rest) acc =
      specFeed (M g) { p with chunkSize := Int.ofNat (hexadecimal size), chunkExt := !ext.isEmpty, st := .chunkSizeLF }
        [] rest acc := by
  have hparse : parseHexSize size = some (hexadecimal size) := by
    simp only [parseHexSize, parseNat, hne, if_false, hhex, if_true, hexadecimal] at hlt ⊢
    simp [hlt]
  cases size with
  | nil => exact absurd rfl hne
  | cons s0 ss =>
  simp only [List.all_cons, Bool.and_eq_true, List.all_eq_true] at hhex
  obtain ⟨hs0, hss⟩ := hhex
  simp only [List.cons_append, List.append_assoc]
  rw [spec_step g p tok s0 _ acc { p with chunkSize := -1, chunkExt := false, st := .chunkSize } .here []
        (by simp [block, hp]) (by simp [byteStep, hp, hs0, ok])]
  simp only [nextTok_here, List.append_nil]
  rw [scan_keep g { p with chunkSize := -1, chunkExt := false, st := .chunkSize } (by simp [block]) ss
        (by intro c hc tok'
            have ⟨a, b, d⟩ := hex_facts c (hss c hc)
            simp [byteStep, ok, a, b, d, hss c hc])]
  have hpc : parseChunk { p with chunkSize := -1, chunkExt := false, st := .chunkSize } (s0 :: ss)
      = .ok { p with chunkSize := Int.ofNat (hexadecimal (s0 :: ss)), chunkExt := false, st := .chunkSize } := by
    simp only [parseChunk, hparse]
    simp [pure, Except.pure]
  simp only [List.singleton_append]
  rcases hext with hext | ⟨es, hext, hes⟩
  · subst hext
    simp only [List.nil_append, List.cons_append]
    rw [spec_step g _ _ CR _ acc
          { p with chunkSize := Int.ofNat (hexadecimal (s0 :: ss)), chunkExt := false, st := .chunkSizeLF } .next []
          (by simp [block]) (by simp only [byteStep, hpc]; simp [ok, CR, SP, LF])]
    simp
  · subst hext
    simp only [List.cons_append]
    rw [spec_step g _ _ 59 _ acc
          { p with chunkSize := Int.ofNat (hexadecimal (s0 :: ss)), chunkExt := true, st := .chunkSize } .keep []
          (by simp [block])
          (by simp only [byteStep, hpc]; simp [ok, CR, SP, LF, show isHex 59 = false by decide])]
    simp only [List.append_nil, nextTok_keep]
    have hnoop : ∀ tok', parseChunk { p with chunkSize := Int.ofNat (hexadecimal (s0 :: ss)), chunkExt := true, st := .chunkSize } tok'
        = .ok { p with chunkSize := Int.ofNat (hexadecimal (s0 :: ss)), chunkExt := true, st := .chunkSize } := by
      intro tok'
      simp only [parseChunk]
      rw [if_neg (by simp)]
      rfl
    rw [scan_keep g { p with chunkSize := Int.ofNat (hexadecimal (s0 :: ss)), chunkExt := true, st := .chunkSize }
          (by simp [block]) es
          (by intro c hc tok'
              have ⟨a, b⟩ := hes c hc
              simp [byteStep, ok, a, b]
              intro h; omega)]
    rw [spec_step g _ _ CR _ acc
          { p with chunkSize := Int.ofNat (hexadecimal (s0 :: ss)), chunkExt := true, st := .chunkSizeLF } .next []
          (by simp [block]) (by simp only [byteStep, hnoop]; simp [ok, CR, SP, LF])]
    simp

/-- what the parser needs from a chunk as written -/
def Chunk.parsable (c : Chunk) : Prop :=
  c.size ≠ [] ∧ c.size.all isHex = true ∧ hexadecimal c.size = c.data.length ∧ c.data ≠ [] ∧ c.data.length < 2 ^ 62 ∧
  (c.ext = [] ∨ ∃ es, c.ext = 59 :: es ∧ ∀ x ∈ es, x ≠ CR ∧ x ≠ LF)

theorem ext_parsable (ext : Bytes) (h : (ext = [] || (ext.head? == some 59 && ext.all visible)) = true) :
    ext = [] ∨ ∃ es, ext = 59 :: es ∧ ∀ x ∈ es, x ≠ CR ∧ x ≠ LF := by
  cases ext with
  | nil => exact Or.inl rfl
  | cons e0 es =>
    right
    simp only [reduceCtorEq, decide_false, List.head?_cons, Bool.false_or, Bool.and_eq_true, beq_iff_eq,
      Option.some.injEq, List.all_cons, List.all_eq_true] at h
    obtain ⟨h0, _, hes⟩ := h
    subst h0
    exact ⟨es, rfl, fun x hx => let ⟨_, b, c⟩ := visible_facts x (hes x hx); ⟨b, c⟩⟩

theorem Chunk.wf_parsable (c : Chunk) (h : c.wf = true) : c.parsable := by
  simp only [Chunk.wf, Bool.and_eq_true, decide_eq_true_eq, beq_iff_eq] at h
  obtain ⟨⟨⟨⟨⟨h1, h2⟩, h3⟩, h4⟩, h5⟩, h6⟩ := h
  exact ⟨h1, h2, h3, h4, h5, ext_parsable _ h6⟩

/-- the chunk production: `size [ext] CRLF data CRLF` -/
theorem chunk_line (g : Cfg) (p : P) (tok : Bytes) (c : Chunk) (rest : Bytes) (acc : List Ev)
    (hp : p.st = .chunkSizeBefore) (hc : c.parsable)
    (hmax : g.maxBody = 0 ∨ c.data.length + p.bodyHeld ≤ g.maxBody) :
    ∃ tok', specFeed (M g) p tok (c.render ++ rest) acc =
      specFeed (M g) { p with chunkSize := Int.ofNat c.data.length, chunkExt := !c.ext.isEmpty,
                              bodyHeld := p.bodyHeld + c.data.length }
        tok' rest (acc ++ [.body c.data]) := by
  obtain ⟨size, ext, data⟩ := c
  obtain ⟨h1, h2, h3, h4, h5, h6⟩ := hc
  simp only at h1 h2 h3 h4 h5 h6 hmax
  have hpos : 0 < data.length := List.length_pos_iff.mpr h4
  simp only [Chunk.render, crlf, List.append_assoc, List.cons_append, List.nil_append]
  have e := chunk_size_line g p tok size ext ([LF] ++ data ++ [CR, LF] ++ rest) acc hp h1 h2 (by rw [h3]; exact h5) h6
  simp only [List.append_assoc, List.cons_append, List.nil_append] at e
  rw [e, h3]
  -- LF
  rw [spec_step g _ _ LF _ acc { p with chunkSize := Int.ofNat data.length, chunkExt := !ext.isEmpty, st := .chunkData } .next []
        (by simp [block]) (by simp [byteStep, ok, h4])]
  simp only [nextTok_next, List.append_nil]
  -- data block
  have hblk : (M g).block { p with chunkSize := Int.ofNat data.length, chunkExt := !ext.isEmpty, st := .chunkData } = some data.length := by
    simp [machine, block, h4]
  rw [spec_block_full (M g) _ data.length hblk data [] _ acc h4 (by simp)]
  have hmx : ¬ (0 < g.maxBody ∧ g.maxBody < data.length + p.bodyHeld) := by
    rcases hmax with h | h <;> omega
  have hbd : (M g).blockDone { p with chunkSize := Int.ofNat data.length, chunkExt := !ext.isEmpty, st := .chunkData } ([] ++ data)
      = .ok { p with chunkSize := Int.ofNat data.length, chunkExt := !ext.isEmpty, bodyHeld := p.bodyHeld + data.length, st := .chunkDataCR }
          .next [.body data] := by
    simp [machine, blockDone, ok, er, hmx]
  simp only [hbd]
  -- CR LF
  rw [spec_step g _ _ CR _ _ { p with chunkSize := Int.ofNat data.length, chunkExt := !ext.isEmpty, bodyHeld := p.bodyHeld + data.length, st := .chunkDataLF }
        .keep [] (by simp [block]) (by simp [byteStep, ok])]
  rw [spec_step g _ _ LF _ _ { p with chunkSize := Int.ofNat data.length, chunkExt := !ext.isEmpty, bodyHeld := p.bodyHeld + data.length, st := .chunkSizeBefore }
        .keep [] (by simp [block]) (by simp [byteStep, ok])]
  refine ⟨?w, ?h⟩
  case h =>
    congr 1
    · cases p; simp only at hp; subst hp; rfl
    · exact rfl
    · simp

def chunksLen (cs : List Chunk) : Nat := ((cs.map (·.data)).flatten).length

/-- all chunks of a body -/
theorem chunk_lines (g : Cfg) (cs : List Chunk) :
    ∀ (p : P) (tok rest : Bytes) (acc : List Ev),
      p.st = .chunkSizeBefore → (∀ c ∈ cs, c.parsable) →
      (g.maxBody = 0 ∨ chunksLen cs + p.bodyHeld ≤ g.maxBody) →
      ∃ tok' cz ce, specFeed (M g) p tok ((cs.map Chunk.render).flatten ++ rest) acc =
        specFeed (M g) { p with chunkSize := cz, chunkExt := ce, bodyHeld := p.bodyHeld + chunksLen cs } tok' rest
          (acc ++ cs.map (fun c => Ev.body c.data)) := by
  induction cs with
  | nil => intro p tok rest acc _ _ _; exact ⟨tok, p.chunkSize, p.chunkExt, by simp [chunksLen]⟩
  | cons c cs ih =>
    intro p tok rest acc hp hall hmax
    have hlen : chunksLen (c :: cs) = c.data.length + chunksLen cs := by simp [chunksLen]
    obtain ⟨tok1, e1⟩ := chunk_line g p tok c ((cs.map Chunk.render).flatten ++ rest) acc hp (hall c (by simp))
      (by rcases hmax with h | h; exact Or.inl h; right; omega)
    obtain ⟨tok2, cz, ce, e2⟩ := ih { p with chunkSize := Int.ofNat c.data.length, chunkExt := !c.ext.isEmpty, bodyHeld := p.bodyHeld + c.data.length }
      tok1 rest (acc ++ [.body c.data]) hp (fun x hx => hall x (by simp [hx]))
      (by rcases hmax with h | h; exact Or.inl h; right; simp only; omega)
    refine ⟨tok2, cz, ce, ?_⟩
    simp only [List.map_cons, List.flatten_cons, List.append_assoc]
    rw [e1, e2]
    congr 1
    · simp only [hlen]; congr 1; omega
    · simp

theorem zeros_facts (z : Bytes) (hz : z.all (· == 48) = true) : z.all isHex = true ∧ hexadecimal z = 0 := by
  induction z with
  | nil => simp [hexadecimal]
  | cons a as ih =>
    simp only [List.all_cons, Bool.and_eq_true, beq_iff_eq] at hz
    obtain ⟨ha, has⟩ := hz
    subst ha
    have ⟨i1, i2⟩ := ih has
    refine ⟨by simp [i1, show isHex 48 = true by decide], ?_⟩
    simp only [hexadecimal, List.foldl_cons] at i2 ⊢
    simpa [show digitVal 48 = 0 by decide] using i2

/-- the last-chunk line `0+ [ext] CRLF` -/
theorem last_chunk (g : Cfg) (p : P) (tok : Bytes) (last ext rest : Bytes) (acc : List Ev)
    (hp : p.st = .chunkSizeBefore) (hne : last ≠ []) (hz : last.all (· == 48) = true)
    (hext : ext = [] ∨ ∃ es, ext = 59 :: es ∧ ∀ c ∈ es, c ≠ CR ∧ c ≠ LF) :
    specFeed (M g) p tok (last ++ ext ++ crlf ++ rest) acc =
      specFeed (M g) { p with chunkSize := 0, chunkExt := !ext.isEmpty,
                              st := if p.trailer ≠ [] then .trKeyBefore else .tailCR } [] rest acc := by
  have ⟨z1, z2⟩ := zeros_facts last hz
  have e := chunk_size_line g p tok last ext ([LF] ++ rest) acc hp hne z1 (by rw [z2]; decide) hext
  simp only [crlf, List.append_assoc, List.cons_append, List.nil_append] at e ⊢
  rw [e, z2]
  by_cases hT : p.trailer = []
  · rw [spec_step g _ _ LF _ acc { p with chunkSize := 0, chunkExt := !ext.isEmpty, st := .tailCR } .next [] (by simp [block])
          (by simp [byteStep, ok, hT])]
    simp [hT]
  · rw [spec_step g _ _ LF _ acc { p with chunkSize := 0, chunkExt := !ext.isEmpty, st := .trKeyBefore } .next [] (by simp [block])
          (by simp [byteStep, ok, hT])]
    simp [hT]

/-- the trailer-line production: `name ":" SP* value CRLF` with a non-empty value; the name is struck off the
    list of announced trailers -/
theorem trailer_line (g : Cfg) (p : P) (tok : Bytes) (h : Hdr) (rest : Bytes) (acc : List Ev)
    (hp : p.st = .trKeyBefore) (hkey : p.hKey = []) (hval : p.hVal = []) (hh : h.parsable) (hne : h.value ≠ [])
    (hT : p.trailer ≠ []) :
    ∃ tok', specFeed (M g) p tok (h.render ++ rest) acc =
      specFeed (M g) { p with trailer := p.trailer.erase h.key } tok' rest (acc ++ [.trailer h.key h.trValue]) := by
  obtain ⟨name, pad, value⟩ := h
  obtain ⟨hnn, hname, hvalue, hhead⟩ := hh
  simp only at hnn hname hvalue hhead hne
  cases name with
  | nil => exact absurd rfl hnn
  | cons k0 ks =>
  cases value with
  | nil => exact absurd rfl hne
  | cons v0 vs =>
  have hv0 : v0 ≠ SP := by simpa using hhead
  have ⟨c1, c2⟩ := hvalue v0 (by simp)
  simp only [Hdr.render, Hdr.key, Hdr.trValue, List.cons_append, List.append_assoc, List.nil_append, crlf]
  rw [spec_step g p tok k0 _ acc { p with st := .trKey } .here [] (by simp [block, hp])
        (by simp [byteStep, hp, hname k0 (by simp), ok])]
  simp only [nextTok_here, List.append_nil]
  rw [scan_keep g { p with st := .trKey } (by simp [block]) ks
        (by intro c hc tok'
            have ⟨b1, b2, _, _⟩ := tok_facts c (hname c (by simp [hc]))
            simp [byteStep, ok, b1, b2, hname c (by simp [hc])])]
  rw [spec_step g _ _ 58 _ acc { p with st := .trValueBefore, hKey := canonicalKey (k0 :: ks) } .next []
        (by simp [block]) (by simp [byteStep, ok, hkey, SP])]
  simp only [nextTok_next, List.append_nil]
  rw [scan_keep g { p with st := .trValueBefore, hKey := canonicalKey (k0 :: ks) } (by simp [block]) (List.replicate pad SP)
        (by intro c hc tok'; have := List.eq_of_mem_replicate hc; subst this; simp [byteStep, ok])]
  rw [spec_step g _ _ v0 _ acc { p with st := .trValue, hKey := canonicalKey (k0 :: ks) } .here []
        (by simp [block]) (by simp [byteStep, ok, hv0, c1, c2])]
  simp only [nextTok_here, List.append_nil]
  rw [scan_keep g { p with st := .trValue, hKey := canonicalKey (k0 :: ks) } (by simp [block]) vs
        (by intro c hc tok'; have := hvalue c (by simp [hc]); simp [byteStep, ok, this.1, this.2])]
  rw [spec_step g _ _ CR _ acc
        { p with st := .trValueLF, trailer := p.trailer.erase (canonicalKey (k0 :: ks)) } .next
        [.trailer (canonicalKey (k0 :: ks)) (trimRightSpaces (v0 :: vs))]
        (by simp [block]) (by simp [byteStep, ok, hval, hkey, hT, CR, LF])]
  rw [spec_step g _ _ LF _ _ { p with st := .trKeyBefore, trailer := p.trailer.erase (canonicalKey (k0 :: ks)) } .here []
        (by simp [block]) (by simp [byteStep, ok])]
  refine ⟨?w, ?h⟩
  case h =>
    congr 1
    · cases p; simp only at hp; subst hp; rfl
    · exact rfl
    · simp

/-- the trailer section: every announced name sent exactly once, in any order -/
theorem trailer_lines (g : Cfg) (trs : List Hdr) :
    ∀ (p : P) (tok rest : Bytes) (acc : List Ev),
      p.st = .trKeyBefore → p.hKey = [] → p.hVal = [] →
      (∀ h ∈ trs, h.parsable ∧ h.value ≠ []) →
      (∀ k ∈ trs.map Hdr.key, k ∈ p.trailer) → (trs.map Hdr.key).Nodup → trs.length = p.trailer.length →
      ∃ tok', specFeed (M g) p tok ((trs.map Hdr.render).flatten ++ rest) acc =
        specFeed (M g) { p with trailer := [] } tok' rest (acc ++ trs.map (fun h => Ev.trailer h.key h.trValue)) := by
  induction trs with
  | nil =>
    intro p tok rest acc _ _ _ _ _ _ hlen
    have : p.trailer = [] := List.eq_nil_of_length_eq_zero (by simpa using hlen.symm)
    refine ⟨tok, ?_⟩
    simp only [List.map_nil, List.flatten_nil, List.nil_append, List.append_nil]
    congr 1
    cases p; simp only at this; subst this; rfl
  | cons h trs ih =>
    intro p tok rest acc hp hk hv hall hmem hnd hlen
    have hin : h.key ∈ p.trailer := hmem h.key (by simp)
    have hT : p.trailer ≠ [] := by intro e; rw [e] at hin; cases hin
    obtain ⟨tok1, e1⟩ := trailer_line g p tok h ((trs.map Hdr.render).flatten ++ rest) acc hp hk hv
      (hall h (by simp)).1 (hall h (by simp)).2 hT
    simp only [List.map_cons, List.nodup_cons] at hnd
    obtain ⟨tok2, e2⟩ := ih { p with trailer := p.trailer.erase h.key } tok1 rest (acc ++ [.trailer h.key h.trValue])
      hp hk hv (fun x hx => hall x (by simp [hx]))
      (by intro k hkm
          have hne : k ≠ h.key := by intro e; subst e; exact hnd.1 hkm
          exact (List.mem_erase_of_ne hne).mpr (hmem k (by simp [hkm])))
      hnd.2
      (by simp only [List.length_erase_of_mem hin]; simp only [List.length_cons] at hlen; omega)
    refine ⟨tok2, ?_⟩
    simp only [List.map_cons, List.flatten_cons, List.append_assoc]
    rw [e1, e2]
    congr 1
    simp

/-- end of a chunked body without trailers: `CRLF` -/
theorem tail_plain (g : Cfg) (p : P) (tok rest : Bytes) (acc : List Ev) (hp : p.st = .tailCR) :
    specFeed (M g) p tok (crlf ++ rest) acc = specFeed (M g) (handleMessage g p) [] rest (acc ++ [.complete]) := by
  simp only [crlf, List.cons_append, List.nil_append]
  rw [spec_step g p tok CR _ acc { p with st := .tailLF } .keep [] (by simp [block, hp]) (by simp [byteStep, hp, ok])]
  rw [spec_step g _ _ LF _ _ (handleMessage g p) .next [.complete] (by simp [block])
        (by simp [byteStep, ok, handleMessage])]
  simp

/-- end of a trailer section: `CRLF` once every announced trailer has been received -/
theorem tail_trailers (g : Cfg) (p : P) (tok rest : Bytes) (acc : List Ev) (hp : p.st = .trKeyBefore)
    (hT : p.trailer = []) :
    specFeed (M g) p tok (crlf ++ rest) acc = specFeed (M g) (handleMessage g p) [] rest (acc ++ [.complete]) := by
  simp only [crlf, List.cons_append, List.nil_append]
  rw [spec_step g p tok CR _ acc { p with st := .tailLF } .next [] (by simp [block, hp])
        (by simp [byteStep, hp, ok, hT, show isToken CR = false by decide])]
  rw [spec_step g _ _ LF _ _ (handleMessage g p) .next [.complete] (by simp [block])
        (by simp [byteStep, ok, handleMessage])]
  simp

/-- the whole chunked body: chunks, last chunk, trailer section, final CRLF; the parser ends up idle -/
theorem chunked_body (g : Cfg) (p : P) (tok rest : Bytes) (acc : List Ev)
    (cs : List Chunk) (last ext : Bytes) (trs : List Hdr)
    (hp : p.st = .chunkSizeBefore) (hq : Quiet p) (hx : p.headerExists = false)
    (hcs : ∀ c ∈ cs, c.parsable) (hne : last ≠ []) (hz : last.all (· == 48) = true)
    (hext : ext = [] ∨ ∃ es, ext = 59 :: es ∧ ∀ c ∈ es, c ≠ CR ∧ c ≠ LF)
    (htr : ∀ h ∈ trs, h.parsable ∧ h.value ≠ [])
    (hmem : ∀ k ∈ trs.map Hdr.key, k ∈ p.trailer) (hnd : (trs.map Hdr.key).Nodup) (hlen : trs.length = p.trailer.length)
    (hmax : g.maxBody = 0 ∨ chunksLen cs + p.bodyHeld ≤ g.maxBody) :
    ∃ p', Idle g p' ∧
      specFeed (M g) p tok ((Body.chunked cs last ext trs).render ++ rest) acc =
        specFeed (M g) p' [] rest (acc ++ (Body.chunked cs last ext trs).events) := by
  have hquiet : ∀ (q : P), q.proto = p.proto → q.statusCode = p.statusCode → q.status = p.status → q.hKey = p.hKey →
      q.hVal = p.hVal → Quiet q := fun q a b c d e => ⟨a ▸ hq.proto, b ▸ hq.statusCode, c ▸ hq.status, d ▸ hq.hKey, e ▸ hq.hVal⟩
  simp only [Body.render, Body.events, List.append_assoc]
  obtain ⟨tok1, cz, ce, e1⟩ := chunk_lines g cs p tok
    ((last ++ ext ++ crlf) ++ ((trs.map Hdr.render).flatten ++ (crlf ++ rest))) acc hp hcs hmax
  simp only [List.append_assoc] at e1
  rw [e1]
  have e2 := last_chunk g { p with chunkSize := cz, chunkExt := ce, bodyHeld := p.bodyHeld + chunksLen cs } tok1 last ext
    ((trs.map Hdr.render).flatten ++ (crlf ++ rest)) (acc ++ cs.map (fun c => Ev.body c.data)) hp hne hz hext
  simp only [List.append_assoc] at e2
  rw [e2]
  by_cases hT : p.trailer = []
  · have : trs = [] := List.eq_nil_of_length_eq_zero (by rw [hlen, hT]; rfl)
    subst this
    simp only [hT, ne_eq, not_true_eq_false, if_false, List.map_nil, List.flatten_nil, List.nil_append, List.append_nil]
    rw [tail_plain g _ _ rest _ rfl]
    refine ⟨handleMessage g { p with chunkSize := 0, chunkExt := !ext.isEmpty, bodyHeld := p.bodyHeld + chunksLen cs, st := .tailCR }, ?_, ?_⟩
    · exact idle_handleMessage g _ (hquiet _ rfl rfl rfl rfl rfl) hx
    · simp [hT]
  · simp only [hT, ne_eq, not_false_eq_true, if_true]
    obtain ⟨tok3, e3⟩ := trailer_lines g trs
      { p with chunkSize := 0, chunkExt := !ext.isEmpty, bodyHeld := p.bodyHeld + chunksLen cs, st := .trKeyBefore } [] (crlf ++ rest)
      (acc ++ cs.map (fun c => Ev.body c.data)) rfl hq.hKey hq.hVal htr hmem hnd hlen
    rw [e3, tail_trailers g _ _ rest _ rfl rfl]
    refine ⟨handleMessage g { p with chunkSize := 0, chunkExt := !ext.isEmpty, bodyHeld := p.bodyHeld + chunksLen cs, st := .trKeyBefore, trailer := [] }, ?_, ?_⟩
    · exact idle_handleMessage g _ (hquiet _ rfl rfl rfl rfl rfl) hx
    · simp

end Http
