import NbioVerif.Model.Life
import NbioVerif.Lemmas.SrcBridgeConn
/-! Bridge for the lifecycle / read-path family: the interest set the lifecycle driver predicts for a registered
descriptor (`Life.interest`, compared with the shim's view of the registration as `im=` after every op of `hlife`)
is — the writing bit aside — exactly the mask that `poller.setRead` / `setReadWrite` of poller_epoll.go (translated
from source by tools/go2lean: `Generated/Src_Epoll.lean`) pass to `epoll_ctl`, for ADD and MOD, in every mode; and it
asks for EPOLLRDHUP, EPOLLERR and EPOLLHUP — the assumption under which `Model/ReadPath.lean` lets a FIN be reported
with the hang-up flag (`flagsOf`: `rdhup := inn && eof`) and `hread`/`hlife` deliver it. -/
namespace Life

def PMode.conn : PMode → ConnFull.Mode
  | .lt => .lt | .et => .et | .os => .oneshot

/-- the model's interest set is the mandatory mask of the write-path bridge -/
theorem interest_mandatory (m : PMode) : interest m = m.conn.mandatory := by
  cases m <;> decide

/-- … hence, the writing bit aside, every mask the registration functions of the source can pass to `epoll_ctl` -/
theorem interest_src : ∀ (m : PMode) (op : Int), op = 1 ∨ op = 3 →
    ∀ r ∈ [Src.Epoll.setRead m.conn.epollMod m.conn.oneshotBit op 0, Src.Epoll.setReadWrite m.conn.epollMod m.conn.oneshotBit op 0],
      ∀ o ev, r = some (o, ev) → ev &&& ~~~ConnFull.EPOLLOUT = interest m := by
  intro m op hop r hr o ev he
  rcases hop with rfl | rfl <;> cases m <;> simp at hr <;> rcases hr with rfl | rfl <;>
    simp only [Src.Epoll.setRead, Src.Epoll.setReadWrite, PMode.conn, ConnFull.Mode.epollMod, ConnFull.Mode.oneshotBit,
      ConnFull.EPOLLET, ConnFull.EPOLLONESHOT] at he <;>
    (try (simp at he)) <;> (try (obtain ⟨_, rfl⟩ := he)) <;> (try decide)

/-- the wrappers the code calls: `addRead` (AddConn, UDP listener), `addReadWrite` (dialer, AddConn with a backlog),
    `resetRead` (one-shot re-arm, flush), `modWrite` (write backlog) -/
theorem interest_wrappers (m : PMode) (o : Int) (ev : UInt32)
    (h : Src.Epoll.addRead m.conn.epollMod m.conn.oneshotBit 0 = some (o, ev) ∨
         Src.Epoll.addReadWrite m.conn.epollMod m.conn.oneshotBit 0 = some (o, ev) ∨
         Src.Epoll.resetRead m.conn.epollMod m.conn.oneshotBit 0 = some (o, ev) ∨
         Src.Epoll.modWrite m.conn.epollMod m.conn.oneshotBit 0 = some (o, ev)) :
    ev &&& ~~~ConnFull.EPOLLOUT = interest m := by
  rcases h with h | h | h | h
  · exact interest_src m 1 (Or.inl rfl) _ (by simp [Src.Epoll.addRead]) o ev h
  · exact interest_src m 1 (Or.inl rfl) _ (by simp [Src.Epoll.addReadWrite]) o ev h
  · exact interest_src m 3 (Or.inr rfl) _ (by simp [Src.Epoll.resetRead]) o ev h
  · exact interest_src m 3 (Or.inr rfl) _ (by simp [Src.Epoll.modWrite]) o ev h

/-- the kernel-semantics assumption of the read-path model is asked for in every mode: a peer's FIN is reported as
    EPOLLRDHUP, errors and hang-ups as EPOLLERR / EPOLLHUP, input as EPOLLIN -/
theorem interest_hangup (m : PMode) :
    interest m &&& ConnFull.EPOLLRDHUP = ConnFull.EPOLLRDHUP ∧ interest m &&& ConnFull.EPOLLERR = ConnFull.EPOLLERR ∧
    interest m &&& ConnFull.EPOLLHUP = ConnFull.EPOLLHUP ∧ interest m &&& ConnFull.EPOLLIN = ConnFull.EPOLLIN := by
  cases m <;> decide

end Life
