import NbioVerif.Model.Ws
import NbioVerif.Generated.Src_Ws
/-! Bridge: the hand-written WebSocket decision functions of `Model/Ws.lean` equal the functions
translated from the Go source by tools/go2lean (`Generated/Src_Ws.lean`, regenerated on every run).
A change of `validFrame`, `validCloseCode` or `isMessageTooLarge` in nbio makes these proofs fail. -/
namespace Ws

/-- the Go error variable behind each error class of the model -/
def Err.goName : Err → String
  | .reserveBit => "ErrReserveBitSet"
  | .reservedType => "ErrReservedMessageType"
  | .controlFragmented => "ErrControlMessageFragmented"
  | .fragWithType => "ErrFragmentsShouldNotHaveBinaryOrTextMessage"
  | .invalidFragment => "ErrInvalidFragmentMessage"
  | e => toString e.code

/-- `Ws.validFrame` is `Conn.validFrame` as written in conn.go, for every opcode and flag combination -/
theorem src_validFrame_aux (comp : Bool) (opcode : Nat) (fin r1 r2 r3 e : Bool) :
    (validFrame ⟨comp, false, 0, 0, 0, false⟩ opcode fin r1 r2 r3 e).map Err.goName =
      Src.Ws.validFrame comp (opcode : Int) fin r1 r2 r3 e := by
  have key : ∀ op : Nat, op < 9 → (validFrame ⟨comp, false, 0, 0, 0, false⟩ op fin r1 r2 r3 e).map Err.goName = Src.Ws.validFrame comp (op : Int) fin r1 r2 r3 e := by
    revert comp fin r1 r2 r3 e
    decide
  by_cases h : opcode < 9
  · exact key opcode h
  · -- every opcode ≥ 8 behaves like 8
    have h8 := key 8 (by omega)
    have e1 : validFrame ⟨comp, false, 0, 0, 0, false⟩ opcode fin r1 r2 r3 e = validFrame ⟨comp, false, 0, 0, 0, false⟩ 8 fin r1 r2 r3 e := by
      have a : (opcode != 1) = true := by simp; omega
      have b : (opcode != 2) = true := by simp; omega
      have c : (opcode != 0) = true := by simp; omega
      have d : decide (opcode < 8) = false := by simp; omega
      have a' : (opcode == 1) = false := by simp; omega
      have b' : (opcode == 2) = false := by simp; omega
      have c' : (opcode == 0) = false := by simp; omega
      simp [validFrame, a, b, c, d, a', b', c']
    have e2 : Src.Ws.validFrame comp (opcode : Int) fin r1 r2 r3 e = Src.Ws.validFrame comp ((8 : Nat) : Int) fin r1 r2 r3 e := by
      have a : ((opcode : Int) != 1) = true := by simp; omega
      have b : ((opcode : Int) != 2) = true := by simp; omega
      have c : ((opcode : Int) != 0) = true := by simp; omega
      have d : decide ((opcode : Int) < 8) = false := by simp; omega
      have a' : ((opcode : Int) == 1) = false := by simp; omega
      have b' : ((opcode : Int) == 2) = false := by simp; omega
      have c' : ((opcode : Int) == 0) = false := by simp; omega
      simp [Src.Ws.validFrame, a, b, c, d, a', b', c']
    rw [e1, e2]; exact h8

theorem src_validFrame (g : Cfg) (opcode : Nat) (fin r1 r2 r3 expecting : Bool) :
    (validFrame g opcode fin r1 r2 r3 expecting).map Err.goName =
      Src.Ws.validFrame g.enableCompression (opcode : Int) fin r1 r2 r3 expecting := by
  have : validFrame g opcode fin r1 r2 r3 expecting =
      validFrame ⟨g.enableCompression, false, 0, 0, 0, false⟩ opcode fin r1 r2 r3 expecting := by
    simp [validFrame]
  rw [this]; exact src_validFrame_aux _ _ _ _ _ _ _


/-- `Ws.validCloseCode` is `validCloseCode` as written in conn.go, for every code -/
theorem src_validCloseCode (c : Nat) : validCloseCode c = Src.Ws.validCloseCode (c : Int) := by
  unfold Src.Ws.validCloseCode validCloseCode
  rw [Bool.eq_iff_iff]
  simp
  omega

/-- `Ws.tooLarge` is `Conn.isMessageTooLarge` -/
theorem src_isMessageTooLarge (g : Cfg) (n : Int) :
    tooLarge g n = Src.Ws.isMessageTooLarge (g.msgLimit : Int) n := by
  unfold tooLarge Src.Ws.isMessageTooLarge
  rw [Bool.eq_iff_iff]
  simp
  omega

/-- the control-frame payload limit used by `sizeCheck` (literal 125) is the source constant -/
theorem src_maxControl : Src.Ws.maxControlFramePayloadSize = 125 := rfl

end Ws
