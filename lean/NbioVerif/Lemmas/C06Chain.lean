import NbioVerif.Lemmas.C06Core
import NbioVerif.Lemmas.C08Bound
/-! Chains of `Parse` calls as the driver executes them (`Scan.feedAllL`, built from `parseLC`: ReadLimit test + checked
    loop) related to the functions the C06/C07/C08 theorems were first stated for (`feedAll`, `implParse`, `parseL`). -/
namespace Scan
variable {σ ε : Type}

/-- without a tripping ReadLimit test, the driver's chain is `feedAll` -/
theorem feedAllL_eq_feedAll (M : Machine σ ε) (limit : Nat) :
    ∀ (segs : List (List UInt8)) (st : σ) (cache : List UInt8) (acc : List ε),
      NoTrip M limit st cache segs acc → feedAllL M limit st cache segs acc = feedAll M st cache segs acc := by
  intro segs
  induction segs with
  | nil => intro st cache acc _; rfl
  | cons seg segs ih =>
    intro st cache acc h
    obtain ⟨h1, h2⟩ := h
    simp only [feedAllL, feedAll, parseLC_eq, parseL, h1, if_false]
    cases hr : implParse M st cache seg acc with
    | mk acc' fin =>
      cases fin with
      | inl pr =>
        obtain ⟨st', cache'⟩ := pr
        rw [hr] at h2
        exact ih st' cache' acc' h2
      | inr e => rfl

/-- ReadLimit = 0 disables the test -/
theorem noTrip_zero (M : Machine σ ε) :
    ∀ (segs : List (List UInt8)) (st : σ) (cache : List UInt8) (acc : List ε), NoTrip M 0 st cache segs acc := by
  intro segs
  induction segs with
  | nil => intro st cache acc; trivial
  | cons seg segs ih =>
    intro st cache acc
    refine ⟨by simp, ?_⟩
    cases hr : implParse M st cache seg acc with
    | mk acc' fin =>
      cases fin with
      | inl pr => exact ih pr.1 pr.2 acc'
      | inr e => trivial

/-- **C06 for the function the driver runs**: with the limit disabled, or whenever neither run trips it, any
    segmentation gives the result of the one-piece run -/
theorem feedAllL_segmentation_independent (M : Machine σ ε) (wf : WF M) (limit : Nat) (st : σ)
    (segs : List (List UInt8))
    (h1 : NoTrip M limit st [] segs []) (h2 : NoTrip M limit st [] [segs.flatten] []) :
    feedAllL M limit st [] segs [] = feedAllL M limit st [] [segs.flatten] [] := by
  rw [feedAllL_eq_feedAll M limit segs st [] [] h1, feedAllL_eq_feedAll M limit [segs.flatten] st [] [] h2]
  exact c06_segmentation_independent M wf st segs

/-! ### the chain keeps the scanner invariant, hence never runs out of fuel -/

theorem implParse_good (M : Machine σ ε) (wf : WF M) (st : σ) (cache data : List UInt8) (acc : List ε)
    (hg : Good M st cache) acc' st' cache' (h : implParse M st cache data acc = ⟨acc', .inl (st', cache')⟩) :
    Good M st' cache' := by
  rw [implParse_eq_spec M wf st cache data acc hg] at h
  exact specFeed_good M wf data st cache acc hg acc' st' cache' h

/-! ### the retained bound along the whole chain -/

def maxLen : List (List UInt8) → Nat
  | [] => 0
  | s :: ss => max s.length (maxLen ss)

/-- whatever a `Parse` call retains is at most `max limit |data|` — or what it already held when `data` is empty -/
theorem parseL_cache_le (M : Machine σ ε) (limit : Nat) (hl : 0 < limit) (st : σ) (cache data : List UInt8)
    (acc : List ε) acc' st' cache' (h : parseL M limit st cache data acc = ⟨acc', .inl (st', cache')⟩) :
    cache'.length ≤ max cache.length (max limit data.length) := by
  unfold parseL at h
  split at h
  · simp at h
  · rename_i hn
    unfold implParse at h
    split at h
    · simp at h; obtain ⟨_, _, e⟩ := h; subst e; omega
    · rename_i hd
      have := loop_cache_le M _ _ _ _ _ _ _ _ _ h
      simp at this
      by_cases he : cache = []
      · subst he; simp at this; omega
      · have : ¬ (cache.length + data.length > limit) := fun hgt => hn ⟨hd, he, hl, hgt⟩
        omega

/-- **C08 retained bound, trace level, for the function the driver runs**: along every chain of `Parse` calls from an
    empty cache, with a read limit set, the bytes retained after any number of calls never exceed the limit or the
    largest single read — no hypothesis on intermediate states -/
theorem feedAllL_retained (M : Machine σ ε) (limit : Nat) (hl : 0 < limit) :
    ∀ (segs : List (List UInt8)) (st : σ) (cache : List UInt8) (acc : List ε) (B : Nat), cache.length ≤ max limit B →
      ∀ acc' st' cache', feedAllL M limit st cache segs acc = ⟨acc', .inl (st', cache')⟩ →
        cache'.length ≤ max limit (max B (maxLen segs)) := by
  intro segs
  induction segs with
  | nil =>
    intro st cache acc B hc acc' st' cache' h
    simp only [feedAllL, Res.mk.injEq, Sum.inl.injEq, Prod.mk.injEq] at h
    obtain ⟨_, _, e⟩ := h; subst e
    simp only [maxLen]; omega
  | cons seg segs ih =>
    intro st cache acc B hc acc' st' cache' h
    simp only [feedAllL, parseLC_eq] at h
    cases hr : parseL M limit st cache seg acc with
    | mk a fin =>
      rw [hr] at h
      cases fin with
      | inl pr =>
        obtain ⟨st1, cache1⟩ := pr
        have h1 := parseL_cache_le M limit hl st cache seg acc a st1 cache1 hr
        have := ih st1 cache1 a (max B seg.length) (by omega) acc' st' cache' h
        simp only [maxLen]; omega
      | inr e => simp at h

/-! ### the event accumulator is a prefix: per-call events concatenate to the events of the chain -/

theorem loop_acc (M : Machine σ ε) (buf : List UInt8) :
    ∀ (fuel i start : Nat) (st : σ) (acc : List ε),
      loop M buf fuel i start st acc =
        ⟨acc ++ (loop M buf fuel i start st []).evs, (loop M buf fuel i start st []).fin⟩ := by
  intro fuel
  induction fuel with
  | zero => intro i start st acc; simp [loop]
  | succ fuel ih =>
    intro i start st acc
    unfold loop
    by_cases hi : i < buf.length
    · simp only [hi, dite_true]
      cases M.block st with
      | some n =>
        simp only
        split
        · cases M.blockDone st ((buf.drop start).take n) with
          | err e evs => simp
          | ok s' u evs =>
            simp only
            rw [ih _ _ s' (acc ++ evs), ih _ _ s' ([] ++ evs)]
            simp
        · simp
      | none =>
        simp only
        cases M.byteStep st ((buf.drop start).take (i - start)) buf[i] with
        | err e evs => simp
        | ok s' u evs =>
          simp only
          rw [ih _ _ s' (acc ++ evs), ih _ _ s' ([] ++ evs)]
          simp
    · simp [hi]

theorem implParse_acc (M : Machine σ ε) (st : σ) (cache data : List UInt8) (acc : List ε) :
    implParse M st cache data acc =
      ⟨acc ++ (implParse M st cache data []).evs, (implParse M st cache data []).fin⟩ := by
  unfold implParse
  split
  · simp
  · exact loop_acc M _ _ _ _ _ _

theorem parseLC_acc (M : Machine σ ε) (limit : Nat) (st : σ) (cache data : List UInt8) (acc : List ε) :
    parseLC M limit st cache data acc =
      ⟨acc ++ (parseLC M limit st cache data []).evs, (parseLC M limit st cache data []).fin⟩ := by
  simp only [parseLC_eq, parseL]
  split
  · simp
  · exact implParse_acc M st cache data acc

/-- the events of each `Parse` call of a chain, call by call (what the harness prints per `D` line) -/
def callEvents (M : Machine σ ε) (limit : Nat) : σ → List UInt8 → List (List UInt8) → List (List ε)
  | _, _, [] => []
  | st, cache, seg :: segs =>
    let r := parseLC M limit st cache seg []
    r.evs :: (match r.fin with
      | .inl (st', cache') => callEvents M limit st' cache' segs
      | .inr _ => [])

/-- the events of the chain are the per-call events, concatenated -/
theorem feedAllL_evs (M : Machine σ ε) (limit : Nat) :
    ∀ (segs : List (List UInt8)) (st : σ) (cache : List UInt8) (acc : List ε),
      (feedAllL M limit st cache segs acc).evs = acc ++ (callEvents M limit st cache segs).flatten := by
  intro segs
  induction segs with
  | nil => intro st cache acc; simp [feedAllL, callEvents]
  | cons seg segs ih =>
    intro st cache acc
    simp only [feedAllL, callEvents]
    rw [parseLC_acc M limit st cache seg acc]
    cases hf : (parseLC M limit st cache seg []).fin with
    | inl pr =>
      obtain ⟨st', cache'⟩ := pr
      simp only [List.flatten_cons]
      rw [ih]; simp
    | inr e => simp

end Scan
