import NbioVerif.Lemmas.ConnBasic
/-! ConnFull: the data invariant (C01 integrity, C17 accounting) and its preservation by every step -/
namespace ConnFull

/-- the poller/kernel-side fields (everything the data invariant does not mention) -/
def E (s : S) := (s.isWAdded, s.rearm, s.evErr, s.reg, s.kOut, s.disarmed, s.ctl, s.onClose, s.connecting, s.connEv, s.idle)
/-- the data fields -/
def D (s : S) := (s.closed, s.hung, s.wl, s.left, s.wire, s.accepted)

/-! ### epoll helpers do not touch the data fields -/

theorem D_kctl (s : S) (a o : Bool) : D (kctl s a o) = D s := by
  unfold kctl; split; rfl; split <;> rfl
theorem D_pModWrite (g : Cfg) (s : S) : D (pModWrite g s) = D s := by
  unfold pModWrite; split; rfl; exact D_kctl _ _ _
theorem D_pResetRead (g : Cfg) (s : S) : D (pResetRead g s) = D s := by
  unfold pResetRead; split; rfl; exact D_kctl _ _ _
theorem D_pAddRead (g : Cfg) (s : S) : D (pAddRead g s) = D s := by
  unfold pAddRead; split <;> exact D_kctl _ _ _
theorem D_pAddReadWrite (g : Cfg) (s : S) : D (pAddReadWrite g s) = D s := D_kctl _ _ _
theorem D_cModWrite (g : Cfg) (s : S) : D (cModWrite g s) = D s := by
  unfold cModWrite; split
  · rw [D_pModWrite]; rfl
  · rfl
theorem D_cResetRead (g : Cfg) (s : S) : D (cResetRead g s) = D s := by
  unfold cResetRead; split
  · rw [D_pResetRead]; rfl
  · rfl
theorem D_resetPollerEvent (g : Cfg) (s : S) : D (resetPollerEvent g s) = D s := by
  unfold resetPollerEvent; split
  · split
    · exact D_pResetRead _ _
    · exact D_pModWrite _ _
  · rfl

theorem D_ghost (s : S) (e y : Bool) : D (ghost s e y) = D s := rfl
theorem E_ghost (s : S) (e y : Bool) : E (ghost s e y) = E s := rfl

/-! ### queue helpers -/

theorem enqueue_spec (g : Cfg) (s : S) (b : Bytes) (hp : AllPos s.wl) :
    pending g (enqueue s b).wl = pending g s.wl ++ b ∧
    unsent (enqueue s b).wl = unsent s.wl + b.length ∧
    (enqueue s b).left = s.left + b.length ∧
    AllPos (enqueue s b).wl ∧
    ((enqueue s b).wl = [] ↔ s.wl = [] ∧ b = []) ∧
    E (enqueue s b) = E s ∧ (enqueue s b).wire = s.wire ∧ (enqueue s b).accepted = s.accepted ∧
    (enqueue s b).closed = s.closed ∧ (enqueue s b).hung = s.hung := by
  unfold enqueue
  split
  · rename_i hb
    have : b = [] := List.length_eq_zero_iff.mp hb
    subst this; simp [hp]
  · rename_i hb
    have hbne : b ≠ [] := fun h => hb (by simp [h])
    have hbpos : 0 < b.length := Nat.pos_of_ne_zero hb
    have hnew : AllPos [Item.buf b 0] := by
      intro t ht; simp at ht; subst ht; exact hbpos
    simp only
    cases hl : s.wl.getLast? with
    | none =>
      have hw : s.wl = [] := List.getLast?_eq_none_iff.mp hl
      simp [pushItem, hw, pending, unsent, Item.rest, Item.held, hbne, E]
      exact hnew
    | some tail =>
      have hs := wl_split s.wl tail hl
      have hne : s.wl ≠ [] := by intro h; simp [h] at hl
      have push :
          pending g (s.wl ++ [Item.buf b 0]) = pending g s.wl ++ b ∧
          unsent (s.wl ++ [Item.buf b 0]) = unsent s.wl + b.length ∧
          AllPos (s.wl ++ [Item.buf b 0]) :=
        ⟨by simp [pending, Item.rest], by simp [unsent, Item.held],
         allPos_append hp hnew⟩
      cases tail with
      | file fo fr =>
        simp only [pushItem]
        refine ⟨push.1, push.2.1, ?_, push.2.2, ?_, ?_, ?_, ?_, ?_, ?_⟩ <;> simp [hne, E]
      | buf d off =>
        simp only
        split
        · simp only [pushItem]
          refine ⟨push.1, push.2.1, ?_, push.2.2, ?_, ?_, ?_, ?_, ?_, ?_⟩ <;> simp [hne, E]
        · have htail : Item.buf d off ∈ s.wl := by rw [hs]; simp
          have hto : off < d.length := hp _ htail
          refine ⟨?_, ?_, rfl, ?_, ?_, rfl, rfl, rfl, rfl, rfl⟩
          · conv => rhs; rw [hs]
            simp only [pending_append]
            simp [pending, Item.rest, List.drop_append_of_le_length (Nat.le_of_lt hto)]
          · conv => rhs; rw [hs]
            simp only [unsent_append]
            simp [unsent, Item.held]; omega
          · intro t ht
            simp at ht
            rcases ht with ht | ht
            · exact hp t (List.dropLast_subset _ ht)
            · subst ht; simp [Item.Pos]; omega
          · simp [hne]

theorem enqueueFile_spec (g : Cfg) (s : S) (off rem : Nat) (hp : AllPos s.wl) (hr : 0 < rem) :
    pending g (enqueueFile s off rem).wl = pending g s.wl ++ fileRange g off rem ∧
    unsent (enqueueFile s off rem).wl = unsent s.wl ∧
    AllPos (enqueueFile s off rem).wl ∧ (enqueueFile s off rem).wl ≠ [] := by
  refine ⟨?_, ?_, ?_, ?_⟩
  · simp [enqueueFile, pushItem, pending, Item.rest]
  · simp [enqueueFile, pushItem, unsent, Item.held]
  · apply allPos_append hp
    intro t ht; simp at ht; subst ht; exact hr
  · simp [enqueueFile, pushItem]

end ConnFull

namespace ConnFull

/-- `t` is `s` with the bytes `x` appended to the queue as buffer data -/
structure Enq (g : Cfg) (s t : S) (x : Bytes) : Prop where
  pend : pending g t.wl = pending g s.wl ++ x
  uns : unsent t.wl = unsent s.wl + x.length
  left : t.left = s.left + x.length
  pos : AllPos t.wl
  emp : t.wl = [] ↔ s.wl = [] ∧ x = []
  e : E t = E s
  wire : t.wire = s.wire
  acc : t.accepted = s.accepted
  closed : t.closed = s.closed
  hung : t.hung = s.hung

theorem Enq.refl (g : Cfg) (s : S) (hp : AllPos s.wl) : Enq g s s [] :=
  ⟨by simp, by simp, by simp, hp, by simp, rfl, rfl, rfl, rfl, rfl⟩

theorem Enq.trans {g : Cfg} {s t u : S} {x y : Bytes} (h1 : Enq g s t x) (h2 : Enq g t u y) :
    Enq g s u (x ++ y) where
  pend := by rw [h2.pend, h1.pend, List.append_assoc]
  uns := by rw [h2.uns, h1.uns, List.length_append]; omega
  left := by rw [h2.left, h1.left, List.length_append]; omega
  pos := h2.pos
  emp := by rw [h2.emp, h1.emp]; simp [and_assoc]
  e := h2.e.trans h1.e
  wire := h2.wire.trans h1.wire
  acc := h2.acc.trans h1.acc
  closed := h2.closed.trans h1.closed
  hung := h2.hung.trans h1.hung

theorem Enq.of_eq {g : Cfg} {s t : S} {x y : Bytes} (h : Enq g s t x) (hxy : x = y) : Enq g s t y := hxy ▸ h

theorem enq_enqueue (g : Cfg) (s : S) (b : Bytes) (hp : AllPos s.wl) : Enq g s (enqueue s b) b := by
  obtain ⟨h1, h2, h3, h4, h5, h6, h7, h8, h9, h10⟩ := enqueue_spec g s b hp
  exact ⟨h1, h2, h3, h4, h5, h6, h7, h8, h9, h10⟩

theorem enq_foldl (g : Cfg) (bs : List Bytes) : ∀ (s : S), AllPos s.wl → Enq g s (bs.foldl enqueue s) bs.flatten := by
  induction bs with
  | nil => intro s hp; exact Enq.refl g s hp
  | cons b bs ih =>
    intro s hp
    have h1 := enq_enqueue g s b hp
    have h2 := ih (enqueue s b) h1.pos
    simpa using h1.trans h2

theorem enq_queueRest (g : Cfg) (bs : List Bytes) :
    ∀ (s : S) (n : Nat), AllPos s.wl → Enq g s (queueRest s n bs) (bs.flatten.drop n) := by
  induction bs with
  | nil => intro s n hp; simpa [queueRest] using Enq.refl g s hp
  | cons b bs ih =>
    intro s n hp
    unfold queueRest
    split
    · rename_i hn
      subst hn
      have h1 := enq_enqueue g s b hp
      have h2 := ih (enqueue s b) 0 h1.pos
      simpa using h1.trans h2
    · split
      · rename_i hn hlt
        have h1 := enq_enqueue g s (b.drop n) hp
        have h2 := ih (enqueue s (b.drop n)) 0 h1.pos
        refine (h1.trans h2).of_eq ?_
        simp [List.drop_append_of_le_length (Nat.le_of_lt hlt)]
      · rename_i hn hge
        have h2 := ih s (n - b.length) hp
        refine h2.of_eq ?_
        have : b.length ≤ n := Nat.le_of_not_lt hge
        simp [List.drop_append, List.drop_eq_nil_of_le this]

/-! ### the data invariant -/

structure InvD (g : Cfg) (s : S) : Prop where
  /-- C01: what the kernel got plus what is still queued is what the calls accepted -/
  integ : s.closed = false → s.wire ++ pending g s.wl = s.accepted
  /-- C01 after close: nothing foreign, nothing reordered -/
  pref : s.wire <+: s.accepted
  /-- C17: the counter equals the unsent bytes held in queued buffers -/
  acct : s.closed = false → s.left = unsent s.wl
  /-- no queued item is empty (so flush always makes the kernel consume an answer) -/
  pos : AllPos s.wl
  /-- C17: the bound -/
  bound : g.maxWB > 0 → s.left ≤ g.maxWB
  /-- C04: flush never spins -/
  nohang : s.hung = false

theorem invD_init (g : Cfg) : InvD g init := by
  constructor <;> simp [init, pending, unsent, allPos_nil]

theorem InvD.of_D {g : Cfg} {s t : S} (h : D t = D s) (hi : InvD g s) : InvD g t := by
  simp only [D, Prod.mk.injEq] at h
  obtain ⟨h1, h2, h3, h4, h5, h6⟩ := h
  constructor
  · rw [h1, h3, h5, h6]; exact hi.integ
  · rw [h5, h6]; exact hi.pref
  · rw [h1, h3, h4]; exact hi.acct
  · rw [h3]; exact hi.pos
  · rw [h4]; exact hi.bound
  · rw [h2]; exact hi.nohang

theorem invD_flip (g : Cfg) (s : S) (h : InvD g s) : InvD g (flip s) := by
  constructor <;> simp [flip, h.pref, h.nohang]
  · exact h.pos
  · exact h.bound

theorem invD_teardown (g : Cfg) (s : S) (h : InvD g s) (htp : s.tearPending = true → s.closed = true) :
    InvD g (teardown s) := by
  unfold teardown
  split
  · rename_i ht
    have hc := htp ht
    constructor <;> simp [hc, h.pref, h.nohang, allPos_nil]
    exact h.bound
  · exact h

theorem invD_closeNow (g : Cfg) (s : S) (h : InvD g s) : InvD g (closeNow s) := by
  constructor <;> simp [closeNow, h.pref, h.nohang, allPos_nil]
  exact h.bound

/-- bytes `sent` go to the kernel (only possible on an empty queue), `rest` is queued, together they
    are the accepted input -/
theorem invD_accept (g : Cfg) (s t : S) (inp sent rest : Bytes) (hi : InvD g s) (hc : s.closed = false)
    (hinp : inp = sent ++ rest) (hdirect : sent ≠ [] → s.wl = [])
    (henq : Enq g { s with wire := s.wire ++ sent, accepted := s.accepted ++ inp } t rest)
    (hfit : g.maxWB > 0 → s.left + rest.length ≤ g.maxWB) : InvD g t := by
  subst hinp
  have hint := hi.integ hc
  have hw : s.wire ++ sent ++ pending g s.wl = s.accepted ++ sent := by
    by_cases hs : sent = []
    · subst hs; simpa using hint
    · have := hdirect hs
      rw [this] at hint ⊢
      simp [pending] at hint ⊢
      rw [hint]
  constructor
  · intro _
    rw [henq.pend, henq.wire, henq.acc]
    simp only
    rw [← List.append_assoc, hw]; simp
  · rw [henq.wire, henq.acc]
    simp only
    have : s.wire ++ sent <+: s.accepted ++ sent := by
      rw [← hw]; exact List.prefix_append _ _
    exact this.trans (by rw [← List.append_assoc]; exact List.prefix_append _ _)
  · intro _
    rw [henq.uns, henq.left]
    simp only
    rw [hi.acct hc]
  · exact henq.pos
  · intro hm
    rw [henq.left]; exact hfit hm
  · rw [henq.hung]; exact hi.nohang

/-! ### Write / Writev -/

theorem overflow_false {g : Cfg} {s : S} {n : Nat} (h : overflow g s n = false) (hm : g.maxWB > 0) :
    s.left + n ≤ g.maxWB := by
  simp [overflow] at h
  have := h hm
  omega

theorem kN_le (k : KAns) (len : Nat) : kN k len ≤ len := by
  unfold kN; split
  · exact Nat.min_le_right _ _
  · exact Nat.zero_le _

theorem isEmpty_eq_true {α} {l : List α} (h : l.isEmpty = true) : l = [] := List.isEmpty_iff.mp h
theorem isEmpty_ne_true {α} {l : List α} (h : ¬ l.isEmpty = true) : l ≠ [] := fun e => h (by simp [e])

theorem invD_writeInner (g : Cfg) (s : S) (b : Bytes) (k : KAns) (hi : InvD g s) (hc : s.closed = false) :
    InvD g (writeInner g s b k).1 := by
  unfold writeInner
  split
  · exact hi
  split
  · exact hi
  rename_i hb hov
  have hov : overflow g s b.length = false := by simpa using hov
  split
  · rename_i hemp
    have hwl : s.wl = [] := isEmpty_eq_true hemp
    split
    · exact hi
    · simp only
      have hn := kN_le k b.length
      have hsplit : b = b.take (kN k b.length) ++ b.drop (kN k b.length) := (List.take_append_drop _ _).symm
      have hpos : AllPos ({ s with wire := s.wire ++ b.take (kN k b.length), accepted := s.accepted ++ b } : S).wl := hi.pos
      split
      · refine invD_accept g s _ b _ _ hi hc hsplit (fun _ => hwl) (enq_enqueue g _ _ hpos) ?_
        intro hm; have := overflow_false hov hm; simp; omega
      · rename_i hrem
        have hd : b.drop (kN k b.length) = [] := by
          apply List.drop_eq_nil_of_le; omega
        refine invD_accept g s _ b _ _ hi hc hsplit (fun _ => hwl) ?_ ?_
        · rw [hd]; exact Enq.refl g _ hpos
        · intro hm; have := overflow_false hov hm; simp [hd]; omega
  · refine invD_accept g s _ b [] b hi hc (by simp) (fun h => absurd rfl h) ?_ ?_
    · simpa using enq_enqueue g { s with accepted := s.accepted ++ b } b hi.pos
    · intro hm; exact overflow_false hov hm

theorem invD_finishCall (g : Cfg) (r : S × Ret) (hi : InvD g r.1) : InvD g (finishCall g r).1 := by
  unfold finishCall
  split
  · simp only
    split
    · exact hi.of_D (s := r.1) rfl
    · exact hi.of_D (D_cModWrite g _)
  · exact invD_flip g _ hi

theorem invD_write (g : Cfg) (s : S) (b : Bytes) (k : KAns) (hi : InvD g s) : InvD g (write g s b k).1 := by
  unfold write
  split
  · exact hi
  split
  · exact hi
  · rename_i _ hc
    exact invD_finishCall g _ (invD_writeInner g s b k hi (by simpa using hc))

theorem invD_writevInner (g : Cfg) (s : S) (bs : List Bytes) (k : KAns) (hi : InvD g s) (hc : s.closed = false) :
    InvD g (writevInner g s bs k).1 := by
  unfold writevInner
  simp only
  split
  · exact hi
  rename_i hov
  have hov : overflow g s (total bs) = false := by simpa using hov
  split
  · refine invD_accept g s _ bs.flatten [] bs.flatten hi hc (by simp) (fun h => absurd rfl h) ?_ ?_
    · simpa using enq_foldl g bs { s with accepted := s.accepted ++ bs.flatten } hi.pos
    · intro hm; rw [flatten_length_total]; exact overflow_false hov hm
  rename_i hne
  have hwl : s.wl = [] := by
    cases h : s.wl with
    | nil => rfl
    | cons a l => simp [h] at hne
  split
  · exact hi
  split
  · exact hi
  have hn := kN_le k (total bs)
  have hsplit : bs.flatten = bs.flatten.take (kN k (total bs)) ++ bs.flatten.drop (kN k (total bs)) :=
    (List.take_append_drop _ _).symm
  have hpos : AllPos ({ s with wire := s.wire ++ bs.flatten.take (kN k (total bs)), accepted := s.accepted ++ bs.flatten } : S).wl := hi.pos
  split
  · refine invD_accept g s _ bs.flatten _ _ hi hc hsplit (fun _ => hwl) (enq_queueRest g bs _ _ hpos) ?_
    intro hm; have := overflow_false hov hm
    rw [List.length_drop, flatten_length_total]; omega
  · rename_i hge
    have hd : bs.flatten.drop (kN k (total bs)) = [] := by
      apply List.drop_eq_nil_of_le; rw [flatten_length_total]; omega
    refine invD_accept g s _ bs.flatten _ _ hi hc hsplit (fun _ => hwl) ?_ ?_
    · rw [hd]; exact Enq.refl g _ hpos
    · intro hm; have := overflow_false hov hm; simp [hd]; omega

theorem invD_writev (g : Cfg) (s : S) (bs : List Bytes) (k : KAns) (hi : InvD g s) : InvD g (writev g s bs k).1 := by
  unfold writev
  split
  · exact hi
  split
  · exact hi
  · rename_i _ hc
    have hc : s.closed = false := by simpa using hc
    split
    · exact invD_finishCall g _ (invD_writeInner g s _ k hi hc)
    · exact invD_finishCall g _ (invD_writevInner g s bs k hi hc)

/-! ### Sendfile -/

theorem invD_direct (g : Cfg) (s : S) (x : Bytes) (hi : InvD g s) (hc : s.closed = false) (hwl : s.wl = []) :
    InvD g { s with wire := s.wire ++ x, accepted := s.accepted ++ x } := by
  have hint := hi.integ hc
  rw [hwl] at hint; simp [pending] at hint
  constructor
  · intro _; simp [hwl, pending, hint]
  · simp [hint]
  · exact hi.acct
  · exact hi.pos
  · exact hi.bound
  · exact hi.nohang

theorem invD_queueFile (g : Cfg) (s : S) (off rem : Nat) (hi : InvD g s) (hc : s.closed = false) (hr : 0 < rem) :
    InvD g (enqueueFile { s with accepted := s.accepted ++ fileRange g off rem } off rem) := by
  obtain ⟨h1, h2, h3, _⟩ :=
    enqueueFile_spec g { s with accepted := s.accepted ++ fileRange g off rem } off rem hi.pos hr
  constructor
  · intro _
    rw [h1]
    simp only [enqueueFile, pushItem]
    rw [← List.append_assoc, hi.integ hc]
  · simp only [enqueueFile, pushItem]
    exact hi.pref.trans (List.prefix_append _ _)
  · intro _
    rw [h2]; exact hi.acct hc
  · exact h3
  · exact hi.bound
  · exact hi.nohang

theorem invD_sendfileLoop (g : Cfg) (ks : List KAns) :
    ∀ (s : S) (off rem : Nat), InvD g s → s.closed = false → s.wl = [] → InvD g (sendfileLoop g s off rem ks).1 := by
  induction ks with
  | nil =>
    intro s off rem hi hc hwl
    unfold sendfileLoop
    split
    · exact hi
    · rename_i hr
      exact (invD_queueFile g s off rem hi hc (Nat.pos_of_ne_zero hr)).of_D (D_cModWrite g _)
  | cons k ks ih =>
    intro s off rem hi hc hwl
    unfold sendfileLoop
    split
    · exact hi
    rename_i hr
    split
    · exact (invD_queueFile g s off rem hi hc (Nat.pos_of_ne_zero hr)).of_D (D_cModWrite g _)
    · exact ih s off rem hi hc hwl
    · exact invD_closeNow g s hi
    · simp only
      split
      · exact hi
      · exact ih _ _ _ (invD_direct g s _ hi hc hwl) hc hwl

theorem invD_sendfile (g : Cfg) (s : S) (off len : Nat) (ks : List KAns) (hi : InvD g s) :
    InvD g (sendfile g s off len ks).1 := by
  unfold sendfile
  split
  · exact hi
  split
  · exact hi
  rename_i _ hc
  have hc : s.closed = false := by simpa using hc
  simp only
  split
  · exact hi
  rename_i hr
  split
  · exact invD_queueFile g s off _ hi hc (Nat.pos_of_ne_zero hr)
  · rename_i hne
    have hwl : s.wl = [] := by
      cases h : s.wl with
      | nil => rfl
      | cons a l => simp [h] at hne
    have := invD_sendfileLoop g ks s off (sendRange g off len) hi hc hwl
    split <;> exact this

/-! ### flush -/

theorem invD_flushLoop (g : Cfg) : ∀ (fuel : Nat) (s : S) (ks : List KAns),
    InvD g s → s.closed = false → ks.length < fuel → InvD g (flushLoop g fuel s ks) := by
  intro fuel
  induction fuel with
  | zero => intro s ks _ _ h; omega
  | succ fuel ih =>
    intro s ks hi hc hf
    unfold flushLoop
    split
    · exact (hi.of_D (s := s) (t := stopTimer s) rfl).of_D (D_cResetRead g _)
    · -- head is a buffer
      rename_i d off tl hwl
      have hpos : off < d.length := hi.pos (Item.buf d off) (by rw [hwl]; simp)
      have hint := hi.integ hc
      have hacct := hi.acct hc
      rw [hwl, pending_cons] at hint
      rw [hwl, unsent_cons] at hacct
      simp only [Item.rest, Item.held] at hint hacct
      simp only
      split
      · rename_i h0; simp at h0; omega
      split
      · exact hi
      · exact hi
      · rename_i ks'
        exact ih s ks' hi hc (by simp at hf; omega)
      · exact invD_closeNow g s hi
      · rename_i n0 ks'
        have hf' : ks'.length < fuel := by simp at hf; omega
        split
        · exact ih s ks' hi hc hf'
        rename_i hn0
        generalize hn : min n0 (List.drop off d).length = n at *
        have hnle : n ≤ d.length - off := by subst hn; simp; omega
        split
        · -- head fully sent
          rename_i hfull
          refine ih _ ks' ?_ hc hf'
          constructor
          · intro _
            show s.wire ++ List.take n (List.drop off d) ++ pending g tl = s.accepted
            rw [← hint, hfull, List.take_length, List.append_assoc]
          · show s.wire ++ List.take n (List.drop off d) <+: s.accepted
            rw [← hint, hfull, List.take_length]
            exact (List.prefix_append_right_inj _).mpr (List.prefix_append _ _)
          · intro _
            show s.left - n = unsent tl
            simp at hfull; omega
          · exact allPos_tail (hwl ▸ hi.pos)
          · intro hm; have := hi.bound hm; show s.left - n ≤ _; omega
          · exact hi.nohang
        · rename_i hpart
          refine ih _ ks' ?_ hc hf'
          have hlt : n < d.length - off := by simp at hpart; omega
          constructor
          · intro _
            show s.wire ++ List.take n (List.drop off d) ++ pending g (Item.buf d (off + n) :: tl) = s.accepted
            rw [pending_cons, ← hint]
            simp only [Item.rest]
            have e : d.drop (off + n) = (d.drop off).drop n := by rw [List.drop_drop]
            rw [e, List.append_assoc, ← List.append_assoc (List.take n _), List.take_append_drop]
          · show s.wire ++ List.take n (List.drop off d) <+: s.accepted
            rw [← hint]
            exact (List.prefix_append_right_inj _).mpr
              ((List.take_prefix _ _).trans (List.prefix_append _ _))
          · intro _
            show s.left - n = unsent (Item.buf d (off + n) :: tl)
            rw [unsent_cons]; simp only [Item.held]; omega
          · intro t ht
            simp at ht
            rcases ht with ht | ht
            · subst ht; show off + n < d.length; omega
            · exact hi.pos t (by rw [hwl]; exact List.mem_cons_of_mem _ ht)
          · intro hm; have := hi.bound hm; show s.left - n ≤ _; omega
          · exact hi.nohang
    · -- head is a file range
      rename_i off rem tl hwl
      have hpos : 0 < rem := hi.pos (Item.file off rem) (by rw [hwl]; simp)
      have hint := hi.integ hc
      have hacct := hi.acct hc
      rw [hwl, pending_cons] at hint
      rw [hwl, unsent_cons] at hacct
      simp only [Item.rest, Item.held] at hint hacct
      split
      · omega
      split
      · exact hi
      · exact hi
      · rename_i ks'
        exact ih s ks' hi hc (by simp at hf; omega)
      · exact invD_closeNow g s hi
      · rename_i n0 ks'
        have hf' : ks'.length < fuel := by simp at hf; omega
        simp only
        split
        · exact ih s ks' hi hc hf'
        rename_i hn0
        generalize hn : min n0 rem = n at *
        have hnle : n ≤ rem := by subst hn; exact Nat.min_le_right _ _
        have hsp := fileRange_split g off n rem hnle
        split
        · rename_i hfull
          refine ih _ ks' ?_ hc hf'
          subst hfull
          constructor
          · intro _
            show s.wire ++ fileRange g off n ++ pending g tl = s.accepted
            rw [← hint, List.append_assoc]
          · show s.wire ++ fileRange g off n <+: s.accepted
            rw [← hint]
            exact (List.prefix_append_right_inj _).mpr (List.prefix_append _ _)
          · intro _
            show s.left = unsent tl
            omega
          · exact allPos_tail (hwl ▸ hi.pos)
          · exact hi.bound
          · exact hi.nohang
        · rename_i hpart
          refine ih _ ks' ?_ hc hf'
          constructor
          · intro _
            show s.wire ++ fileRange g off n ++ pending g (Item.file (off + n) (rem - n) :: tl) = s.accepted
            rw [pending_cons, ← hint, hsp]
            simp only [Item.rest, List.append_assoc]
          · show s.wire ++ fileRange g off n <+: s.accepted
            rw [← hint, hsp, List.append_assoc]
            exact (List.prefix_append_right_inj _).mpr (List.prefix_append _ _)
          · intro _
            show s.left = unsent (Item.file (off + n) (rem - n) :: tl)
            rw [unsent_cons]; simp only [Item.held]; omega
          · intro t ht
            simp at ht
            rcases ht with ht | ht
            · subst ht; show 0 < rem - n; omega
            · exact hi.pos t (by rw [hwl]; exact List.mem_cons_of_mem _ ht)
          · exact hi.bound
          · exact hi.nohang

theorem invD_flush (g : Cfg) (s : S) (ks : List KAns) (hi : InvD g s) : InvD g (flush g s ks) := by
  unfold flush
  split
  · exact hi
  rename_i hc
  split
  · exact hi.of_D (D_cResetRead g s)
  · exact invD_flushLoop g _ s ks hi (by simpa using hc) (Nat.lt_succ_self _)

/-! ### registration, events, close -/

theorem invD_register (g : Cfg) (s : S) (hi : InvD g s) : InvD g (register g s) := by
  unfold register
  split
  · exact hi
  · split
    · exact hi.of_D (D_pAddRead g s)
    · exact hi.of_D (D_pAddReadWrite g s)

theorem invD_registerDial (g : Cfg) (s : S) (hi : InvD g s) : InvD g (registerDial g s) := by
  unfold registerDial
  split
  · exact hi
  · exact (InvD.of_D (s := s) (t := { s with isWAdded := true, connecting := true }) rfl hi).of_D (D_pAddReadWrite g _)

theorem invD_registerDialNow (g : Cfg) (s : S) (hi : InvD g s) : InvD g (registerDialNow g s) := by
  unfold registerDialNow
  split
  · exact hi
  · exact (InvD.of_D (s := s) (t := { s with isWAdded := true, idle := true }) rfl hi).of_D (D_pAddReadWrite g _)

theorem invD_flipWE (g : Cfg) (s : S) (h : InvD g s) : InvD g (flipWE s) :=
  invD_flip g _ (h.of_D (s := s) (t := stopTimer s) rfl)

/-- updates of poller/kernel-side fields keep the data invariant -/
theorem InvD.same {g : Cfg} {s t : S} (hi : InvD g s) (h1 : t.closed = s.closed) (h2 : t.hung = s.hung)
    (h3 : t.wl = s.wl) (h4 : t.left = s.left) (h5 : t.wire = s.wire) (h6 : t.accepted = s.accepted) : InvD g t :=
  InvD.of_D (s := s) (by simp [D, h1, h2, h3, h4, h5, h6]) hi

theorem invD_evTake (g : Cfg) (s : S) (o i e : Bool) (ks : List KAns) (hi : InvD g s) :
    InvD g (evTake g s o i e ks) := by
  unfold evTake
  simp only
  split
  · exact hi
  · have h1 : InvD g (if (g.mode == Mode.oneshot) = true then { s with disarmed := true } else s) := by
      split
      · exact hi.same rfl rfl rfl rfl rfl rfl
      · exact hi
    generalize (if (g.mode == Mode.oneshot) = true then { s with disarmed := true } else s) = t at h1 ⊢
    have h2 : InvD g (if (deliverable s o i e).1 = true then
        (if t.connecting = true then { t with connEv := true } else flush g t ks) else t) := by
      split
      · split
        · exact h1.same rfl rfl rfl rfl rfl rfl
        · exact invD_flush g _ ks h1
      · exact h1
    exact h2.same rfl rfl rfl rfl rfl rfl

theorem invD_evEnd (g : Cfg) (s : S) (hi : InvD g s) : InvD g (evEnd g s) := by
  unfold evEnd
  split
  · exact hi
  · simp only
    have h0 : InvD g (if s.connEv = true then cResetRead g { s with connecting := false, connEv := false } else s) := by
      split
      · exact (hi.same (t := { s with connecting := false, connEv := false }) rfl rfl rfl rfl rfl rfl).of_D (D_cResetRead g _)
      · exact hi
    generalize (if s.connEv = true then cResetRead g { s with connecting := false, connEv := false } else s) = s0 at h0 ⊢
    have h1 : InvD g (if s0.rearm = true then resetPollerEvent g { s0 with rearm := false } else s0) := by
      split
      · exact (h0.same (t := { s0 with rearm := false }) rfl rfl rfl rfl rfl rfl).of_D (D_resetPollerEvent g _)
      · exact h0
    generalize (if s0.rearm = true then resetPollerEvent g { s0 with rearm := false } else s0) = t at h1 ⊢
    split
    · split
      · exact h1.same rfl rfl rfl rfl rfl rfl
      · exact invD_flipWE g _ (h1.same rfl rfl rfl rfl rfl rfl)
    · exact h1

theorem invD_evConnEnd (g : Cfg) (s : S) (hi : InvD g s) : InvD g (evConnEnd g s) := by
  unfold evConnEnd
  split
  · exact hi
  · split
    · exact (hi.same (t := { s with connecting := false, connEv := false }) rfl rfl rfl rfl rfl rfl).of_D (D_cResetRead g _)
    · exact hi

theorem invD_evRearm (g : Cfg) (s : S) (hi : InvD g s) : InvD g (evRearm g s) := by
  unfold evRearm
  split
  · exact hi
  · split
    · exact (hi.same (t := { s with rearm := false }) rfl rfl rfl rfl rfl rfl).of_D (D_resetPollerEvent g _)
    · exact hi

theorem invD_evErrClose (g : Cfg) (s : S) (hi : InvD g s) : InvD g (evErrClose s) := by
  unfold evErrClose
  split
  · exact hi
  · split
    · split
      · exact hi.same rfl rfl rfl rfl rfl rfl
      · exact invD_flipWE g _ (hi.same rfl rfl rfl rfl rfl rfl)
    · exact hi

theorem invD_flipClosed (g : Cfg) (s : S) (hi : InvD g s) : InvD g (flipClosed s) := by
  unfold flipClosed
  split
  · exact hi
  · exact invD_flipWE g s hi

theorem invD_setWriteDeadline (g : Cfg) (s : S) (z : Bool) (hi : InvD g s) : InvD g (setWriteDeadline s z) := by
  unfold setWriteDeadline
  split
  · exact hi
  · exact hi.same rfl rfl rfl rfl rfl rfl

theorem invD_timerExpire (g : Cfg) (s : S) (hi : InvD g s) : InvD g (timerExpire s) := by
  unfold timerExpire
  split
  · exact hi.same rfl rfl rfl rfl rfl rfl
  · exact hi

theorem invD_timerFire (g : Cfg) (s : S) (hi : InvD g s) : InvD g (timerFire s) := by
  unfold timerFire
  split
  · exact hi
  · split
    · exact hi.same rfl rfl rfl rfl rfl rfl
    · exact invD_flipWE g _ (hi.same rfl rfl rfl rfl rfl rfl)

theorem invD_step (g : Cfg) (s : S) (op : Op) (hi : InvD g s) (htp : s.tearPending = true → s.closed = true) :
    InvD g (step g s op) := by
  cases op with
  | write b ks => exact (invD_write g s b _ hi).of_D (D_ghost _ _ _)
  | writev bs ks => exact (invD_writev g s bs _ hi).of_D (D_ghost _ _ _)
  | sendfile off len ks => exact (invD_sendfile g s off len ks hi).of_D (D_ghost _ _ _)
  | register => exact (invD_register g s hi).of_D (D_ghost _ _ _)
  | registerDial => exact (invD_registerDial g s hi).of_D (D_ghost _ _ _)
  | registerDialNow => exact (invD_registerDialNow g s hi).of_D (D_ghost _ _ _)
  | evTake o i e ks => exact (invD_evTake g s _ i e ks hi).of_D (D_ghost _ _ _)
  | evEnd => exact invD_evEnd g s hi
  | evConnEnd => exact invD_evConnEnd g s hi
  | evRearm => exact invD_evRearm g s hi
  | evErrClose => exact invD_evErrClose g s hi
  | flipClosed => exact invD_flipClosed g s hi
  | teardown => exact invD_teardown g s hi htp
  | setWriteDeadline z => exact invD_setWriteDeadline g s z hi
  | timerExpire => exact invD_timerExpire g s hi
  | timerFire => exact invD_timerFire g s hi

end ConnFull
