import NbioVerif.Lemmas.C09Ident
/-! Framing invariant: Flush, flushResponse, header operations, whole programs. -/
namespace Resp

/-! ### Flush -/

theorem flushBuf_spec (g : Cfg) (hg : NoFail g) (r : R) (hd : Option Bytes) (B : Bytes)
    (h : Base r hd B) (he : r.headEncoded = true) :
    Base (flushBuf g r) hd B ∧ bufB (flushBuf g r) = [] ∧
      ((flushBuf g r).buffer = none ↔ r.buffer = none) := by
  unfold flushBuf
  cases hbuf : r.buffer with
  | none => simp only []; exact ⟨h, by simp [bufB, hbuf], by simp [hbuf]⟩
  | some b =>
    simp only []
    split
    · rw [send_ok g hg]
      dsimp only
      refine ⟨⟨?_, h.henc, ?_, ?_⟩, by simp [bufB], by simp⟩
      · intro X; have := h.bytes X; simpa [bufB, bodyB, hbuf] using this
      · intro hc; simp [he] at hc
      · intro hc; simp [he] at hc
    · rename_i hl
      have : b = [] := by
        cases b with
        | nil => rfl
        | cons a t => simp at hl
      subst this
      exact ⟨h, by simp [bufB, hbuf], by simp [hbuf]⟩

theorem flushBodyBuf_spec (g : Cfg) (hg : NoFail g) (r : R) (hd : Option Bytes) (B : Bytes)
    (h : Base r hd B) (he : r.headEncoded = true) (hb0 : bufB r = []) :
    Base (flushBodyBuf g r) hd B ∧ bodyB (flushBodyBuf g r) = [] ∧
      ((flushBodyBuf g r).bodyBuffer = none ↔ r.bodyBuffer = none) := by
  unfold flushBodyBuf
  cases hbb : r.bodyBuffer with
  | none => simp only []; exact ⟨h, by simp [bodyB, hbb], by simp [hbb]⟩
  | some b =>
    simp only []
    split
    · rw [send_ok g hg]
      dsimp only
      have hb0' : r.buffer.getD [] = [] := hb0
      refine ⟨⟨?_, h.henc, ?_, ?_⟩, by simp [bodyB], by simp⟩
      · intro X; have := h.bytes X; simpa [bufB, bodyB, hbb, hb0'] using this
      · exact fun hc => h.nobuf hc
      · intro hc; simp [he] at hc
    · rename_i hl
      have : b = [] := by
        cases b with
        | nil => rfl
        | cons a t => simp at hl
      subst this
      exact ⟨h, by simp [bodyB, hbb], by simp [hbb]⟩

/-! ### flushResponse -/

theorem mergeStep_spec (g : Cfg) (hg : NoFail g) (r : R) (hd : Option Bytes) (B : Bytes)
    (h : Bytes' r hd B) : (mergeStep g r).2 = true ∧ Bytes' (mergeStep g r).1 hd B := by
  unfold mergeStep
  cases hbuf : r.buffer with
  | none => exact ⟨rfl, h⟩
  | some hb =>
    simp only []
    unfold mergeBody
    cases hbb : r.bodyBuffer with
    | none => exact ⟨rfl, h⟩
    | some bb =>
      simp only []
      split
      · split
        · rw [send_ok g hg]
          refine ⟨rfl, ?_⟩
          intro X; have := h X; simpa [bufB, bodyB, hbuf, hbb] using this
        · refine ⟨rfl, ?_⟩
          intro X; have := h X; simpa [bufB, bodyB, hbuf, hbb] using this
      · exact ⟨rfl, h⟩

theorem sendFreeBuffer_spec (g : Cfg) (hg : NoFail g) (r : R) (hd : Option Bytes) (B : Bytes)
    (h : Bytes' r hd B) :
    (sendFreeBuffer g r).2 = true ∧ Bytes' (sendFreeBuffer g r).1 hd B ∧ bufB (sendFreeBuffer g r).1 = [] := by
  unfold sendFreeBuffer
  cases hbuf : r.buffer with
  | none => exact ⟨rfl, h, by simp [bufB, hbuf]⟩
  | some b =>
    simp only []
    rw [send_ok g hg]
    refine ⟨rfl, ?_, by simp [bufB]⟩
    intro X; have := h X; simpa [bufB, bodyB, hbuf] using this

theorem sendFreeBody_spec (g : Cfg) (hg : NoFail g) (r : R) (hd : Option Bytes) (B : Bytes)
    (h : Bytes' r hd B) (hb0 : bufB r = []) :
    (sendFreeBody g r).2 = true ∧ (sendFreeBody g r).1.wire.flatten = hd.getD [] ++ B := by
  unfold sendFreeBody
  have hb0' : r.buffer.getD [] = [] := hb0
  cases hbb : r.bodyBuffer with
  | none =>
    refine ⟨rfl, ?_⟩
    have := h []
    simpa [bufB, bodyB, hbb, hb0'] using this
  | some bb =>
    simp only []
    split
    · rw [send_ok g hg]
      refine ⟨rfl, ?_⟩
      have := h []
      simpa [bufB, bodyB, hbb, hb0'] using this
    · rename_i hl
      have : bb = [] := by
        cases bb with
        | nil => rfl
        | cons a t => simp at hl
      subst this
      refine ⟨rfl, ?_⟩
      have := h []
      simpa [bufB, bodyB, hbb, hb0'] using this

theorem flushIdentity_spec (g : Cfg) (hg : NoFail g) (r : R) (hd : Option Bytes) (B : Bytes)
    (h : Bytes' r hd B) :
    (flushIdentity g r).2 = true ∧ (flushIdentity g r).1.wire.flatten = hd.getD [] ++ B := by
  unfold flushIdentity
  dsimp only
  obtain ⟨m1, m2⟩ := mergeStep_spec g hg r hd B h
  obtain ⟨s1, s2, s3⟩ := sendFreeBuffer_spec g hg _ hd B m2
  simp only [m1, s1, Bool.not_true, Bool.false_eq_true, ↓reduceIte]
  exact sendFreeBody_spec g hg _ hd B s2 s3

theorem flushChunked_spec (g : Cfg) (hg : NoFail g) (r : R) (hd : Option Bytes) (B : Bytes)
    (h : Bytes' r hd B) (hbody : r.bodyBuffer = none) :
    (flushChunked g r).2 = true ∧
      (flushChunked g r).1.wire.flatten = hd.getD [] ++ B ++ lastChunk { r with buffer := none } := by
  unfold flushChunked
  dsimp only
  rw [send_ok g hg]
  refine ⟨rfl, ?_⟩
  have := h (lastChunk { r with buffer := none })
  cases hbuf : r.buffer with
  | none => simpa [bufB, bodyB, hbuf, hbody, List.append_assoc] using this
  | some b => simpa [bufB, bodyB, hbuf, hbody, List.append_assoc] using this

end Resp

namespace Resp

/-! ### the prelude `WriteHeader(200); checkChunked()` and the Content-Length verdict -/

/-- the prelude of every body operation has already run -/
def Pre (r : R) : Prop := r.chunkChecked = true ∧ r.statusCode ≠ 0

theorem writeHeader200_pre (r : R) (h : r.statusCode ≠ 0) : writeHeader200 r = r := by
  unfold writeHeader200 writeHeader
  simp [h]

theorem checkChunked_pre (g : Cfg) (r : R) (h : r.chunkChecked = true) : checkChunked g r = r := by
  unfold checkChunked
  simp [h]

theorem prelude_id (g : Cfg) (r : R) (h : Pre r) : checkChunked g (writeHeader200 r) = r := by
  rw [writeHeader200_pre r h.2, checkChunked_pre g r h.1]

/-- what contentLength() answers: `none` = strconv error -/
def verdict (r : R) : Option Nat := (contentLength r).2

theorem contentLength_fst (r : R) :
    (contentLength r).1 = r ∨ ∃ n, (contentLength r).1 = { r with contentLen := n } := by
  unfold contentLength
  dsimp only
  (repeat' split) <;> first | exact Or.inl rfl | exact Or.inr ⟨_, rfl⟩

theorem verdict_eq (r r' : R) (h1 : r'.contentLen = r.contentLen) (h2 : r'.header = r.header) :
    verdict r' = verdict r := by
  unfold verdict contentLength
  dsimp only
  rw [h1, h2]
  (repeat' split) <;> simp_all

theorem verdict_cached (r : R) : verdict (contentLength r).1 = verdict r := by
  unfold verdict contentLength
  dsimp only
  (repeat' split) <;> simp_all

end Resp

namespace Resp

/-- the framing invariant of a response whose framing has been decided; `v` = the (stable) verdict of
contentLength() in identity mode -/
structure WInv (v : Option Nat) (r : R) (hd : Option Bytes) (B : Bytes) : Prop where
  pre : Pre r
  ch : r.chunked = true → ChInv r hd B
  idn : r.chunked = false → IdInv (v.getD 0) r hd B ∧ verdict r = v

/-- how one accepted write is framed -/
def frame (chunked : Bool) (d : Bytes) : Bytes := if chunked then chunkEnc d else d

theorem write_unfold (g : Cfg) (r : R) (d : Bytes) (hne : d ≠ []) (hp : Pre r) :
    write g r d = writeBody g { r with hasBody := true } d := by
  have hl : (d.length == 0) = false := by
    cases d with
    | nil => exact absurd rfl hne
    | cons a t => simp
  unfold write
  simp only [hl, Bool.false_eq_true, ↓reduceIte, prelude_id g r hp]

/-- `hasBody` is not part of the invariant -/
theorem winv_hasBody (v : Option Nat) (r : R) (hd B) (h : WInv v r hd B) : WInv v { r with hasBody := true } hd B := by
  refine ⟨h.pre, ?_, ?_⟩
  · intro hc
    have := h.ch hc
    exact ⟨⟨this.bytes, this.henc, this.nobuf, this.nowire⟩, this.nobody⟩
  · intro hc
    obtain ⟨hi, hv⟩ := h.idn hc
    refine ⟨⟨⟨hi.bytes, hi.henc, hi.nobuf, hi.nowire⟩, hi.one⟩, ?_⟩
    rw [← hv]; exact verdict_eq _ _ rfl rfl

theorem writeBody_chunked_spec (g : Cfg) (hg : NoFail g) (v : Option Nat) (r : R) (hd : Option Bytes) (B d : Bytes)
    (h : WInv v r hd B) (hc : r.chunked = true) :
    WInv v (writeBody g r d).1 (hdAfter g r hd) (B ++ chunkEnc d) ∧
      (writeBody g r d).2 = .ok d.length ∧ (writeBody g r d).1.chunked = true ∧
      (writeBody g r d).1.header = r.header := by
  unfold writeBody
  rw [if_pos hc]
  obtain ⟨s1, s2⟩ := writeChunk_spec g hg r hd B (h.ch hc) d
  refine ⟨⟨?_, ?_, ?_⟩, s2, ?_, ?_⟩
  · exact ⟨by simp [h.pre.1], by simp; exact h.pre.2⟩
  · intro _; exact s1
  · intro hcf; simp [hc] at hcf
  · simp [hc]
  · simp

theorem writeIdent_spec (g : Cfg) (hg : NoFail g) (r : R) (hd : Option Bytes) (B d : Bytes) (cl : Nat)
    (hp : Pre r) (hc : r.chunked = false) (hi : IdInv cl r hd B) :
    let res := writeIdent g r d cl
    Pre res.1 ∧ res.1.chunked = false ∧ res.1.header = r.header ∧ res.1.contentLen = r.contentLen ∧
    ((res.2 = .ok d.length ∧ IdInv cl res.1 (if cl > 0 then hdAfter g r hd else hd) (B ++ d)) ∨
     (res.2 = .errCL ∧ res.1 = r)) := by
  unfold writeIdent
  dsimp only
  split
  · exact ⟨hp, hc, rfl, rfl, Or.inr ⟨rfl, rfl⟩⟩
  · have ht := takeHead_spec g hg r hd B cl d.length hi
    have hf1 := takeHead_chunked g r d.length cl
    have hf2 := takeHead_chunkChecked g r d.length cl
    have hf3 := takeHead_statusCode g r d.length cl
    have hf4 := takeHead_header g r d.length cl
    have hf5 := takeHead_contentLen g r d.length cl
    generalize takeHead g r d.length cl = q at *
    obtain ⟨r4, ok⟩ := q
    obtain ⟨hok, hi4, hb4⟩ := ht
    dsimp only at hok hi4 hb4 hf1 hf2 hf3 hf4 hf5
    subst hok
    dsimp only
    obtain ⟨ha1, ha2⟩ := appendBody_spec g hg r4 _ B d cl hi4 hb4
    refine ⟨⟨?_, ?_⟩, ?_, ?_, ?_, Or.inl ⟨ha2, ha1⟩⟩
    · rw [appendBody_chunkChecked, hf2]; exact hp.1
    · rw [appendBody_statusCode, hf3]; exact hp.2
    · rw [appendBody_chunked, hf1]; exact hc
    · rw [appendBody_header, hf4]
    · rw [appendBody_contentLen, hf5]

theorem writeBody_identity_spec (g : Cfg) (hg : NoFail g) (v : Option Nat) (r : R) (hd : Option Bytes) (B d : Bytes)
    (h : WInv v r hd B) (hc : r.chunked = false) :
    let res := writeBody g r d
    res.1.chunked = false ∧ res.1.header = r.header ∧
    ((res.2 = .ok d.length ∧
        WInv v res.1 (if v.getD 0 > 0 then hdAfter g (contentLength r).1 hd else hd) (B ++ d)) ∨
     ((res.2 = .errCL ∨ res.2 = .errParse) ∧ WInv v res.1 hd B)) := by
  obtain ⟨hid, hv⟩ := h.idn hc
  unfold writeBody
  have hcf : ¬ (r.chunked = true) := by simp [hc]
  rw [if_neg hcf]
  have hcl := contentLength_fst r
  have hvc := verdict_cached r
  unfold verdict at hv hvc
  generalize contentLength r = p at *
  obtain ⟨r3, v3⟩ := p
  dsimp only at hv hcl hvc
  subst hv
  have h3 : IdInv (v3.getD 0) r3 hd B ∧ Pre r3 ∧ r3.chunked = false ∧ r3.header = r.header := by
    rcases hcl with hcl | ⟨n, hcl⟩ <;> subst hcl
    · exact ⟨hid, h.pre, hc, rfl⟩
    · exact ⟨⟨⟨hid.bytes, hid.henc, hid.nobuf, hid.nowire⟩, hid.one⟩, h.pre, hc, rfl⟩
  obtain ⟨hi3, hp3, hc3, hh3⟩ := h3
  cases v3 with
  | none =>
    dsimp only
    refine ⟨hc3, hh3, Or.inr ⟨Or.inr rfl, ⟨hp3, ?_, ?_⟩⟩⟩
    · intro hcf; rw [hc3] at hcf; exact absurd hcf (by simp)
    · intro _; exact ⟨hi3, hvc⟩
  | some cl =>
    dsimp only
    have hw := writeIdent_spec g hg r3 hd B d cl hp3 hc3 hi3
    dsimp only at hw
    obtain ⟨w1, w2, w3, w4, w5⟩ := hw
    refine ⟨w2, by rw [w3, hh3], ?_⟩
    rcases w5 with ⟨wa, wb⟩ | ⟨wa, wb⟩
    · refine Or.inl ⟨wa, ⟨w1, ?_, ?_⟩⟩
      · intro hcf; rw [w2] at hcf; exact absurd hcf (by simp)
      · intro _
        refine ⟨wb, ?_⟩
        have := verdict_eq r3 _ w4 w3
        rw [this]; exact hvc
    · refine Or.inr ⟨Or.inl wa, ?_⟩
      rw [wb]
      refine ⟨hp3, ?_, ?_⟩
      · intro hcf; rw [hc3] at hcf; exact absurd hcf (by simp)
      · intro _; exact ⟨hi3, hvc⟩

end Resp

namespace Resp

/-! ### header operations on other keys leave a key alone -/

theorem hget_hdel_ne (h : Header) (k k' : Bytes) (hne : k' ≠ k) : hget (hdel h k) k' = hget h k' := by
  unfold hget hdel
  induction h with
  | nil => rfl
  | cons e t ih =>
    by_cases he : e.1 = k
    · have : (e.1 != k) = false := by simp [he]
      have hk' : (e.1 == k') = false := by
        rw [he]; simp; exact fun hc => hne hc.symm
      simp only [List.filter_cons, this, Bool.false_eq_true, ↓reduceIte, List.find?_cons, hk']
      exact ih
    · have : (e.1 != k) = true := by simp [he]
      simp only [List.filter_cons, this, ↓reduceIte, List.find?_cons]
      cases hk' : (e.1 == k') with
      | true => rfl
      | false => exact ih

theorem find_map_ne (h : Header) (k k' : Bytes) (f : Bytes × List Bytes → List Bytes) (hne : k' ≠ k) :
    ((h.map fun e => if e.1 == k then (k, f e) else e).find? (·.1 == k')) = h.find? (·.1 == k') := by
  have hk'' : (k == k') = false := by simp; exact fun hc => hne hc.symm
  induction h with
  | nil => rfl
  | cons e t ih =>
    by_cases he : e.1 = k
    · simp only [List.map_cons, List.find?_cons, he, beq_self_eq_true, ↓reduceIte, hk'']
      exact ih
    · have : (e.1 == k) = false := by simp [he]
      simp only [List.map_cons, List.find?_cons, this, Bool.false_eq_true, ↓reduceIte]
      cases hk' : (e.1 == k') with
      | true => rfl
      | false => exact ih

theorem find_append_ne (h : Header) (k k' : Bytes) (vs : List Bytes) (hne : k' ≠ k) :
    (h ++ [(k, vs)]).find? (·.1 == k') = h.find? (·.1 == k') := by
  have hk'' : (k == k') = false := by simp; exact fun hc => hne hc.symm
  induction h with
  | nil => simp [hk'']
  | cons e t ih =>
    simp only [List.cons_append, List.find?_cons]
    cases hk' : (e.1 == k') with
    | true => rfl
    | false => exact ih

theorem hget_hset_ne (h : Header) (k v k' : Bytes) (hne : k' ≠ k) : hget (hset h k v) k' = hget h k' := by
  have : (hset h k v).find? (·.1 == k') = h.find? (·.1 == k') := by
    unfold hset
    split
    · exact find_map_ne h k k' (fun _ => [v]) hne
    · exact find_append_ne h k k' [v] hne
  unfold hget
  rw [this]

theorem hget_hadd_ne (h : Header) (k v k' : Bytes) (hne : k' ≠ k) : hget (hadd h k v) k' = hget h k' := by
  have : (hadd h k v).find? (·.1 == k') = h.find? (·.1 == k') := by
    unfold hadd
    split
    · exact find_map_ne h k k' (fun e => e.2 ++ [v]) hne
    · exact find_append_ne h k k' [v] hne
  unfold hget
  rw [this]

/-- the verdict only reads `header.Get("Content-Length")` -/
theorem verdict_hdr (r : R) (h' : Header) (he : hget h' kCL = hget r.header kCL) :
    verdict { r with header := h' } = verdict r := by
  unfold verdict contentLength hfirst
  dsimp only
  rw [he]
  (repeat' split) <;> simp_all

theorem winv_header (v : Option Nat) (r : R) (hd B) (h' : Header) (h : WInv v r hd B)
    (he : hget h' kCL = hget r.header kCL) : WInv v { r with header := h' } hd B := by
  refine ⟨h.pre, ?_, ?_⟩
  · intro hc
    have := h.ch hc
    exact ⟨⟨this.bytes, this.henc, this.nobuf, this.nowire⟩, this.nobody⟩
  · intro hc
    obtain ⟨hi, hv⟩ := h.idn hc
    refine ⟨⟨⟨hi.bytes, hi.henc, hi.nobuf, hi.nowire⟩, hi.one⟩, ?_⟩
    rw [← hv]; exact verdict_hdr r h' he

end Resp
