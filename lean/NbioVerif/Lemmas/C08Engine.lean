import NbioVerif.Model.HttpEngine
/-! C08 at engine level: in every I/O mode, for every sequence of read results (and TLS-layer outputs), once a
    `Parse` call has returned an error — or a read has failed — the connection is closed at most once, the parser is
    closed exactly once, and nothing is emitted any more, whatever the transport delivers afterwards. -/
namespace HttpEngine
open Scan
variable {σ ε : Type}

/-- the closing sequences of the readers -/
def closingsNB : List (List (Obs ε)) := [[.connClose, .parserClose, .onClose]]
def closingsB : List (List (Obs ε)) := [[.parserClose, .onClose], [.connClose, .parserClose, .onClose]]
def closingsTlsB : List (List (Obs ε)) := [[.parserClose, .connClose, .onClose]]

/-- the invariant of a reader: either still open with a trace of parser events only, or sealed with a trace
    "parser events, then one of the reader's closing sequences" -/
def Inv (sld : Conn σ ε → Bool) (closings : List (List (Obs ε))) (c : Conn σ ε) : Prop :=
  ∃ evs : List ε, (sld c = false ∧ c.trace = evs.map Obs.ev) ∨
                  (sld c = true ∧ ∃ cl ∈ closings, c.trace = evs.map Obs.ev ++ cl)

theorem feed_connClosed (M : Machine σ ε) (limit : Nat) (c : Conn σ ε) (d : Bytes) :
    (feed M limit c d).1.connClosed = c.connClosed := rfl
theorem feed_finished (M : Machine σ ε) (limit : Nat) (c : Conn σ ε) (d : Bytes) :
    (feed M limit c d).1.finished = c.finished := rfl
theorem feed_trace (M : Machine σ ε) (limit : Nat) (c : Conn σ ε) (d : Bytes) :
    (feed M limit c d).1.trace = c.trace ++ (parse M limit c.pc d).2.1.map Obs.ev := rfl

/-- feeding an open connection keeps it open with a trace of events only -/
theorem feed_open (sld : Conn σ ε → Bool) (cls : List (List (Obs ε))) (M : Machine σ ε) (limit : Nat) (c : Conn σ ε)
    (d : Bytes) (hs : sld (feed M limit c d).1 = sld c) (h : Inv sld cls c) (ho : sld c = false) :
    sld (feed M limit c d).1 = false ∧ ∃ evs : List ε, (feed M limit c d).1.trace = evs.map Obs.ev := by
  obtain ⟨e0, h | ⟨h, _⟩⟩ := h
  · exact ⟨by rw [hs]; exact ho, e0 ++ (parse M limit c.pc d).2.1, by rw [feed_trace, h.2]; simp⟩
  · rw [ho] at h; cases h

/-! ### non-blocking -/

def sealNB (c : Conn σ ε) : Bool := c.connClosed

theorem closeNB_open (c : Conn σ ε) (evs : List ε) (ho : sealNB c = false) (ht : c.trace = evs.map Obs.ev) :
    Inv sealNB closingsNB (closeNB c) := by
  have hc : c.connClosed = false := ho
  refine ⟨evs, Or.inr ⟨?_, [.connClose, .parserClose, .onClose], by simp [closingsNB], ?_⟩⟩
  · simp [closeNB, hc, sealNB]
  · simp [closeNB, hc, ht]

theorem closeNB_inv (c : Conn σ ε) (h : Inv sealNB closingsNB c) : Inv sealNB closingsNB (closeNB c) := by
  by_cases hs : sealNB c = true
  · have hc : c.connClosed = true := hs
    have : closeNB c = c := by simp [closeNB, hc]
    rw [this]; exact h
  · have hs' : sealNB c = false := by simpa using hs
    obtain ⟨e0, h | ⟨h, _⟩⟩ := h
    · exact closeNB_open c e0 hs' h.2
    · rw [hs'] at h; cases h

theorem stepNB_sealed (M : Machine σ ε) (limit : Nat) (c : Conn σ ε) (r : ReadRes) (h : sealNB c = true) :
    stepNB M limit c r = c := by
  have hc : c.connClosed = true := h
  cases r <;> simp [stepNB, closeNB, hc]

theorem stepNB_inv (M : Machine σ ε) (limit : Nat) (c : Conn σ ε) (r : ReadRes) (h : Inv sealNB closingsNB c) :
    Inv sealNB closingsNB (stepNB M limit c r) := by
  by_cases hs : sealNB c = true
  · rw [stepNB_sealed M limit c r hs]; exact h
  · have hs' : sealNB c = false := by simpa using hs
    have hc : c.connClosed = false := hs'
    cases r with
    | err => exact closeNB_inv c h
    | data d =>
      have ⟨ho, evs, ht⟩ := feed_open sealNB closingsNB M limit c d rfl h hs'
      simp only [stepNB]
      rw [if_neg (by simp [hc])]
      split
      · exact closeNB_open _ evs ho ht
      · exact ⟨evs, Or.inl ⟨ho, ht⟩⟩

theorem runNB_inv (M : Machine σ ε) (limit : Nat) (rs : List ReadRes) : ∀ (c : Conn σ ε),
    Inv sealNB closingsNB c → Inv sealNB closingsNB (runNB M limit c rs) := by
  induction rs with
  | nil => intro c h; exact h
  | cons r rs ih => intro c h; exact ih _ (stepNB_inv M limit c r h)

theorem runNB_sealed (M : Machine σ ε) (limit : Nat) (rs : List ReadRes) : ∀ (c : Conn σ ε),
    sealNB c = true → runNB M limit c rs = c := by
  induction rs with
  | nil => intro c _; rfl
  | cons r rs ih =>
    intro c h
    simp only [runNB, List.foldl_cons] at ih ⊢
    rw [stepNB_sealed M limit c r h]; exact ih c h

/-! ### blocking -/

def sealB (c : Conn σ ε) : Bool := c.finished

theorem stepB_sealed (M : Machine σ ε) (limit : Nat) (c : Conn σ ε) (r : ReadRes) (h : sealB c = true) :
    stepB M limit c r = c := by
  have hf : c.finished = true := h
  simp [stepB, hf]

theorem deferBlocking_inv (c : Conn σ ε) (evs : List ε) (pre : List (Obs ε))
    (hpre : pre = [] ∨ pre = [.connClose]) (ht : c.trace = evs.map Obs.ev ++ pre) :
    Inv sealB closingsB (deferBlocking c) := by
  refine ⟨evs, Or.inr ⟨rfl, ?_⟩⟩
  rcases hpre with h | h <;> subst h
  · exact ⟨[.parserClose, .onClose], by simp [closingsB], by simp [deferBlocking, ht]⟩
  · exact ⟨[.connClose, .parserClose, .onClose], by simp [closingsB], by simp [deferBlocking, ht]⟩

theorem stepB_inv (M : Machine σ ε) (limit : Nat) (c : Conn σ ε) (r : ReadRes) (h : Inv sealB closingsB c) :
    Inv sealB closingsB (stepB M limit c r) := by
  by_cases hs : sealB c = true
  · rw [stepB_sealed M limit c r hs]; exact h
  · have hs' : sealB c = false := by simpa using hs
    have hf : c.finished = false := hs'
    simp only [stepB]
    rw [if_neg (by simp [hf])]
    cases r with
    | err =>
      obtain ⟨e0, h0 | ⟨h0, _⟩⟩ := h
      · exact deferBlocking_inv c e0 [] (Or.inl rfl) (by simp [h0.2])
      · rw [hs'] at h0; cases h0
    | data d =>
      have ⟨ho, evs, ht⟩ := feed_open sealB closingsB M limit c d rfl h hs'
      simp only
      split
      · exact deferBlocking_inv _ evs [.connClose] (Or.inr rfl) (by simp [ht])
      · exact ⟨evs, Or.inl ⟨ho, ht⟩⟩

theorem runB_inv (M : Machine σ ε) (limit : Nat) (rs : List ReadRes) : ∀ (c : Conn σ ε),
    Inv sealB closingsB c → Inv sealB closingsB (runB M limit c rs) := by
  induction rs with
  | nil => intro c h; exact h
  | cons r rs ih => intro c h; exact ih _ (stepB_inv M limit c r h)

theorem runB_sealed (M : Machine σ ε) (limit : Nat) (rs : List ReadRes) : ∀ (c : Conn σ ε),
    sealB c = true → runB M limit c rs = c := by
  induction rs with
  | nil => intro c _; rfl
  | cons r rs ih =>
    intro c h
    simp only [runB, List.foldl_cons] at ih ⊢
    rw [stepB_sealed M limit c r h]; exact ih c h

/-! ### TLS non-blocking -/

theorem tlsInnerNB_inv (M : Machine σ ε) (limit : Nat) (os : List TlsOut) : ∀ (c : Conn σ ε),
    Inv sealNB closingsNB c → Inv sealNB closingsNB (tlsInnerNB M limit c os) := by
  induction os with
  | nil => intro c h; exact h
  | cons o os ih =>
    intro c h
    unfold tlsInnerNB
    by_cases hc : c.connClosed = true
    · rw [if_pos hc]; exact h
    · rw [if_neg hc]
      have hs' : sealNB c = false := by simpa [sealNB] using hc
      by_cases hp : o.plain = []
      · -- no data in this call
        rw [if_pos hp]
        split
        · exact closeNB_inv c h
        · exact h
      · have ⟨ho, evs, ht⟩ := feed_open sealNB closingsNB M limit c o.plain rfl h hs'
        rw [if_neg hp]
        split
        · exact closeNB_open _ evs ho ht
        · split
          · exact closeNB_open _ evs ho ht
          · exact ih _ ⟨evs, Or.inl ⟨ho, ht⟩⟩

theorem stepTlsNB_inv (M : Machine σ ε) (limit : Nat) (c : Conn σ ε) (r : ReadRes × List TlsOut)
    (h : Inv sealNB closingsNB c) : Inv sealNB closingsNB (stepTlsNB M limit c r) := by
  obtain ⟨r, outs⟩ := r
  cases r with
  | err => exact closeNB_inv c h
  | data d =>
    simp only [stepTlsNB]
    split
    · exact h
    · exact tlsInnerNB_inv M limit outs c h

theorem stepTlsNB_sealed (M : Machine σ ε) (limit : Nat) (c : Conn σ ε) (r : ReadRes × List TlsOut)
    (h : sealNB c = true) : stepTlsNB M limit c r = c := by
  obtain ⟨r, outs⟩ := r
  have hc : c.connClosed = true := h
  cases r <;> simp [stepTlsNB, closeNB, hc]

theorem runTlsNB_inv (M : Machine σ ε) (limit : Nat) (rs : List (ReadRes × List TlsOut)) : ∀ (c : Conn σ ε),
    Inv sealNB closingsNB c → Inv sealNB closingsNB (runTlsNB M limit c rs) := by
  induction rs with
  | nil => intro c h; exact h
  | cons r rs ih => intro c h; exact ih _ (stepTlsNB_inv M limit c r h)

theorem runTlsNB_sealed (M : Machine σ ε) (limit : Nat) (rs : List (ReadRes × List TlsOut)) : ∀ (c : Conn σ ε),
    sealNB c = true → runTlsNB M limit c rs = c := by
  induction rs with
  | nil => intro c _; rfl
  | cons r rs ih =>
    intro c h
    simp only [runTlsNB, List.foldl_cons] at ih ⊢
    rw [stepTlsNB_sealed M limit c r h]; exact ih c h

/-! ### TLS blocking -/

theorem deferTlsB_inv (c : Conn σ ε) (evs : List ε) (ht : c.trace = evs.map Obs.ev) :
    Inv sealB closingsTlsB (deferTlsB c) :=
  ⟨evs, Or.inr ⟨rfl, [.parserClose, .connClose, .onClose], by simp [closingsTlsB], by simp [deferTlsB, ht]⟩⟩

theorem tlsInnerB_inv (M : Machine σ ε) (limit : Nat) (os : List TlsOut) : ∀ (c : Conn σ ε),
    Inv sealB closingsTlsB c → Inv sealB closingsTlsB (tlsInnerB M limit c os) := by
  induction os with
  | nil => intro c h; exact h
  | cons o os ih =>
    intro c h
    unfold tlsInnerB
    by_cases hf : c.finished = true
    · rw [if_pos hf]; exact h
    · rw [if_neg hf]
      have hs' : sealB c = false := by simpa [sealB] using hf
      split
      · obtain ⟨e0, h0 | ⟨h0, _⟩⟩ := h
        · exact deferTlsB_inv c e0 h0.2
        · rw [hs'] at h0; cases h0
      · split
        · have ⟨ho, evs, ht⟩ := feed_open sealB closingsTlsB M limit c o.plain rfl h hs'
          split
          · exact deferTlsB_inv _ evs ht
          · exact ih _ ⟨evs, Or.inl ⟨ho, ht⟩⟩
        · exact h

theorem stepTlsB_inv (M : Machine σ ε) (limit : Nat) (c : Conn σ ε) (r : ReadRes × List TlsOut)
    (h : Inv sealB closingsTlsB c) : Inv sealB closingsTlsB (stepTlsB M limit c r) := by
  obtain ⟨r, outs⟩ := r
  simp only [stepTlsB]
  split
  · exact h
  · rename_i hf
    cases r with
    | err =>
      obtain ⟨e0, h0 | ⟨h0, _⟩⟩ := h
      · exact deferTlsB_inv c e0 h0.2
      · exact absurd h0 hf
    | data d => exact tlsInnerB_inv M limit outs c h

theorem stepTlsB_sealed (M : Machine σ ε) (limit : Nat) (c : Conn σ ε) (r : ReadRes × List TlsOut)
    (h : sealB c = true) : stepTlsB M limit c r = c := by
  obtain ⟨r, outs⟩ := r
  have hf : c.finished = true := h
  simp [stepTlsB, hf]

theorem runTlsB_inv (M : Machine σ ε) (limit : Nat) (rs : List (ReadRes × List TlsOut)) : ∀ (c : Conn σ ε),
    Inv sealB closingsTlsB c → Inv sealB closingsTlsB (runTlsB M limit c rs) := by
  induction rs with
  | nil => intro c h; exact h
  | cons r rs ih => intro c h; exact ih _ (stepTlsB_inv M limit c r h)

theorem runTlsB_sealed (M : Machine σ ε) (limit : Nat) (rs : List (ReadRes × List TlsOut)) : ∀ (c : Conn σ ε),
    sealB c = true → runTlsB M limit c rs = c := by
  induction rs with
  | nil => intro c _; rfl
  | cons r rs ih =>
    intro c h
    simp only [runTlsB, List.foldl_cons] at ih ⊢
    rw [stepTlsB_sealed M limit c r h]; exact ih c h

/-! ### what the invariant says about the trace -/

def Obs.isConnClose : Obs ε → Bool | .connClose => true | _ => false
def Obs.isParserClose : Obs ε → Bool | .parserClose => true | _ => false
def Obs.isOnClose : Obs ε → Bool | .onClose => true | _ => false

theorem countP_evs (p : Obs ε → Bool) (hp : ∀ e, p (Obs.ev e) = false) (evs : List ε) :
    List.countP p (evs.map Obs.ev) = 0 := by
  induction evs with
  | nil => rfl
  | cons e es ih => simp [List.countP_cons, hp e, ih]

/-- the closing sequences contain each closing observation at most once, and `parserClose`, `onClose` exactly once -/
def ClosingsOk (cls : List (List (Obs ε))) : Prop :=
  ∀ cl ∈ cls, cl.all (fun o => !o.isEv) = true ∧ List.countP Obs.isConnClose cl ≤ 1 ∧
    List.countP Obs.isParserClose cl = 1 ∧ List.countP Obs.isOnClose cl = 1

theorem closingsNB_ok : ClosingsOk (closingsNB : List (List (Obs ε))) := by
  intro cl h; simp only [closingsNB, List.mem_singleton] at h; subst h
  simp [Obs.isEv, Obs.isConnClose, Obs.isParserClose, Obs.isOnClose, List.countP_cons]
theorem closingsB_ok : ClosingsOk (closingsB : List (List (Obs ε))) := by
  intro cl h
  simp only [closingsB, List.mem_cons, List.mem_nil_iff, or_false] at h
  rcases h with h | h <;> subst h <;>
    simp [Obs.isEv, Obs.isConnClose, Obs.isParserClose, Obs.isOnClose, List.countP_cons]
theorem closingsTlsB_ok : ClosingsOk (closingsTlsB : List (List (Obs ε))) := by
  intro cl h; simp only [closingsTlsB, List.mem_singleton] at h; subst h
  simp [Obs.isEv, Obs.isConnClose, Obs.isParserClose, Obs.isOnClose, List.countP_cons]

/-- consequences of the invariant: every parser event precedes every closing observation; the connection is closed
    at most once; `CloseAndClean` and `_onClose` run at most once, and exactly once when the reader is sealed -/
theorem inv_trace (sld : Conn σ ε → Bool) (cls : List (List (Obs ε))) (hok : ClosingsOk cls) (c : Conn σ ε)
    (h : Inv sld cls c) :
    EvsThenClosings c.trace ∧
    List.countP Obs.isConnClose c.trace ≤ 1 ∧ List.countP Obs.isParserClose c.trace ≤ 1 ∧
    List.countP Obs.isOnClose c.trace ≤ 1 ∧
    (sld c = true → List.countP Obs.isParserClose c.trace = 1 ∧ List.countP Obs.isOnClose c.trace = 1) := by
  have hev : ∀ (evs : List ε), (evs.map Obs.ev).all Obs.isEv = true := by
    intro evs; induction evs <;> simp_all [Obs.isEv]
  have z1 := fun evs => countP_evs (ε := ε) Obs.isConnClose (fun _ => rfl) evs
  have z2 := fun evs => countP_evs (ε := ε) Obs.isParserClose (fun _ => rfl) evs
  have z3 := fun evs => countP_evs (ε := ε) Obs.isOnClose (fun _ => rfl) evs
  obtain ⟨evs, ⟨ho, ht⟩ | ⟨hs, cl, hcl, ht⟩⟩ := h
  · rw [ht]
    refine ⟨⟨evs.map Obs.ev, [], by simp, hev evs, rfl⟩, by rw [z1]; omega, by rw [z2]; omega, by rw [z3]; omega, ?_⟩
    intro hs; rw [ho] at hs; cases hs
  · obtain ⟨a, b, c', d⟩ := hok cl hcl
    rw [ht]
    simp only [List.countP_append, z1, z2, z3, Nat.zero_add]
    exact ⟨⟨evs.map Obs.ev, cl, rfl, hev evs, a⟩, b, by omega, by omega, fun _ => ⟨c', d⟩⟩

theorem fresh_inv (sld : Conn σ ε → Bool) (cls : List (List (Obs ε))) (st0 : σ) (h : sld (fresh st0) = false) :
    Inv sld cls (fresh st0 : Conn σ ε) := ⟨[], Or.inl ⟨h, rfl⟩⟩

/-- a failing `Parse` seals the reader in the same step (non-blocking) -/
theorem stepNB_error_seals (M : Machine σ ε) (limit : Nat) (c : Conn σ ε) (d : Bytes)
    (ho : sealNB c = false) (he : (feed M limit c d).2 = true) : sealNB (stepNB M limit c (.data d)) = true := by
  have hc : c.connClosed = false := ho
  simp only [stepNB]
  rw [if_neg (by simp [hc]), if_pos he]
  simp [closeNB, sealNB, feed_connClosed, hc]

/-- a failing `Parse` seals the reader in the same step (blocking) -/
theorem stepB_error_seals (M : Machine σ ε) (limit : Nat) (c : Conn σ ε) (d : Bytes)
    (ho : sealB c = false) (he : (feed M limit c d).2 = true) : sealB (stepB M limit c (.data d)) = true := by
  have hf : c.finished = false := ho
  simp only [stepB]
  rw [if_neg (by simp [hf]), if_pos he]
  simp [deferBlocking, sealB]

end HttpEngine
