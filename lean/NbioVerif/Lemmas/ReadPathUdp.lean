import NbioVerif.Lemmas.ReadPathDrain
import NbioVerif.Lemmas.ReadPathUdpKey
/-! ReadPath: UDP — sessions are a function of the key and distinct per key; datagrams are attributed in order,
one recvfrom = one attribution, boundaries preserved (truncation to the buffer is the kernel's). -/
namespace ReadPath

theorem lookup_append (k k0 : List UInt8) (v0 : Nat) (l : List (List UInt8 × Nat)) :
    lookup k (l ++ [(k0, v0)]) = match lookup k l with
      | some v => some v
      | none => if k0 = k then some v0 else none := by
  induction l with
  | nil => simp [lookup]
  | cons x r ih =>
    obtain ⟨k1, v1⟩ := x
    simp only [List.cons_append, lookup]
    split
    · rfl
    · exact ih

structure SessOk (s : St) : Prop where
  ids : ∀ k id, lookup k s.sess = some id → 1 ≤ id ∧ id ≤ s.sess.length ∧ s.sess[id - 1]? = some (k, id)
  deq : ∀ e ∈ s.deqD, lookup (udpKey e.1) s.sess = some e.2.1

theorem sessOk_init : SessOk init := ⟨fun k id h => by simp [init, lookup] at h, fun e h => by simp [init] at h⟩

theorem sessOk_congr (s t : St) (h1 : t.sess = s.sess) (h2 : t.deqD = s.deqD) (h : SessOk s) : SessOk t :=
  ⟨by rw [h1]; exact h.ids, by rw [h1, h2]; exact h.deq⟩

theorem sessOk_session (s : St) (a : Addr) (h : SessOk s) :
    SessOk (session s a).2 ∧ lookup (udpKey a) (session s a).2.sess = some (session s a).1 ∧
    (∀ k v, lookup k s.sess = some v → lookup k (session s a).2.sess = some v) ∧ (session s a).2.deqD = s.deqD := by
  unfold session
  split
  · next id hl => exact ⟨h, hl, fun _ _ h => h, rfl⟩
  · next hl =>
    simp only
    have hstable : ∀ k v, lookup k s.sess = some v → lookup k (s.sess ++ [(udpKey a, s.sess.length + 1)]) = some v := by
      intro k v hk; rw [lookup_append, hk]
    refine ⟨⟨fun k id hk => ?_, fun e he => hstable _ _ (h.deq e he)⟩, ?_, hstable, by first | rfl | trivial⟩
    · rw [lookup_append] at hk
      cases hk0 : lookup k s.sess with
      | some v =>
        rw [hk0] at hk; simp only [Option.some.injEq] at hk; subst hk
        obtain ⟨i1, i2, i3⟩ := h.ids k v hk0
        refine ⟨i1, by simp; omega, ?_⟩
        rw [List.getElem?_append_left (by omega)]; exact i3
      | none =>
        rw [hk0] at hk
        simp only at hk
        split at hk
        · next hk' =>
          simp only [Option.some.injEq] at hk; subst hk; subst hk'
          refine ⟨by omega, by simp, ?_⟩
          simp
        · cases hk
    · rw [lookup_append, hl]; simp

theorem consume_sess (g : Cfg) (s : St) (a : Ans) (h : SessOk s) : SessOk (consume g s a).2 := by
  unfold consume
  cases a with
  | data src b =>
    cases src with
    | none => dsimp only; split <;> split <;> exact sessOk_congr s _ rfl rfl h
    | some x =>
      obtain ⟨h1, h2, h3, h4⟩ := sessOk_session s x h
      dsimp only
      have key : SessOk { (session s x).2 with deqD := (session s x).2.deqD ++ [(x, (session s x).1, b)] } := by
        refine ⟨h1.ids, fun e he => ?_⟩
        simp only [List.mem_append, List.mem_singleton] at he
        rcases he with he | he
        · exact h1.deq e he
        · subst he; exact h2
      split <;> split
      all_goals
        exact sessOk_congr { (session s x).2 with deqD := (session s x).2.deqD ++ [(x, (session s x).1, b)] } _ rfl rfl key
  | zero => exact h
  | eagain => exact h
  | eintr => exact h
  | closed => exact h
  | err => simp only [closeWith]; split <;> exact sessOk_congr s _ rfl rfl h

theorem taskRead_sess (g : Cfg) (s : St) (b : Bool) : (taskRead g s b).sess = s.sess ∧ (taskRead g s b).deqD = s.deqD := by
  unfold taskRead
  split
  · exact ⟨rfl, rfl⟩
  · obtain ⟨f1, f2, f3, f4, f5, f6, f7, f8, f9, f10, f11, _⟩ := doRead_frame g s
    exact ⟨f6, f11⟩

theorem rearm_sess (s : St) : (rearm s).sess = s.sess ∧ (rearm s).deqD = s.deqD := by
  unfold rearm; split <;> exact ⟨rfl, rfl⟩

theorem finish_sess (g : Cfg) (s : St) (fl : Flags) : (finish g s fl).sess = s.sess ∧ (finish g s fl).deqD = s.deqD := by
  unfold finish rearm closeHang; dsimp only; repeat' split
  all_goals exact ⟨rfl, rfl⟩

theorem sessOk_step (g : Cfg) (s s' : St) (a : Act) (h : SessOk s) (hs : step g s a = some s') : SessOk s' := by
  cases a with
  | push b => simp only [step] at hs; split at hs <;> cases hs; exact sessOk_congr s _ rfl rfl h
  | dgram x b => simp only [step] at hs; split at hs <;> cases hs; exact sessOk_congr s _ rfl rfl h
  | eof => simp only [step] at hs; split at hs <;> cases hs; exact sessOk_congr s _ rfl rfl h
  | rderr => simp only [step] at hs; cases hs; exact sessOk_congr s _ rfl rfl h
  | intr n => simp only [step] at hs; cases hs; exact sessOk_congr s _ rfl rfl h
  | stale => simp only [step] at hs; split at hs <;> cases hs; exact sessOk_congr s _ rfl rfl h
  | report i o =>
    obtain ⟨_, _, _, _, _, _, r7, _, _, _, _, r12, _⟩ := report_frame g s s' i o hs
    exact sessOk_congr s _ r7 r12 h
  | pstep =>
    simp only [step] at hs
    unfold pstep at hs
    split at hs
    · cases hs
    · cases hs
      obtain ⟨f1, f2, f3, f4, f5, f6, f7, f8, f9, f10, f11, _⟩ := doRead_frame g s
      exact sessOk_congr (consume g (doRead g s).2 (doRead g s).1).2 _ rfl rfl
        (consume_sess g _ _ (sessOk_congr s _ f6 f11 h))
    · next fl _ => cases hs; exact sessOk_congr s _ (finish_sess g s fl).1 (finish_sess g s fl).2 h
  | tstep =>
    simp only [step] at hs
    unfold tstep at hs
    split at hs
    · cases hs
    · cases hs; exact sessOk_congr s _ (taskRead_sess g s _).1 (taskRead_sess g s _).2 h
    · next a hb ht =>
      cases hs
      have hc := consume_sess g s a h
      cases hnx : (consume g s a).1 with
      | again => exact sessOk_congr (consume g s a).2 _ (taskRead_sess g _ _).1 (taskRead_sess g _ _).2 hc
      | dead => exact sessOk_congr (consume g s a).2 _ rfl rfl hc
      | brk =>
        simp only [taskNext]
        have hcl : ∀ t : St, (closeHang t).sess = t.sess ∧ (closeHang t).deqD = t.deqD := by
          intro t; unfold closeHang; split <;> exact ⟨rfl, rfl⟩
        split
        · exact sessOk_congr (consume g s a).2 _ (hcl _).1 (hcl _).2 hc
        split
        · exact sessOk_congr (consume g s a).2 _ (rearm_sess _).1 (rearm_sess _).2 hc
        · split <;> exact sessOk_congr (consume g s a).2 _ rfl rfl hc
    · cases hs; exact sessOk_congr s _ (taskRead_sess g s _).1 (taskRead_sess g s _).2 h

theorem sessOk_run (g : Cfg) (as : List Act) : ∀ s, SessOk s → SessOk (run g s as) := by
  induction as with
  | nil => intro s h; exact h
  | cons a as ih =>
    intro s h
    simp only [run]
    split
    · next s' hs => exact ih s' (sessOk_step g s s' a h hs)
    · exact ih s h

/-- two attributed datagrams share a session iff their sources have the same key -/
theorem sess_demux (s : St) (h : SessOk s) (e1 e2 : Addr × Nat × List UInt8) (h1 : e1 ∈ s.deqD) (h2 : e2 ∈ s.deqD) :
    e1.2.1 = e2.2.1 ↔ udpKey e1.1 = udpKey e2.1 := by
  have l1 := h.deq e1 h1
  have l2 := h.deq e2 h2
  constructor
  · intro he
    obtain ⟨_, _, g1⟩ := h.ids _ _ l1
    obtain ⟨_, _, g2⟩ := h.ids _ _ l2
    rw [he] at g1
    rw [g1] at g2
    simp only [Option.some.injEq, Prod.mk.injEq, and_true] at g2
    exact g2
  · intro hk
    rw [hk] at l1
    rw [l1] at l2
    simpa using l2

end ReadPath
