import NbioVerif.Lemmas.C09Choice
/-! Stage 2 of C09: a reference parser of an HTTP/1.x head (line oriented: status line, `name: value`
lines, empty line) and its round trip with `headBytes` / `lastChunk`. -/
namespace Resp

/-- one line: the bytes before the first CRLF, and what follows it -/
def takeLine : Bytes → Option (Bytes × Bytes)
  | 13 :: 10 :: rest => some ([], rest)
  | c :: rest => (takeLine rest).map fun p => (c :: p.1, p.2)
  | [] => none

/-- `name: value` (name up to the first colon, then exactly one space) -/
def parseHeaderLine (l : Bytes) : Option (Bytes × Bytes) :=
  match l.dropWhile (· != 58) with
  | 58 :: 32 :: v => some (l.takeWhile (· != 58), v)
  | _ => none

/-- header lines up to the empty line; returns the pairs and what follows the empty line -/
def parseHeaders : Nat → Bytes → Option (List (Bytes × Bytes) × Bytes)
  | 0, _ => none
  | f+1, b =>
    match takeLine b with
    | none => none
    | some ([], rest) => some ([], rest)
    | some (l, rest) =>
      match parseHeaderLine l with
      | none => none
      | some kv => (parseHeaders f rest).map fun p => (kv :: p.1, p.2)

/-- reference head parser: status line (raw), header pairs, rest -/
def parseHead (b : Bytes) : Option (Bytes × List (Bytes × Bytes) × Bytes) :=
  match takeLine b with
  | none => none
  | some (sl, rest) => (parseHeaders (rest.length + 1) rest).map fun p => (sl, p.1, p.2)

/-- a line body: no CR -/
def noCR (l : Bytes) : Prop := ∀ c ∈ l, c ≠ 13
/-- a header name: no colon, no CR, not empty -/
def nameOk (k : Bytes) : Prop := k ≠ [] ∧ ∀ c ∈ k, c ≠ 58 ∧ c ≠ 13

theorem takeLine_cons_ne (c : UInt8) (rest : Bytes) (hc : c ≠ 13) :
    takeLine (c :: rest) = (takeLine rest).map fun p => (c :: p.1, p.2) := by
  cases rest with
  | nil => simp [takeLine]
  | cons d t =>
    by_cases hd : d = 10
    · subst hd
      rw [takeLine.eq_def]
      split
      · rename_i heq; simp at heq; exact absurd heq.1 hc
      · rename_i heq; simp at heq; obtain ⟨h1, h2⟩ := heq; subst h1; subst h2; rfl
      · rename_i heq; simp at heq
    · rw [takeLine.eq_def]
      split
      · rename_i heq; simp at heq; exact absurd heq.1 hc
      · rename_i heq; simp at heq; obtain ⟨h1, h2⟩ := heq; subst h1; subst h2; rfl
      · rename_i heq; simp at heq

theorem takeLine_render (l x : Bytes) (h : noCR l) : takeLine (l ++ 13 :: 10 :: x) = some (l, x) := by
  induction l with
  | nil => rfl
  | cons c t ih =>
    have hc : c ≠ 13 := h c (List.mem_cons_self ..)
    have := ih (fun c' h' => h c' (List.mem_cons_of_mem _ h'))
    show takeLine (c :: (t ++ 13 :: 10 :: x)) = _
    rw [takeLine_cons_ne c _ hc, this]
    rfl

theorem parseHeaderLine_render (k v : Bytes) (hk : ∀ c ∈ k, c ≠ 58) :
    parseHeaderLine (k ++ [58, 32] ++ v) = some (k, v) := by
  have h1 : (k ++ [58, 32] ++ v).dropWhile (· != 58) = 58 :: 32 :: v := by
    induction k with
    | nil => simp [List.dropWhile]
    | cons c t ih =>
      have hc : c ≠ 58 := hk c (List.mem_cons_self ..)
      simp only [List.cons_append, List.dropWhile_cons, bne_iff_ne, ne_eq, hc, not_false_eq_true, ↓reduceIte]
      exact ih (fun c' h' => hk c' (List.mem_cons_of_mem _ h'))
  have h2 : (k ++ [58, 32] ++ v).takeWhile (· != 58) = k := by
    clear h1
    induction k with
    | nil => simp [List.takeWhile]
    | cons c t ih =>
      have hc : c ≠ 58 := hk c (List.mem_cons_self ..)
      simp only [List.cons_append, List.takeWhile_cons, bne_iff_ne, ne_eq, hc, not_false_eq_true, ↓reduceIte]
      rw [ih (fun c' h' => hk c' (List.mem_cons_of_mem _ h'))]
  unfold parseHeaderLine
  rw [h1, h2]
  rfl

/-- the rendering of header pairs -/
def renderPairs (ps : List (Bytes × Bytes)) : Bytes := (ps.map fun p => headerLine p.1 p.2).flatten

theorem parseHeaders_render (ps : List (Bytes × Bytes)) (x : Bytes)
    (hk : ∀ p ∈ ps, nameOk p.1) (hv : ∀ p ∈ ps, noCR p.2) (f : Nat) (hf : ps.length < f) :
    parseHeaders f (renderPairs ps ++ 13 :: 10 :: x) = some (ps, x) := by
  induction ps generalizing f with
  | nil =>
    cases f with
    | zero => omega
    | succ f => simp [renderPairs, parseHeaders, takeLine]
  | cons p rest ih =>
    cases f with
    | zero => omega
    | succ f =>
      obtain ⟨hne, hkc⟩ := hk p (List.mem_cons_self ..)
      have hvc := hv p (List.mem_cons_self ..)
      have hline : noCR (p.1 ++ [58, 32] ++ p.2) := by
        intro c hc
        simp only [List.mem_append, List.mem_cons, List.mem_nil_iff, or_false] at hc
        rcases hc with (hc | hc | hc) | hc
        · exact (hkc c hc).2
        · rw [hc]; decide
        · rw [hc]; decide
        · exact hvc c hc
      have e : renderPairs (p :: rest) ++ 13 :: 10 :: x =
          (p.1 ++ [58, 32] ++ p.2) ++ 13 :: 10 :: (renderPairs rest ++ 13 :: 10 :: x) := by
        simp [renderPairs, headerLine, CRLF, List.append_assoc]
      rw [e]
      unfold parseHeaders
      rw [takeLine_render _ _ hline]
      have hnil : p.1 ++ [58, 32] ++ p.2 ≠ [] := by simp
      have hih := ih (fun q hq => hk q (List.mem_cons_of_mem _ hq)) (fun q hq => hv q (List.mem_cons_of_mem _ hq)) f
        (by simp at hf; omega)
      cases hl : p.1 ++ [58, 32] ++ p.2 with
      | nil => exact absurd hl hnil
      | cons a t =>
        dsimp only
        rw [← hl, parseHeaderLine_render _ _ (fun c hc => (hkc c hc).1), hih]
        rfl

end Resp
