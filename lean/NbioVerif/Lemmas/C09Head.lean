import NbioVerif.Lemmas.C09Choice
/-! Stage 2 of C09: a reference parser of an HTTP/1.x head (line oriented: status line, `name: value`
lines, empty line) and its round trip with `headBytes` / `lastChunk`. -/
namespace Resp

/-- one line: the bytes before the first CRLF, and what follows it -/
def takeLine : Bytes → Option (Bytes × Bytes)
  | 13 :: 10 :: rest => some ([], rest)
  | c :: rest => (takeLine rest).map fun p => (c :: p.1, p.2)
  | [] => none

/-- `name: value` (name up to the first colon, then exactly one space) -/
def parseHeaderLine (l : Bytes) : Option (Bytes × Bytes) :=
  match l.dropWhile (· != 58) with
  | 58 :: 32 :: v => some (l.takeWhile (· != 58), v)
  | _ => none

/-- header lines up to the empty line; returns the pairs and what follows the empty line -/
def parseHeaders : Nat → Bytes → Option (List (Bytes × Bytes) × Bytes)
  | 0, _ => none
  | f+1, b =>
    match takeLine b with
    | none => none
    | some ([], rest) => some ([], rest)
    | some (l, rest) =>
      match parseHeaderLine l with
      | none => none
      | some kv => (parseHeaders f rest).map fun p => (kv :: p.1, p.2)

/-- reference head parser: status line (raw), header pairs, rest -/
def parseHead (b : Bytes) : Option (Bytes × List (Bytes × Bytes) × Bytes) :=
  match takeLine b with
  | none => none
  | some (sl, rest) => (parseHeaders (rest.length + 1) rest).map fun p => (sl, p.1, p.2)

/-- a line body: no CR -/
def noCR (l : Bytes) : Prop := ∀ c ∈ l, c ≠ 13
/-- a header name: no colon, no CR, not empty -/
def nameOk (k : Bytes) : Prop := k ≠ [] ∧ ∀ c ∈ k, c ≠ 58 ∧ c ≠ 13

theorem takeLine_cons_ne (c : UInt8) (rest : Bytes) (hc : c ≠ 13) :
    takeLine (c :: rest) = (takeLine rest).map fun p => (c :: p.1, p.2) := by
  cases rest with
  | nil => simp [takeLine]
  | cons d t =>
    by_cases hd : d = 10
    · subst hd
      rw [takeLine.eq_def]
      split
      · rename_i heq; simp at heq; exact absurd heq.1 hc
      · rename_i heq; simp at heq; obtain ⟨h1, h2⟩ := heq; subst h1; subst h2; rfl
      · rename_i heq; simp at heq
    · rw [takeLine.eq_def]
      split
      · rename_i heq; simp at heq; exact absurd heq.1 hc
      · rename_i heq; simp at heq; obtain ⟨h1, h2⟩ := heq; subst h1; subst h2; rfl
      · rename_i heq; simp at heq

theorem takeLine_render (l x : Bytes) (h : noCR l) : takeLine (l ++ 13 :: 10 :: x) = some (l, x) := by
  induction l with
  | nil => rfl
  | cons c t ih =>
    have hc : c ≠ 13 := h c (List.mem_cons_self ..)
    have := ih (fun c' h' => h c' (List.mem_cons_of_mem _ h'))
    show takeLine (c :: (t ++ 13 :: 10 :: x)) = _
    rw [takeLine_cons_ne c _ hc, this]
    rfl

theorem parseHeaderLine_render (k v : Bytes) (hk : ∀ c ∈ k, c ≠ 58) :
    parseHeaderLine (k ++ [58, 32] ++ v) = some (k, v) := by
  have h1 : (k ++ [58, 32] ++ v).dropWhile (· != 58) = 58 :: 32 :: v := by
    induction k with
    | nil => simp [List.dropWhile]
    | cons c t ih =>
      have hc : c ≠ 58 := hk c (List.mem_cons_self ..)
      simp only [List.cons_append, List.dropWhile_cons, bne_iff_ne, ne_eq, hc, not_false_eq_true, ↓reduceIte]
      exact ih (fun c' h' => hk c' (List.mem_cons_of_mem _ h'))
  have h2 : (k ++ [58, 32] ++ v).takeWhile (· != 58) = k := by
    clear h1
    induction k with
    | nil => simp [List.takeWhile]
    | cons c t ih =>
      have hc : c ≠ 58 := hk c (List.mem_cons_self ..)
      simp only [List.cons_append, List.takeWhile_cons, bne_iff_ne, ne_eq, hc, not_false_eq_true, ↓reduceIte]
      rw [ih (fun c' h' => hk c' (List.mem_cons_of_mem _ h'))]
  unfold parseHeaderLine
  rw [h1, h2]
  rfl

/-- the rendering of header pairs -/
def renderPairs (ps : List (Bytes × Bytes)) : Bytes := (ps.map fun p => headerLine p.1 p.2).flatten

theorem parseHeaders_render (ps : List (Bytes × Bytes)) (x : Bytes)
    (hk : ∀ p ∈ ps, nameOk p.1) (hv : ∀ p ∈ ps, noCR p.2) (f : Nat) (hf : ps.length < f) :
    parseHeaders f (renderPairs ps ++ 13 :: 10 :: x) = some (ps, x) := by
  induction ps generalizing f with
  | nil =>
    cases f with
    | zero => omega
    | succ f => simp [renderPairs, parseHeaders, takeLine]
  | cons p rest ih =>
    cases f with
    | zero => omega
    | succ f =>
      obtain ⟨hne, hkc⟩ := hk p (List.mem_cons_self ..)
      have hvc := hv p (List.mem_cons_self ..)
      have hline : noCR (p.1 ++ [58, 32] ++ p.2) := by
        intro c hc
        simp only [List.mem_append, List.mem_cons, List.mem_nil_iff, or_false] at hc
        rcases hc with (hc | hc | hc) | hc
        · exact (hkc c hc).2
        · rw [hc]; decide
        · rw [hc]; decide
        · exact hvc c hc
      have e : renderPairs (p :: rest) ++ 13 :: 10 :: x =
          (p.1 ++ [58, 32] ++ p.2) ++ 13 :: 10 :: (renderPairs rest ++ 13 :: 10 :: x) := by
        simp [renderPairs, headerLine, CRLF, List.append_assoc]
      rw [e]
      unfold parseHeaders
      rw [takeLine_render _ _ hline]
      have hnil : p.1 ++ [58, 32] ++ p.2 ≠ [] := by simp
      have hih := ih (fun q hq => hk q (List.mem_cons_of_mem _ hq)) (fun q hq => hv q (List.mem_cons_of_mem _ hq)) f
        (by simp at hf; omega)
      cases hl : p.1 ++ [58, 32] ++ p.2 with
      | nil => exact absurd hl hnil
      | cons a t =>
        dsimp only
        rw [← hl, parseHeaderLine_render _ _ (fun c hc => (hkc c hc).1), hih]
        rfl

end Resp

namespace Resp

/-! ### the head of the response writer in normal form -/

/-- the header pairs the handler's map contributes: every value of every key that is not a declared trailer -/
def handlerPairs (tkeys : List Bytes) (h : Header) : List (Bytes × Bytes) :=
  (h.map fun e => if tkeys.contains e.1 then [] else e.2.map fun v => (e.1, v)).flatten

/-- the headers eoncodeHead adds on its own -/
def autoPairs (g : Cfg) (r : R) : List (Bytes × Bytes) :=
  (if r.hasBody && hget r.header kCT == [] then [(kCT, str "text/plain; charset=utf-8")] else []) ++
  (if !r.chunked && !r.closeDelim && hget r.header kCL == [] then
      [(kCL, if r.hasBody && (match r.bodyBuffer with | some b => b.length | none => 0) > 0
              then fmtDec (match r.bodyBuffer with | some b => b.length | none => 0) else str "0")] else []) ++
  (if (g.reqClose || r.closeDelim) && hget r.header kConn == [] then [(kConn, str "close")] else []) ++
  (if hget r.header kDate == [] then [(kDate, datePlaceholder)] else [])

/-- the status line without its CRLF -/
def statusBody (g : Cfg) (r : R) : Bytes :=
  g.proto ++ [32, UInt8.ofNat (48 + r.statusCode / 100), UInt8.ofNat (48 + (r.statusCode % 100) % 256 / 10),
    UInt8.ofNat (48 + r.statusCode % 10), 32] ++ r.status

theorem headerLines_pairs (tkeys : List Bytes) (h : Header) :
    headerLines tkeys h = renderPairs (handlerPairs tkeys h) := by
  unfold headerLines renderPairs handlerPairs
  induction h with
  | nil => rfl
  | cons e t ih =>
    simp only [List.map_cons, List.flatten_cons, List.map_append, List.flatten_append]
    rw [ih]
    congr 1
    split
    · rfl
    · simp [List.map_map, Function.comp_def]

theorem headBytes_normal (g : Cfg) (r : R) :
    headBytes g r = statusBody g r ++ 13 :: 10 ::
      (renderPairs (autoPairs g r ++ handlerPairs (hget r.header kTrailer) r.header) ++ 13 :: 10 :: []) := by
  have e1 : str "Content-Type: text/plain; charset=utf-8\r\n" = headerLine kCT (str "text/plain; charset=utf-8") := by decide
  have e2 : str "Content-Length: " = kCL ++ [58, 32] := by decide
  have e3 : str "Connection: close\r\n" = headerLine kConn (str "close") := by decide
  unfold headBytes autoPairs statusLine statusBody
  rw [headerLines_pairs, e1, e2, e3]
  by_cases c1 : (r.hasBody && hget r.header kCT == []) = true <;>
  by_cases c2 : (!r.chunked && !r.closeDelim && hget r.header kCL == []) = true <;>
  by_cases c3 : ((g.reqClose || r.closeDelim) && hget r.header kConn == []) = true <;>
  by_cases c4 : (hget r.header kDate == []) = true <;>
  simp only [c1, c2, c3, c4, ↓reduceIte, Bool.false_eq_true] <;>
  simp [renderPairs, headerLine, CRLF, List.append_assoc] <;>
  (first | rfl | (split <;> (first | rfl | (split <;> first | rfl | contradiction) | contradiction)))

end Resp

namespace Resp

theorem decDigits_num (f n : Nat) : ∀ c ∈ decDigits f n, isNum c = true := by
  induction f generalizing n with
  | zero => intro c hc; simp [decDigits] at hc
  | succ f ih =>
    have hd : ∀ m, m < 10 → isNum (UInt8.ofNat (48 + m)) = true := by decide
    unfold decDigits
    split
    · rename_i h10
      intro c hc
      simp only [List.mem_singleton] at hc
      rw [hc]; exact hd n h10
    · intro c hc
      simp only [List.mem_append, List.mem_singleton] at hc
      rcases hc with hc | hc
      · exact ih _ c hc
      · rw [hc]; exact hd _ (Nat.mod_lt _ (by decide))

theorem num_noCR (l : Bytes) (h : ∀ c ∈ l, isNum c = true) : noCR l := by
  intro c hc hcr
  have := h c hc
  rw [hcr] at this
  exact absurd this (by decide)

theorem digit_ne_cr : ∀ x, x ≤ 9 → UInt8.ofNat (48 + x) ≠ 13 := by decide

/-- what the handler must respect for the head to be parseable: no CR in the protocol string, the
reason phrase and the values, header names without colon/CR and not empty, a status code of at most
three digits -/
structure SaneHead (g : Cfg) (r : R) : Prop where
  proto : noCR g.proto
  status : noCR r.status
  code : r.statusCode ≤ 999
  names : ∀ p ∈ handlerPairs (hget r.header kTrailer) r.header, nameOk p.1
  values : ∀ p ∈ handlerPairs (hget r.header kTrailer) r.header, noCR p.2

theorem statusBody_noCR (g : Cfg) (r : R) (h : SaneHead g r) : noCR (statusBody g r) := by
  intro c hc
  unfold statusBody at hc
  simp only [List.mem_append, List.mem_cons, List.mem_nil_iff, or_false] at hc
  have hcode := h.code
  rcases hc with (hc | hc | hc | hc | hc | hc) | hc
  · exact h.proto c hc
  · rw [hc]; decide
  · rw [hc]; exact digit_ne_cr _ (by omega)
  · rw [hc]; exact digit_ne_cr _ (by omega)
  · rw [hc]; exact digit_ne_cr _ (by omega)
  · rw [hc]; decide
  · exact h.status c hc

theorem autoPairs_ok (g : Cfg) (r : R) : ∀ p ∈ autoPairs g r, nameOk p.1 ∧ noCR p.2 := by
  have n1 : nameOk kCT := by refine ⟨by decide, ?_⟩; decide
  have n2 : nameOk kCL := by refine ⟨by decide, ?_⟩; decide
  have n3 : nameOk kConn := by refine ⟨by decide, ?_⟩; decide
  have n4 : nameOk kDate := by refine ⟨by decide, ?_⟩; decide
  have v1 : noCR (str "text/plain; charset=utf-8") := by unfold noCR; decide
  have v3 : noCR (str "close") := by unfold noCR; decide
  have v4 : noCR datePlaceholder := by unfold noCR; decide
  have v0 : noCR (str "0") := by unfold noCR; decide
  intro p hp
  unfold autoPairs at hp
  simp only [List.mem_append] at hp
  rcases hp with ((hp | hp) | hp) | hp
  · split at hp
    · simp at hp; rw [hp]; exact ⟨n1, v1⟩
    · simp at hp
  · split at hp
    · simp at hp; rw [hp]
      refine ⟨n2, ?_⟩
      dsimp only
      have hv : ∀ (l : Nat), noCR (if r.hasBody = true ∧ 0 < l then fmtDec l else str "0") := by
        intro l
        split
        · exact num_noCR _ (decDigits_num _ _)
        · exact v0
      exact hv _
    · simp at hp
  · split at hp
    · simp at hp; rw [hp]; exact ⟨n3, v3⟩
    · simp at hp
  · split at hp
    · simp at hp; rw [hp]; exact ⟨n4, v4⟩
    · simp at hp

/-- **head round trip.** The reference parser reads the bytes of `headBytes` back as the status line and
exactly the automatic headers followed by the handler's non-trailer header values, and stops where the
body begins. -/
theorem parseHead_headBytes (g : Cfg) (r : R) (X : Bytes) (h : SaneHead g r) :
    parseHead (headBytes g r ++ X) =
      some (statusBody g r, autoPairs g r ++ handlerPairs (hget r.header kTrailer) r.header, X) := by
  rw [headBytes_normal]
  have e : statusBody g r ++ 13 :: 10 ::
      (renderPairs (autoPairs g r ++ handlerPairs (hget r.header kTrailer) r.header) ++ 13 :: 10 :: []) ++ X =
      statusBody g r ++ 13 :: 10 ::
      (renderPairs (autoPairs g r ++ handlerPairs (hget r.header kTrailer) r.header) ++ 13 :: 10 :: X) := by
    simp [List.append_assoc]
  rw [e]
  unfold parseHead
  rw [takeLine_render _ _ (statusBody_noCR g r h)]
  dsimp only
  have hk : ∀ p ∈ autoPairs g r ++ handlerPairs (hget r.header kTrailer) r.header, nameOk p.1 := by
    intro p hp
    rcases List.mem_append.mp hp with hp | hp
    · exact (autoPairs_ok g r p hp).1
    · exact h.names p hp
  have hv : ∀ p ∈ autoPairs g r ++ handlerPairs (hget r.header kTrailer) r.header, noCR p.2 := by
    intro p hp
    rcases List.mem_append.mp hp with hp | hp
    · exact (autoPairs_ok g r p hp).2
    · exact h.values p hp
  rw [parseHeaders_render _ X hk hv]
  · rfl
  · -- fuel: every pair renders to at least one byte
    have hlen : ∀ (ps : List (Bytes × Bytes)), ps.length ≤ (renderPairs ps).length := by
      intro ps
      induction ps with
      | nil => simp [renderPairs]
      | cons p t ih =>
        simp only [renderPairs, List.map_cons, List.flatten_cons, List.length_append, List.length_cons] at ih ⊢
        have : 1 ≤ (headerLine p.1 p.2).length := by simp [headerLine, CRLF]; omega
        omega
    have := hlen (autoPairs g r ++ handlerPairs (hget r.header kTrailer) r.header)
    simp only [List.length_append, List.length_cons] at this ⊢
    omega

end Resp
