import NbioVerif.Lemmas.C09Main
import NbioVerif.Lemmas.C09Bridge
/-! Content-Length accounting: `bodyWritten` counts every accepted byte exactly once (identity framing), so
a write is refused with ErrContentLength only when the handler really exceeds its declaration. -/
namespace Resp

/-- what a write result says about the counter -/
def BW (w : WRes) (before after len : Nat) : Prop :=
  (∀ n, w = .ok n → after = before + len) ∧ ((w = .errCL ∨ w = .errParse) → after = before)

theorem bw_errConn (a b l : Nat) : BW .errConn a b l := ⟨(by intro n h; cases h), (by intro h; rcases h with h | h <;> cases h)⟩

theorem appendTail_bw (g : Cfg) (r : R) (bb d : Bytes) (cl : Nat) :
    BW (appendTail g r bb d cl).2 r.bodyWritten (appendTail g r bb d cl).1.bodyWritten d.length := by
  unfold appendTail
  dsimp only
  split
  · generalize hs : send g { r with bodyWritten := r.bodyWritten + d.length, bodyBuffer := some (bb ++ d) } (bb ++ d) = p
    have hb := send_bodyWritten g { r with bodyWritten := r.bodyWritten + d.length, bodyBuffer := some (bb ++ d) } (bb ++ d)
    rw [hs] at hb
    obtain ⟨r1, ok⟩ := p
    cases ok with
    | true => exact ⟨fun _ _ => hb, (by intro h; rcases h with h | h <;> cases h)⟩
    | false => exact bw_errConn ..
  · exact ⟨fun _ _ => rfl, (by intro h; rcases h with h | h <;> cases h)⟩

theorem sendDirect_bw (g : Cfg) (r : R) (d : Bytes) (b0 : Nat) (hb : r.bodyWritten = b0 + d.length) :
    BW (sendDirect g r d).2 b0 (sendDirect g r d).1.bodyWritten d.length := by
  have hbw := sendDirect_bodyWritten g r d
  unfold sendDirect at hbw ⊢
  generalize send g r d = p at *
  obtain ⟨r1, ok⟩ := p
  cases ok with
  | true => exact ⟨fun _ _ => (by dsimp only at hbw ⊢; rw [hbw, hb]), (by intro h; rcases h with h | h <;> cases h)⟩
  | false => exact bw_errConn ..

theorem appendBody_bw (g : Cfg) (r : R) (d : Bytes) (cl : Nat) :
    BW (appendBody g r d cl).2 r.bodyWritten (appendBody g r d cl).1.bodyWritten d.length := by
  unfold appendBody
  dsimp only
  split
  · split
    · exact sendDirect_bw g _ d r.bodyWritten rfl
    · exact appendTail_bw g r [] d cl
  · rename_i bb0 _
    split
    · have hsc := sendCached_bodyWritten g r bb0
      generalize sendCached g r bb0 = q at *
      obtain ⟨r1, ok⟩ := q
      cases ok with
      | false => exact bw_errConn ..
      | true =>
        dsimp only at hsc ⊢
        split
        · exact sendDirect_bw g _ d r.bodyWritten (by dsimp only; rw [hsc])
        · have := appendTail_bw g r1 [] d cl
          rw [hsc] at this
          exact this
    · exact appendTail_bw g r bb0 d cl

theorem contentLength_bw (r : R) : (contentLength r).1.bodyWritten = r.bodyWritten := by
  unfold contentLength; dsimp only; repeat' split
  all_goals rfl

theorem writeHeader_bw (r : R) (c : Nat) (st : Bytes) : (writeHeader r c st).bodyWritten = r.bodyWritten := by
  unfold writeHeader; dsimp only; repeat' split
  all_goals rfl

theorem checkChunked_bw (g : Cfg) (r : R) : (checkChunked g r).bodyWritten = r.bodyWritten := by
  unfold checkChunked; dsimp only; repeat' split
  all_goals rfl

/-- identity framing: the counter after a write -/
theorem writeBody_bw (g : Cfg) (r : R) (d : Bytes) (hc : r.chunked = false) :
    BW (writeBody g r d).2 r.bodyWritten (writeBody g r d).1.bodyWritten d.length := by
  unfold writeBody
  rw [if_neg (by simp [hc])]
  have hcl := contentLength_bw r
  generalize contentLength r = p at *
  obtain ⟨r1, v⟩ := p
  dsimp only at hcl ⊢
  cases v with
  | none => exact ⟨(by intro n h; cases h), fun _ => hcl⟩
  | some cl =>
    dsimp only
    unfold writeIdent
    split
    · exact ⟨(by intro n h; cases h), fun _ => hcl⟩
    · have ht := takeHead_bodyWritten g r1 d.length cl
      generalize takeHead g r1 d.length cl = q at *
      obtain ⟨r2, ok⟩ := q
      cases ok with
      | false => exact bw_errConn ..
      | true =>
        dsimp only at ht ⊢
        have := appendBody_bw g r2 d cl
        rw [ht, hcl] at this
        exact this

theorem sendDirect_noCL (g : Cfg) (r : R) (d : Bytes) : (sendDirect g r d).2 ≠ .errCL := by
  unfold sendDirect; dsimp only; repeat' split
  all_goals (intro h; cases h)

theorem appendTail_noCL (g : Cfg) (r : R) (bb d : Bytes) (cl : Nat) : (appendTail g r bb d cl).2 ≠ .errCL := by
  unfold appendTail; dsimp only; repeat' split
  all_goals (intro h; cases h)

theorem appendBody_noCL (g : Cfg) (r : R) (d : Bytes) (cl : Nat) : (appendBody g r d cl).2 ≠ .errCL := by
  unfold appendBody; dsimp only; repeat' split
  all_goals first | apply sendDirect_noCL | apply appendTail_noCL | (intro h; cases h)

/-- a write is refused with ErrContentLength only if it exceeds the verdict of contentLength() -/
theorem writeBody_errCL (g : Cfg) (r : R) (d : Bytes) (hc : r.chunked = false)
    (he : (writeBody g r d).2 = .errCL) :
    ∃ cl, (contentLength r).2 = some cl ∧ cl > 0 ∧ r.bodyWritten + d.length > cl := by
  unfold writeBody at he
  rw [if_neg (by simp [hc])] at he
  have hcl := contentLength_bw r
  generalize contentLength r = p at *
  obtain ⟨r1, v⟩ := p
  dsimp only at hcl he ⊢
  cases v with
  | none => cases he
  | some cl =>
    dsimp only at he
    refine ⟨cl, rfl, ?_⟩
    unfold writeIdent at he
    split at he
    · rename_i hx
      simp only [Bool.and_eq_true, decide_eq_true_eq] at hx
      rw [hcl] at hx
      exact hx
    · exfalso
      generalize takeHead g r1 d.length cl = q at he
      obtain ⟨r2, ok⟩ := q
      cases ok with
      | false => cases he
      | true =>
        exact appendBody_noCL g r2 d cl he

/-! ### a connection that accepts the writes: no write fails -/

section nofail
variable (g : Cfg) (hg : NoFail g)
include hg

theorem appendTail_nc (r : R) (bb d : Bytes) (cl : Nat) : (appendTail g r bb d cl).2 ≠ .errConn := by
  unfold appendTail; simp only [send_ok g hg]; repeat' split
  all_goals first | (rename_i hx; exact absurd trivial hx) | (intro h; cases h)

theorem sendDirect_nc (r : R) (d : Bytes) : (sendDirect g r d).2 ≠ .errConn := by
  unfold sendDirect; simp only [send_ok g hg]; repeat' split
  all_goals first | (rename_i hx; exact absurd trivial hx) | (intro h; cases h)

theorem sendCached_nc (r : R) (bb : Bytes) : (sendCached g r bb).2 = true := by
  unfold sendCached; simp only [send_ok g hg]; repeat' split
  all_goals first | rfl | (rename_i hx; exact absurd trivial hx)

theorem takeHead_nc (r : R) (l cl : Nat) : (takeHead g r l cl).2 = true := by
  unfold takeHead; simp only [send_ok g hg]; repeat' split
  all_goals first | rfl | (rename_i hx; exact absurd trivial hx)

theorem appendBody_nc (r : R) (d : Bytes) (cl : Nat) : (appendBody g r d cl).2 ≠ .errConn := by
  unfold appendBody
  dsimp only
  split
  · split
    · exact sendDirect_nc g hg _ d
    · exact appendTail_nc g hg r [] d cl
  · rename_i bb0 _
    split
    · have hsc := sendCached_nc g hg r bb0
      generalize sendCached g r bb0 = q at *
      obtain ⟨r1, ok⟩ := q
      dsimp only at hsc
      subst hsc
      dsimp only
      split
      · exact sendDirect_nc g hg _ d
      · exact appendTail_nc g hg r1 [] d cl
    · exact appendTail_nc g hg r bb0 d cl

theorem writeBody_nc (r : R) (d : Bytes) (hc : r.chunked = false) : (writeBody g r d).2 ≠ .errConn := by
  unfold writeBody
  rw [if_neg (by simp [hc])]
  generalize contentLength r = p
  obtain ⟨r1, v⟩ := p
  cases v with
  | none => intro h; cases h
  | some cl =>
    dsimp only
    unfold writeIdent
    split
    · intro h; cases h
    · have ht := takeHead_nc g hg r1 d.length cl
      generalize takeHead g r1 d.length cl = q at *
      obtain ⟨r2, ok⟩ := q
      dsimp only at ht
      subst ht
      exact appendBody_nc g hg r2 d cl

end nofail

/-- the payloads accepted by a body phase are counted exactly once -/
theorem runB_account (g : Cfg) (hg : NoFail g) (ops : List BOp) (r : R) (hp : Pre r) (hc : r.chunked = false) :
    (runB g r ops).1.bodyWritten = r.bodyWritten + (runB g r ops).2.flatten.length ∧
    Pre (runB g r ops).1 ∧ (runB g r ops).1.chunked = false := by
  induction ops generalizing r with
  | nil => exact ⟨by simp [runB], hp, hc⟩
  | cons op t ih =>
    cases op with
    | write d =>
      simp only [runB]
      by_cases hne : d = []
      · subst hne
        have e0 : write g r [] = (r, .ok 0) := by unfold write; simp
        rw [e0]
        dsimp only
        simpa using ih r hp hc
      · rw [write_unfold g r d hne hp]
        have hbw := writeBody_bw g { r with hasBody := true } d hc
        have hnc := writeBody_nc g hg { r with hasBody := true } d hc
        have hpl := writeBody_plain g { r with hasBody := true } d
        obtain ⟨p1, p2, p3, p4, _⟩ := writeBody_proj g { r with hasBody := true } d
        generalize writeBody g { r with hasBody := true } d = p at *
        obtain ⟨r', w⟩ := p
        dsimp only at hbw hnc hpl p1 p3 p4 ⊢
        have hp' : Pre r' := ⟨by rw [p4]; exact hp.1, by rw [p1]; exact hp.2⟩
        obtain ⟨i1, i2, i3⟩ := ih r' hp' (by rw [p3]; exact hc)
        refine ⟨?_, i2, i3⟩
        rw [i1]
        cases w with
        | ok n => rw [hbw.1 n rfl]; simp; omega
        | errCL => rw [hbw.2 (Or.inl rfl)]; simp
        | errParse => rw [hbw.2 (Or.inr rfl)]; simp
        | errConn => exact absurd rfl hnc
        | errCopy n => exact absurd rfl (hpl.2 n)
        | panic => exact absurd rfl hpl.1
    | flush =>
      simp only [runB, BOp.toOp, step]
      have e := flushOp_unfold g r hp
      have h1 : (flushOp g r).bodyWritten = r.bodyWritten := by rw [e]; simp
      have h2 : (flushOp g r).chunked = false := by rw [e]; simp [hc]
      have h3 : Pre (flushOp g r) := by
        constructor
        · rw [e]; simp [hp.1]
        · rw [e]; simp [hp.2]
      obtain ⟨i1, i2, i3⟩ := ih _ h3 h2
      exact ⟨by rw [i1, h1], i2, i3⟩
    | setH k v => simp only [runB, BOp.toOp, step]; exact ih _ hp hc
    | addH k v => simp only [runB, BOp.toOp, step]; exact ih _ hp hc
    | delH k => simp only [runB, BOp.toOp, step]; exact ih _ hp hc

end Resp
