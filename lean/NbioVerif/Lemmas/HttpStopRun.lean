import NbioVerif.Lemmas.HttpStopInv
/-!
Lifting of the per-conn invariants of `HttpStopInv` to every reachable state of the HTTP engine model, and the
engine-level invariants (order of Stop's statements, executor, return value).
-/
namespace HttpStop

def AllC (P : C → Prop) (s : St) : Prop := ∀ c ∈ s.conns, P c

/-- how a step changes the list of conns -/
inductive ConnsStep (g : Cfg) (s : St) : List C → Prop
  | same : ConnsStep g s s.conns
  | added (c : C) (h : c = { kind := c.kind } ∨ ∃ b, c = { kind := c.kind, ph := .refused, closed := b }) : ConnsStep g s (s.conns ++ [c])
  | stepped (i : Nat) (c c' : C) (a : CAct) (hi : s.conns[i]? = some c) (hs : cstep g (env g s) c a = some c') (extra : List C)
      (hx : ∀ x ∈ extra, x = { kind := x.kind }) : ConnsStep g s (s.conns.set i c' ++ extra)
  | closedSome (p : C → Bool) (hp : ∀ c ∈ s.conns, p c = true → c.ph ≠ .accepted ∧ c.ph ≠ .refused) :
      ConnsStep g s (closeWhere p (env g s) s.conns)

theorem inMap_ph {s : St} (hi : AllC CInv s) : ∀ c ∈ s.conns, c.inMap = true → c.ph ≠ .accepted ∧ c.ph ≠ .refused := by
  intro c hc hm
  have h := hi c hc
  have h1 := (h.map_ins.mp hm).1
  constructor
  · intro hp; have := (h.acc hp).1; omega
  · intro hp; have := (h.refd hp).1; omega

theorem step_conns {g : Cfg} {s s' : St} {a : Act} (hi : AllC CInv s) (hs : step g s a = some s') : ConnsStep g s s'.conns := by
  cases a with
  | accept k =>
    simp only [step] at hs
    split at hs
    · split at hs <;> cases hs
      · exact .added _ (Or.inr ⟨_, rfl⟩)
      · exact .added _ (Or.inl rfl)
    · cases hs
  | conn i a =>
    simp only [step] at hs
    split at hs
    · rename_i c hc
      split at hs
      · rename_i c' hc'
        split at hs <;> cases hs
        · exact .stepped i c c' a hc hc' [{ kind := .nb }] (by intro x hx; simp at hx; subst hx; rfl)
        · have := ConnsStep.stepped (g := g) (s := s) i c c' a hc hc' [] (by intro x hx; cases hx)
          simpa using this
      · cases hs
    · cases hs
  | stopFlag gr => simp only [step] at hs; split at hs <;> cases hs; exact .same
  | stopListeners => simp only [step] at hs; split at hs <;> cases hs; exact .same
  | sweep =>
    simp only [step] at hs
    split at hs
    · cases hs
      exact .closedSome (·.inMap) (inMap_ph hi)
    · cases hs
  | tick => simp only [step] at hs; split at hs <;> cases hs; exact .same
  | coreBegin =>
    simp only [step] at hs
    split at hs
    · cases hs
      refine .closedSome (fun c => c.kind == .nb && c.ph == .live) ?_
      intro c _ hc
      simp only [Bool.and_eq_true, beq_iff_eq] at hc
      simp [hc.2]
    · cases hs
  | coreWaited => simp only [step] at hs; split at hs <;> cases hs; exact .same
  | coreFinish => simp only [step] at hs; split at hs <;> cases hs; exact .same
  | ctxExpire =>
    simp only [step] at hs
    split at hs
    · cases hs
      simp only
      split
      · exact .closedSome (·.inMap) (inMap_ph hi)
      · exact .same
    · cases hs

theorem mem_closeWhere {p : C → Bool} {e : Env} {cs : List C} {x : C} (hx : x ∈ closeWhere p e cs) :
    x ∈ cs ∨ ∃ c ∈ cs, p c = true ∧ x = closeC e c := by
  unfold closeWhere at hx
  obtain ⟨c, hc, rfl⟩ := List.mem_map.mp hx
  by_cases hp : p c = true
  · right; exact ⟨c, hc, hp, by simp [hp]⟩
  · left; simpa [hp] using hc

/-- a property of single conns that every kind of change preserves holds for all conns after a step -/
theorem allC_of_connsStep {g : Cfg} {s : St} {cs : List C} {P : C → Prop} (hc : ConnsStep g s cs) (hP : AllC P s)
    (hnew : ∀ k, P { kind := k }) (hlate : ∀ k b, P { kind := k, ph := .refused, closed := b })
    (hstep : ∀ c c' a, c ∈ s.conns → P c → cstep g (env g s) c a = some c' → P c')
    (hclose : ∀ c, c ∈ s.conns → P c → c.ph ≠ .accepted ∧ c.ph ≠ .refused → P (closeC (env g s) c)) :
    ∀ x ∈ cs, P x := by
  cases hc with
  | same => exact hP
  | added c h =>
    intro x hx
    rcases List.mem_append.mp hx with hx | hx
    · exact hP x hx
    · simp at hx; subst hx
      rcases h with h | ⟨b, h⟩
      · rw [h]; exact hnew _
      · rw [h]; exact hlate _ _
  | stepped i c c' a hi hs extra hx =>
    intro x hxm
    rcases List.mem_append.mp hxm with hxm | hxm
    · rcases List.mem_or_eq_of_mem_set hxm with hxm | rfl
      · exact hP x hxm
      · have hm : c ∈ s.conns := List.mem_of_getElem? hi
        exact hstep c x a hm (hP c hm) hs
    · rw [hx x hxm]; exact hnew _
  | closedSome p hp =>
    intro x hx
    rcases mem_closeWhere hx with hx | ⟨c, hc, hpc, rfl⟩
    · exact hP x hx
    · exact hclose c hc (hP c hc) (hp c hc hpc)

theorem allCInv_step {g : Cfg} {s s' : St} {a : Act} (hi : AllC CInv s) (hs : step g s a = some s') : AllC CInv s' :=
  allC_of_connsStep (step_conns hi hs) hi cinv_new cinv_late
    (fun _ _ _ _ hc h => cinv_cstep g _ hc h) (fun _ _ hc hp => cinv_closeC _ hc hp)

theorem allCInv_run {g : Cfg} (as : List Act) : ∀ s, AllC CInv s → AllC CInv (run g s as) := by
  induction as with
  | nil => intro s h; exact h
  | cons a as ih =>
    intro s h
    simp only [run]
    split
    · rename_i s' hs; exact ih s' (allCInv_step h hs)
    · exact ih s h

theorem allCInv_init : AllC CInv init := by intro c hc; simp [init] at hc

/-- repaired tree: both invariants together -/
def CF (c : C) : Prop := CInv c ∧ FInv c

theorem allCF_step {s s' : St} {a : Act} (hi : AllC CF s) (hs : step fixed s a = some s') : AllC CF s' :=
  allC_of_connsStep (step_conns (fun c hc => (hi c hc).1) hs) hi
    (fun k => ⟨cinv_new k, by intro h; simp at h⟩) (fun k b => ⟨cinv_late k b, by intro h; simp at h⟩)
    (fun _ _ _ _ hc h => ⟨cinv_cstep fixed _ hc.1 h, finv_cstep _ hc.1 hc.2 h⟩)
    (fun _ _ hc hp => ⟨cinv_closeC _ hc.1 hp, finv_closeC _ hc.2⟩)

theorem allCF_run (as : List Act) : ∀ s, AllC CF s → AllC CF (run fixed s as) := by
  induction as with
  | nil => intro s h; exact h
  | cons a as ih =>
    intro s h
    simp only [run]
    split
    · rename_i s' hs; exact ih s' (allCF_step h hs)
    · exact ih s h

/-! ### engine-level invariants -/

structure GInv (s : St) : Prop where
  ord  : s.sp = .coreWait ∨ s.sp = .coreStopped ∨ s.sp = .returned → s.sweeps ≥ 1 ∧ (s.graceful = true → s.drained = true)
  ln   : s.lnOpen = true ↔ (s.sp = .idle ∨ s.sp = .flagged)
  sh   : s.shutdown = true ↔ s.sp ≠ .idle
  ex   : s.execOn = false ↔ (s.sp = .coreStopped ∨ s.sp = .returned)
  rt   : s.ret = .ok → s.sp = .returned
  dr   : s.drained = true → s.graceful = true ∧ s.sweeps ≥ 1 ∧ s.sp ≠ .idle ∧ s.sp ≠ .flagged
  nodrop : s.execOn = true → ∀ c ∈ s.conns, c.job ≠ .dropped

theorem closeC_job (e : Env) (c : C) (he : e.execOn = true) (h : c.job ≠ .dropped) : (closeC e c).job ≠ .dropped := by
  unfold closeC
  split
  · exact h
  · split
    · exact h
    · split
      · simp [he]
      · exact h

theorem cstep_job (g : Cfg) (e : Env) {c c' : C} {a : CAct} (he : e.execOn = true) (h : c.job ≠ .dropped)
    (hs : cstep g e c a = some c') : c'.job ≠ .dropped := by
  have hd : (delKey c).job = c.job := by unfold delKey; split <;> rfl
  cases a <;> simp only [cstep] at hs
  case close => split at hs <;> cases hs; exact closeC_job e c he h
  case coreReg ok =>
    split at hs
    · split at hs <;> cases hs
      · exact h
      · exact closeC_job e c he h
    · cases hs
  case insert => split at hs <;> (try split at hs) <;> cases hs <;> exact h
  case userOpen => split at hs <;> cases hs; exact h
  case coreOpen => split at hs <;> (try split at hs) <;> cases hs <;> exact h
  case spawn => split at hs <;> cases hs; exact h
  case transfer => split at hs <;> cases hs; exact h
  case delFail => split at hs <;> cases hs; simpa [hd] using h
  case readerExit => split at hs <;> cases hs; simpa [hd] using h
  case runJob => split at hs <;> cases hs; simp

theorem ginv_init : GInv init := by
  constructor <;> simp [init]

theorem ginv_step {g : Cfg} {s s' : St} {a : Act} (hc : AllC CInv s) (hi : GInv s) (hs : step g s a = some s') : GInv s' := by
  have hnd : s'.execOn = true → s.execOn = true → ∀ c ∈ s'.conns, c.job ≠ .dropped := by
    intro _ he
    exact allC_of_connsStep (P := fun c => c.job ≠ .dropped) (step_conns hc hs) (hi.nodrop he) (by simp) (by simp)
      (fun _ _ _ _ h hs => cstep_job g _ (by simpa [env] using he) h hs)
      (fun c _ h _ => closeC_job _ c (by simpa [env] using he) h)
  obtain ⟨h1, h2, h3, h4, h5, h6, h7⟩ := hi
  cases a <;> simp only [step] at hs
  case accept k =>
    split at hs
    · split at hs <;> cases hs <;> exact ⟨h1, h2, h3, h4, h5, h6, fun he => hnd he he⟩
    · cases hs
  case conn i a =>
    split at hs
    · split at hs
      · split at hs <;> cases hs <;> exact ⟨h1, h2, h3, h4, h5, h6, fun he => hnd he he⟩
      · cases hs
    · cases hs
  case stopFlag gr =>
    split at hs
    · rename_i hsp
      cases hs
      constructor <;> simp_all
    · cases hs
  case stopListeners =>
    split at hs
    · rename_i hsp
      cases hs
      constructor <;> simp_all
    · cases hs
  case sweep =>
    split at hs
    · rename_i hsp
      have hnd' := hnd
      cases hs
      refine ⟨?_, h2, h3, h4, h5, ?_, fun he => hnd' he he⟩
      · intro h; simp [hsp.1] at h
      · intro h; have := h6 h; exact ⟨this.1, by simp only; omega, this.2.2⟩
    · cases hs
  case tick =>
    split at hs
    · rename_i hsp
      cases hs
      refine ⟨?_, h2, h3, h4, h5, ?_, h7⟩
      · intro h; simp [hsp.1] at h
      · intro _; exact ⟨hsp.2.1, hsp.2.2.2.1, by simp [hsp.1]⟩
    · cases hs
  case coreBegin =>
    split at hs
    · rename_i hsp
      have hnd' := hnd
      cases hs
      refine ⟨?_, ?_, ?_, ?_, ?_, ?_, fun he => hnd' he he⟩
      · intro _; exact ⟨hsp.2.2.1, hsp.2.2.2⟩
      · simp_all
      · simp_all
      · simp_all
      · intro h; simp [hsp.2.1] at h
      · intro h; have := h6 h; exact ⟨this.1, this.2.1, by simp⟩
    · cases hs
  case coreWaited =>
    split at hs
    · rename_i hsp
      cases hs
      refine ⟨?_, ?_, ?_, ?_, ?_, (fun h => by have := h6 h; exact ⟨this.1, this.2.1, by simp⟩), ?_⟩
      · intro _; exact h1 (Or.inl hsp.1)
      · simp_all
      · simp_all
      · simp_all
      · intro h; have := h5 h; simp_all
      · intro h; simp at h
    · cases hs
  case coreFinish =>
    split at hs
    · rename_i hsp
      cases hs
      refine ⟨?_, ?_, ?_, ?_, ?_, (fun h => by have := h6 h; exact ⟨this.1, this.2.1, by simp⟩), ?_⟩
      · intro _; exact h1 (Or.inr (Or.inl hsp.1))
      · simp_all
      · simp_all
      · simp_all
      · intro _; rfl
      · intro h; have := h4.mpr (Or.inl hsp.1); simp_all
    · cases hs
  case ctxExpire =>
    split at hs
    · rename_i hsp
      have hnd' := hnd
      cases hs
      refine ⟨h1, h2, h3, h4, ?_, h6, fun he => hnd' he he⟩
      intro h; cases h
    · cases hs

theorem inv_run {g : Cfg} (as : List Act) : ∀ s, AllC CInv s → GInv s → AllC CInv (run g s as) ∧ GInv (run g s as) := by
  induction as with
  | nil => intro s h1 h2; exact ⟨h1, h2⟩
  | cons a as ih =>
    intro s h1 h2
    simp only [run]
    split
    · rename_i s' hs; exact ih s' (allCInv_step h1 hs) (ginv_step h1 h2 hs)
    · exact ih s h1 h2

/-! ### closing what is already closed changes nothing; settled conns are out of the map -/

theorem closeWhere_id {p : C → Bool} {e : Env} {cs : List C} (h : ∀ c ∈ cs, p c = true → c.closed = true) :
    closeWhere p e cs = cs := by
  unfold closeWhere
  conv => rhs; rw [← List.map_id cs]
  apply List.map_congr_left
  intro c hc
  by_cases hp : p c = true
  · simp only [hp, if_true, id]
    unfold closeC
    simp [h c hc hp]
  · simp [hp]

theorem online_zero_of_settled {s : St} (hc : AllC CInv s) (hs : ∀ c ∈ s.conns, settled c = true) : online s = 0 := by
  unfold online
  rw [List.length_eq_zero_iff, List.filter_eq_nil_iff]
  intro c hm
  have := (settled_out (hc c hm) (hs c hm)).1
  simp [this]


/-! ### own steps of the conns after the sweep (for the fair-schedule theorem) -/

theorem run_append (g : Cfg) (a b : List Act) : ∀ s, run g s (a ++ b) = run g (run g s a) b := by
  induction a with
  | nil => intro s; rfl
  | cons x xs ih =>
    intro s
    simp only [List.cons_append, run]
    split
    · exact ih _
    · exact ih _

/-- a conn whose socket is closed stays closed, loses no close job, and cannot be transferred -/
theorem cstep_closed_pres (g : Cfg) (e : Env) {c c' : C} {a : CAct} (hcl : c.closed = true) (hj : c.job ≠ .dropped)
    (hs : cstep g e c a = some c') : c'.closed = true ∧ c'.job ≠ .dropped ∧ a ≠ .transfer := by
  have hcc : closeC e c = c := by unfold closeC; simp [hcl]
  have hd : (delKey c).closed = c.closed ∧ (delKey c).job = c.job := by unfold delKey; split <;> simp
  cases a <;> simp only [cstep] at hs
  case insert => split at hs <;> (try split at hs) <;> cases hs <;> simp_all
  case userOpen => split at hs <;> cases hs <;> simp_all
  case coreOpen => split at hs <;> (try split at hs) <;> cases hs <;> simp_all
  case coreReg ok =>
    split at hs
    · split at hs <;> cases hs
      · simp_all
      · rw [hcc]; simp_all
    · cases hs
  case delFail => split at hs <;> cases hs; simp [hd.1, hd.2, hcl, hj]
  case spawn => split at hs <;> cases hs <;> simp_all
  case transfer =>
    split at hs
    · rename_i h; simp [hcl] at h
    · cases hs
  case readerExit => split at hs <;> cases hs; simp [hd.2, hj]
  case close => split at hs <;> cases hs; simp_all
  case runJob => split at hs <;> cases hs; simp [hd.1, hcl]


/-- "swept": every conn's socket is closed and no close job has been dropped -/
def Swept (s : St) : Prop := ∀ c ∈ s.conns, c.closed = true ∧ c.job ≠ .dropped

/-- an own step of a conn in a swept state: only that conn changes, it stays swept, Stop's variables are untouched -/
theorem conn_step_swept {g : Cfg} {s s' : St} {i : Nat} {a : CAct} (hsw : Swept s) (hs : step g s (.conn i a) = some s') :
    Swept s' ∧ s'.sp = s.sp ∧ s'.ret = s.ret ∧ s'.sweeps = s.sweeps := by
  simp only [step] at hs
  split at hs
  · rename_i c hc
    split at hs
    · rename_i c' hc'
      have hm : c ∈ s.conns := List.mem_of_getElem? hc
      have hp := cstep_closed_pres g _ (hsw c hm).1 (hsw c hm).2 hc'
      have hnt : (a = CAct.transfer) = False := by simp [hp.2.2]
      simp only [hnt, if_false] at hs
      cases hs
      refine ⟨?_, rfl, rfl, rfl⟩
      intro x hx
      rcases List.mem_or_eq_of_mem_set hx with hx | rfl
      · exact hsw x hx
      · exact ⟨hp.1, hp.2.1⟩
    · cases hs
  · cases hs

theorem conn_run_swept {g : Cfg} (as : List Act) (hall : ∀ x ∈ as, ∃ i a, x = Act.conn i a) :
    ∀ s, Swept s → Swept (run g s as) ∧ (run g s as).sp = s.sp ∧ (run g s as).ret = s.ret ∧ (run g s as).sweeps = s.sweeps := by
  induction as with
  | nil => intro s h; exact ⟨h, rfl, rfl, rfl⟩
  | cons x xs ih =>
    intro s h
    obtain ⟨i, a, rfl⟩ := hall _ (List.mem_cons_self ..)
    have hall' : ∀ x ∈ xs, ∃ i a, x = Act.conn i a := fun x hx => hall x (List.mem_cons_of_mem _ hx)
    simp only [run]
    split
    · rename_i s' hs
      obtain ⟨h1, h2, h3, h4⟩ := conn_step_swept h hs
      obtain ⟨k1, k2, k3, k4⟩ := ih hall' s' h1
      exact ⟨k1, k2.trans h2, k3.trans h3, k4.trans h4⟩
    · exact ih hall' s h

/-- in a swept state in which no conn has an own step left, every conn is settled -/
theorem quiescent_settled {g : Cfg} {s : St} (hci : AllC CInv s) (hsw : Swept s)
    (hq : ∀ i a, a ≠ CAct.close → step g s (.conn i a) = none) : ∀ c ∈ s.conns, settled c = true := by
  intro c hc
  cases hs : settled c with
  | true => rfl
  | false =>
    exfalso
    obtain ⟨a, hne, hen⟩ := unsettled_can_step g (env g s) (hci c hc) hs (hsw c hc).2 (Or.inl (hsw c hc).1)
    obtain ⟨i, hi, hget⟩ := List.mem_iff_getElem.mp hc
    have hget' : s.conns[i]? = some c := by rw [List.getElem?_eq_getElem hi, hget]
    have := hq i a hne
    simp only [step, hget'] at this
    cases hcs : cstep g (env g s) c a with
    | none => simp [hcs] at hen
    | some c' => simp [hcs] at this; split at this <;> cases this

end HttpStop
