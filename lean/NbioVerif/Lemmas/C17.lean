import NbioVerif.Model.ConnW
/-! probe: C17 — the backlog counter never exceeds MaxWriteBufferSize; fits ⇒ accepted; overflow ⇒ error + close -/
namespace ConnW

theorem enqueue_left (c : Conn) (b : List UInt8) : (enqueue c b).left = c.left + b.length := by
  unfold enqueue; simp only; split
  · rfl
  · split <;> rfl

theorem enqueue_closed (c : Conn) (b : List UInt8) : (enqueue c b).closed = c.closed := by
  unfold enqueue; simp only; split
  · rfl
  · split <;> rfl

theorem post_left (c : Conn) : (post c).left = c.left := by unfold post; split <;> rfl

def Bounded (g : Cfg) (c : Conn) : Prop := g.maxWB > 0 → c.left ≤ g.maxWB

theorem bounded_write (g : Cfg) (c : Conn) (b : List UInt8) (k : KAns) (h : Bounded g c) :
    Bounded g (write g c b k).1 := by
  intro hm
  have h0 := h hm
  unfold write
  split
  · exact h0
  split
  · exact h0
  split
  · simpa [closeNow] using h0
  rename_i hov
  have hfit : c.left + b.length ≤ g.maxWB := by
    simp [overflow, hm] at hov; omega
  split
  · split
    · simpa [closeNow] using h0
    · simp only
      split
      · rw [post_left, enqueue_left]; simp [direct]; omega
      · rw [post_left]; simp [direct]; exact h0
  · rw [post_left, enqueue_left]; simp; omega

theorem flush_left_le (ks : List KAns) : ∀ c : Conn, (flush c ks).left ≤ c.left := by
  induction ks with
  | nil => intro c; simp [flush]
  | cons k ks ih =>
    intro c
    unfold flush
    simp only []
    repeat' split
    all_goals first
      | exact Nat.le_refl _
      | exact ih c
      | (simp [closeNow]; done)
      | (simp; omega)
      | (refine Nat.le_trans (ih _) ?_; simp)

theorem bounded_run (g : Cfg) (ops : List Op) : ∀ c : Conn, Bounded g c → Bounded g (run g c ops) := by
  induction ops with
  | nil => intro c h; exact h
  | cons op ops ih =>
    intro c h
    simp only [run, List.foldl_cons]
    apply ih
    cases op with
    | write b k => exact bounded_write g c b k h
    | flush ks => intro hm; exact Nat.le_trans (flush_left_le ks c) (h hm)

/-- C17: for every bound, every op sequence and all kernel answers the backlog counter stays within the bound … -/
theorem c17_bound (g : Cfg) (ops : List Op) : g.maxWB > 0 → (run g init ops).left ≤ g.maxWB :=
  bounded_run g ops init (fun _ => by simp [init])

/-- … a write that fits is accepted with its full length … -/
theorem c17_fits_accepted (g : Cfg) (c : Conn) (b : List UInt8) (k : KAns)
    (hc : c.closed = false) (hk : k ≠ .fail) (hfit : c.left + b.length ≤ g.maxWB ∨ g.maxWB = 0) :
    (write g c b k).2 = .ok b.length := by
  unfold write
  have hov : overflow g c b.length = false := by
    simp [overflow]; rcases hfit with h | h <;> omega
  simp only [hc, Bool.false_eq_true, if_false, hov]
  split
  · rename_i h0; simp at h0; simp [h0]
  · split
    · simp [hk]; split <;> rfl
    · rfl

/-- … and a write that does not fit fails with the overflow error and closes the connection -/
theorem c17_overflow_closes (g : Cfg) (c : Conn) (b : List UInt8) (k : KAns)
    (hc : c.closed = false) (hb : b.length ≠ 0) (hm : g.maxWB > 0) (hbig : c.left + b.length > g.maxWB) :
    (write g c b k).2 = .errOverflow ∧ (write g c b k).1.closed = true := by
  unfold write
  have hov : overflow g c b.length = true := by simp [overflow, hm, hbig]
  simp [hc, hb, hov, closeNow]

end ConnW
