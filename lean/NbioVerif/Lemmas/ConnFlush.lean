import NbioVerif.Lemmas.ConnRet
/-! ConnFull: flush only transmits (accepted unchanged, wire extended), never increases the backlog and makes
progress whenever the kernel has room -/
namespace ConnFull

theorem wl_cResetRead (g : Cfg) (s : S) : (cResetRead g s).wl = s.wl := by
  have hD := D_cResetRead g s
  simp only [D, Prod.mk.injEq] at hD
  exact hD.2.2.1

theorem eff_of_D {s t : S} (h : D t = D s) : Eff s t [] [] := by
  simp only [D, Prod.mk.injEq] at h
  obtain ⟨_, _, _, _, d5, d6⟩ := h
  exact ⟨by simp [d6], by simp [d5]⟩

theorem Eff.nil_trans {s t u : S} {w1 w2 : Bytes} (h1 : Eff s t [] w1) (h2 : Eff t u [] w2) : Eff s u [] (w1 ++ w2) := by
  simpa using h1.trans h2

/-- flush appends to the wire and leaves `accepted` alone; it never increases the backlog -/
theorem flushLoop_eff (g : Cfg) : ∀ (fuel : Nat) (s : S) (ks : List KAns),
    (∃ w, Eff s (flushLoop g fuel s ks) [] w) ∧ backlog (flushLoop g fuel s ks).wl ≤ backlog s.wl := by
  intro fuel
  induction fuel with
  | zero => intro s ks; unfold flushLoop; exact ⟨⟨[], by simp, by simp⟩, Nat.le_refl _⟩
  | succ fuel ih =>
    intro s ks
    have stay : (∃ w, Eff s s [] w) ∧ backlog s.wl ≤ backlog s.wl := ⟨⟨[], by simp, by simp⟩, Nat.le_refl _⟩
    have closeit : (∃ w, Eff s (closeNow s) [] w) ∧ backlog (closeNow s).wl ≤ backlog s.wl :=
      ⟨⟨[], by simp [closeNow], by simp [closeNow]⟩, by simp [closeNow, backlog]⟩
    unfold flushLoop
    split
    · exact ⟨⟨[], eff_of_D ((D_cResetRead g (stopTimer s)).trans rfl)⟩, by rw [wl_cResetRead]; exact Nat.le_refl _⟩
    · rename_i d off tl hwl
      simp only
      split
      · exact ih s ks
      split
      · exact stay
      · exact stay
      · exact ih s _
      · exact closeit
      · rename_i n0 ks'
        split
        · exact ih s _
        generalize hn : min n0 (List.drop off d).length = n
        have hnle : n ≤ d.length - off := by subst hn; simp; omega
        have hb : backlog s.wl = (d.length - off) + backlog tl := by rw [hwl, backlog_cons]; rfl
        split
        · obtain ⟨⟨w, he⟩, hle⟩ := ih { s with wire := s.wire ++ (List.drop off d).take n, left := s.left - n, wl := tl } ks'
          exact ⟨⟨_, Eff.nil_trans (by exact ⟨by simp, rfl⟩) he⟩, by rw [hb]; exact Nat.le_trans hle (Nat.le_add_left _ _)⟩
        · obtain ⟨⟨w, he⟩, hle⟩ := ih { s with wire := s.wire ++ (List.drop off d).take n, left := s.left - n, wl := .buf d (off + n) :: tl } ks'
          refine ⟨⟨_, Eff.nil_trans (by exact ⟨by simp, rfl⟩) he⟩, ?_⟩
          rw [hb]; refine Nat.le_trans hle ?_
          rw [backlog_cons]; simp only [Item.todo]; omega
    · rename_i off rem tl hwl
      split
      · exact ih s ks
      split
      · exact stay
      · exact stay
      · exact ih s _
      · exact closeit
      · rename_i n0 ks'
        simp only
        split
        · exact ih s _
        generalize hn : min n0 rem = n
        have hnle : n ≤ rem := by subst hn; exact Nat.min_le_right _ _
        have hb : backlog s.wl = rem + backlog tl := by rw [hwl, backlog_cons]; rfl
        split
        · obtain ⟨⟨w, he⟩, hle⟩ := ih { s with wire := s.wire ++ fileRange g off n, wl := tl } ks'
          exact ⟨⟨_, Eff.nil_trans (by exact ⟨by simp, rfl⟩) he⟩, by rw [hb]; exact Nat.le_trans hle (Nat.le_add_left _ _)⟩
        · obtain ⟨⟨w, he⟩, hle⟩ := ih { s with wire := s.wire ++ fileRange g off n, wl := .file (off + n) (rem - n) :: tl } ks'
          refine ⟨⟨_, Eff.nil_trans (by exact ⟨by simp, rfl⟩) he⟩, ?_⟩
          rw [hb]; refine Nat.le_trans hle ?_
          rw [backlog_cons]; simp only [Item.todo]; omega

theorem flush_eff (g : Cfg) (s : S) (ks : List KAns) :
    (∃ w, Eff s (flush g s ks) [] w) ∧ backlog (flush g s ks).wl ≤ backlog s.wl := by
  unfold flush
  split
  · exact ⟨⟨[], by simp, by simp⟩, Nat.le_refl _⟩
  split
  · exact ⟨⟨[], eff_of_D (D_cResetRead g s)⟩, by rw [wl_cResetRead]; exact Nat.le_refl _⟩
  · exact flushLoop_eff g _ s ks

/-- progress: the kernel has room for the first request ⇒ the backlog strictly decreases -/
theorem flushLoop_progress (g : Cfg) (fuel : Nat) (s : S) (n0 : Nat) (ks : List KAns)
    (hp : AllPos s.wl) (hne : s.wl ≠ []) (hn0 : 0 < n0) :
    backlog (flushLoop g (fuel + 1) s (.wrote n0 :: ks)).wl < backlog s.wl := by
  unfold flushLoop
  split
  · rename_i hwl; exact absurd hwl hne
  · rename_i d off tl hwl
    have hpos : off < d.length := hp (Item.buf d off) (by rw [hwl]; simp)
    simp only
    rw [if_neg (by simp; omega)]
    have hb : backlog s.wl = (d.length - off) + backlog tl := by rw [hwl, backlog_cons]; rfl
    generalize hn : min n0 (List.drop off d).length = n
    have hnle : n ≤ d.length - off := by subst hn; simp; omega
    have hnpos : 0 < n := by subst hn; simp; omega
    rw [if_neg (by omega)]
    split
    · have := (flushLoop_eff g fuel { s with wire := s.wire ++ (List.drop off d).take n, left := s.left - n, wl := tl } ks).2
      simp only at this
      omega
    · have := (flushLoop_eff g fuel { s with wire := s.wire ++ (List.drop off d).take n, left := s.left - n, wl := .buf d (off + n) :: tl } ks).2
      rw [backlog_cons] at this
      simp only [Item.todo] at this
      omega
  · rename_i off rem tl hwl
    have hpos : 0 < rem := hp (Item.file off rem) (by rw [hwl]; simp)
    rw [if_neg (by omega)]
    have hb : backlog s.wl = rem + backlog tl := by rw [hwl, backlog_cons]; rfl
    simp only
    generalize hn : min n0 rem = n
    have hnle : n ≤ rem := by subst hn; exact Nat.min_le_right _ _
    have hnpos : 0 < n := by subst hn; omega
    rw [if_neg (by omega)]
    split
    · have := (flushLoop_eff g fuel { s with wire := s.wire ++ fileRange g off n, wl := tl } ks).2
      simp only at this
      omega
    · have := (flushLoop_eff g fuel { s with wire := s.wire ++ fileRange g off n, wl := .file (off + n) (rem - n) :: tl } ks).2
      rw [backlog_cons] at this
      simp only [Item.todo] at this
      omega

/-- interrupted attempts (EINTR) before the kernel takes something do not matter -/
theorem flushLoop_progress_eintr (g : Cfg) (k : Nat) : ∀ (fuel : Nat) (s : S) (n0 : Nat) (ks : List KAns),
    AllPos s.wl → s.wl ≠ [] → 0 < n0 →
    backlog (flushLoop g (fuel + 1 + k) s (List.replicate k .eintr ++ .wrote n0 :: ks)).wl < backlog s.wl := by
  induction k with
  | zero => intro fuel s n0 ks hp hne hn0; simpa using flushLoop_progress g fuel s n0 ks hp hne hn0
  | succ k ih =>
    intro fuel s n0 ks hp hne hn0
    have h := ih fuel s n0 ks hp hne hn0
    rw [List.replicate_succ, List.cons_append, show fuel + 1 + (k + 1) = (fuel + 1 + k) + 1 by omega]
    unfold flushLoop
    split
    · rename_i hwl; exact absurd hwl hne
    · rename_i d off tl hwl
      have hpos : off < d.length := hp (Item.buf d off) (by rw [hwl]; simp)
      simp only
      rw [if_neg (by simp; omega)]
      exact h
    · rename_i off rem tl hwl
      have hpos : 0 < rem := hp (Item.file off rem) (by rw [hwl]; simp)
      rw [if_neg (by omega)]
      exact h

theorem flush_progress_eintr (g : Cfg) (s : S) (k n0 : Nat) (ks : List KAns) (hc : s.closed = false)
    (hp : AllPos s.wl) (hne : s.wl ≠ []) (hn0 : 0 < n0) :
    backlog (flush g s (List.replicate k .eintr ++ .wrote n0 :: ks)).wl < backlog s.wl := by
  unfold flush
  rw [if_neg (by simp [hc]), if_neg (by simpa using hne)]
  have : (List.replicate k KAns.eintr ++ KAns.wrote n0 :: ks).length + 1 = (ks.length + 1) + 1 + k := by
    simp; omega
  rw [this]
  exact flushLoop_progress_eintr g k (ks.length + 1) s n0 ks hp hne hn0

theorem flush_progress (g : Cfg) (s : S) (n0 : Nat) (ks : List KAns) (hc : s.closed = false)
    (hp : AllPos s.wl) (hne : s.wl ≠ []) (hn0 : 0 < n0) :
    backlog (flush g s (.wrote n0 :: ks)).wl < backlog s.wl := by
  simpa using flush_progress_eintr g s 0 n0 ks hc hp hne hn0

/-- flush looks at the queue and the closed flag only -/
theorem flush_backlog_congr (g : Cfg) (s t : S) (ks : List KAns) (h1 : t.closed = s.closed) (h3 : t.wl = s.wl) :
    backlog (flush g t ks).wl = backlog (flush g s ks).wl := by
  have e : ∀ fuel (a b : S) (ks : List KAns), a.wl = b.wl →
      (flushLoop g fuel a ks).wl.map Item.todo = (flushLoop g fuel b ks).wl.map Item.todo := by
    intro fuel
    induction fuel with
    | zero => intro a b ks h; simp [flushLoop, h]
    | succ fuel ih =>
      intro a b ks h
      unfold flushLoop
      rw [← h]
      split
      · rw [wl_cResetRead, wl_cResetRead]; show a.wl.map Item.todo = b.wl.map Item.todo; rw [h]
      · simp only
        split
        · exact ih a b ks h
        split
        · rw [h]
        · rw [h]
        · exact ih a b _ h
        · simp [closeNow]
        · split
          · exact ih a b _ h
          split
          · exact ih _ _ _ rfl
          · exact ih _ _ _ rfl
      · split
        · exact ih a b ks h
        split
        · rw [h]
        · rw [h]
        · exact ih a b _ h
        · simp [closeNow]
        · simp only
          split
          · exact ih a b _ h
          split
          · exact ih _ _ _ rfl
          · exact ih _ _ _ rfl
  unfold flush
  rw [h1, h3]
  split
  · rw [h3]
  split
  · rw [wl_cResetRead, wl_cResetRead, h3]
  · simp only [backlog]; rw [e _ t s ks h3]

end ConnFull
