import NbioVerif.Lemmas.C06Core
import NbioVerif.Model.HttpMsg
/-! C07 infrastructure: single spec steps, self-loop scanning, and a finite check over all 256 bytes. -/
namespace Http
open Scan

abbrev M (g : Cfg) := machine g

/-- a Boolean property of bytes holds for all bytes if it holds for 0..255 (checked by `decide`) -/
theorem forall_uint8 (P : UInt8 → Bool) (h : (List.range 256).all (fun n => P (UInt8.ofNat n)) = true) :
    ∀ c : UInt8, P c = true := by
  intro c
  have hc : c.toNat < 256 := c.toNat_lt
  have := (List.all_eq_true.mp h) c.toNat (List.mem_range.mpr hc)
  simpa using this

/-- the token after a byte step: extended, restarted at the byte, or emptied -/
def nextTok (u : Upd) (tok : Bytes) (c : UInt8) : Bytes :=
  match u with | .keep => tok ++ [c] | .here => [c] | .next => []

@[simp] theorem nextTok_keep (tok : Bytes) (c : UInt8) : nextTok .keep tok c = tok ++ [c] := rfl
@[simp] theorem nextTok_here (tok : Bytes) (c : UInt8) : nextTok .here tok c = [c] := rfl
@[simp] theorem nextTok_next (tok : Bytes) (c : UInt8) : nextTok .next tok c = [] := rfl

/-- one spec step in a non-block state -/
theorem spec_cons (g : Cfg) (p : P) (tok : Bytes) (c : UInt8) (cs : Bytes) (acc : List Ev)
    (hb : block p = none) :
    specFeed (M g) p tok (c :: cs) acc =
      match byteStep g p tok c with
      | .ok s' u evs => specFeed (M g) s' (nextTok u tok c) cs (acc ++ evs)
      | .err e evs => ⟨acc ++ evs, .inr e⟩ := by
  simp only [specFeed, specByte, machine, hb, nextTok]
  cases byteStep g p tok c <;> rfl

/-- a step that is known to succeed -/
theorem spec_step (g : Cfg) (p : P) (tok : Bytes) (c : UInt8) (cs : Bytes) (acc : List Ev)
    (p' : P) (u : Upd) (evs : List Ev)
    (hb : block p = none) (hs : byteStep g p tok c = .ok p' u evs) :
    specFeed (M g) p tok (c :: cs) acc =
      specFeed (M g) p' (nextTok u tok c) cs (acc ++ evs) := by
  rw [spec_cons g p tok c cs acc hb]
  simp only [hs]

/-- scanning: bytes on which the state loops on itself (start unchanged, no event) are appended to the token -/
theorem scan_keep (g : Cfg) (p : P) (hb : block p = none) (xs : Bytes)
    (h : ∀ c ∈ xs, ∀ tok, byteStep g p tok c = .ok p .keep []) :
    ∀ (tok rest : Bytes) (acc : List Ev),
      specFeed (M g) p tok (xs ++ rest) acc = specFeed (M g) p (tok ++ xs) rest acc := by
  induction xs with
  | nil => intro tok rest acc; simp
  | cons c cs ih =>
    intro tok rest acc
    rw [List.cons_append, spec_step g p tok c _ acc p .keep [] hb (h c (by simp) tok)]
    simp only [List.append_nil, nextTok_keep]
    rw [ih (fun x hx => h x (by simp [hx])) (tok ++ [c]) rest acc]
    simp

set_option maxRecDepth 8192 in
theorem tok_facts (c : UInt8) (h : isToken c = true) : c ≠ SP ∧ c ≠ 58 ∧ c ≠ CR ∧ c ≠ LF := by
  have key := forall_uint8 (fun c => !isToken c || (c != SP && c != 58 && c != CR && c != LF)) (by decide) c
  simp only [h, Bool.not_true, Bool.false_or, Bool.and_eq_true, bne_iff_ne, ne_eq] at key
  obtain ⟨⟨⟨a, b⟩, c⟩, d⟩ := key
  exact ⟨a, b, c, d⟩

end Http
