import NbioVerif.Lemmas.ReadPathFrames
/-! ReadPath: a close on a peer half-close finds the kernel queue drained (`lost = 0`) — the poller's synchronous
loop is not capped on a hang-up event, and with AsyncReadInPoller the hang-up is handed to the read task, which closes
at the end of a round that started after the hang-up. -/
namespace ReadPath

structure Drain (g : Cfg) (s : St) : Prop where
  flg : ∀ fl, (s.ps = .fin fl ∨ ∃ i, s.ps = .rd i fl) → (fl.rdhup = true → s.k.eof = true) ∧ (fl.err = true → s.k.rerr = true)
  noEofUdp : g.udp = true → s.k.eof = false
  finq : g.isAsync = false → ∀ fl, s.ps = .fin fl → fl.rdhup = true → s.closed = true ∨ s.k.rerr = true ∨ s.k.qlen = 0
  finA : g.isAsync = true → ∀ fl, s.ps = .fin fl → fl.rdhup = false
  hq : ∀ a, s.task = .rd a true → a.again g = false → a ≠ .closed → s.k.rerr = true ∨ s.k.qlen = 0
  lost0 : s.lost = 0

theorem drain_init (g : Cfg) : Drain g init := by
  constructor <;> simp [init]

theorem taskRead_frame (g : Cfg) (s : St) (b : Bool) :
    (taskRead g s b).ps = s.ps ∧ (taskRead g s b).k.eof = s.k.eof ∧ (taskRead g s b).k.rerr = s.k.rerr ∧
    (taskRead g s b).lost = s.lost := by
  unfold taskRead
  split
  · exact ⟨rfl, rfl, rfl, rfl⟩
  · obtain ⟨f1, f2, f3, f4, f5, f6, f7, f8, f9, f10, f11, f12, f13, f14, f15, f16, _⟩ := doRead_frame g s
    exact ⟨f4, f15, f16, f14⟩

theorem tstep_frame (g : Cfg) (s s' : St) (hs : tstep g s = some s') :
    s'.ps = s.ps ∧ s'.k.eof = s.k.eof ∧ s'.k.rerr = s.k.rerr := by
  unfold tstep at hs
  split at hs
  · cases hs
  · cases hs; exact ⟨(taskRead_frame g s _).1, (taskRead_frame g s _).2.1, (taskRead_frame g s _).2.2.1⟩
  · next a hb ht =>
    cases hs
    obtain ⟨k1, k2, k3, k4, k5, k6, k7, _⟩ := consume_frame g s a
    cases hnx : (consume g s a).1 with
    | again =>
      obtain ⟨t1, t2, t3, t4⟩ := taskRead_frame g (consume g s a).2 hb
      simp only [taskNext]
      exact ⟨by rw [t1, k3], by rw [t2, k1], by rw [t3, k1]⟩
    | dead => exact ⟨k3, by rw [← k1]; rfl, by rw [← k1]; rfl⟩
    | brk =>
      obtain ⟨r1, r2, r3, r4, r5, r6, r7, r8, r9, r10, r11, r12⟩ := rearm_frame (consume g s a).2
      obtain ⟨x1, x2, x3, x4, x5, x6⟩ := closeHang_frame (consume g s a).2
      simp only [taskNext]
      split
      · exact ⟨by show (closeHang (consume g s a).2).ps = s.ps; rw [x3, k3],
          by show (closeHang (consume g s a).2).k.eof = s.k.eof; rw [x1, k1],
          by show (closeHang (consume g s a).2).k.rerr = s.k.rerr; rw [x1, k1]⟩
      split
      · exact ⟨by show (rearm (consume g s a).2).ps = s.ps; rw [r3, k3],
          by show (rearm (consume g s a).2).k.eof = s.k.eof; rw [r11, k1],
          by show (rearm (consume g s a).2).k.rerr = s.k.rerr; rw [r12, k1]⟩
      · split
        · exact ⟨k3, by rw [← k1]; rfl, by rw [← k1]; rfl⟩
        · exact ⟨k3, by rw [← k1]; rfl, by rw [← k1]; rfl⟩
  · cases hs; exact ⟨(taskRead_frame g s _).1, (taskRead_frame g s _).2.1, (taskRead_frame g s _).2.2.1⟩

/-- the answer of the task's next read, when it ends the loop, found the queue empty -/
theorem taskRead_hq (g : Cfg) (s : St) (b : Bool) (hk : KindOk g s.k.reg s.k.rq s.k.dq) :
    ∀ a h, (taskRead g s b).task = .rd a h → a.again g = false → a ≠ .closed → (taskRead g s b).k.qlen = 0 := by
  intro a h
  unfold taskRead
  split
  · intro hx; simp [setTask] at hx
  · obtain ⟨q1, q2, q3, q4⟩ := doRead_queue g s hk
    intro hx hna hnc
    simp only [setTask, TS.rd.injEq] at hx
    obtain ⟨hx1, _⟩ := hx
    subst hx1
    exact q4 hna hnc

theorem taskRead_lost (g : Cfg) (s : St) (b : Bool) : (taskRead g s b).lost = s.lost := (taskRead_frame g s b).2.2.2

theorem drain_step (g : Cfg) (s s' : St) (a : Act) (hc : Core g s) (hd : Drain g s) (hs : step g s a = some s') :
    Drain g s' := by
  obtain ⟨d1, d2, d3, d5, d6, d4⟩ := hd
  -- a round that knows of the hang-up: the kernel state backs it
  have hback : ∀ a, s.task = .rd a true → s.k.eof = true ∨ s.k.rerr = true :=
    fun a ht => hc.hupok.backed (hc.hupok.flag a ht)
  cases a with
  | push b =>
    simp only [step] at hs
    split at hs
    · cases hs
    · next hcond =>
      cases hs
      simp only [Bool.or_eq_true, not_or, Bool.not_eq_true] at hcond
      refine ⟨d1, d2, fun ha fl hp hr => ?_, d5, fun a ht hna hnc => ?_, d4⟩
      · have := (d1 fl (Or.inl hp)).1 hr
        rw [hcond.2] at this; cases this
      · rcases hback a ht with h | h
        · rw [hcond.2] at h; cases h
        · exact Or.inl h
  | dgram x b =>
    simp only [step] at hs
    split at hs
    · cases hs
    · next hcond =>
      cases hs
      have hu : g.udp = true := by simpa using hcond
      refine ⟨d1, d2, fun ha fl hp hr => ?_, d5, fun a ht hna hnc => ?_, d4⟩
      · have := (d1 fl (Or.inl hp)).1 hr
        rw [d2 hu] at this; cases this
      · rcases hback a ht with h | h
        · rw [d2 hu] at h; cases h
        · exact Or.inl h
  | eof =>
    simp only [step] at hs
    split at hs
    · cases hs
    · next hcond =>
      cases hs
      exact ⟨fun fl h => ⟨fun _ => rfl, (d1 fl h).2⟩, fun hu => by simp [hu] at hcond, d3, d5, d6, d4⟩
  | rderr =>
    simp only [step] at hs
    cases hs
    exact ⟨fun fl h => ⟨(d1 fl h).1, fun _ => rfl⟩, d2, fun _ _ _ _ => Or.inr (Or.inl rfl), d5, fun _ _ _ _ => Or.inl rfl, d4⟩
  | intr n => simp only [step] at hs; cases hs; exact ⟨d1, d2, d3, d5, d6, d4⟩
  | stale =>
    simp only [step] at hs
    split at hs
    · cases hs
    · cases hs; exact ⟨d1, d2, d3, d5, d6, d4⟩
  | report i o =>
    obtain ⟨r1, r2, r3, r4, r5, r6, r7, r8, r9, r10, r11, r12, r13, r14, r15, r16, r17, r18, r19, r20⟩ := report_frame g s s' i o hs
    have hfl : ∀ fl, (s'.ps = .fin fl ∨ ∃ j, s'.ps = .rd j fl) → fl = flagsOf s i o := by
      intro fl h
      rcases r20 with h0 | ⟨fl', h', e⟩
      · rcases h with h | ⟨j, h⟩ <;> rw [h0] at h <;> cases h
      · rcases h' with h' | h' <;> rcases h with h | ⟨j, h⟩ <;> rw [h'] at h <;> cases h <;> exact e
    have hqlen : s'.k.qlen = s.k.qlen := by simp only [K.qlen, r1, r2]
    -- which shape did the dispatch take
    have hshape : (g.isAsync = false ∧ i = true → ∀ fl, s'.ps ≠ .fin fl) ∧ (∀ fl, s'.ps = .fin fl → i = false) := by
      simp only [step] at hs
      unfold report at hs
      split at hs
      case isFalse => cases hs
      cases hs
      rcases dispatch_cases g (setK s (disarm g s.k)) (flagsOf s i o) with ⟨hi, _, e⟩ | ⟨hi, e⟩ | ⟨_, _, _, e⟩ | ⟨_, _, _, e⟩
      · rw [e]; exact ⟨fun _ fl h => by simp [setPs] at h, fun fl h => by simp [setPs] at h⟩
      · have : i = false := hi
        rw [e]; exact ⟨fun h => (by rw [this] at h; cases h.2), fun _ _ => this⟩
      · rw [e]; exact ⟨fun _ fl h => by simp [setPs] at h, fun fl h => by simp [setPs] at h⟩
      · rw [e]; exact ⟨fun _ fl h => by simp [setPs] at h, fun fl h => by simp [setPs] at h⟩
    refine ⟨fun fl h => ?_, by rw [r4]; exact d2, fun ha fl hp hr => ?_, fun ha fl hp => ?_, fun a ht hna hnc => ?_, by rw [r13]; exact d4⟩
    · have := hfl fl h; subst this
      rw [r4, r5]
      refine ⟨fun h' => ?_, fun h' => h'⟩
      simp only [flagsOf, Bool.and_eq_true] at h'; exact h'.2
    · -- a synchronous report with IN goes to the read loop, not to the tail
      exfalso
      have := hfl fl (Or.inl hp); subst this
      have hinn : i = true := by simp only [flagsOf, Bool.and_eq_true] at hr; exact hr.1
      exact hshape.1 ⟨ha, hinn⟩ _ hp
    · have := hfl fl (Or.inl hp); subst this
      have : i = false := hshape.2 _ hp
      simp [flagsOf, this]
    · rw [r5, hqlen]
      rcases r17 with h | ⟨h, _⟩
      · rw [h] at ht; exact d6 a ht hna hnc
      · rw [h] at ht; cases ht
  | pstep =>
    simp only [step] at hs
    unfold pstep at hs
    split at hs
    · cases hs
    · next i fl hps =>
      cases hs
      have hasync : g.isAsync = false := by
        cases ha : g.isAsync
        · rfl
        · exact absurd hps (hc.psok.asyncPs ha i fl)
      have htn := (hc.gate.sync hasync).1
      obtain ⟨f1, f2, f3, f4, f5, f6, f7, f8, f9, f10, f11, f12, f13, f14, f15, f16, _⟩ := doRead_frame g s
      obtain ⟨q1, q2, q3, q4⟩ := doRead_queue g s hc.kind
      have hdc := doRead_closed_iff g s
      obtain ⟨k1, k2, k3, k4, k5, k6, k7, k8, k9, k10, k11, k12⟩ := consume_frame g (doRead g s).2 (doRead g s).1
      obtain ⟨n1, n2⟩ := consume_next g (doRead g s).2 (doRead g s).1
      have herr := consume_err_closed g (doRead g s).2
      have hfl0 := d1 fl (Or.inr ⟨i, hps⟩)
      have hps' : ∀ fl', ((setPs (consume g (doRead g s).2 (doRead g s).1).2 (nextPs g i fl (consume g (doRead g s).2 (doRead g s).1).1)).ps = .fin fl' ∨
          ∃ j, (setPs (consume g (doRead g s).2 (doRead g s).1).2 (nextPs g i fl (consume g (doRead g s).2 (doRead g s).1).1)).ps = .rd j fl') → fl' = fl := by
        intro fl' h
        simp only [setPs, nextPs] at h
        rcases h with h | ⟨j, h⟩
        · split at h
          · split at h <;> cases h <;> rfl
          · cases h; rfl
        · split at h
          · split at h <;> cases h <;> rfl
          · cases h
      refine ⟨fun fl' h => ?_, ?_, fun _ fl' hp hr => ?_, fun ha => (by rw [hasync] at ha; cases ha), fun a ht => ?_, ?_⟩
      · have := hps' fl' h; subst this
        show (fl'.rdhup = true → (consume g (doRead g s).2 (doRead g s).1).2.k.eof = true) ∧
             (fl'.err = true → (consume g (doRead g s).2 (doRead g s).1).2.k.rerr = true)
        rw [k1, f15, f16]; exact hfl0
      · show g.udp = true → (consume g (doRead g s).2 (doRead g s).1).2.k.eof = false
        rw [k1, f15]; exact d2
      · have := hps' fl' (Or.inl hp); subst this
        show (consume g (doRead g s).2 (doRead g s).1).2.closed = true ∨ (consume g (doRead g s).2 (doRead g s).1).2.k.rerr = true ∨
             (consume g (doRead g s).2 (doRead g s).1).2.k.qlen = 0
        rw [k1]
        have hp' : nextPs g i fl' (consume g (doRead g s).2 (doRead g s).1).1 = .fin fl' := hp
        cases hnx : (consume g (doRead g s).2 (doRead g s).1).1 with
        | again =>
          exfalso
          rw [hnx] at hp'
          have hcap : loopCap g fl' = none := by simp [loopCap, Flags.hang, hr]
          simp [nextPs, hcap, capReached] at hp'
        | brk =>
          right; right
          have hna : (doRead g s).1.again g = false := by
            cases hag : (doRead g s).1.again g
            · rfl
            · have := n1.mpr hag; rw [hnx] at this; cases this
          have hnc : (doRead g s).1 ≠ .closed := fun h => by have := n2.mpr (Or.inr h); rw [hnx] at this; cases this
          exact q4 hna hnc
        | dead =>
          left
          rcases n2.mp hnx with h | h
          · rw [h]; exact herr
          · have hsc := hdc.mp h
            rcases k12 with h' | ⟨_, h'⟩
            · rw [h', f1]; exact hsc
            · exact h'
      · have : (consume g (doRead g s).2 (doRead g s).1).2.task = .rd a true := ht
        rw [k4, f5, htn] at this; cases this
      · show (consume g (doRead g s).2 (doRead g s).1).2.lost = 0
        rw [k7, f14]; exact d4
    · next fl hps =>
      cases hs
      have hfr : (finish g s fl).k.eof = s.k.eof ∧ (finish g s fl).task = s.task ∧ (finish g s fl).k.rerr = s.k.rerr ∧
          (finish g s fl).k.qlen = s.k.qlen := by
        unfold finish rearm closeHang; dsimp only; repeat' split
        all_goals simp [K.qlen]
      refine ⟨fun fl' h => ?_, ?_, fun _ fl' hp => ?_, fun _ fl' hp => ?_, fun a ht hna hnc => ?_, ?_⟩
      · rcases h with h | ⟨j, h⟩ <;> simp [setPs] at h
      · show g.udp = true → (finish g s fl).k.eof = false
        rw [hfr.1]; exact d2
      · simp [setPs] at hp
      · simp [setPs] at hp
      · have ht' : (finish g s fl).task = .rd a true := ht
        rw [hfr.2.1] at ht'
        show (finish g s fl).k.rerr = true ∨ (finish g s fl).k.qlen = 0
        rw [hfr.2.2.1, hfr.2.2.2]; exact d6 a ht' hna hnc
      · show (finish g s fl).lost = 0
        have hfl0 := d1 fl (Or.inl hps)
        unfold finish
        obtain ⟨r1, r2, r3, r4, r5, r6, r7, r8, r9, r10, r11, r12⟩ := rearm_frame s
        dsimp only
        have key : ∀ t : St, t.closed = s.closed → t.lost = s.lost → t.k.rerr = s.k.rerr → t.k.qlen = s.k.qlen →
            fl.hang = true → (closeHang t).lost = 0 := by
          intro t tc tl tr tq hh
          unfold closeHang
          split
          · rw [tl]; exact d4
          · next hnc =>
            simp only
            split
            · rfl
            · next hne =>
              rw [tq]
              simp only [Flags.hang, Bool.or_eq_true] at hh
              rcases hh with hh | hh
              · cases hasy : g.isAsync
                · rcases d3 hasy fl hps hh with h | h | h
                  · rw [tc] at hnc; exact absurd h hnc
                  · rw [tr] at hne; exact absurd h hne
                  · exact h
                · have := d5 hasy fl hps; rw [hh] at this; cases this
              · rw [tr] at hne; exact absurd (hfl0.2 hh) hne
        split
        · next hh =>
          split
          · exact key (rearm s) r1 r10 r12 r9 hh
          · exact key s rfl rfl rfl rfl hh
        · split
          · rw [r10]; exact d4
          · exact d4
  | tstep =>
    simp only [step] at hs
    obtain ⟨t1, t2, t3⟩ := tstep_frame g s s' hs
    refine ⟨fun fl h => ?_, by rw [t2]; exact d2, fun ha fl hp => ?_, fun ha fl hp => ?_, ?_, ?_⟩
    · rw [t1] at h; rw [t2, t3]; exact d1 fl h
    · -- synchronous configurations have no task
      exfalso
      have := (hc.gate.sync ha).1
      unfold tstep at hs; rw [this] at hs; cases hs
    · rw [t1] at hp; exact d5 ha fl hp
    · -- hq and lost0, per shape of the task step
      unfold tstep at hs
      split at hs
      · cases hs
      · cases hs
        intro a ht hna hnc
        exact Or.inr (taskRead_hq g s s.hup hc.kind a true ht hna hnc)
      · next a0 hb ht0 =>
        cases hs
        obtain ⟨k1, k2, k3, k4, k5, k6, k7, _⟩ := consume_frame g s a0
        have hk2 : KindOk g (consume g s a0).2.k.reg (consume g s a0).2.k.rq (consume g s a0).2.k.dq := by rw [k1]; exact hc.kind
        cases hnx : (consume g s a0).1 with
        | again =>
          intro a ht hna hnc
          exact Or.inr (taskRead_hq g (consume g s a0).2 hb hk2 a true ht hna hnc)
        | dead => intro a ht; simp [taskNext, setTask] at ht
        | brk =>
          intro a ht
          simp only [taskNext] at ht
          split at ht
          · simp [setTask] at ht
          split at ht
          · simp [setTask] at ht
          · split at ht <;> simp [setTask] at ht
      · cases hs
        intro a ht hna hnc
        exact Or.inr (taskRead_hq g s s.hup hc.kind a true ht hna hnc)
    · unfold tstep at hs
      split at hs
      · cases hs
      · cases hs; rw [taskRead_lost]; exact d4
      · next a0 hb ht0 =>
        cases hs
        obtain ⟨k1, k2, k3, k4, k5, k6, k7, k8, k9, k10, k11, k12⟩ := consume_frame g s a0
        obtain ⟨n1, n2⟩ := consume_next g s a0
        cases hnx : (consume g s a0).1 with
        | again => simp only [taskNext]; rw [taskRead_lost, k7]; exact d4
        | dead => show (consume g s a0).2.lost = 0; rw [k7]; exact d4
        | brk =>
          have hna : a0.again g = false := by
            cases hag : a0.again g
            · rfl
            · have := n1.mpr hag; rw [hnx] at this; cases this
          have hnc : a0 ≠ .closed := fun h => by have := n2.mpr (Or.inr h); rw [hnx] at this; cases this
          simp only [taskNext]
          split
          · next hbt =>
            -- the hang-up round closes: the queue was found empty after the hang-up (or a socket error is pending)
            subst hbt
            show (closeHang (consume g s a0).2).lost = 0
            unfold closeHang
            split
            · rw [k7]; exact d4
            · simp only
              split
              · rfl
              · next hne =>
                rw [k1] at hne ⊢
                rcases d6 a0 ht0 hna hnc with h | h
                · exact absurd h hne
                · exact h
          split
          · show (rearm (consume g s a0).2).lost = 0
            rw [(rearm_frame _).2.2.2.2.2.2.2.2.2.1, k7]; exact d4
          · split
            · show (consume g s a0).2.lost = 0; rw [k7]; exact d4
            · show (consume g s a0).2.lost = 0; rw [k7]; exact d4
      · cases hs; rw [taskRead_lost]; exact d4

theorem drain_run (g : Cfg) (as : List Act) : ∀ s, Core g s → Drain g s → Drain g (run g s as) := by
  induction as with
  | nil => intro s _ h; exact h
  | cons a as ih =>
    intro s hc h
    simp only [run]
    split
    · next s' hs => exact ih s' (core_step g s s' a hc hs) (drain_step g s s' a hc h hs)
    · exact ih s hc h

end ReadPath
