import NbioVerif.Lemmas.ReadPathFrames
/-! ReadPath: a close on a peer half-close finds the kernel queue drained — in the synchronous configurations
(`lost = 0`). In the asynchronous ones the poller closes right after handing the event to the read task, see the
counterexample in Properties/C02. -/
namespace ReadPath

structure Drain (g : Cfg) (s : St) : Prop where
  flg : ∀ fl, (s.ps = .fin fl ∨ ∃ i, s.ps = .rd i fl) → (fl.rdhup = true → s.k.eof = true) ∧ (fl.err = true → s.k.rerr = true)
  noEofUdp : g.udp = true → s.k.eof = false
  finq : g.isAsync = false → ∀ fl, s.ps = .fin fl → fl.rdhup = true → s.closed = true ∨ s.k.rerr = true ∨ s.k.qlen = 0
  lost0 : g.isAsync = false → s.lost = 0

theorem drain_init (g : Cfg) : Drain g init := by
  constructor <;> simp [init]

theorem taskRead_frame (g : Cfg) (s : St) :
    (taskRead g s).ps = s.ps ∧ (taskRead g s).k.eof = s.k.eof ∧ (taskRead g s).k.rerr = s.k.rerr ∧
    (taskRead g s).lost = s.lost := by
  unfold taskRead
  split
  · exact ⟨rfl, rfl, rfl, rfl⟩
  · obtain ⟨f1, f2, f3, f4, f5, f6, f7, f8, f9, f10, f11, f12, f13, f14, f15, f16, _⟩ := doRead_frame g s
    exact ⟨f4, f15, f16, f14⟩

theorem tstep_frame (g : Cfg) (s s' : St) (hs : tstep g s = some s') :
    s'.ps = s.ps ∧ s'.k.eof = s.k.eof ∧ s'.k.rerr = s.k.rerr ∧ s'.lost = s.lost := by
  unfold tstep at hs
  split at hs
  · cases hs
  · cases hs; exact taskRead_frame g s
  · next a ht =>
    cases hs
    obtain ⟨k1, k2, k3, k4, k5, k6, k7, _⟩ := consume_frame g s a
    cases hnx : (consume g s a).1 with
    | again =>
      obtain ⟨t1, t2, t3, t4⟩ := taskRead_frame g (consume g s a).2
      simp only [taskNext]
      exact ⟨by rw [t1, k3], by rw [t2, k1], by rw [t3, k1], by rw [t4, k7]⟩
    | dead => exact ⟨k3, by rw [← k1]; rfl, by rw [← k1]; rfl, k7⟩
    | brk =>
      obtain ⟨r1, r2, r3, r4, r5, r6, r7, r8, r9, r10, r11, r12⟩ := rearm_frame (consume g s a).2
      simp only [taskNext]
      split
      · exact ⟨by show (rearm (consume g s a).2).ps = s.ps; rw [r3, k3],
          by show (rearm (consume g s a).2).k.eof = s.k.eof; rw [r11, k1],
          by show (rearm (consume g s a).2).k.rerr = s.k.rerr; rw [r12, k1],
          by show (rearm (consume g s a).2).lost = s.lost; rw [r10, k7]⟩
      · split
        · exact ⟨k3, by rw [← k1]; rfl, by rw [← k1]; rfl, k7⟩
        · exact ⟨k3, by rw [← k1]; rfl, by rw [← k1]; rfl, k7⟩
  · cases hs; exact taskRead_frame g s

theorem drain_step (g : Cfg) (s s' : St) (a : Act) (hc : Core g s) (hd : Drain g s) (hs : step g s a = some s') :
    Drain g s' := by
  obtain ⟨d1, d2, d3, d4⟩ := hd
  cases a with
  | push b =>
    simp only [step] at hs
    split at hs
    · cases hs
    · next hcond =>
      cases hs
      simp only [Bool.or_eq_true, not_or, Bool.not_eq_true] at hcond
      refine ⟨d1, d2, fun ha fl hp hr => ?_, d4⟩
      have := (d1 fl (Or.inl hp)).1 hr
      rw [hcond.2] at this; cases this
  | dgram x b =>
    simp only [step] at hs
    split at hs
    · cases hs
    · next hcond =>
      cases hs
      have hu : g.udp = true := by simpa using hcond
      refine ⟨d1, d2, fun ha fl hp hr => ?_, d4⟩
      have := (d1 fl (Or.inl hp)).1 hr
      rw [d2 hu] at this; cases this
  | eof =>
    simp only [step] at hs
    split at hs
    · cases hs
    · next hcond =>
      cases hs
      refine ⟨fun fl h => ⟨fun _ => rfl, (d1 fl h).2⟩, fun hu => by simp [hu] at hcond, d3, d4⟩
  | rderr =>
    simp only [step] at hs
    cases hs
    exact ⟨fun fl h => ⟨(d1 fl h).1, fun _ => rfl⟩, d2, fun _ _ _ _ => Or.inr (Or.inl rfl), d4⟩
  | intr n => simp only [step] at hs; cases hs; exact ⟨d1, d2, d3, d4⟩
  | stale =>
    simp only [step] at hs
    split at hs
    · cases hs
    · cases hs; exact ⟨d1, d2, d3, d4⟩
  | report i o =>
    obtain ⟨r1, r2, r3, r4, r5, r6, r7, r8, r9, r10, r11, r12, r13, r14, r15, r16, r17, r18, r19, r20⟩ := report_frame g s s' i o hs
    have hfl : ∀ fl, (s'.ps = .fin fl ∨ ∃ j, s'.ps = .rd j fl) → fl = flagsOf s i o := by
      intro fl h
      rcases r20 with h0 | ⟨fl', h', e⟩
      · rcases h with h | ⟨j, h⟩ <;> rw [h0] at h <;> cases h
      · rcases h' with h' | h' <;> rcases h with h | ⟨j, h⟩ <;> rw [h'] at h <;> cases h <;> exact e
    refine ⟨fun fl h => ?_, by rw [r4]; exact d2, fun ha fl hp hr => ?_, by rw [r13]; exact d4⟩
    · have := hfl fl h; subst this
      rw [r4, r5]
      refine ⟨fun h' => ?_, fun h' => h'⟩
      simp only [flagsOf, Bool.and_eq_true] at h'; exact h'.2
    · -- a synchronous report with IN goes to the read loop, not to the tail
      exfalso
      have := hfl fl (Or.inl hp); subst this
      have hinn : i = true := by simp only [flagsOf, Bool.and_eq_true] at hr; exact hr.1
      simp only [step] at hs
      unfold report at hs
      split at hs
      case isFalse => cases hs
      cases hs
      rcases dispatch_cases g (setK s (disarm g s.k)) (flagsOf s i o) with ⟨_, _, e⟩ | ⟨h, _⟩ | ⟨_, h, _⟩ | ⟨_, h, _⟩
      · rw [e] at hp; simp [setPs] at hp
      · simp [flagsOf, hinn] at h
      · rw [ha] at h; cases h
      · rw [ha] at h; cases h
  | pstep =>
    simp only [step] at hs
    unfold pstep at hs
    split at hs
    · cases hs
    · next i fl hps =>
      cases hs
      have hasync : g.isAsync = false := by
        cases ha : g.isAsync
        · rfl
        · exact absurd hps (hc.psok.asyncPs ha i fl)
      obtain ⟨f1, f2, f3, f4, f5, f6, f7, f8, f9, f10, f11, f12, f13, f14, f15, f16, _⟩ := doRead_frame g s
      obtain ⟨q1, q2, q3, q4⟩ := doRead_queue g s hc.kind
      have hdc := doRead_closed_iff g s
      obtain ⟨k1, k2, k3, k4, k5, k6, k7, k8, k9, k10, k11, k12⟩ := consume_frame g (doRead g s).2 (doRead g s).1
      obtain ⟨n1, n2⟩ := consume_next g (doRead g s).2 (doRead g s).1
      have herr := consume_err_closed g (doRead g s).2
      have hfl0 := d1 fl (Or.inr ⟨i, hps⟩)
      have hps' : ∀ fl', ((setPs (consume g (doRead g s).2 (doRead g s).1).2 (nextPs g i fl (consume g (doRead g s).2 (doRead g s).1).1)).ps = .fin fl' ∨
          ∃ j, (setPs (consume g (doRead g s).2 (doRead g s).1).2 (nextPs g i fl (consume g (doRead g s).2 (doRead g s).1).1)).ps = .rd j fl') → fl' = fl := by
        intro fl' h
        simp only [setPs, nextPs] at h
        rcases h with h | ⟨j, h⟩
        · split at h
          · split at h <;> cases h <;> rfl
          · cases h; rfl
        · split at h
          · split at h <;> cases h <;> rfl
          · cases h
      refine ⟨fun fl' h => ?_, ?_, fun _ fl' hp hr => ?_, fun _ => ?_⟩
      · have := hps' fl' h; subst this
        show (fl'.rdhup = true → (consume g (doRead g s).2 (doRead g s).1).2.k.eof = true) ∧
             (fl'.err = true → (consume g (doRead g s).2 (doRead g s).1).2.k.rerr = true)
        rw [k1, f15, f16]; exact hfl0
      · show g.udp = true → (consume g (doRead g s).2 (doRead g s).1).2.k.eof = false
        rw [k1, f15]; exact d2
      · have := hps' fl' (Or.inl hp); subst this
        show (consume g (doRead g s).2 (doRead g s).1).2.closed = true ∨ (consume g (doRead g s).2 (doRead g s).1).2.k.rerr = true ∨
             (consume g (doRead g s).2 (doRead g s).1).2.k.qlen = 0
        rw [k1]
        have hp' : nextPs g i fl' (consume g (doRead g s).2 (doRead g s).1).1 = .fin fl' := hp
        cases hnx : (consume g (doRead g s).2 (doRead g s).1).1 with
        | again =>
          exfalso
          rw [hnx] at hp'
          have hcap : loopCap g fl' = none := by simp [loopCap, Flags.hang, hr]
          simp [nextPs, hcap, capReached] at hp'
        | brk =>
          right; right
          have hna : (doRead g s).1.again g = false := by
            cases hag : (doRead g s).1.again g
            · rfl
            · have := n1.mpr hag; rw [hnx] at this; cases this
          have hnc : (doRead g s).1 ≠ .closed := fun h => by have := n2.mpr (Or.inr h); rw [hnx] at this; cases this
          exact q4 hna hnc
        | dead =>
          left
          rcases n2.mp hnx with h | h
          · rw [h]; exact herr
          · have hsc := hdc.mp h
            rcases k12 with h' | ⟨_, h'⟩
            · rw [h', f1]; exact hsc
            · exact h'
      · show (consume g (doRead g s).2 (doRead g s).1).2.lost = 0
        rw [k7, f14]; exact d4 hasync
    · next fl hps =>
      cases hs
      refine ⟨fun fl' h => ?_, ?_, fun _ fl' hp => ?_, fun ha => ?_⟩
      · rcases h with h | ⟨j, h⟩ <;> simp [setPs] at h
      · have : (finish g s fl).k.eof = s.k.eof := by
          unfold finish rearm closeHang; dsimp only; repeat' split
          all_goals simp
        show g.udp = true → (finish g s fl).k.eof = false
        rw [this]; exact d2
      · simp [setPs] at hp
      · show (finish g s fl).lost = 0
        have hl0 := d4 ha
        have hfl0 := d1 fl (Or.inl hps)
        have hq := d3 ha fl hps
        unfold finish
        obtain ⟨r1, r2, r3, r4, r5, r6, r7, r8, r9, r10, r11, r12⟩ := rearm_frame s
        dsimp only
        have key : ∀ t : St, t.closed = s.closed → t.lost = s.lost → t.k.rerr = s.k.rerr → t.k.qlen = s.k.qlen →
            fl.hang = true → (closeHang t).lost = 0 := by
          intro t tc tl tr tq hh
          unfold closeHang
          split
          · rw [tl]; exact hl0
          · next hnc =>
            simp only
            split
            · rfl
            · next hne =>
              rw [tq]
              simp only [Flags.hang, Bool.or_eq_true] at hh
              rcases hh with hh | hh
              · rcases hq hh with h | h | h
                · rw [tc] at hnc; exact absurd h hnc
                · rw [tr] at hne; exact absurd h hne
                · exact h
              · rw [tr] at hne; exact absurd (hfl0.2 hh) hne
        split
        · next hh =>
          split
          · exact key (rearm s) r1 r10 r12 r9 hh
          · exact key s rfl rfl rfl rfl hh
        · split
          · rw [r10]; exact hl0
          · exact hl0
  | tstep =>
    simp only [step] at hs
    obtain ⟨t1, t2, t3, t4⟩ := tstep_frame g s s' hs
    have hasync : g.isAsync = true := by
      cases ha : g.isAsync
      · have := (hc.gate.sync ha).1
        unfold tstep at hs; rw [this] at hs; cases hs
      · rfl
    refine ⟨fun fl h => ?_, by rw [t2]; exact d2, fun ha => (by rw [hasync] at ha; cases ha), fun ha => (by rw [hasync] at ha; cases ha)⟩
    rw [t1] at h; rw [t2, t3]; exact d1 fl h

theorem drain_run (g : Cfg) (as : List Act) : ∀ s, Core g s → Drain g s → Drain g (run g s as) := by
  induction as with
  | nil => intro s _ h; exact h
  | cons a as ih =>
    intro s hc h
    simp only [run]
    split
    · next s' hs => exact ih s' (core_step g s s' a hc hs) (drain_step g s s' a hc h hs)
    · exact ih s hc h

end ReadPath
