import NbioVerif.Model.WsUp
import NbioVerif.Lemmas.WsLoop
/-! The upgrade hand-off: feeding `101 response ++ websocket bytes` to the client parser in ANY segmentation (response and
    first frames in one read included) is feeding the websocket bytes to `Conn.Parse` -/
namespace Ws

theorem headEnd_bound : ∀ (a : Bytes) (n : Nat), headEnd a = some n → 4 ≤ n ∧ n ≤ a.length := by
  intro a
  induction a with
  | nil => intro n h; simp [headEnd] at h
  | cons x xs ih =>
    intro n h
    unfold headEnd at h
    split at h
    · rename_i hp
      cases h
      have : ((x :: xs).take 4).length = 4 := by rw [eq_of_beq hp]; rfl
      rw [List.length_take] at this
      exact ⟨Nat.le_refl _, by omega⟩
    · cases hx : headEnd xs with
      | none => rw [hx] at h; cases h
      | some m =>
        rw [hx] at h; cases h
        have := ih m hx
        simp only [List.length_cons]; omega

theorem headEnd_append : ∀ (a b : Bytes) (n : Nat), headEnd a = some n → headEnd (a ++ b) = some n := by
  intro a
  induction a with
  | nil => intro b n h; simp [headEnd] at h
  | cons x xs ih =>
    intro b n h
    have hb := headEnd_bound _ _ h
    have htake : ((x :: xs) ++ b).take 4 = (x :: xs).take 4 := List.take_append_of_le_length (by omega)
    unfold headEnd at h
    rw [List.cons_append]
    unfold headEnd
    rw [← List.cons_append, htake]
    split at h
    · rename_i hp; rw [if_pos hp]; exact h
    · rename_i hp
      rw [if_neg hp]
      cases hx : headEnd xs with
      | none => rw [hx] at h; cases h
      | some m => rw [hx] at h; rw [ih b m hx]; exact h

/-- a proper prefix of the head does not contain its end -/
theorem headEnd_prefix_none (a b : Bytes) (hb : b ≠ []) (h : headEnd (a ++ b) = some (a ++ b).length) : headEnd a = none := by
  cases ha : headEnd a with
  | none => rfl
  | some n =>
    have h1 := headEnd_append a b n ha
    have h2 := headEnd_bound a n ha
    rw [h1] at h
    cases h
    simp only [List.length_append] at h2
    have : b.length > 0 := List.length_pos_iff.mpr hb
    omega

theorem agrees_of_total (total buf rest : Bytes) (ht : total.take 13 = statusPrefix) (hb : buf ++ rest = total) :
    agreesWithPrefix buf = true := by
  unfold agreesWithPrefix
  have hl : statusPrefix.length = 13 := by decide
  simp only [hl]
  rw [← ht, ← hb, List.take_take]
  have : min (min buf.length 13) 13 = min buf.length 13 := by omega
  rw [this, List.take_append_of_le_length (by omega)]
  simp

theorem upFeed_upgraded (g : Cfg) (e : Env) : ∀ (segs : List Bytes) (u : UpS) (acts : List Act), u.upgraded = true →
    (upFeed g e u segs acts).2 = feed g e u.s segs acts := by
  intro segs
  induction segs with
  | nil => intro u acts _; rfl
  | cons seg segs ih =>
    intro u acts hu
    have hp : upParse g e u seg = ({ u with s := (parse g e u.s seg).s }, parse g e u.s seg) := by
      unfold upParse; simp [hu]
    unfold upFeed feed
    rw [hp]
    simp only
    cases (parse g e u.s seg).err with
    | some er => rfl
    | none => simp only; exact ih _ _ hu

theorem upFeed_handoff_aux (g : Cfg) (e : Env) (hl : g.readLimit = 0) (head ws : Bytes)
    (hpre : (head ++ ws).take 13 = statusPrefix) (hend : headEnd head = some head.length) :
    ∀ (segs : List Bytes) (hd0 : Bytes) (acts : List Act), hd0 ++ segs.flatten = head ++ ws → headEnd hd0 = none →
      (upFeed g e { head := hd0, upgraded := false, s := {} } segs acts).2.obs = (run g e { cache := ws, k := {} } acts).obs := by
  have htot : headEnd (head ++ ws) = some head.length := headEnd_append head ws _ hend
  have hw : Within g {} := by intro _; simp [msgLen, K.len]
  have hnf : nextFrame g {} = .need := by simp [nextFrame, decodeHdr]
  intro segs
  induction segs with
  | nil =>
    intro hd0 acts h0 hn
    simp only [List.flatten_nil, List.append_nil] at h0
    rw [h0, htot] at hn; cases hn
  | cons seg segs ih =>
    intro hd0 acts h0 hn
    have hassoc : (hd0 ++ seg) ++ segs.flatten = head ++ ws := by rw [← h0]; simp
    have hagree := agrees_of_total (head ++ ws) (hd0 ++ seg) segs.flatten hpre hassoc
    cases hbe : headEnd (hd0 ++ seg) with
    | none =>
      have hp : upParse g e { head := hd0, upgraded := false, s := {} } seg =
          ({ head := hd0 ++ seg, upgraded := false, s := {} }, ⟨{}, [], none⟩) := by
        unfold upParse
        simp [hagree, hbe]
      unfold upFeed
      rw [hp]
      simp only [List.append_nil]
      exact ih (hd0 ++ seg) acts hassoc hbe
    | some n =>
      have hn' : n = head.length := by
        have := headEnd_append (hd0 ++ seg) segs.flatten n hbe
        rw [hassoc, htot] at this
        cases this; rfl
      have hb := headEnd_bound _ _ hbe
      have hws : (hd0 ++ seg).drop n ++ segs.flatten = ws := by
        have h1 : ((hd0 ++ seg) ++ segs.flatten).drop n = (hd0 ++ seg).drop n ++ segs.flatten := List.drop_append_of_le_length hb.2
        rw [← h1, hassoc, hn', List.drop_left' rfl]
      have hp : upParse g e { head := hd0, upgraded := false, s := {} } seg =
          ({ head := [], upgraded := true, s := (parse g e {} ((hd0 ++ seg).drop n)).s }, parse g e {} ((hd0 ++ seg).drop n)) := by
        unfold upParse
        simp [hagree, hbe]
      have hfeed : (upFeed g e { head := hd0, upgraded := false, s := {} } (seg :: segs) acts).2 =
          feed g e {} ((hd0 ++ seg).drop n :: segs) acts := by
        unfold upFeed feed
        rw [hp]
        simp only
        cases (parse g e {} ((hd0 ++ seg).drop n)).err with
        | some er => rfl
        | none => simp only; exact upFeed_upgraded g e segs _ _ rfl
      rw [hfeed, feed_flatten g e hl _ {} acts hw hnf]
      simp only [List.flatten_cons, List.nil_append, hws]

/-- C12 (upgrade hand-off): for every 101 response `head` (starting with the status line prefix, ending with its first
    CR LF CR LF) and every websocket byte string `ws` behind it, feeding `head ++ ws` to the client parser in ANY
    segmentation — the end of the response and the first frames in one read, a cut inside the final CR LF CR LF, byte by
    byte — gives the same callbacks, replies, error and final state as one `Conn.Parse` call on `ws` -/
theorem upFeed_handoff (g : Cfg) (e : Env) (hl : g.readLimit = 0) (head ws : Bytes)
    (hpre : (head ++ ws).take 13 = statusPrefix) (hend : headEnd head = some head.length)
    (segs : List Bytes) (hsegs : segs.flatten = head ++ ws) :
    (upFeed g e {} segs []).2.obs = (feed g e {} [ws] []).obs := by
  have h1 := upFeed_handoff_aux g e hl head ws hpre hend segs [] [] (by simpa using hsegs) (by simp [headEnd])
  have hw : Within g {} := by intro _; simp [msgLen, K.len]
  have hnf : nextFrame g {} = .need := by simp [nextFrame, decodeHdr]
  rw [feed_flatten g e hl [ws] {} [] hw hnf]
  simp only [List.flatten_cons, List.flatten_nil, List.append_nil, List.nil_append]
  exact h1

end Ws
