import NbioVerif.Lemmas.StopInv
/-! Registration / scan invariant of the Stop model: what Stop's loop has caught, and what a race leaves behind. -/
namespace StopM

def early (p : Ph) : Prop := p = .accepted ∨ p = .opening

instance (p : Ph) : Decidable (early p) := by unfold early; exact inferInstance

/-- Wait has returned -/
def pastWait (p : SP) : Prop := p = .onStop ∨ p = .pollers ∨ p = .returned
/-- the scan loop has ended -/
def pastScan (p : SP) : Prop := p = .waiting ∨ pastWait p

structure Reg (s : St) : Prop where
  tab     : ∀ (c : Nat) (x : C), s.conns[c]? = some x → isOpen x.ph = true → x.inTable = true
  tab'    : ∀ (c : Nat) (x : C), s.conns[c]? = some x → x.inTable = true → ¬ early x.ph
  snap    : ∀ c ∈ s.snapIn, ∃ x, s.conns[c]? = some x ∧ ¬ early x.ph
  below   : pastScan s.sp → ∀ c, c < s.toScan → ∃ x, s.conns[c]? = some x ∧ x.scanned = true
  norace  : s.raced = false → ∀ (c : Nat) (x : C), s.conns[c]? = some x → x.scanned = true → ¬ early x.ph
  caught  : s.raced = false → ∀ (c : Nat) (x : C), s.conns[c]? = some x → x.scanned = true → isOpen x.ph = true →
              Job.closeConn c ∈ s.asyncQ
  created : s.raced = false → pastSnapshot s.sp = true → s.conns.length = s.toScan
  toscan  : pastSnapshot s.sp = true → s.toScan ≤ s.conns.length
  doneAfter : pastWait s.sp → ∀ c ∈ s.snapIn, ∃ x, s.conns[c]? = some x ∧ x.ph = .done

theorem reg_init : Reg init := by
  refine ⟨?_, ?_, ?_, ?_, ?_, ?_, ?_, ?_, ?_⟩ <;> simp [init, pastSnapshot, pastScan, pastWait]

theorem get_set' {l : List C} {c : Nat} {x : C} (hx : l[c]? = some x) (x' : C) (c' : Nat) :
    (l.set c x')[c']? = if c' = c then some x' else l[c']? := by
  have hlt : c < l.length := by
    rcases List.getElem?_eq_some_iff.mp hx with ⟨hl, _⟩; exact hl
  by_cases hc : c' = c
  · subst hc; simp [hlt]
  · have : ¬ c = c' := fun e => hc e.symm
    simp [List.getElem?_set, hc, this]

/-- general update lemma for a step that moves conn `c` from `x` to `x'` -/
theorem reg_upd {s s' : St} (h : Reg s) {c : Nat} {x : C} (hx : s.conns[c]? = some x) (x' : C)
    (hconns : s'.conns = s.conns.set c x') (hsp : s'.sp = s.sp) (hts : s'.toScan = s.toScan)
    (hsnap : s'.snapIn = s.snapIn) (hraced : s'.raced = false → s.raced = false)
    (ha : isOpen x'.ph = true → x'.inTable = true)
    (hb : x'.inTable = true → ¬ early x'.ph)
    (hc : ¬ early x.ph → ¬ early x'.ph)
    (hd : x.scanned = true → x'.scanned = true)
    (he : x.ph = .done → x'.ph = .done)
    (hf : s'.raced = false → x'.scanned = true → ¬ early x'.ph)
    (hg : s'.raced = false → x'.scanned = true → isOpen x'.ph = true → Job.closeConn c ∈ s'.asyncQ)
    (hh : ∀ c', c' ≠ c → Job.closeConn c' ∈ s.asyncQ → Job.closeConn c' ∈ s'.asyncQ) :
    Reg s' := by
  obtain ⟨h1, h2, h3, h4, h5, h6, h7, h8, h9⟩ := h
  have hget : ∀ c', s'.conns[c']? = if c' = c then some x' else s.conns[c']? := by
    intro c'; rw [hconns]; exact get_set' hx x' c'
  have hlen : s'.conns.length = s.conns.length := by rw [hconns]; simp
  refine ⟨?_, ?_, ?_, ?_, ?_, ?_, ?_, ?_, ?_⟩
  · intro c' y hy; rw [hget] at hy
    split at hy
    · cases hy; exact ha
    · exact h1 c' y hy
  · intro c' y hy; rw [hget] at hy
    split at hy
    · cases hy; exact hb
    · exact h2 c' y hy
  · intro c' hc'; rw [hsnap] at hc'
    obtain ⟨y, hy, hey⟩ := h3 c' hc'
    rw [hget]
    split
    · rename_i e; subst e
      rw [hx] at hy; cases hy
      exact ⟨x', rfl, hc hey⟩
    · exact ⟨y, hy, hey⟩
  · intro hp c' hc'; rw [hsp] at hp; rw [hts] at hc'
    obtain ⟨y, hy, hsy⟩ := h4 hp c' hc'
    rw [hget]
    split
    · rename_i e; subst e
      rw [hx] at hy; cases hy
      exact ⟨x', rfl, hd hsy⟩
    · exact ⟨y, hy, hsy⟩
  · intro hr c' y hy; rw [hget] at hy
    split at hy
    · cases hy; exact hf hr
    · exact h5 (hraced hr) c' y hy
  · intro hr c' y hy; rw [hget] at hy
    split at hy
    · rename_i e; subst e; cases hy; exact hg hr
    · rename_i e
      intro hsy hoy
      exact hh c' e (h6 (hraced hr) c' y hy hsy hoy)
  · intro hr hp; rw [hsp] at hp; rw [hlen, hts]; exact h7 (hraced hr) hp
  · intro hp; rw [hsp] at hp; rw [hlen, hts]; exact h8 hp
  · intro hp c' hc'; rw [hsp] at hp; rw [hsnap] at hc'
    obtain ⟨y, hy, hdy⟩ := h9 hp c' hc'
    rw [hget]
    split
    · rename_i e; subst e
      rw [hx] at hy; cases hy
      exact ⟨x', rfl, he hdy⟩
    · exact ⟨y, hy, hdy⟩

/-- a step that leaves the conns alone -/
theorem reg_same {s s' : St} (h : Reg s) (hconns : s'.conns = s.conns) (hts : s'.toScan = s.toScan)
    (hsnap : s'.snapIn = s.snapIn) (hraced : s'.raced = s.raced)
    (hq : ∀ c', Job.closeConn c' ∈ s.asyncQ → Job.closeConn c' ∈ s'.asyncQ)
    (hps : pastSnapshot s'.sp = pastSnapshot s.sp)
    (hscan : pastScan s'.sp → pastScan s.sp) (hwait : pastWait s'.sp → pastWait s.sp) : Reg s' := by
  obtain ⟨h1, h2, h3, h4, h5, h6, h7, h8, h9⟩ := h
  refine ⟨?_, ?_, ?_, ?_, ?_, ?_, ?_, ?_, ?_⟩
  · rw [hconns]; exact h1
  · rw [hconns]; exact h2
  · rw [hconns, hsnap]; exact h3
  · rw [hconns, hts]; exact fun hp => h4 (hscan hp)
  · rw [hconns, hraced]; exact h5
  · rw [hconns, hraced]; exact fun hr c' y hy hsy hoy => hq c' (h6 hr c' y hy hsy hoy)
  · rw [hconns, hraced, hps, hts]; exact h7
  · rw [hconns, hps, hts]; exact h8
  · rw [hconns, hsnap]; exact fun hp => h9 (hwait hp)

/-- a fresh, unscanned conn is appended -/
theorem reg_append {s s' : St} (h : Reg s) (x : C) (hconns : s'.conns = s.conns ++ [x]) (hsp : s'.sp = s.sp)
    (hts : s'.toScan = s.toScan) (hsnap : s'.snapIn = s.snapIn) (hq : s'.asyncQ = s.asyncQ)
    (hraced : s'.raced = (s.raced || pastSnapshot s.sp))
    (hxs : x.scanned = false) (ha : isOpen x.ph = true → x.inTable = true) (hb : x.inTable = true → ¬ early x.ph) :
    Reg s' := by
  obtain ⟨h1, h2, h3, h4, h5, h6, h7, h8, h9⟩ := h
  have hget : ∀ (c' : Nat) (y : C), s'.conns[c']? = some y → s.conns[c']? = some y ∨ y = x := by
    intro c' y hy
    rw [hconns] at hy
    by_cases hlt : c' < s.conns.length
    · rw [List.getElem?_append_left hlt] at hy; exact Or.inl hy
    · have hge : s.conns.length ≤ c' := Nat.le_of_not_lt hlt
      rw [List.getElem?_append_right hge] at hy
      by_cases h0 : c' - s.conns.length = 0
      · simp [h0] at hy; exact Or.inr hy.symm
      · have : ([x] : List C)[c' - s.conns.length]? = none := by
          apply List.getElem?_eq_none; simp; omega
        rw [this] at hy; cases hy
  have hold : ∀ (c' : Nat) (y : C), s.conns[c']? = some y → s'.conns[c']? = some y := by
    intro c' y hy
    have hlt : c' < s.conns.length := by
      rcases List.getElem?_eq_some_iff.mp hy with ⟨hl, _⟩; exact hl
    rw [hconns, List.getElem?_append_left hlt]; exact hy
  have hr0 : s'.raced = false → s.raced = false ∧ pastSnapshot s.sp = false := by
    intro hr; rw [hraced] at hr; simpa using hr
  refine ⟨?_, ?_, ?_, ?_, ?_, ?_, ?_, ?_, ?_⟩
  · intro c' y hy
    rcases hget c' y hy with hy | hy
    · exact h1 c' y hy
    · subst hy; exact ha
  · intro c' y hy
    rcases hget c' y hy with hy | hy
    · exact h2 c' y hy
    · subst hy; exact hb
  · intro c' hc'; rw [hsnap] at hc'
    obtain ⟨y, hy, hey⟩ := h3 c' hc'
    exact ⟨y, hold c' y hy, hey⟩
  · intro hp c' hc'; rw [hsp] at hp; rw [hts] at hc'
    obtain ⟨y, hy, hsy⟩ := h4 hp c' hc'
    exact ⟨y, hold c' y hy, hsy⟩
  · intro hr c' y hy hsy
    rcases hget c' y hy with hy | hy
    · exact h5 (hr0 hr).1 c' y hy hsy
    · subst hy; rw [hxs] at hsy; cases hsy
  · intro hr c' y hy hsy hoy
    rw [hq]
    rcases hget c' y hy with hy | hy
    · exact h6 (hr0 hr).1 c' y hy hsy hoy
    · subst hy; rw [hxs] at hsy; cases hsy
  · intro hr hp; rw [hsp] at hp; rw [(hr0 hr).2] at hp; cases hp
  · intro hp; rw [hsp] at hp; rw [hconns, hts]; simp; have := h8 hp; omega
  · intro hp c' hc'; rw [hsp] at hp; rw [hsnap] at hc'
    obtain ⟨y, hy, hdy⟩ := h9 hp c' hc'
    exact ⟨y, hold c' y hy, hdy⟩

theorem mem_tableIds (l : List C) (i c : Nat) (h : c ∈ tableIds l i) :
    i ≤ c ∧ ∃ x, l[c - i]? = some x ∧ x.inTable = true := by
  induction l generalizing i with
  | nil => simp [tableIds] at h
  | cons y ys ih =>
    simp only [tableIds] at h
    split at h
    · rename_i hy
      rcases List.mem_cons.mp h with h | h
      · subst h; exact ⟨Nat.le_refl _, y, by simp, hy⟩
      · obtain ⟨hle, x, hx, hxt⟩ := ih (i + 1) h
        refine ⟨by omega, x, ?_, hxt⟩
        have : c - i = (c - (i + 1)) + 1 := by omega
        rw [this]; simpa using hx
    · obtain ⟨hle, x, hx, hxt⟩ := ih (i + 1) h
      refine ⟨by omega, x, ?_, hxt⟩
      have : c - i = (c - (i + 1)) + 1 := by omega
      rw [this]; simpa using hx

theorem allScannedBelow_spec (l : List C) (n : Nat) (h : allScannedBelow l n = true) (c : Nat) (hc : c < n)
    (hl : n ≤ l.length) : ∃ x, l[c]? = some x ∧ x.scanned = true := by
  have hlt : c < l.length := by omega
  simp only [allScannedBelow, List.all_eq_true, List.mem_range] at h
  have := h c hc
  rw [List.getElem?_eq_getElem hlt] at this ⊢
  exact ⟨l[c], rfl, by simpa using this⟩

theorem openCount_zero (l : List C) (h : openCount l = 0) (c : Nat) (x : C) (hx : l[c]? = some x) :
    counted x.ph = false := by
  induction l generalizing c with
  | nil => simp at hx
  | cons y ys ih =>
    simp only [openCount] at h
    cases c with
    | zero =>
      simp at hx; subst hx
      by_cases hy : counted y.ph = true
      · simp [hy] at h
      · simpa using hy
    | succ c =>
      simp at hx
      exact ih (by omega) c hx

/-- both invariants together -/
structure Inv (s : St) : Prop where
  acct : Acct s
  reg  : Reg s

theorem inv_init : Inv init := ⟨acc_init, reg_init⟩

theorem not_early_of {p : Ph} (h : p ≠ .accepted ∧ p ≠ .opening) : ¬ early p := by
  intro e; rcases e with e | e
  · exact h.1 e
  · exact h.2 e

theorem reg_step {s s' : St} {a : Act} (hi : Inv s) (hs : step s a = some s') : Reg s' := by
  obtain ⟨hacct, h⟩ := hi
  cases a with
  | new k =>
    cases k with
    | listener =>
      simp only [step, stepNew] at hs
      split at hs
      · cases hs
        exact reg_append h (fresh .accepted false) rfl rfl rfl rfl rfl rfl rfl (by simp [fresh, isOpen]) (by simp [fresh])
      · cases hs
    | transfer =>
      simp only [step, stepNew] at hs; cases hs
      exact reg_append h (fresh .accepted false) rfl rfl rfl rfl rfl rfl rfl (by simp [fresh, isOpen]) (by simp [fresh])
    | dial =>
      simp only [step, stepNew] at hs; cases hs
      exact reg_append h (fresh .live true) rfl rfl rfl rfl rfl rfl rfl (by simp [fresh])
        (by intro _; simp [fresh, early])
  | «open» c =>
    simp only [step, stepOpen] at hs
    split at hs
    · rename_i x hx
      split at hs
      · rename_i hp; cases hs
        refine reg_upd h hx { x with ph := .opening } rfl rfl rfl rfl (fun r => r) ?_ ?_ ?_ ?_ ?_ ?_ ?_ ?_
        · simp [isOpen]
        · intro ht; exact absurd (h.tab' c x hx ht) (by simp [early, hp])
        · intro he; exact absurd (Or.inl hp) he
        · exact fun r => r
        · simp [hp]
        · intro hr hsx; exact absurd (h.norace hr c x hx hsx) (by simp [early, hp])
        · simp [isOpen]
        · exact fun _ _ m => m
      · cases hs
    · cases hs
  | store c =>
    simp only [step, stepStore] at hs
    split at hs
    · rename_i x hx
      split at hs
      · rename_i hp; cases hs
        refine reg_upd h hx { x with ph := .tabled, inTable := true } rfl rfl rfl rfl (fun r => r) ?_ ?_ ?_ ?_ ?_ ?_ ?_ ?_
        · simp
        · intro _; simp [early]
        · intro _; simp [early]
        · exact fun r => r
        · simp [hp]
        · intro _ _; simp [early]
        · intro hr hsx; exact absurd (h.norace hr c x hx hsx) (by simp [early, hp])
        · exact fun _ _ m => m
      · cases hs
    · cases hs
  | register c ok =>
    simp only [step, stepRegister] at hs
    split at hs
    · rename_i x hx
      split at hs
      · rename_i hp; cases hs
        cases ok
        · refine reg_upd h hx { x with ph := .closing, inTable := false } (by simp) rfl rfl rfl (fun r => r)
            ?_ ?_ ?_ ?_ ?_ ?_ ?_ ?_
          · simp [isOpen]
          · simp
          · intro _; simp [early]
          · exact fun r => r
          · simp [hp]
          · intro _ _; simp [early]
          · simp [isOpen]
          · exact fun _ _ m => m
        · refine reg_upd h hx { x with ph := .live } (by simp) rfl rfl rfl (fun r => r) ?_ ?_ ?_ ?_ ?_ ?_ ?_ ?_
          · intro _; exact h.tab c x hx (by simp [isOpen, hp])
          · intro _; simp [early]
          · intro _; simp [early]
          · exact fun r => r
          · simp [hp]
          · intro _ _; simp [early]
          · intro hr hsx _; exact h.caught hr c x hx hsx (by simp [isOpen, hp])
          · exact fun _ _ m => m
      · cases hs
    · cases hs
  | flip c =>
    simp only [step, stepFlip] at hs
    split at hs
    · rename_i x hx
      split at hs
      · rename_i hp; cases hs
        have hph : x.ph = .tabled ∨ x.ph = .live := by simpa [isOpen] using hp
        refine reg_upd h hx { x with ph := .closing } rfl rfl rfl rfl (fun r => r) ?_ ?_ ?_ ?_ ?_ ?_ ?_ ?_
        · simp [isOpen]
        · intro _; simp [early]
        · intro _; simp [early]
        · exact fun r => r
        · intro hd; rcases hph with e | e <;> simp [e] at hd
        · intro _ _; simp [early]
        · simp [isOpen]
        · exact fun _ _ m => m
      · cases hs
    · cases hs
  | teardown c =>
    simp only [step, stepTeardown] at hs
    split at hs
    · rename_i x hx
      split at hs
      · rename_i hp; cases hs
        refine reg_upd h hx { x with ph := .torn, inTable := false } rfl rfl rfl rfl (fun r => r) ?_ ?_ ?_ ?_ ?_ ?_ ?_ ?_
        · simp [isOpen]
        · simp
        · intro _; simp [early]
        · exact fun r => r
        · simp [hp]
        · intro _ _; simp [early]
        · simp [isOpen]
        · intro c' _ m; exact List.mem_append_left _ m
      · cases hs
    · cases hs
  | asyncRun =>
    simp only [step, stepAsync] at hs
    split at hs
    · cases hs
    · rename_i c q hq
      cases hs
      unfold runCloseConn
      have hmem : ∀ c', c' ≠ c → Job.closeConn c' ∈ s.asyncQ → Job.closeConn c' ∈ q := by
        intro c' hne m; rw [hq] at m
        rcases List.mem_cons.mp m with m | m
        · cases m; exact absurd rfl hne
        · exact m
      split
      · rename_i x hx
        split
        · rename_i hp
          refine reg_upd h hx { x with ph := .torn, inTable := false } rfl rfl rfl rfl (fun r => r) ?_ ?_ ?_ ?_ ?_ ?_ ?_ ?_
          · simp [isOpen]
          · simp
          · intro _; simp [early]
          · exact fun r => r
          · intro hd; simp [hd, isOpen] at hp
          · intro _ _; simp [early]
          · simp [isOpen]
          · intro c' hne m; exact List.mem_append_left _ (hmem c' hne m)
        · rename_i hp
          -- the popped `closeConn c` found the conn already closed: it was not needed by `caught`
          obtain ⟨h1, h2, h3, h4, h5, h6, h7, h8, h9⟩ := h
          refine ⟨h1, h2, h3, h4, h5, ?_, h7, h8, h9⟩
          intro hr c' y hy hsy hoy
          by_cases hc : c' = c
          · subst hc; rw [hx] at hy; cases hy; exact absurd hoy hp
          · exact hmem c' hc (h6 hr c' y hy hsy hoy)
      · rename_i hx
        obtain ⟨h1, h2, h3, h4, h5, h6, h7, h8, h9⟩ := h
        refine ⟨h1, h2, h3, h4, h5, ?_, h7, h8, h9⟩
        intro hr c' y hy hsy hoy
        by_cases hc : c' = c
        · subst hc; rw [hx] at hy; cases hy
        · exact hmem c' hc (h6 hr c' y hy hsy hoy)
    · rename_i c q hq
      cases hs
      unfold runCloseCb
      have hmem : ∀ c', Job.closeConn c' ∈ s.asyncQ → Job.closeConn c' ∈ q := by
        intro c' m; rw [hq] at m
        rcases List.mem_cons.mp m with m | m
        · cases m
        · exact m
      split
      · rename_i x hx
        have hp : x.ph = .torn := by
          have hdue := hacct.cbq c
          have hc1 : s.asyncQ.count (.closeCb c) = q.count (.closeCb c) + 1 := by rw [hq]; simp
          simp only [cbDue, hx] at hdue
          by_cases hp : x.ph = .torn
          · exact hp
          · simp [hp] at hdue; omega
        refine reg_upd h hx { x with ph := .done, cbs := x.cbs + 1 } rfl rfl rfl rfl (fun r => r) ?_ ?_ ?_ ?_ ?_ ?_ ?_ ?_
        · simp [isOpen]
        · intro _; simp [early]
        · intro _; simp [early]
        · exact fun r => r
        · simp
        · intro _ _; simp [early]
        · simp [isOpen]
        · intro c' _ m; exact hmem c' m
      · exact reg_same h rfl rfl rfl rfl hmem rfl (fun p => p) (fun p => p)
  | stopListeners =>
    simp only [step] at hs
    split at hs
    · rename_i hp; cases hs
      exact reg_same h rfl rfl rfl rfl (fun _ m => m) (by simp [pastSnapshot, hp])
        (by simp [pastScan, pastWait]) (by simp [pastWait])
    · cases hs
  | snapshot =>
    simp only [step] at hs
    split at hs
    · rename_i hp; cases hs
      obtain ⟨h1, h2, h3, h4, h5, h6, h7, h8, h9⟩ := h
      refine ⟨h1, h2, ?_, ?_, h5, h6, ?_, ?_, ?_⟩
      · intro c hc
        obtain ⟨_, x, hx, hxt⟩ := mem_tableIds s.conns 0 c hc
        exact ⟨x, by simpa using hx, h2 c x (by simpa using hx) hxt⟩
      · simp [pastScan, pastWait]
      · intro _ _; rfl
      · intro _; exact Nat.le_refl _
      · simp [pastWait]
    · cases hs
  | scan c =>
    simp only [step, stepScan] at hs
    split at hs
    · rename_i hsp
      split at hs
      · rename_i x hx
        split at hs
        · cases hs
        · cases hs
          refine reg_upd h hx { x with scanned := true } rfl rfl rfl rfl ?_ ?_ ?_ ?_ ?_ ?_ ?_ ?_ ?_
          · intro hr; simp at hr; exact hr.1
          · exact h.tab c x hx
          · exact h.tab' c x hx
          · exact fun r => r
          · intro _; rfl
          · exact fun r => r
          · intro hr _
            simp at hr
            exact not_early_of hr.2
          · intro _ _ ho
            have := h.tab c x hx ho
            simp [this]
          · intro c' _ m
            simp only
            split
            · exact List.mem_append_left _ m
            · exact m
      · cases hs
    · cases hs
  | scanEnd =>
    simp only [step] at hs
    split at hs
    · rename_i hp; cases hs
      obtain ⟨h1, h2, h3, h4, h5, h6, h7, h8, h9⟩ := h
      have hps : pastSnapshot s.sp = true := by simp [pastSnapshot, hp.1]
      refine ⟨h1, h2, h3, ?_, h5, h6, ?_, ?_, ?_⟩
      · intro _ c hc
        exact allScannedBelow_spec s.conns s.toScan hp.2 c hc (h8 hps)
      · intro hr _; exact h7 hr hps
      · intro _; exact h8 hps
      · simp [pastWait]
    · cases hs
  | waitReturn =>
    simp only [step] at hs
    split at hs
    · rename_i hp; cases hs
      obtain ⟨h1, h2, h3, h4, h5, h6, h7, h8, h9⟩ := h
      have hps : pastSnapshot s.sp = true := by simp [pastSnapshot, hp.1]
      refine ⟨h1, h2, h3, ?_, h5, h6, ?_, ?_, ?_⟩
      · intro _ c hc; exact h4 (Or.inl hp.1) c hc
      · intro hr _; exact h7 hr hps
      · intro _; exact h8 hps
      · intro _ c hc
        obtain ⟨x, hx, hex⟩ := h3 c hc
        refine ⟨x, hx, ?_⟩
        have hwg := hacct.wg
        rw [hp.2] at hwg
        simp [hps] at hwg
        have hz : openCount s.conns = 0 := by omega
        have := openCount_zero s.conns hz c x hx
        simp [counted] at this
        by_cases hacc : x.ph = .accepted
        · exact absurd (Or.inl hacc) hex
        · exact this hacc
    · cases hs
  | onStop =>
    simp only [step] at hs
    split at hs
    · rename_i hp; cases hs
      exact reg_same h rfl rfl rfl rfl (fun _ m => m) (by simp [pastSnapshot, hp]; decide)
        (by intro _; exact Or.inr (Or.inl hp)) (by intro _; exact Or.inl hp)
    · cases hs
  | stopPollers =>
    simp only [step] at hs
    split at hs
    · rename_i hp; cases hs
      exact reg_same h rfl rfl rfl rfl (fun _ m => m) (by simp [pastSnapshot, hp]; decide)
        (by intro _; exact Or.inr (Or.inr (Or.inl hp))) (by intro _; exact Or.inr (Or.inl hp))
    · cases hs

theorem inv_step {s s' : St} {a : Act} (hi : Inv s) (hs : step s a = some s') : Inv s' :=
  ⟨acct_step hi.acct hs, reg_step hi hs⟩

theorem inv_run {s : St} (as : List Act) (h : Inv s) : Inv (run s as) := by
  induction as generalizing s with
  | nil => exact h
  | cons a as ih =>
    simp only [run]
    split
    · rename_i s' hs; exact ih (inv_step h hs)
    · exact ih h

end StopM
