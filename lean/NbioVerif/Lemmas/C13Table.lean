import NbioVerif.Lemmas.WsTables
/-! C13 per-frame validity table vs an independent transcription of RFC 6455 §5.2/§5.4/§5.5 (+ RFC 7692 §6 for RSV1) -/
namespace Ws

/-- RFC view of one frame header in context.
    `compression`: permessage-deflate negotiated; `expecting`: inside a fragmented message. -/
def rfcFrameOk (compression : Bool) (opcode : Nat) (fin r1 r2 r3 expecting : Bool) : Bool :=
  let isControl := opcode ≥ 8
  let known := opcode ≤ 2 || (8 ≤ opcode && opcode ≤ 10)
  -- §5.2: RSV2, RSV3 must be 0; RSV1 only with the extension, only on the first frame of a data message (RFC 7692 §6)
  let rsvOk := !r2 && !r3 && (!r1 || (compression && (opcode == 1 || opcode == 2)))
  -- §5.5: control frames must not be fragmented
  let ctlOk := !isControl || fin
  -- §5.4: a new data frame must not start inside a fragmented message; a continuation needs one
  let seqOk := (!(opcode == 1 || opcode == 2) || !expecting) && (!(opcode == 0) || expecting)
  known && rsvOk && ctlOk && seqOk

/-- the model's per-frame acceptance: validFrame plus the opcode switch of the frame loop -/
def modelFrameOk (compression : Bool) (opcode : Nat) (fin r1 r2 r3 expecting : Bool) : Bool :=
  (validFrame (cfgOf compression) opcode fin r1 r2 r3 expecting).isNone && opcode ≤ 10

/-- over the whole header space (2 × 16 opcodes × 2⁵ flags) the frame-level decision of nbio is the RFC's -/
theorem frameOk_eq_rfc :
    ∀ comp ∈ [true, false], ∀ op ∈ List.range 16, ∀ fin ∈ [true, false], ∀ r1 ∈ [true, false], ∀ r2 ∈ [true, false],
    ∀ r3 ∈ [true, false], ∀ ex ∈ [true, false],
      modelFrameOk comp op fin r1 r2 r3 ex = rfcFrameOk comp op fin r1 r2 r3 ex := by
  decide

/-- `validFrame` only looks at the compression flag of the configuration -/
theorem validFrame_cfg (g : Cfg) (op : Nat) (fin r1 r2 r3 ex : Bool) :
    validFrame g op fin r1 r2 r3 ex = validFrame (cfgOf g.enableCompression) op fin r1 r2 r3 ex := rfl

end Ws
