import NbioVerif.Model.Ws
/-! probe: C13 per-frame validity table vs an independent transcription of RFC 6455 §5.2/§5.4/§5.5 (+ RFC 7692 §6 for RSV1) -/
namespace Ws

/-- RFC view of one frame header in context.
    `compression`: permessage-deflate negotiated; `expecting`: inside a fragmented message. -/
def rfcFrameOk (compression : Bool) (opcode : Nat) (fin r1 r2 r3 expecting : Bool) : Bool :=
  let isControl := opcode ≥ 8
  let known := opcode ≤ 2 || (8 ≤ opcode && opcode ≤ 10)
  -- §5.2: RSV2, RSV3 must be 0; RSV1 only with the extension, only on the first frame of a data message (RFC 7692 §6)
  let rsvOk := !r2 && !r3 && (!r1 || (compression && (opcode == 1 || opcode == 2)))
  -- §5.2: reserved opcodes fail the connection
  -- §5.5: control frames must not be fragmented
  let ctlOk := !isControl || fin
  -- §5.4: a new data frame must not start inside a fragmented message; a continuation needs one
  let seqOk := (!(opcode == 1 || opcode == 2) || !expecting) && (!(opcode == 0) || expecting)
  known && rsvOk && ctlOk && seqOk

def cfgOf (compression : Bool) : Cfg :=
  { enableCompression := compression, msgLimit := 0, readLimit := 0, maxFrame := 1, isClient := false, maskKey := [] }

/-- the model's per-frame acceptance: validFrame plus the opcode switch of the frame loop -/
def modelFrameOk (compression : Bool) (opcode : Nat) (fin r1 r2 r3 expecting : Bool) : Bool :=
  (validFrame (cfgOf compression) opcode fin r1 r2 r3 expecting).isNone && opcode ≤ 10

/-- everything the RFC allows is accepted (over the whole header space: 16 opcodes × 2⁶ flags) -/
theorem rfc_ok_accepted :
    ∀ comp ∈ [true, false], ∀ op ∈ List.range 16, ∀ fin ∈ [true, false], ∀ r1 ∈ [true, false], ∀ r2 ∈ [true, false],
    ∀ r3 ∈ [true, false], ∀ ex ∈ [true, false],
      rfcFrameOk comp op fin r1 r2 r3 ex = true → modelFrameOk comp op fin r1 r2 r3 ex = true := by
  decide

/-- the converse fails on exactly two classes: a continuation frame outside a fragmented message,
    and RSV1 on control/continuation frames when compression is enabled -/
theorem accepted_not_rfc_classes :
    ∀ comp ∈ [true, false], ∀ op ∈ List.range 16, ∀ fin ∈ [true, false], ∀ r1 ∈ [true, false], ∀ r2 ∈ [true, false],
    ∀ r3 ∈ [true, false], ∀ ex ∈ [true, false],
      modelFrameOk comp op fin r1 r2 r3 ex = true → rfcFrameOk comp op fin r1 r2 r3 ex = false →
        ((op == 0 && !ex) || (comp && r1 && !(op == 1 || op == 2))) = true := by
  decide

end Ws
