import NbioVerif.Lemmas.C08Meta
import NbioVerif.Lemmas.C07Glue
/-! C08: the processor callbacks never dereference a nil request/response on the event sequences the parser
    produces (a nil dereference inside a callback is a panic inside `Parse`). -/
namespace Http
open Scan

/-- whether a message object exists in the processor while the parser is in state `st`:
    `some true` / `some false`, or `none` for states the parser of this role never enters -/
def expectObj (isClient : Bool) : PState → Option Bool
  | .close => none
  | .methodBefore => if isClient then none else some false
  | .method => if isClient then none else some false
  | .pathBefore => if isClient then none else some true
  | .path => if isClient then none else some true
  | .protoBefore => if isClient then none else some true
  | .proto => if isClient then none else some true
  | .protoLF => if isClient then none else some true
  | .clientProtoBefore => if isClient then some false else none
  | .clientProto => if isClient then some false else none
  | .statusCodeBefore => if isClient then some true else none
  | .statusCode => if isClient then some true else none
  | .statusBefore => if isClient then some true else none
  | .status => if isClient then some true else none
  | .statusLF => if isClient then some true else none
  | _ => some true

/-- joint invariant of parser state and processor -/
def ObjInv (g : Cfg) (p : P) (cur : Option Building) : Prop := expectObj g.isClient p.st = some cur.isSome

theorem objInv_init (g : Cfg) : ObjInv g (init g) none := by
  unfold ObjInv init expectObj
  cases g.isClient <;> simp

/-- the outcome of a machine action is compatible with the processor: its events can be consumed and the invariant
    holds afterwards -/
def StepOk (g : Cfg) (cur : Option Building) : Out P Ev → Prop
  | .ok p' _ evs => ∃ cur' out, procRun g.isClient cur evs [] = some (cur', out) ∧ ObjInv g p' cur'
  | .err _ evs => procRun g.isClient cur evs [] ≠ none

theorem byteStep_objInv (g : Cfg) (p : P) (tok : Bytes) (c : UInt8) (cur : Option Building)
    (hI : ObjInv g p cur) : StepOk g cur (byteStep g p tok c) := by
  unfold ObjInv at hI
  cases hc : g.isClient <;> cases cur <;> simp only [hc, Option.isSome] at hI <;>
  (unfold byteStep
   split
   all_goals (rename_i hst; simp only [hst, expectObj, Bool.false_eq_true, if_false, if_true, reduceCtorEq,
     Option.some.injEq] at hI)
   all_goals (simp only [ok, er])
   all_goals (repeat' split)
   all_goals first
     | (simp [StepOk, procRun, procStep, serverStep, clientStep, ObjInv, expectObj, hc, hst, handleMessage]; done)
     | (rename_i hp; have := parseChunk_st _ _ _ hp
        simp [StepOk, procRun, procStep, serverStep, clientStep, ObjInv, expectObj, hc, hst, this]; done)
     | skip)

theorem blockDone_objInv (g : Cfg) (p : P) (d : Bytes) (cur : Option Building)
    (hI : ObjInv g p cur) : StepOk g cur (blockDone g p d) := by
  unfold ObjInv at hI
  unfold blockDone
  split
  · simp [StepOk, er, procRun]
  · simp only [ok, er]
    split
    · rename_i hst
      rw [hst] at hI
      cases cur with
      | none => simp [expectObj] at hI
      | some b =>
        cases hc : g.isClient <;>
          simp [StepOk, procRun, procStep, serverStep, clientStep, ObjInv, expectObj, hc, handleMessage]
    · rename_i hst
      rw [hst] at hI
      cases cur with
      | none => simp [expectObj] at hI
      | some b =>
        cases hc : g.isClient <;>
          simp [StepOk, procRun, procStep, serverStep, clientStep, ObjInv, expectObj, hc]
    · simp [StepOk, procRun]

/-- the accumulator of `procRun` is a prefix of its output -/
theorem procRun_acc (c : Bool) (evs : List Ev) : ∀ (cur : Option Building) (acc : List Delivered),
    procRun c cur evs acc = (procRun c cur evs []).map fun r => (r.1, acc ++ r.2) := by
  induction evs with
  | nil => intro cur acc; simp [procRun]
  | cons e es ih =>
    intro cur acc
    simp only [procRun]
    cases procStep c cur e with
    | none => rfl
    | some r =>
      simp only
      rw [ih r.1 (acc ++ r.2), ih r.1 ([] ++ r.2)]
      cases procRun c r.1 es [] with
      | none => rfl
      | some q => simp

/-- consuming `a ++ b`: first `a`, then `b` -/
theorem procRun_append_ok (c : Bool) (a b : List Ev) (cur cur1 cur2 : Option Building) (o1 o2 : List Delivered)
    (h1 : procRun c cur a [] = some (cur1, o1)) (h2 : procRun c cur1 b [] = some (cur2, o2)) :
    procRun c cur (a ++ b) [] = some (cur2, o1 ++ o2) := by
  rw [procRun_append, h1]
  simp only
  rw [procRun_acc, h2]
  rfl

/-- what a run of the loop emits can be consumed by the processor, and the joint invariant holds at the end -/
def RunOk (g : Cfg) (cur : Option Building) (acc : List Ev) (r : Res P Ev) : Prop :=
  ∃ evs', r.evs = acc ++ evs' ∧ ∃ cur' out, procRun g.isClient cur evs' [] = some (cur', out) ∧
    ∀ p' c', r.fin = .inl (p', c') → ObjInv g p' cur'

theorem runOk_refl (g : Cfg) (cur : Option Building) (acc : List Ev) (p : P) (c : Bytes) (hI : ObjInv g p cur) :
    RunOk g cur acc ⟨acc, .inl (p, c)⟩ :=
  ⟨[], by simp, cur, [], by simp [procRun], by
    intro p' c' h
    simp only [Sum.inl.injEq, Prod.mk.injEq] at h
    obtain ⟨h1, _⟩ := h; subst h1; exact hI⟩

theorem runOk_step (g : Cfg) (cur cur1 : Option Building) (o1 : List Delivered) (acc evs : List Ev) (r : Res P Ev)
    (h1 : procRun g.isClient cur evs [] = some (cur1, o1)) (h2 : RunOk g cur1 (acc ++ evs) r) : RunOk g cur acc r := by
  obtain ⟨evs', e, cur', out, hp, hf⟩ := h2
  exact ⟨evs ++ evs', by rw [e]; simp, cur', o1 ++ out, procRun_append_ok _ _ _ _ _ _ _ _ h1 hp, hf⟩

theorem loop_objInv (g : Cfg) (buf : Bytes) :
    ∀ (fuel i start : Nat) (p : P) (acc : List Ev) (cur : Option Building), ObjInv g p cur →
      RunOk g cur acc (loop (machine g) buf fuel i start p acc) := by
  intro fuel
  induction fuel with
  | zero => intro i start p acc cur _; exact ⟨[], by simp [loop], cur, [], by simp [procRun], by intro p' c' h; simp [loop] at h⟩
  | succ fuel ih =>
    intro i start p acc cur hI
    unfold loop
    by_cases hi : i < buf.length
    · simp only [hi, dite_true]
      cases hblk : (machine g).block p with
      | some n =>
        simp only
        by_cases hl : buf.length - start ≥ n
        · simp only [hl, if_true]
          have hs := blockDone_objInv g p ((buf.drop start).take n) cur hI
          cases hbd : (machine g).blockDone p ((buf.drop start).take n) with
          | err e evs =>
            simp only
            have hbd' : blockDone g p ((buf.drop start).take n) = .err e evs := hbd
            rw [hbd'] at hs
            simp only [StepOk] at hs
            cases hp : procRun g.isClient cur evs [] with
            | none => exact absurd hp hs
            | some q => exact ⟨evs, rfl, q.1, q.2, by rw [hp], by intro p' c' h; cases h⟩
          | ok s' u evs =>
            simp only
            have hbd' : blockDone g p ((buf.drop start).take n) = .ok s' u evs := hbd
            rw [hbd'] at hs
            obtain ⟨cur1, o1, hp, hI1⟩ := hs
            exact runOk_step g cur cur1 o1 acc evs _ hp (ih _ _ _ _ _ hI1)
        · simp only [hl, if_false]
          exact runOk_refl g cur acc p _ hI
      | none =>
        simp only
        have hs := byteStep_objInv g p ((buf.drop start).take (i - start)) buf[i] cur hI
        cases hbs : (machine g).byteStep p ((buf.drop start).take (i - start)) buf[i] with
        | err e evs =>
          simp only
          have hbs' : byteStep g p ((buf.drop start).take (i - start)) buf[i] = .err e evs := hbs
          rw [hbs'] at hs
          simp only [StepOk] at hs
          cases hp : procRun g.isClient cur evs [] with
          | none => exact absurd hp hs
          | some q => exact ⟨evs, rfl, q.1, q.2, by rw [hp], by intro p' c' h; cases h⟩
        | ok s' u evs =>
          simp only
          have hbs' : byteStep g p ((buf.drop start).take (i - start)) buf[i] = .ok s' u evs := hbs
          rw [hbs'] at hs
          obtain ⟨cur1, o1, hp, hI1⟩ := hs
          exact runOk_step g cur cur1 o1 acc evs _ hp (ih _ _ _ _ _ hI1)
    · simp only [hi, dite_false]
      exact runOk_refl g cur acc p _ hI

/-- **No nil dereference.** From any parser state and processor state that satisfy the joint invariant (in particular
    a fresh parser and processor), every `Parse` call emits a callback sequence the processor can consume — no callback
    is made without the request/response it writes to — and the invariant holds again afterwards. -/
theorem implParse_objInv (g : Cfg) (p : P) (cache data : Bytes) (cur : Option Building) (hI : ObjInv g p cur) :
    RunOk g cur [] (implParse (machine g) p cache data []) := by
  unfold implParse
  split
  · exact runOk_refl g cur [] p _ hI
  · exact loop_objInv g _ _ _ _ _ _ _ hI

theorem implParse_objInv_acc (g : Cfg) (p : P) (cache data : Bytes) (acc : List Ev) (cur : Option Building)
    (hI : ObjInv g p cur) : RunOk g cur acc (implParse (machine g) p cache data acc) := by
  unfold implParse
  split
  · exact runOk_refl g cur acc p _ hI
  · exact loop_objInv g _ _ _ _ _ _ _ hI

/-- the whole chain of `Parse` calls the driver runs: the processor can consume everything it emits -/
theorem feedAllL_objInv (g : Cfg) (limit : Nat) :
    ∀ (segs : List Bytes) (p : P) (cache : Bytes) (acc : List Ev) (cur : Option Building), ObjInv g p cur →
      RunOk g cur acc (feedAllL (machine g) limit p cache segs acc) := by
  intro segs
  induction segs with
  | nil => intro p cache acc cur hI; exact runOk_refl g cur acc p cache hI
  | cons seg segs ih =>
    intro p cache acc cur hI
    simp only [feedAllL, parseLC_eq]
    by_cases ht : seg ≠ [] ∧ cache ≠ [] ∧ limit > 0 ∧ cache.length + seg.length > limit
    · have hp : parseL (machine g) limit p cache seg acc = ⟨acc, .inr 11⟩ := by
        unfold parseL; rw [if_pos ht]
      rw [hp]
      exact ⟨[], by simp, cur, [], by simp [procRun], by intro p' c' h; cases h⟩
    · have hp : parseL (machine g) limit p cache seg acc = implParse (machine g) p cache seg acc := by
        unfold parseL; rw [if_neg ht]
      rw [hp]
      have h1 := implParse_objInv_acc g p cache seg acc cur hI
      cases hr : implParse (machine g) p cache seg acc with
      | mk a fin =>
        rw [hr] at h1
        cases fin with
        | inl pr =>
          obtain ⟨p1, c1⟩ := pr
          obtain ⟨evs1, e1, cur1, o1, hp1, hI1⟩ := h1
          simp only at e1
          subst e1
          exact runOk_step g cur cur1 o1 acc evs1 _ hp1 (ih p1 c1 (acc ++ evs1) cur1 (hI1 p1 c1 rfl))
        | inr e => exact h1

/-- delivering call by call is delivering the concatenated events (C06 at message level rests on this) -/
theorem procCalls_flatten (c : Bool) (evss : List (List Ev)) : ∀ (cur : Option Building),
    (procCalls c cur evss).map (fun r => (r.1, r.2.flatten)) = procRun c cur evss.flatten [] := by
  induction evss with
  | nil => intro cur; simp [procCalls, procRun]
  | cons evs rest ih =>
    intro cur
    simp only [procCalls, List.flatten_cons]
    rw [procRun_append]
    cases h1 : procRun c cur evs [] with
    | none => rfl
    | some r =>
      obtain ⟨cur1, o1⟩ := r
      simp only
      rw [procRun_acc, ← ih cur1]
      cases procCalls c cur1 rest with
      | none => rfl
      | some q => simp

end Http
