import NbioVerif.Lemmas.WsRfcRun
import NbioVerif.Lemmas.C12Frame
/-! C12: what one endpoint's WriteMessage puts on the wire, the other endpoint's Parse delivers -/
namespace Ws
open WsF

/-- receiving one encoded frame that passes the checks: one step of the loop -/
theorem run_encoded (gr : Cfg) (er : Env) (isClient : Bool) (key : Bytes) (hk : key.length = 4) (s : S) (acts : List Act)
    (opcode : Nat) (so fin : Bool) (data : Bytes) (rsv1 : Bool) (tail : Bytes)
    (hcache : s.cache = encodeFrame isClient key opcode so fin data rsv1 ++ tail)
    (hop : opcode < 16) (hlen : data.length < 2 ^ 63)
    (hsz : sizeCheck gr (msgLen s) (infoOf isClient opcode so fin data rsv1) = none)
    (hv : validFrame gr (infoOf isClient opcode so fin data rsv1).opcode fin rsv1 false false s.k.expecting = none) :
    run gr er s acts =
      match applyFrame gr er s.k (infoOf isClient opcode so fin data rsv1).opcode data fin rsv1 with
      | .fail k er' => failWith gr er s.cache k acts er'
      | .next k a => run gr er { cache := tail, k } (acts ++ a) := by
  rw [run_unfold, nextFrame_encodeFrame gr isClient key hk s opcode so fin data rsv1 tail hcache hop hlen hsz hv]
  simp only
  cases applyFrame gr er s.k (infoOf isClient opcode so fin data rsv1).opcode data fin rsv1 with
  | fail k e' => rfl
  | next k a =>
    simp only
    rw [hcache, List.drop_left' rfl]

theorem infoOf_opcode (isClient : Bool) (opcode : Nat) (so fin : Bool) (data : Bytes) (rsv1 : Bool) :
    (infoOf isClient opcode so fin data rsv1).opcode = if so then opcode else 0 := rfl

theorem sizeCheck_data (gr : Cfg) (ml : Nat) (isClient : Bool) (opcode : Nat) (so fin : Bool) (data : Bytes) (rsv1 : Bool)
    (hop : (if so then opcode else 0) ≤ 2) (hl : gr.msgLimit > 0 → ml + data.length ≤ gr.msgLimit) :
    sizeCheck gr ml (infoOf isClient opcode so fin data rsv1) = none := by
  have hc : isControl (if so then opcode else 0) = false := by
    unfold isControl
    have : (if so then opcode else 0) ≠ 8 ∧ (if so then opcode else 0) ≠ 9 ∧ (if so then opcode else 0) ≠ 10 := by omega
    simp [this]
  unfold sizeCheck
  simp only [infoOf_opcode, hc, Bool.not_false, Bool.true_and, Bool.and_false, Bool.false_eq_true, if_false]
  have : tooLarge gr ((ml : Int) + (infoOf isClient opcode so fin data rsv1).bodyLen) = false := by
    unfold tooLarge
    have hb : (infoOf isClient opcode so fin data rsv1).bodyLen = (data.length : Int) := by simp [infoOf, hdrOf]
    rw [hb]
    by_cases h0 : gr.msgLimit > 0
    · have := hl h0
      simp only [h0, decide_true, Bool.true_and, decide_eq_false_iff_not]
      omega
    · simp [h0]
  simp [this]

theorem sizeCheck_ctl (gr : Cfg) (ml : Nat) (isClient : Bool) (opcode : Nat) (fin : Bool) (data : Bytes) (rsv1 : Bool)
    (hc : isControl opcode = true) (hl : data.length ≤ 125) :
    sizeCheck gr ml (infoOf isClient opcode true fin data rsv1) = none := by
  unfold sizeCheck
  have hb : (infoOf isClient opcode true fin data rsv1).bodyLen = (data.length : Int) := by simp [infoOf, hdrOf]
  have ho : (infoOf isClient opcode true fin data rsv1).opcode = opcode := rfl
  simp only [ho, hc, Bool.not_true, Bool.false_and, Bool.false_eq_true, if_false, Bool.and_true, hb]
  have : ¬ ((data.length : Int) > 125) := by omega
  simp [this]

/-- receiver state while the sender is inside the fragmentation loop of one message:
    `first` = the next frame is the first one, `acc` = payload assembled so far, `c0` = the message is compressed -/
structure Mid (k : K) (op : Nat) (c0 : Bool) (acc : Bytes) (first rsv1 : Bool) : Prop where
  alive : k.connClosed = false
  start : first = true → k.message = none ∧ k.msgType = 0 ∧ k.expecting = false ∧ rsv1 = c0 ∧ acc = []
  cont : first = false → k.expecting = true ∧ k.msgType = op ∧ k.compress = c0 ∧ k.message.getD [] = acc ∧ rsv1 = false

theorem appendBody_facts (k0 : K) (b : Bytes) : (appendBody k0 b).connClosed = k0.connClosed ∧ (appendBody k0 b).msgType = k0.msgType ∧
    (appendBody k0 b).compress = k0.compress ∧ (appendBody k0 b).nwrites = k0.nwrites ∧ (appendBody k0 b).expecting = k0.expecting ∧
    (appendBody k0 b).message.getD [] = k0.message.getD [] ++ b := by
  unfold appendBody
  split
  · simp
  · rename_i hb
    have : b = [] := List.eq_nil_of_length_eq_zero (by omega)
    simp [this]

/-- the state after the frame `fragments` writes next has been received -/
theorem mid_step (k : K) (op : Nat) (hop : op = 1 ∨ op = 2) (c0 : Bool) (acc chunk : Bytes) (first rsv1 : Bool)
    (hm : Mid k op c0 acc first rsv1) :
    let k1 := appendBody (startMsg k (if first then op else 0) rsv1) chunk
    k1.connClosed = false ∧ k1.msgType = op ∧ k1.compress = c0 ∧ k1.message.getD [] = acc ++ chunk ∧ k1.nwrites = k.nwrites := by
  simp only
  obtain ⟨a1, a2, a3, a4, _, a6⟩ := appendBody_facts (startMsg k (if first then op else 0) rsv1) chunk
  rw [a1, a2, a3, a4, a6]
  cases first with
  | true =>
    obtain ⟨h1, h2, _, h4, h5⟩ := hm.start rfl
    subst h4; subst h5
    have hs : startMsg k op rsv1 = { k with msgType := op, compress := rsv1 } := by unfold startMsg; simp [h2]
    simp only [if_true]
    rw [hs]
    refine ⟨hm.alive, rfl, rfl, ?_, rfl⟩
    simp [h1]
  | false =>
    obtain ⟨_, h2, h3, h4, _⟩ := hm.cont rfl
    have hne : (k.msgType == 0) = false := by rw [h2]; rcases hop with h | h <;> simp [h]
    have hs : startMsg k 0 rsv1 = k := by unfold startMsg; simp [hne]
    simp only [Bool.false_eq_true, if_false, hs]
    exact ⟨hm.alive, h2, h3, by rw [h4], trivial⟩

theorem validFrame_mid (gr : Cfg) (k : K) (op : Nat) (hop : op = 1 ∨ op = 2) (c0 : Bool) (hc0 : c0 = true → gr.enableCompression = true)
    (acc : Bytes) (first rsv1 fin : Bool) (hm : Mid k op c0 acc first rsv1) :
    validFrame gr (if first then op else 0) fin rsv1 false false k.expecting = none := by
  cases first with
  | true =>
    obtain ⟨_, _, h3, h4, _⟩ := hm.start rfl
    rw [h3, h4]
    unfold validFrame
    cases c0 with
    | false => rcases hop with h | h <;> simp [h]
    | true => rcases hop with h | h <;> simp [h, hc0 rfl]
  | false =>
    obtain ⟨h1, _, _, _, h5⟩ := hm.cont rfl
    rw [h1, h5]
    unfold validFrame
    simp

/-- receiving the frames the fragmentation loop of `WriteMessage` writes for one message: the receiver ends up
    finishing a message whose assembled payload is what was assembled before plus `data` -/
theorem recv_fragments (gr : Cfg) (er : Env) (gs : Cfg) (keyAt : Nat → Bytes) (hkeys : ∀ i, (keyAt i).length = 4)
    (op : Nat) (hop : op = 1 ∨ op = 2) (c0 : Bool) (hc0 : c0 = true → gr.enableCompression = true) (hmf : gs.maxFrame > 0) :
    ∀ (fuel i : Nat) (data : Bytes) (first rsv1 : Bool) (k : K) (acts : List Act) (tail acc : Bytes),
      fuel > data.length → data.length < 2 ^ 63 → Mid k op c0 acc first rsv1 →
      (gr.msgLimit > 0 → acc.length + data.length ≤ gr.msgLimit) →
      ∃ k1 : K, k1.message.getD [] = acc ++ data ∧ k1.msgType = op ∧ k1.compress = c0 ∧ k1.connClosed = false ∧ k1.nwrites = k.nwrites ∧
        ∀ k' a, finishMsg gr er k1 = .next k' a →
          run gr er { cache := (fragments gs keyAt op fuel i data first rsv1).flatten ++ tail, k } acts =
            run gr er { cache := tail, k := k' } (acts ++ a) := by
  intro fuel
  induction fuel with
  | zero => intro i data first rsv1 k acts tail acc hf; omega
  | succ fuel ih =>
    intro i data first rsv1 k acts tail acc hf hlen hm hlim
    have hop16 : op < 16 := by rcases hop with h | h <;> omega
    have hopc : (if first then op else 0) ≤ 2 := by split <;> (rcases hop with h | h <;> omega)
    have hlen_acc : msgLen ({ cache := [], k := k } : S) = acc.length ∨ True := Or.inr trivial
    have hml : k.len = acc.length := by
      cases first with
      | true => obtain ⟨h1, _, _, _, h5⟩ := hm.start rfl; simp [K.len, h1, h5]
      | false => obtain ⟨_, _, _, h4, _⟩ := hm.cont rfl; rw [← h4, getD_len]
    unfold fragments
    simp only
    by_cases hlast : (min data.length gs.maxFrame == data.length) = true
    · -- the final frame
      rw [if_pos hlast]
      simp only [List.flatten_cons, List.flatten_nil, List.append_nil]
      have hst := mid_step k op hop c0 acc data first rsv1 hm
      simp only at hst
      obtain ⟨s1, s2, s3, s4, s5⟩ := hst
      refine ⟨appendBody (startMsg k (if first then op else 0) rsv1) data, s4, s2, s3, s1, s5, ?_⟩
      intro k' a hfin
      have hsz := sizeCheck_data gr k.len gs.isClient op first true data rsv1 hopc (by intro h; rw [hml]; exact hlim h)
      have hv := validFrame_mid gr k op hop c0 hc0 acc first rsv1 true hm
      rw [run_encoded gr er gs.isClient (keyAt i) (hkeys i) { cache := _, k := k } acts op first true data rsv1 tail rfl hop16 hlen hsz
        (by rw [infoOf_opcode]; exact hv)]
      simp only [infoOf_opcode]
      have haf : applyFrame gr er k (if first then op else 0) data true rsv1 =
          finishMsg gr er (appendBody (startMsg k (if first then op else 0) rsv1) data) := by
        unfold applyFrame dataFrame; simp [hopc]
      rw [haf, hfin]
    · -- a non-final frame, then the rest
      rw [if_neg hlast]
      have hn : min data.length gs.maxFrame = gs.maxFrame ∧ gs.maxFrame < data.length := by
        simp only [beq_iff_eq] at hlast
        omega
      rw [hn.1]
      simp only [List.flatten_cons, List.append_assoc]
      have hst := mid_step k op hop c0 acc (data.take gs.maxFrame) first rsv1 hm
      simp only at hst
      obtain ⟨s1, s2, s3, s4, s5⟩ := hst
      have hchunk : (data.take gs.maxFrame).length = gs.maxFrame := by rw [List.length_take]; omega
      have hsz := sizeCheck_data gr k.len gs.isClient op first false (data.take gs.maxFrame) rsv1 hopc
        (by intro h; rw [hml, hchunk]; have := hlim h; omega)
      have hv := validFrame_mid gr k op hop c0 hc0 acc first rsv1 false hm
      rw [run_encoded gr er gs.isClient (keyAt i) (hkeys i) { cache := _, k := k } acts op first false (data.take gs.maxFrame) rsv1 _ rfl
        hop16 (by rw [hchunk]; omega) hsz (by rw [infoOf_opcode]; exact hv)]
      simp only [infoOf_opcode]
      have haf : applyFrame gr er k (if first then op else 0) (data.take gs.maxFrame) false rsv1 =
          .next { appendBody (startMsg k (if first then op else 0) rsv1) (data.take gs.maxFrame) with expecting := true } [] := by
        unfold applyFrame dataFrame; simp [hopc]
      rw [haf]
      simp only [List.append_nil]
      -- the receiver is now in the middle of the message
      have hm' : Mid { appendBody (startMsg k (if first then op else 0) rsv1) (data.take gs.maxFrame) with expecting := true } op c0
          (acc ++ data.take gs.maxFrame) false false :=
        ⟨s1, (fun h => by cases h), (fun _ => ⟨rfl, s2, s3, s4, rfl⟩)⟩
      have hdrop : (data.drop gs.maxFrame).length = data.length - gs.maxFrame := List.length_drop
      obtain ⟨k1, r1, r2, r3, r4, r5, r6⟩ := ih (i + 1) (data.drop gs.maxFrame) false false _ acts tail (acc ++ data.take gs.maxFrame)
        (by rw [hdrop]; omega) (by rw [hdrop]; omega) hm'
        (by intro h; have := hlim h; simp only [List.length_append, hchunk, hdrop]; omega)
      refine ⟨k1, by rw [r1, List.append_assoc, List.take_append_drop], r2, r3, r4, by rw [r5]; exact s5, ?_⟩
      intro k' a hfin
      exact r6 k' a hfin

/-! ### one message, then a list of messages -/

/-- the receiver between messages -/
def Idle (k : K) : Prop := k.message = none ∧ k.msgType = 0 ∧ k.expecting = false ∧ k.connClosed = false

/-- what makes a written message deliverable: text is valid UTF-8, control payloads fit, sizes are within the receiver's
    limit, and the codec gives back what was deflated (the law assumed of compress/flate, in `readAll`'s terms) -/
structure MsgOK (gs gr : Cfg) (es er : Env) (op : Nat) (x : Bytes) : Prop where
  kind : op = 1 ∨ op = 2 ∨ op = 9 ∨ op = 10
  ctl : isControl op = true → x.length ≤ 125
  text : op = 1 → utf8Valid x = true
  size : x.length < 2 ^ 63 ∧ (es.deflate x).length < 2 ^ 63
  limit : gr.msgLimit > 0 → (op = 1 ∨ op = 2) →
    x.length ≤ gr.msgLimit ∧ (gs.writeCompression = true → (es.deflate x).length ≤ gr.msgLimit)
  codec : gs.writeCompression = true → (op = 1 ∨ op = 2) →
    readAll gr.msgLimit ((es.deflate x).length * 2) (er.inflate (es.deflate x)) = .ok x

def delivs (acts : List Act) : List (Nat × Bytes) :=
  acts.filterMap fun a => match a with | .deliver t p => some (t, p) | _ => none

theorem delivs_append (a b : List Act) : delivs (a ++ b) = delivs a ++ delivs b := by simp [delivs, List.filterMap_append]

theorem fragments_nil (g : Cfg) (keyAt : Nat → Bytes) (op i : Nat) (c : Bool) :
    fragments g keyAt op 1 i [] true c = [encodeFrame g.isClient (keyAt i) op true true [] c] := by
  simp [fragments]

/-- what `WriteMessage` writes for a data message, uniformly -/
theorem writeMessage_data (g : Cfg) (e : Env) (i op : Nat) (x : Bytes) (hop : op = 1 ∨ op = 2) :
    writeMessage g e i op x = .ok (fragments g e.keyAt op ((if g.writeCompression then e.deflate x else x).length + 1) i
      (if g.writeCompression then e.deflate x else x) true g.writeCompression) := by
  have hc : isControl op = false := by unfold isControl; rcases hop with h | h <;> simp [h]
  have h12 : (op == 1 || op == 2) = true := by rcases hop with h | h <;> simp [h]
  unfold writeMessage
  simp only [hc, Bool.false_eq_true, if_false, h12, Bool.and_true]
  by_cases hl : (if g.writeCompression = true then e.deflate x else x).length > 0
  · rw [if_pos hl]
  · rw [if_neg hl]
    have h0 : (if g.writeCompression = true then e.deflate x else x) = [] := List.eq_nil_of_length_eq_zero (by omega)
    rw [h0]
    simp [fragments_nil]

theorem recv_message (gr gs : Cfg) (er es : Env) (hkeys : ∀ i, (es.keyAt i).length = 4) (hmf : gs.maxFrame > 0)
    (hcomp : gs.writeCompression = true → gr.enableCompression = true)
    (i op : Nat) (x : Bytes) (hok : MsgOK gs gr es er op x) (ws : List Bytes) (hw : writeMessage gs es i op x = .ok ws)
    (k : K) (hk : Idle k) (acts : List Act) (tail : Bytes) :
    ∃ k' a, Idle k' ∧ delivs a = (if op = 1 ∨ op = 2 then [(op, x)] else []) ∧
      run gr er { cache := ws.flatten ++ tail, k } acts = run gr er { cache := tail, k := k' } (acts ++ a) := by
  obtain ⟨hk1, hk2, hk3, hk4⟩ := hk
  by_cases hdata : op = 1 ∨ op = 2
  · -- text / binary
    rw [writeMessage_data gs es i op x hdata] at hw
    cases hw
    have hm : Mid k op gs.writeCompression [] true gs.writeCompression := ⟨hk4, (fun _ => ⟨hk1, hk2, hk3, rfl, rfl⟩), (fun h => by cases h)⟩
    have hlen : (if gs.writeCompression then es.deflate x else x).length < 2 ^ 63 := by split; exact hok.size.2; exact hok.size.1
    obtain ⟨k1, r1, r2, r3, r4, r5, r6⟩ := recv_fragments gr er gs es.keyAt hkeys op hdata gs.writeCompression hcomp hmf _ i
      (if gs.writeCompression then es.deflate x else x) true gs.writeCompression k acts tail [] (Nat.lt_succ_self _) hlen hm
      (by
        intro h
        have := hok.limit h hdata
        simp only [List.length_nil, Nat.zero_add]
        split
        · rename_i hc; exact this.2 hc
        · exact this.1)
    have hinfl : inflOf gr er k1 = .ok x := by
      unfold inflOf
      rw [r3, r1]
      simp only [List.nil_append]
      cases hc : gs.writeCompression with
      | true => simp only [if_true]; exact hok.codec hc hdata
      | false => simp
    have hgood : k1.msgType = 2 ∨ (k1.msgType = 1 ∧ utf8Valid x = true) := by
      rw [r2]; rcases hdata with h | h
      · exact Or.inr ⟨h, hok.text h⟩
      · exact Or.inl h
    have hfin := finish_deliver gr er k1 x hinfl r4 hgood
    refine ⟨_, _, ?_, ?_, r6 _ _ hfin⟩
    · exact ⟨rfl, rfl, rfl, r4⟩
    · simp [delivs, hdata, r2]
  · -- ping / pong
    have hctl : isControl op = true := by
      unfold isControl; rcases hok.kind with h | h | h | h
      · exact absurd (Or.inl h) hdata
      · exact absurd (Or.inr h) hdata
      · simp [h]
      · simp [h]
    have hx := hok.ctl hctl
    unfold writeMessage at hw
    simp only [hctl, if_true, show ¬ x.length > 125 by omega, if_false] at hw
    cases hw
    simp only [List.flatten_cons, List.flatten_nil, List.append_nil]
    have hop16 : op < 16 := by rcases hok.kind with h | h | h | h <;> omega
    have hsz := sizeCheck_ctl gr k.len gs.isClient op true x false hctl hx
    have hv : validFrame gr op true false false false k.expecting = none := by
      rw [hk3]; unfold validFrame
      rcases hok.kind with h | h | h | h
      · exact absurd (Or.inl h) hdata
      · exact absurd (Or.inr h) hdata
      · simp [h]
      · simp [h]
    rw [run_encoded gr er gs.isClient (es.keyAt i) (hkeys i) { cache := _, k := k } acts op true true x false tail rfl hop16 hok.size.1 hsz hv]
    simp only [infoOf_opcode, if_true]
    rcases hok.kind with h | h | h | h
    · exact absurd (Or.inl h) hdata
    · exact absurd (Or.inr h) hdata
    · subst h
      rw [apply_ping gr er k x true false hk4 hx]
      refine ⟨{ k with nwrites := k.nwrites + 1 }, [.write (encodeFrame gr.isClient (er.keyAt k.nwrites) 10 true true x false)],
        ⟨hk1, hk2, hk3, hk4⟩, by simp [delivs], rfl⟩
    · subst h
      rw [apply_pong gr er k x true false hk4]
      refine ⟨k, [], ⟨hk1, hk2, hk3, hk4⟩, by simp [delivs], rfl⟩

/-- the bytes a sequence of `WriteMessage` calls puts on the conn; `i` = frames written before -/
def wireOf (g : Cfg) (e : Env) : Nat → List (Nat × Bytes) → Bytes
  | _, [] => []
  | i, (op, x) :: ms =>
    match writeMessage g e i op x with
    | .ok ws => ws.flatten ++ wireOf g e (i + ws.length) ms
    | .error _ => wireOf g e i ms

/-- the text and binary messages among what was written -/
def dataOf (ms : List (Nat × Bytes)) : List (Nat × Bytes) := ms.filter fun m => m.1 == 1 || m.1 == 2

theorem writeMessage_ok (gs gr : Cfg) (es er : Env) (i op : Nat) (x : Bytes) (hok : MsgOK gs gr es er op x) :
    ∃ ws, writeMessage gs es i op x = .ok ws := by
  by_cases hdata : op = 1 ∨ op = 2
  · exact ⟨_, writeMessage_data gs es i op x hdata⟩
  · have hctl : isControl op = true := by
      unfold isControl; rcases hok.kind with h | h | h | h
      · exact absurd (Or.inl h) hdata
      · exact absurd (Or.inr h) hdata
      · simp [h]
      · simp [h]
    have hx := hok.ctl hctl
    unfold writeMessage
    simp only [hctl, if_true, show ¬ x.length > 125 by omega, if_false]
    exact ⟨_, rfl⟩

theorem recv_messages (gr gs : Cfg) (er es : Env) (hkeys : ∀ i, (es.keyAt i).length = 4) (hmf : gs.maxFrame > 0)
    (hcomp : gs.writeCompression = true → gr.enableCompression = true) :
    ∀ (ms : List (Nat × Bytes)) (i : Nat) (k : K) (acts : List Act), Idle k → (∀ m ∈ ms, MsgOK gs gr es er m.1 m.2) →
      ∃ k' a, Idle k' ∧ delivs a = dataOf ms ∧
        run gr er { cache := wireOf gs es i ms, k } acts = ⟨{ cache := [], k := k' }, acts ++ a, none⟩ := by
  intro ms
  induction ms with
  | nil =>
    intro i k acts hk _
    refine ⟨k, [], hk, rfl, ?_⟩
    have hnf : nextFrame gr { cache := [], k := k } = .need := by simp [nextFrame, decodeHdr]
    simp only [wireOf]
    rw [run_unfold, hnf]
    simp
  | cons m ms ih =>
    intro i k acts hk hall
    obtain ⟨op, x⟩ := m
    have hok := hall (op, x) (List.mem_cons_self ..)
    obtain ⟨ws, hws⟩ := writeMessage_ok gs gr es er i op x hok
    obtain ⟨k1, a1, hk1, hd1, hrun1⟩ := recv_message gr gs er es hkeys hmf hcomp i op x hok ws hws k hk acts
      (wireOf gs es (i + ws.length) ms)
    obtain ⟨k2, a2, hk2, hd2, hrun2⟩ := ih (i + ws.length) k1 (acts ++ a1) hk1 (fun m hm => hall m (List.mem_cons_of_mem _ hm))
    refine ⟨k2, a1 ++ a2, hk2, ?_, ?_⟩
    · rw [delivs_append, hd1, hd2]
      simp only [dataOf, List.filter_cons]
      by_cases h : op = 1 ∨ op = 2
      · have : (op == 1 || op == 2) = true := by rcases h with h | h <;> simp [h]
        simp [h, this]
      · have : (op == 1 || op == 2) = false := by
          simp only [not_or] at h; simp [h.1, h.2]
        simp [h, this]
    · simp only [wireOf, hws]
      rw [hrun1, hrun2, List.append_assoc]

/-- the application's `WriteMessage` calls as the model driver runs them (`appWrite`, one per `W`/`X` op), from state `k` -/
def appWrites (g : Cfg) (e : Env) : K → List (Nat × Bytes) → Bytes
  | _, [] => []
  | k, (op, x) :: ms =>
    match (appWrite g e k op x).2 with
    | .ok ws => ws.flatten ++ appWrites g e (appWrite g e k op x).1 ms
    | .error _ => appWrites g e (appWrite g e k op x).1 ms

/-- bridge: on a live conn the driver's `appWrite` sequence writes exactly `wireOf` -/
theorem appWrites_eq_wireOf (g : Cfg) (e : Env) : ∀ (ms : List (Nat × Bytes)) (k : K), k.connClosed = false →
    appWrites g e k ms = wireOf g e k.nwrites ms := by
  intro ms
  induction ms with
  | nil => intro k _; rfl
  | cons m ms ih =>
    intro k hk
    obtain ⟨op, x⟩ := m
    unfold appWrites wireOf
    unfold appWrite
    cases hw : writeMessage g e k.nwrites op x with
    | error er => simp only; exact ih k hk
    | ok ws =>
      simp only [hk, Bool.false_eq_true, if_false]
      rw [ih _ (by simpa using hk)]

end Ws
