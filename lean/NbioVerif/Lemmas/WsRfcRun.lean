import NbioVerif.Lemmas.WsRfc
/-! C13: lockstep of the Parse model with the RFC transcription over the decoded frame list -/
namespace Ws
open WsF

def NoDeliver (l : List Act) : Prop := ∀ t p, Act.deliver t p ∉ l

theorem noDeliver_nil : NoDeliver [] := by intro t p h; cases h

theorem noDeliver_closeReply (g : Cfg) (e : Env) (k : K) (er : Err) : NoDeliver (closeReply g e k er) := by
  intro t p h
  obtain ⟨b, hb⟩ := closeReply_writes g e k er _ h
  cases hb

theorem noDeliver_send_close (g : Cfg) (e : Env) (k : K) (op : Nat) (d : Bytes) : NoDeliver (send g e k op d ++ [.closeConn]) := by
  intro t p h
  rcases List.mem_append.mp h with h | h
  · obtain ⟨b, hb⟩ := send_writes g e k op d _ h; cases hb
  · simp at h

/-! ### once the conn is closed nothing more happens -/

theorem dispatch_closed (g : Cfg) (e : Env) (k : K) (op : Nat) (d : Bytes) (h : k.connClosed = true) :
    dispatch g e k op d = (k, []) := by
  unfold dispatch; simp [h]

theorem applyFrame_closed (g : Cfg) (e : Env) (k : K) (op : Nat) (body : Bytes) (fin r1 : Bool) (h : k.connClosed = true) :
    (∃ k' er, applyFrame g e k op body fin r1 = .fail k' er ∧ k'.connClosed = true) ∨
    (∃ k', applyFrame g e k op body fin r1 = .next k' [] ∧ k'.connClosed = true) := by
  have hs : (startMsg k op r1).connClosed = true := by unfold startMsg; split <;> simpa using h
  have ha : (appendBody (startMsg k op r1) body).connClosed = true := by unfold appendBody; split <;> simpa using hs
  unfold applyFrame
  split
  · unfold dataFrame
    simp only
    split
    · unfold finishMsg
      simp only
      split
      · exact Or.inl ⟨_, _, rfl, ha⟩
      · exact Or.inl ⟨_, _, rfl, ha⟩
      · exact Or.inl ⟨_, _, rfl, ha⟩
      · rw [dispatch_closed _ _ _ _ _ (by simpa using ha)]
        exact Or.inr ⟨_, rfl, ha⟩
    · exact Or.inr ⟨_, rfl, ha⟩
  · split
    · exact Or.inl ⟨_, _, rfl, h⟩
    · rw [dispatch_closed _ _ _ _ _ h]
      exact Or.inr ⟨_, rfl, h⟩

theorem closeReply_closed (g : Cfg) (e : Env) (k : K) (er : Err) (h : k.connClosed = true) : closeReply g e k er = [] := by
  unfold closeReply send; simp [h]

theorem run_closed (g : Cfg) (e : Env) : ∀ (n : Nat) (s : S) (acts : List Act), s.cache.length ≤ n → s.k.connClosed = true →
    (run g e s acts).acts = acts ∧ (run g e s acts).s.k.connClosed = true := by
  intro n
  induction n with
  | zero =>
    intro s acts hn hc
    have hcn : s.cache = [] := List.eq_nil_of_length_eq_zero (by omega)
    have hnf : nextFrame g s = .need := by simp [nextFrame, decodeHdr, hcn]
    rw [run_unfold g e s acts, hnf]
    exact ⟨rfl, hc⟩
  | succ n ih =>
    intro s acts hn hc
    rw [run_unfold g e s acts]
    cases hnf : nextFrame g s with
    | need => exact ⟨rfl, hc⟩
    | err er => simp [failWith, closeReply_closed g e s.k er hc, hc]
    | frame total op body fin r1 =>
      simp only
      have ht := nextFrame_total g s total op body fin r1 hnf
      rcases applyFrame_closed g e s.k op body fin r1 hc with ⟨k', er, h1, h2⟩ | ⟨k', h1, h2⟩
      · rw [h1]; simp [failWith, closeReply_closed g e k' er h2, h2]
      · rw [h1]
        simp only [List.append_nil]
        exact ih { cache := s.cache.drop total, k := k' } acts (by simp only [List.length_drop]; omega) h2

/-! ### facts about frames the specification decoder hands out -/

theorem mkD1_complete (b : Bytes) (x0 x1 : UInt8) (v hl : Nat) (tb : Bool) (f : Rfc.Frame) (total : Nat)
    (h : RfcM.mkD1 b x0 x1 v hl tb = .frame f total) (hp : f.partial = false) :
    f.topbit = false ∧ f.payload.length = f.declared ∧ f.op < 16 := by
  unfold RfcM.mkD1 at h
  simp only at h
  by_cases htb : tb = true
  · rw [if_pos htb] at h; cases h; simp at hp
  · rw [if_neg htb] at h
    by_cases hlen : b.length < (if x1.toNat ≥ 128 then hl + 4 else hl) + v
    · rw [if_pos hlen] at h; cases h; simp at hp
    · rw [if_neg hlen] at h
      cases h
      refine ⟨by simpa using htb, ?_, by simp only; omega⟩
      simp only
      have : ((b.drop (if x1.toNat ≥ 128 then hl + 4 else hl)).take v).length = v := by
        rw [List.length_take, List.length_drop]; omega
      split
      · rename_i hm
        simp only [hm, if_true] at this
        rw [maskSpec_length]; simpa using this
      · rename_i hm
        simp only [hm, if_false] at this
        simpa using this

theorem decode1_complete (b : Bytes) (f : Rfc.Frame) (total : Nat) (h : RfcM.decode1 b = .frame f total) (hp : f.partial = false) :
    f.topbit = false ∧ f.payload.length = f.declared ∧ f.op < 16 := by
  unfold RfcM.decode1 at h
  split at h
  · simp only at h
    repeat' split at h
    all_goals first | (cases h; done) | exact mkD1_complete _ _ _ _ _ _ _ _ h hp
  · cases h

/-! ### what the handlers do, frame by frame -/

theorem apply_ping (g : Cfg) (e : Env) (k : K) (p : Bytes) (fin r1 : Bool) (hk : k.connClosed = false) (hp : p.length ≤ 125) :
    applyFrame g e k 9 p fin r1 =
      .next { k with nwrites := k.nwrites + 1 } [.write (encodeFrame g.isClient (e.keyAt k.nwrites) 10 true true p false)] := by
  have hw : writeMessage g e k.nwrites 10 p = .ok [encodeFrame g.isClient (e.keyAt k.nwrites) 10 true true p false] := by
    unfold writeMessage
    have h1 : isControl 10 = true := by decide
    have h2 : ¬ p.length > 125 := by omega
    simp only [h1, if_true, h2, if_false]
  have hs : send g e k 10 p = [.write (encodeFrame g.isClient (e.keyAt k.nwrites) 10 true true p false)] := by
    unfold send; simp [hk, hw]
  unfold applyFrame dispatch
  simp only [show ¬ (9 ≤ 2) by omega, show ¬ (9 > 10) by omega, if_false, hk, Bool.false_eq_true]
  have hh : handleWs g e k 9 p = (send g e k 10 p, false) := rfl
  rw [hh, hs]
  simp [countWrites]

theorem apply_pong (g : Cfg) (e : Env) (k : K) (p : Bytes) (fin r1 : Bool) (hk : k.connClosed = false) :
    applyFrame g e k 10 p fin r1 = .next k [] := by
  unfold applyFrame dispatch
  simp only [show ¬ (10 ≤ 2) by omega, show ¬ (10 > 10) by omega, if_false, hk, Bool.false_eq_true]
  have hh : handleWs g e k 10 p = ([], false) := rfl
  rw [hh]
  cases k
  simp_all [countWrites]

theorem send_ctl (g : Cfg) (e : Env) (k : K) (op : Nat) (p : Bytes) (hk : k.connClosed = false) (hop : isControl op = true)
    (hp : p.length ≤ 125) : send g e k op p = [.write (encodeFrame g.isClient (e.keyAt k.nwrites) op true true p false)] := by
  have hw : writeMessage g e k.nwrites op p = .ok [encodeFrame g.isClient (e.keyAt k.nwrites) op true true p false] := by
    unfold writeMessage
    have h2 : ¬ p.length > 125 := by omega
    simp only [hop, if_true, h2, if_false]
  unfold send; simp [hk, hw]

theorem echo_payload (p : Bytes) (h : p.length ≥ 2) : be16 (beDec (p.take 2)) ++ p.drop 2 = p := by
  match p, h with
  | x :: y :: rest, _ => simp only [List.take, List.drop, be16_beDec]; rfl

/-- a close frame: some close frame is written back, the conn is closed, nothing is delivered; a valid one is echoed -/
theorem apply_close (g : Cfg) (e : Env) (k : K) (p : Bytes) (fin r1 : Bool) (hk : k.connClosed = false) (hp : p.length ≤ 125) :
    ∃ a k', applyFrame g e k 8 p fin r1 = .next k' (a ++ [.closeConn]) ∧ k'.connClosed = true ∧ NoDeliver a ∧
      ((p.length = 0 ∨ (p.length ≥ 2 ∧ validCloseCode (beDec (p.take 2)) = true ∧ utf8Valid (p.drop 2) = true)) →
        a = [.write (encodeFrame g.isClient (e.keyAt k.nwrites) 8 true true p false)]) := by
  have nd : ∀ d, NoDeliver (send g e k 8 d) := by
    intro d t q h
    obtain ⟨b, hb⟩ := send_writes g e k 8 d _ h; cases hb
  have shape : ∀ d, handleWs g e k 8 p = (send g e k 8 d ++ [.closeConn], true) →
      ∃ a k', applyFrame g e k 8 p fin r1 = .next k' (a ++ [.closeConn]) ∧ k'.connClosed = true ∧ a = send g e k 8 d := by
    intro d hh
    let k' : K := { k with connClosed := true, nwrites := k.nwrites + countWrites (send g e k 8 d ++ [Act.closeConn]) }
    refine ⟨send g e k 8 d, k', ?_, rfl, rfl⟩
    unfold applyFrame dispatch
    simp only [show ¬ (8 ≤ 2) by omega, show ¬ (8 > 10) by omega, if_false, hk, Bool.false_eq_true, hh, Bool.false_or, k']
  by_cases h0 : p.length = 0
  · have hp0 : p = [] := List.eq_nil_of_length_eq_zero h0
    have hh : handleWs g e k 8 p = (send g e k 8 [] ++ [.closeConn], true) := by
      unfold handleWs; simp [h0]
    obtain ⟨a, k', h1, h2, h3⟩ := shape _ hh
    refine ⟨a, k', h1, h2, by rw [h3]; exact nd _, ?_⟩
    intro _
    rw [h3, hp0, send_ctl g e k 8 [] hk (by decide) (by simp)]
  · by_cases h2 : p.length ≥ 2
    · by_cases hc : validCloseCode (beDec (p.take 2)) = true
      · by_cases hu : utf8Valid (p.drop 2) = true
        · have hh : handleWs g e k 8 p = (send g e k 8 (be16 (beDec (p.take 2)) ++ p.drop 2) ++ [.closeConn], true) := by
            unfold handleWs; simp [h0, h2, hc, hu]
          obtain ⟨a, k', h1, h2', h3⟩ := shape _ hh
          refine ⟨a, k', h1, h2', by rw [h3]; exact nd _, ?_⟩
          intro _
          rw [h3, echo_payload p h2, send_ctl g e k 8 p hk (by decide) hp]
        · have hh : handleWs g e k 8 p = (send g e k 8 (be16 1002 ++ str "invalid UTF-8 bytes") ++ [.closeConn], true) := by
            unfold handleWs; simp [h0, h2, hc, hu]
          obtain ⟨a, k', h1, h2', h3⟩ := shape _ hh
          refine ⟨a, k', h1, h2', by rw [h3]; exact nd _, ?_⟩
          intro hv
          rcases hv with hv | hv
          · exact absurd hv h0
          · exact absurd hv.2.2 hu
      · have hh : handleWs g e k 8 p = (send g e k 8 (be16 1002) ++ [.closeConn], true) := by
          unfold handleWs; simp [h0, h2, hc]
        obtain ⟨a, k', h1, h2', h3⟩ := shape _ hh
        refine ⟨a, k', h1, h2', by rw [h3]; exact nd _, ?_⟩
        intro hv
        rcases hv with hv | hv
        · exact absurd hv h0
        · exact absurd hv.2.1 hc
    · have hh : handleWs g e k 8 p = (send g e k 8 (be16 1002) ++ [.closeConn], true) := by
        unfold handleWs; simp [h0, h2]
      obtain ⟨a, k', h1, h2', h3⟩ := shape _ hh
      refine ⟨a, k', h1, h2', by rw [h3]; exact nd _, ?_⟩
      intro hv
      rcases hv with hv | hv
      · exact absurd hv h0
      · exact absurd hv.1 h2

/-- the payload of the close frame written back: an echo for a valid close frame, protocol error 1002 otherwise -/
theorem close_reply (g : Cfg) (e : Env) (k : K) (p : Bytes) :
    ∃ d, (handleWs g e k 8 p).1 = send g e k 8 d ++ [.closeConn] ∧
      ((p.length = 0 ∨ (p.length ≥ 2 ∧ validCloseCode (beDec (p.take 2)) = true ∧ utf8Valid (p.drop 2) = true)) → d = p) ∧
      (¬ (p.length = 0 ∨ (p.length ≥ 2 ∧ validCloseCode (beDec (p.take 2)) = true ∧ utf8Valid (p.drop 2) = true)) →
        d = be16 1002 ∨ d = be16 1002 ++ str "invalid UTF-8 bytes") := by
  by_cases h0 : p.length = 0
  · have hp0 : p = [] := List.eq_nil_of_length_eq_zero h0
    refine ⟨[], by unfold handleWs; simp [h0], fun _ => hp0.symm, fun hn => absurd (Or.inl h0) hn⟩
  · by_cases h2 : p.length ≥ 2
    · by_cases hc : validCloseCode (beDec (p.take 2)) = true
      · by_cases hu : utf8Valid (p.drop 2) = true
        · refine ⟨be16 (beDec (p.take 2)) ++ p.drop 2, by unfold handleWs; simp [h0, h2, hc, hu], fun _ => echo_payload p h2,
            fun hn => absurd (Or.inr ⟨h2, hc, hu⟩) hn⟩
        · refine ⟨be16 1002 ++ str "invalid UTF-8 bytes", by unfold handleWs; simp [h0, h2, hc, hu], ?_, fun _ => Or.inr rfl⟩
          intro hv; rcases hv with hv | hv
          · exact absurd hv h0
          · exact absurd hv.2.2 hu
      · refine ⟨be16 1002, by unfold handleWs; simp [h0, h2, hc], ?_, fun _ => Or.inl rfl⟩
        intro hv; rcases hv with hv | hv
        · exact absurd hv h0
        · exact absurd hv.2.1 hc
    · refine ⟨be16 1002, by unfold handleWs; simp [h0, h2], ?_, fun _ => Or.inl rfl⟩
      intro hv; rcases hv with hv | hv
      · exact absurd hv h0
      · exact absurd hv.1 h2

/-! ### data frames -/

theorem validFrame_none_data (g : Cfg) (op : Nat) (fin r1 r2 r3 ex : Bool) (h : validFrame g op fin r1 r2 r3 ex = none) (hop : op ≤ 2) :
    (op = 0 ∧ ex = true) ∨ ((op = 1 ∨ op = 2) ∧ ex = false) := by
  have h' : (validFrame g op fin r1 r2 r3 ex).isSome = false := by rw [h]; rfl
  rw [validFrame_isSome] at h'
  simp only [Bool.or_eq_false_iff, Bool.and_eq_false_iff] at h'
  obtain ⟨⟨_, h5⟩, h6⟩ := h'
  cases ex with
  | true =>
    left
    simp only [Bool.true_and, Bool.or_eq_false_iff, beq_eq_false_iff_ne, ne_eq, reduceCtorEq, false_or] at h5
    exact ⟨by omega, rfl⟩
  | false =>
    right
    simp only [Bool.not_false, Bool.true_and, beq_eq_false_iff_ne, ne_eq, reduceCtorEq, false_or] at h6
    exact ⟨by omega, rfl⟩

/-- the RFC's state after a data frame -/
def stData (st : Rfc.St) (f : Rfc.Frame) : Rfc.St :=
  let s : Rfc.St := if f.op != 0 then { inMsg := true, typ := f.op, comp := f.r1, acc := [] } else st
  { s with acc := s.acc ++ f.payload }

theorem inv_data (k : K) (st : Rfc.St) (f : Rfc.Frame) (hi : Inv k st)
    (hv : (f.op = 0 ∧ st.inMsg = true) ∨ ((f.op = 1 ∨ f.op = 2) ∧ st.inMsg = false)) :
    let k1 := appendBody (startMsg k f.op f.r1) f.payload
    let st1 := stData st f
    k1.connClosed = false ∧ k1.msgType = st1.typ ∧ k1.compress = st1.comp ∧ k1.message.getD [] = st1.acc ∧
      (st1.typ = 1 ∨ st1.typ = 2) ∧ st1.inMsg = true ∧ k1.nwrites = k.nwrites := by
  have hab : ∀ (k0 : K) (b : Bytes), (appendBody k0 b).connClosed = k0.connClosed ∧ (appendBody k0 b).msgType = k0.msgType ∧
      (appendBody k0 b).compress = k0.compress ∧ (appendBody k0 b).nwrites = k0.nwrites ∧
      (appendBody k0 b).message.getD [] = k0.message.getD [] ++ b := by
    intro k0 b
    unfold appendBody
    split
    · simp
    · rename_i hb
      have : b = [] := List.eq_nil_of_length_eq_zero (by omega)
      simp [this]
  simp only
  obtain ⟨a1, a2, a3, a4, a5⟩ := hab (startMsg k f.op f.r1) f.payload
  rw [a1, a2, a3, a4, a5]
  rcases hv with ⟨h0, hm⟩ | ⟨h12, hm⟩
  · have hb := hi.busy hm
    have hne : (k.msgType == 0) = false := by
      rw [hb.1]; rcases hb.2.2.2 with h | h <;> simp [h]
    have hs : startMsg k f.op f.r1 = k := by unfold startMsg; simp [hne]
    rw [hs]
    simp only [stData, h0, bne_self_eq_false, Bool.false_eq_true, if_false]
    exact ⟨hi.alive, hb.1, hb.2.1, by rw [hb.2.2.1], hb.2.2.2, hm, trivial⟩
  · have hb := hi.idle hm
    have hs : startMsg k f.op f.r1 = { k with msgType := f.op, compress := f.r1 } := by unfold startMsg; simp [hb.2.1]
    rw [hs]
    have hne : (f.op != 0) = true := by rcases h12 with h | h <;> simp [h]
    simp only [stData, hne, if_true, List.nil_append]
    refine ⟨hi.alive, trivial, trivial, by simp [hb.1], h12, trivial, trivial⟩

/-- the inflate step of a finished message, as `finishMsg` computes it -/
def inflOf (g : Cfg) (e : Env) (k1 : K) : RA :=
  if k1.compress then readAll g.msgLimit ((k1.message.getD []).length * 2) (e.inflate (k1.message.getD [])) else .ok (k1.message.getD [])

theorem finish_fail (g : Cfg) (e : Env) (k1 : K) (h : ∀ out, inflOf g e k1 ≠ .ok out) : ∃ k' er, finishMsg g e k1 = .fail k' er := by
  unfold finishMsg
  simp only
  have : (if k1.compress = true then readAll g.msgLimit ((k1.message.getD []).length * 2) (e.inflate (k1.message.getD []))
      else RA.ok (k1.message.getD [])) = inflOf g e k1 := rfl
  rw [this]
  cases hr : inflOf g e k1 with
  | ok out => exact absurd hr (h out)
  | tooLarge hd => exact ⟨_, _, rfl⟩
  | failed hd => exact ⟨_, _, rfl⟩
  | stuck => exact ⟨_, _, rfl⟩

theorem finish_deliver (g : Cfg) (e : Env) (k1 : K) (out : Bytes) (hr : inflOf g e k1 = .ok out) (hk : k1.connClosed = false)
    (ht : k1.msgType = 2 ∨ (k1.msgType = 1 ∧ utf8Valid out = true)) :
    finishMsg g e k1 = .next { k1 with message := none, msgType := 0, compress := false, expecting := false } [.deliver k1.msgType out] := by
  unfold finishMsg
  simp only
  have : (if k1.compress = true then readAll g.msgLimit ((k1.message.getD []).length * 2) (e.inflate (k1.message.getD []))
      else RA.ok (k1.message.getD [])) = inflOf g e k1 := rfl
  rw [this, hr]
  simp only
  unfold dispatch
  simp only [hk, Bool.false_eq_true, if_false]
  rcases ht with h2 | ⟨h1, hu⟩
  · have hh : ∀ kk, handleWs g e kk k1.msgType out = ([.deliver 2 out], false) := by intro kk; rw [h2]; rfl
    rw [hh]
    simp [countWrites, h2]
  · have hh : ∀ kk, handleWs g e kk k1.msgType out = ([.deliver 1 out], false) := by
      intro kk; rw [h1]; unfold handleWs; simp [hu]
    rw [hh]
    simp [countWrites, h1]

theorem finish_badutf8 (g : Cfg) (e : Env) (k1 : K) (out : Bytes) (hr : inflOf g e k1 = .ok out) (hk : k1.connClosed = false)
    (h1 : k1.msgType = 1) (hu : utf8Valid out = false) :
    ∃ a k', finishMsg g e k1 = .next k' (a ++ [.closeConn]) ∧ k'.connClosed = true ∧ NoDeliver a := by
  unfold finishMsg
  simp only
  have : (if k1.compress = true then readAll g.msgLimit ((k1.message.getD []).length * 2) (e.inflate (k1.message.getD []))
      else RA.ok (k1.message.getD [])) = inflOf g e k1 := rfl
  rw [this, hr]
  simp only
  unfold dispatch
  simp only [hk, Bool.false_eq_true, if_false]
  have hh : ∀ kk, handleWs g e kk k1.msgType out = (send g e kk 8 (be16 1002 ++ str "invalid UTF-8 bytes") ++ [.closeConn], true) := by
    intro kk; rw [h1]; unfold handleWs; simp [hu]
  rw [hh]
  refine ⟨_, _, rfl, by simp, ?_⟩
  intro t q h
  obtain ⟨b, hb⟩ := send_writes g e _ 8 _ _ h; cases hb

/-! ### the lockstep theorem -/

/-- agreement between what Parse did (`r`) and what the RFC prescribes (`v`); `i0` = frames written before the run -/
def Agree (g : Cfg) (e : Env) (i0 : Nat) (r : PR) (v : Rfc.Res) : Prop :=
  match v.verdict, v.may with
  | .accept, none => r.err = none ∧ r.s.k.connClosed = false ∧ r.acts = actsOf g e i0 v.evs
  | .accept, some _ => ∃ tail, r.acts = actsOf g e i0 v.evs ++ tail ∧ NoDeliver tail
  | .closed, _ => r.s.k.connClosed = true ∧ r.acts = actsOf g e i0 v.evs ++ [.closeConn]
  | .reject _, _ => (r.err ≠ none ∨ r.s.k.connClosed = true) ∧ ∃ tail, r.acts = actsOf g e i0 v.evs ++ tail ∧ NoDeliver tail

theorem agree_fail (g : Cfg) (e : Env) (i0 : Nat) (c : Bytes) (k : K) (acts : List Act) (er : Err) (evs : List Rfc.Ev) (i : Int)
    (why : Rfc.Reason) (ha : acts = actsOf g e i0 evs) :
    Agree g e i0 (failWith g e c k acts er) { verdict := .reject why, at_ := i, evs } := by
  unfold Agree failWith
  simp only
  exact ⟨Or.inl (by simp), closeReply g e k er, by rw [ha], noDeliver_closeReply g e k er⟩

theorem agree_fail_may (g : Cfg) (e : Env) (i0 : Nat) (c : Bytes) (k : K) (acts : List Act) (er : Err) (evs : List Rfc.Ev) (i : Int)
    (why : Rfc.Reason) (ha : acts = actsOf g e i0 evs) :
    Agree g e i0 (failWith g e c k acts er) { verdict := .accept, at_ := i, evs, may := some why } := by
  unfold Agree failWith
  simp only
  exact ⟨closeReply g e k er, by rw [ha], noDeliver_closeReply g e k er⟩

theorem agree_idle (g : Cfg) (e : Env) (i0 : Nat) (s : S) (acts : List Act) (evs : List Rfc.Ev) (i : Int) (st : Rfc.St)
    (hi : Inv s.k st) (ha : acts = actsOf g e i0 evs) :
    Agree g e i0 ⟨s, acts, none⟩ { verdict := .accept, at_ := i, evs } := by
  unfold Agree
  simp only
  exact ⟨trivial, hi.alive, ha⟩

/-! ### unfolding the specification one frame at a time -/

theorem rfc_run_reject (rg : Rfc.Cfg) (st : Rfc.St) (i : Nat) (evs : List Rfc.Ev) (f : Rfc.Frame) (fs : List Rfc.Frame) (why : Rfc.Reason)
    (hchk : Rfc.hdrCheck rg st f = some why) (hp : f.partial = false) :
    RfcM.run rg st i evs (f :: fs) = { verdict := .reject why, at_ := i, evs } := by
  rw [RfcM.run]; simp [hchk, hp]

theorem rfc_run_ping (rg : Rfc.Cfg) (st : Rfc.St) (i : Nat) (evs : List Rfc.Ev) (f : Rfc.Frame) (fs : List Rfc.Frame)
    (hchk : Rfc.hdrCheck rg st f = none) (hp : f.partial = false) (hop : f.op = 9) :
    RfcM.run rg st i evs (f :: fs) = RfcM.run rg st (i + 1) (evs ++ [.pong f.payload]) fs := by
  rw [RfcM.run]; simp [hchk, hp, hop]

theorem rfc_run_pong (rg : Rfc.Cfg) (st : Rfc.St) (i : Nat) (evs : List Rfc.Ev) (f : Rfc.Frame) (fs : List Rfc.Frame)
    (hchk : Rfc.hdrCheck rg st f = none) (hp : f.partial = false) (hop : f.op = 10) :
    RfcM.run rg st i evs (f :: fs) = RfcM.run rg st (i + 1) evs fs := by
  rw [RfcM.run]; simp [hchk, hp, hop]

theorem rfc_run_close (rg : Rfc.Cfg) (st : Rfc.St) (i : Nat) (evs : List Rfc.Ev) (f : Rfc.Frame) (fs : List Rfc.Frame)
    (hchk : Rfc.hdrCheck rg st f = none) (hp : f.partial = false) (hop : f.op = 8) :
    RfcM.run rg st i evs (f :: fs) =
      if f.payload.length == 0 then { verdict := .closed, at_ := i, evs := evs ++ [.close []] }
      else if f.payload.length == 1 then { verdict := .reject .closeLen, at_ := i, evs }
      else if !RfcM.closeCodeOk (beDec (f.payload.take 2)) then { verdict := .reject .closeCode, at_ := i, evs }
      else if !utf8Valid (f.payload.drop 2) then { verdict := .reject .closeUtf8, at_ := i, evs }
      else { verdict := .closed, at_ := i, evs := evs ++ [.close f.payload] } := by
  rw [RfcM.run]; simp [hchk, hp, hop]

theorem rfc_run_data (rg : Rfc.Cfg) (st : Rfc.St) (i : Nat) (evs : List Rfc.Ev) (f : Rfc.Frame) (fs : List Rfc.Frame)
    (hchk : Rfc.hdrCheck rg st f = none) (hp : f.partial = false) (hop : f.op ≤ 2) :
    RfcM.run rg st i evs (f :: fs) =
      if !f.fin then RfcM.run rg (stData st f) (i + 1) evs fs
      else match (if (stData st f).comp then rg.infl (stData st f).acc else Rfc.TInfl.ok (stData st f).acc) with
        | .big => { verdict := .reject .tooBig, at_ := i, evs }
        | .err => { verdict := .reject .inflate, at_ := i, evs }
        | .ok msg =>
          if (stData st f).typ == 1 && !utf8Valid msg then { verdict := .reject .utf8, at_ := i, evs }
          else RfcM.run rg {} (i + 1) (evs ++ [.deliver (stData st f).typ msg]) fs := by
  rw [RfcM.run]
  have h9 : (f.op == 9) = false := by simp; omega
  have h10 : (f.op == 10) = false := by simp; omega
  have h8 : (f.op == 8) = false := by simp; omega
  simp only [hchk, hp, Bool.false_eq_true, if_false, h9, h10, h8]
  rfl

theorem nReplies_append (a b : List Rfc.Ev) : nReplies (a ++ b) = nReplies a + nReplies b := by
  induction a with
  | nil => simp [nReplies]
  | cons x xs ih => cases x <;> simp [nReplies, ih] <;> omega

theorem sizeCheck_none_ctl (g : Cfg) (ml op d : Nat) (h : sizeCheck g ml (szHdr op d) = none) (hc : isControl op = true) : d ≤ 125 := by
  unfold sizeCheck szHdr at h
  simp only [hc, Bool.not_true, Bool.false_and, Bool.false_eq_true, if_false, Bool.and_true] at h
  split at h
  · cases h
  · rename_i hn
    simp only [decide_eq_true_eq] at hn
    omega

end Ws
