import NbioVerif.Lemmas.RfcM
import NbioVerif.Lemmas.RfcUtf8
/-! The independent definitions of the specification (`Model/Rfc6455.lean`) equal the model-flavoured twins (`RfcM`) -/
namespace Rfc
open WsF (beDec decLE)

theorem decLE_append_single (l : Bytes) (x : UInt8) : decLE (l ++ [x]) = decLE l + 256 ^ l.length * x.toNat := by
  induction l with
  | nil => simp [decLE]
  | cons y ys ih =>
    simp only [List.cons_append, decLE, ih, List.length_cons, Nat.pow_succ]
    generalize 256 ^ ys.length = P
    rw [Nat.mul_add, ← Nat.mul_assoc, Nat.mul_comm 256 P, Nat.add_assoc]

theorem foldl_be (b : Bytes) : ∀ a : Nat, b.foldl (fun a x => a * 256 + x.toNat) a = a * 256 ^ b.length + decLE b.reverse := by
  induction b with
  | nil => intro a; simp [decLE]
  | cons x xs ih =>
    intro a
    simp only [List.foldl_cons, ih, List.reverse_cons, decLE_append_single, List.length_reverse, List.length_cons, Nat.pow_succ]
    generalize 256 ^ xs.length = P
    rw [Nat.add_mul, Nat.mul_assoc, Nat.mul_comm 256 P, Nat.mul_comm x.toNat P, Nat.add_assoc, Nat.add_comm (P * x.toNat)]

/-- network byte order: the RFC-side fold is the model's `beDec` -/
theorem beNat_eq (b : Bytes) : beNat b = beDec b := by
  unfold beNat beDec
  rw [foldl_be]; simp

/-- §5.3 unmasking is the model's `maskSpec` -/
theorem unmask_eq_from (key : Bytes) : ∀ (b : Bytes) (j : Nat), unmask key j b = (b.zipIdx j).map (fun (x, i) => x ^^^ key[i % 4]!) := by
  intro b
  induction b with
  | nil => intro j; rfl
  | cons x r ih => intro j; simp only [unmask, List.zipIdx_cons, List.map_cons, ih]

theorem unmask_eq (key b : Bytes) : unmask key 0 b = Ws.maskSpec key b := unmask_eq_from key b 0

theorem closeCodeOk_eq (c : Nat) : closeCodeOk c = RfcM.closeCodeOk c := by
  simp only [closeCodeOk, RfcM.closeCodeOk]
  rw [Bool.eq_iff_iff]
  simp only [Bool.and_eq_true, Bool.or_eq_true, Bool.not_eq_true', decide_eq_true_eq, bne_iff_ne, ne_eq, Bool.and_eq_false_iff, decide_eq_false_iff_not]
  omega

theorem mkD1_eq (b : Bytes) (x0 x1 : UInt8) (d hl : Nat) (tb : Bool) : mkD1 b x0 x1 d hl tb = RfcM.mkD1 b x0 x1 d hl tb := by
  unfold mkD1 RfcM.mkD1
  simp only [unmask_eq]

theorem decode1_eq (b : Bytes) : decode1 b = RfcM.decode1 b := by
  match b with
  | [] => rfl
  | [x] => rfl
  | x0 :: x1 :: rest => simp only [decode1, RfcM.decode1, beNat_eq, mkD1_eq]

theorem decode_eq : ∀ (fuel : Nat) (b : Bytes), decode fuel b = RfcM.decode fuel b := by
  intro fuel
  induction fuel with
  | zero => intro b; rfl
  | succ n ih =>
    intro b
    simp only [decode, RfcM.decode, decode1_eq]
    cases RfcM.decode1 b with
    | need => rfl
    | frame f t => simp only [ih]

theorem run_eq (g : Cfg) : ∀ (fs : List Frame) (s : St) (i : Nat) (evs : List Ev), run g s i evs fs = RfcM.run g s i evs fs := by
  intro fs
  induction fs with
  | nil => intro s i evs; simp [run, RfcM.run]
  | cons f fs ih =>
    intro s i evs
    rw [run, RfcM.run]
    cases hdrCheck g s f with
    | some why => rfl
    | none =>
      simp only [ih, beNat_eq, utf8Ok_eq, closeCodeOk_eq]
      rfl

end Rfc
