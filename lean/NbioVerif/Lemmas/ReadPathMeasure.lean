import NbioVerif.Lemmas.ReadPathFrames
/-! ReadPath: every internal step (poller step, task step) strictly decreases a measure — no reader spins -/
namespace ReadPath

def phP : PS → Nat
  | .idle => 0 | .fin _ => 1 | .rd _ _ => 2

def phT (g : Cfg) : TS → Nat
  | .none => 0 | .rd a _ => if a.again g then 2 else 1 | .dec _ => 2 | .queued => 3

def qsum (k : K) : Nat := k.rq.length + k.dq.length + k.intr

/-- input still to be consumed, counter, and the positions of poller and task inside their loops -/
def mu (g : Cfg) (s : St) : Nat := qsum s.k + 3 * s.re + phT g s.task + phP s.ps

/-- a read never adds input; an answer that sends the loop round again consumed some -/
theorem doRead_consumes (g : Cfg) (s : St) (hr : g.rbs > 0) :
    qsum (doRead g s).2.k ≤ qsum s.k ∧ ((doRead g s).1.again g = true → qsum (doRead g s).2.k < qsum s.k) := by
  rcases hd : doRead g s with ⟨a, t⟩
  have h := doRead_rel' g s a t hd
  cases h with
  | closed hc => exact ⟨Nat.le_refl _, fun h => by simp [Ans.again] at h⟩
  | eintr hc hi => simp only [qsum]; exact ⟨by omega, fun _ => by omega⟩
  | dgram x d rest hc hi hu hq => simp only [qsum, hq, List.length_cons]; exact ⟨by omega, fun _ => by omega⟩
  | derr hc hi hu hq he => exact ⟨Nat.le_refl _, fun h => by simp [Ans.again] at h⟩
  | dagain hc hi hu hq he => exact ⟨Nat.le_refl _, fun h => by simp [Ans.again] at h⟩
  | bytes hc hi hu hq =>
    have : s.k.rq.length > 0 := by cases hrq : s.k.rq with
      | nil => exact absurd hrq hq
      | cons x r => simp
    simp only [qsum, List.length_drop]; exact ⟨by omega, fun _ => by omega⟩
  | serr hc hi hu hq he => exact ⟨Nat.le_refl _, fun h => by simp [Ans.again] at h⟩
  | szero hc hi hu hq he hf => exact ⟨Nat.le_refl _, fun h => by simp [Ans.again] at h⟩
  | sagain hc hi hu hq he hf => exact ⟨Nat.le_refl _, fun h => by simp [Ans.again] at h⟩

theorem phT_rd_le (g : Cfg) (a : Ans) (h : Bool) : phT g (.rd a h) ≤ 2 ∧ 1 ≤ phT g (.rd a h) := by
  simp only [phT]; split <;> omega

theorem phT_rd_again (g : Cfg) (a : Ans) (b : Bool) (h : a.again g = true) : phT g (.rd a b) = 2 := by simp [phT, h]
theorem phT_rd_stop (g : Cfg) (a : Ans) (b : Bool) (h : a.again g = false) : phT g (.rd a b) = 1 := by simp [phT, h]

/-- the task's next read leaves at most weight `qsum + 1` -/
theorem mu_taskRead (g : Cfg) (s : St) (b : Bool) (hr : g.rbs > 0) :
    qsum (taskRead g s b).k + phT g (taskRead g s b).task ≤ qsum s.k + 1 ∧
    (taskRead g s b).re = s.re ∧ (taskRead g s b).ps = s.ps := by
  unfold taskRead
  split
  · exact ⟨by simp only [setTask, phT]; omega, rfl, rfl⟩
  · obtain ⟨c1, c2⟩ := doRead_consumes g s hr
    obtain ⟨f1, f2, f3, f4, f5, _⟩ := doRead_frame g s
    simp only [setTask]
    refine ⟨?_, f3, f4⟩
    cases hag : (doRead g s).1.again g
    · rw [phT_rd_stop g _ b hag]; omega
    · have := c2 hag; rw [phT_rd_again g _ b hag]; omega

theorem finish_frame (g : Cfg) (s : St) (fl : Flags) :
    qsum (finish g s fl).k = qsum s.k ∧ (finish g s fl).re = s.re ∧ (finish g s fl).task = s.task := by
  unfold finish
  obtain ⟨r1, r2, r3, r4, r5, r6, r7, r8, r9, r10, r11, r12⟩ := rearm_frame s
  have hq : qsum (rearm s).k = qsum s.k := by unfold rearm; split <;> simp [qsum]
  obtain ⟨h1, h2, h3, h4, h5, h6⟩ := closeHang_frame (rearm s)
  obtain ⟨i1, i2, i3, i4, i5, i6⟩ := closeHang_frame s
  dsimp only
  split <;> split
  · exact ⟨by rw [h1]; exact hq, by rw [h2]; exact r2, by rw [h4]; exact r4⟩
  · exact ⟨by rw [i1], i2, i4⟩
  · exact ⟨hq, r2, r4⟩
  · exact ⟨rfl, rfl, rfl⟩

theorem mu_pstep (g : Cfg) (s s' : St) (hr : g.rbs > 0) (hs : pstep g s = some s') : mu g s' < mu g s := by
  unfold pstep at hs
  split at hs
  · cases hs
  · next i fl hps =>
    cases hs
    obtain ⟨c1, c2⟩ := doRead_consumes g s hr
    obtain ⟨f1, f2, f3, f4, f5, _⟩ := doRead_frame g s
    obtain ⟨k1, k2, k3, k4, _⟩ := consume_frame g (doRead g s).2 (doRead g s).1
    obtain ⟨n1, n2⟩ := consume_next g (doRead g s).2 (doRead g s).1
    unfold mu
    simp only [setPs]
    rw [k1, k2, k4, f3, f5, hps]
    have h2 : phP (.rd i fl) = 2 := rfl
    rw [h2]
    cases hnx : (consume g (doRead g s).2 (doRead g s).1).1 with
    | again =>
      have := c2 (n1.mp hnx)
      simp only [nextPs]
      split
      · have : phP (.fin fl) = 1 := rfl
        omega
      · have : phP (.rd (i + 1) fl) = 2 := rfl
        omega
    | brk => have : phP (nextPs g i fl .brk) = 1 := rfl
             omega
    | dead => have : phP (nextPs g i fl .dead) = 1 := rfl
              omega
  · next fl hps =>
    cases hs
    obtain ⟨h1, h2, h3⟩ := finish_frame g s fl
    unfold mu
    simp only [setPs]
    rw [h1, h2, h3, hps]
    have : phP (.fin fl) = 1 := rfl
    have : phP .idle = 0 := rfl
    omega

theorem mu_tstep (g : Cfg) (s s' : St) (hr : g.rbs > 0) (hs : tstep g s = some s') : mu g s' < mu g s := by
  unfold tstep at hs
  split at hs
  · cases hs
  · next ht =>
    cases hs
    obtain ⟨m1, m2, m3⟩ := mu_taskRead g s s.hup hr
    unfold mu
    rw [m2, m3, ht]
    have : phT g .queued = 3 := rfl
    omega
  · next a hb ht =>
    cases hs
    obtain ⟨k1, k2, k3, k4, _⟩ := consume_frame g s a
    obtain ⟨n1, n2⟩ := consume_next g s a
    cases hnx : (consume g s a).1 with
    | again =>
      have hag := n1.mp hnx
      obtain ⟨m1, m2, m3⟩ := mu_taskRead g (consume g s a).2 hb hr
      simp only [taskNext]
      unfold mu
      rw [m2, m3, k2, k3, ht, phT_rd_again g a hb hag]
      rw [k1] at m1
      omega
    | dead =>
      have := phT_rd_le g a hb
      simp only [taskNext, setTask]
      unfold mu
      simp only
      rw [k1, k2, k3, ht]
      have : phT g .none = 0 := rfl
      omega
    | brk =>
      have hna : a.again g = false := by
        cases hag : a.again g
        · rfl
        · have := n1.mpr hag; rw [hnx] at this; cases this
      have h1 := phT_rd_stop g a hb hna
      have h0 : phT g .none = 0 := rfl
      simp only [taskNext]
      split
      · -- hang-up round: close
        obtain ⟨x1, x2, x3, x4, x5, x6⟩ := closeHang_frame (consume g s a).2
        simp only [setTask]
        unfold mu
        simp only
        rw [x1, x2, x3, k1, k2, k3, ht]
        omega
      split
      · obtain ⟨r1, r2, r3, r4, r5, r6, r7, r8, r9, r10, r11, r12⟩ := rearm_frame (consume g s a).2
        have hq : qsum (rearm (consume g s a).2).k = qsum (consume g s a).2.k := by unfold rearm; split <;> simp [qsum]
        simp only [setTask]
        unfold mu
        simp only
        rw [hq, r2, r3, k1, k2, k3, ht]
        omega
      · split
        · next h00 =>
          simp only [setTask]
          unfold mu
          simp only
          rw [k1, k3, ht]
          omega
        · next h00 =>
          simp only [setTask]
          unfold mu
          simp only
          rw [k1, k2, k3, ht]
          rw [k2] at h00
          have : phT g (.dec (s.re - 1)) = 2 := rfl
          omega
  · next v ht =>
    cases hs
    obtain ⟨m1, m2, m3⟩ := mu_taskRead g s s.hup hr
    unfold mu
    rw [m2, m3, ht]
    have : phT g (.dec v) = 2 := rfl
    omega

/-- every internal step strictly decreases the measure -/
theorem mu_internal (g : Cfg) (s s' : St) (a : Act) (hr : g.rbs > 0) (hi : a.internal = true)
    (hs : step g s a = some s') : mu g s' < mu g s := by
  cases a with
  | pstep => exact mu_pstep g s s' hr hs
  | tstep => exact mu_tstep g s s' hr hs
  | _ => simp [Act.internal] at hi

end ReadPath
