import NbioVerif.Lemmas.BodyReader
/-! `BodyReader` and its allocator: every buffer the reader returns to the allocator (`Free`) was handed out by it
    (`Malloc`) before and is returned at most once, along every program of appends, reads and closes. -/
namespace HttpBody

def ids (br : BR) : List Nat := br.buffers.map (·.id)

def freesOf (t : List AllocEv) : List Nat := t.filterMap fun | .free i => some i | _ => none
def mallocsOf (t : List AllocEv) : List Nat := t.filterMap fun | .malloc i _ _ => some i | _ => none

theorem freesOf_append (a b : List AllocEv) : freesOf (a ++ b) = freesOf a ++ freesOf b := by simp [freesOf]
theorem mallocsOf_append (a b : List AllocEv) : mallocsOf (a ++ b) = mallocsOf a ++ mallocsOf b := by simp [mallocsOf]
theorem freesOf_frees (l : List Nat) : freesOf (l.map AllocEv.free) = l := by
  induction l with
  | nil => rfl
  | cons x xs ih => simp only [List.map_cons, freesOf, List.filterMap_cons] at ih ⊢; rw [ih]
theorem mallocsOf_frees (l : List Nat) : mallocsOf (l.map AllocEv.free) = [] := by
  induction l with
  | nil => rfl
  | cons x xs ih => simp only [List.map_cons, mallocsOf, List.filterMap_cons] at ih ⊢; exact ih

/-- ownership invariant of a reader together with the allocator trace so far -/
structure Own (br : BR) (t : List AllocEv) : Prop where
  nodup : (ids br).Nodup
  held_fresh : ∀ i ∈ ids br, i ∉ freesOf t
  frees_nodup : (freesOf t).Nodup
  malloced : ∀ i, i < br.nextId ↔ i ∈ mallocsOf t
  held_lt : ∀ i ∈ ids br, i < br.nextId
  freed_lt : ∀ i ∈ freesOf t, i < br.nextId
  mallocs_nodup : (mallocsOf t).Nodup

theorem own_init : Own {} [] := by
  constructor <;> simp [ids, freesOf, mallocsOf]

/-- the allocator traffic of `appendBufs`: nothing, or one `Malloc` under the fresh identity, which is appended -/
theorem appendBufs_ids (data : Bytes) (extra id : Nat) : ∀ (bufs : List Buf),
    ((appendBufs bufs data extra id).2 = [] ∧ (appendBufs bufs data extra id).1.map (·.id) = bufs.map (·.id)) ∨
    (∃ n c, (appendBufs bufs data extra id).2 = [.malloc id n c] ∧
      (appendBufs bufs data extra id).1.map (·.id) = bufs.map (·.id) ++ [id]) := by
  intro bufs
  induction bufs with
  | nil => right; exact ⟨_, _, rfl, rfl⟩
  | cons b bs ih =>
    cases bs with
    | nil =>
      simp only [appendBufs]
      split
      · left; exact ⟨rfl, rfl⟩
      · right; exact ⟨_, _, rfl, rfl⟩
    | cons b' bs' =>
      simp only [appendBufs]
      rcases ih with ⟨h1, h2⟩ | ⟨n, c, h1, h2⟩
      · left; exact ⟨h1, by simp only [List.map_cons] at h2 ⊢; rw [h2]⟩
      · right; exact ⟨n, c, h1, by simp only [List.map_cons, List.cons_append] at h2 ⊢; rw [h2]⟩

theorem append_own (maxBody : Nat) (br br' : BR) (data : Bytes) (extra : Nat) (evs t : List AllocEv)
    (ho : Own br t) (h : append maxBody br data extra = some (br', evs)) : Own br' (t ++ evs) := by
  unfold append at h
  split at h
  · cases h; simpa using ho
  · split at h
    · cases h
    · simp only [Option.some.injEq, Prod.mk.injEq] at h
      obtain ⟨h1, h2⟩ := h
      subst h1 h2
      rcases appendBufs_ids data extra br.nextId br.buffers with ⟨e1, e2⟩ | ⟨n, c, e1, e2⟩
      · rw [e1]
        simp only [List.append_nil, List.length_nil, Nat.add_zero]
        exact ⟨by simpa [ids, e2] using ho.nodup, by simpa [ids, e2] using ho.held_fresh, ho.frees_nodup,
          ho.malloced, by simpa [ids, e2] using ho.held_lt, ho.freed_lt, ho.mallocs_nodup⟩
      · rw [e1]
        have hf : freesOf (t ++ [AllocEv.malloc br.nextId n c]) = freesOf t := by simp [freesOf]
        have hm : mallocsOf (t ++ [AllocEv.malloc br.nextId n c]) = mallocsOf t ++ [br.nextId] := by simp [mallocsOf]
        have hnew : br.nextId ∉ ids br := fun hi => Nat.lt_irrefl _ (ho.held_lt _ hi)
        refine ⟨?_, ?_, by rw [hf]; exact ho.frees_nodup, ?_, ?_, ?_, ?_⟩
        rotate_right
        · rw [hm]
          exact List.nodup_append.mpr ⟨ho.mallocs_nodup, by simp, by
            intro a ha b hb; simp only [List.mem_singleton] at hb; subst hb
            intro e; subst e; exact Nat.lt_irrefl _ ((ho.malloced _).mpr ha)⟩
        · simp only [ids, e2]
          exact List.nodup_append.mpr ⟨ho.nodup, by simp, by
            intro a ha b hb; simp only [List.mem_singleton] at hb; subst hb
            intro e; subst e; exact hnew ha⟩
        · intro i hi
          simp only [ids, e2, List.mem_append, List.mem_singleton] at hi
          rw [hf]
          rcases hi with hi | hi
          · exact ho.held_fresh i hi
          · subst hi; intro hfr; exact Nat.lt_irrefl _ (ho.freed_lt _ hfr)
        · intro i
          simp only [List.length_singleton, hm, List.mem_append, List.mem_singleton]
          rw [← ho.malloced i]; omega
        · intro i hi
          simp only [ids, e2, List.mem_append, List.mem_singleton] at hi
          simp only [List.length_singleton]
          rcases hi with hi | hi
          · have := ho.held_lt i hi; omega
          · omega
        · intro i hi
          rw [hf] at hi
          have := ho.freed_lt i hi
          simp only [List.length_singleton]; omega

/-- the `Read` loop returns a prefix of the held buffers to the allocator, in order, and nothing else -/
theorem readLoop_ids : ∀ (fuel : Nat) (br : BR) (need : Nat) (out : Bytes) (evs : List AllocEv) br' out' eof evs',
    readLoop fuel br need out evs = some (br', out', eof, evs') →
    ∃ dropped, evs' = evs ++ dropped.map AllocEv.free ∧ ids br = dropped ++ ids br' ∧ br'.nextId = br.nextId := by
  intro fuel
  induction fuel with
  | zero => intro br need out evs br' out' eof evs' h; simp [readLoop] at h
  | succ fuel ih =>
    intro br need out evs br' out' eof evs' h
    unfold readLoop at h
    split at h
    · split at h
      · simp only [Option.some.injEq, Prod.mk.injEq] at h
        obtain ⟨h1, _, _, h4⟩ := h
        subst h1 h4
        rename_i hb
        exact ⟨[], by simp, by simp [ids], rfl⟩
      · rename_i b bs hb
        split at h
        · obtain ⟨d, e1, e2, e3⟩ := ih _ _ _ _ _ _ _ _ h
          refine ⟨b.id :: d, by rw [e1]; simp, ?_, e3⟩
          simp only [ids, hb, List.map_cons, List.cons_append] at e2 ⊢
          rw [← e2]
        · simp only at h
          split at h
          · obtain ⟨d, e1, e2, e3⟩ := ih _ _ _ _ _ _ _ _ h
            refine ⟨b.id :: d, by rw [e1]; simp, ?_, e3⟩
            simp only [ids, hb, List.map_cons, List.cons_append] at e2 ⊢
            rw [← e2]
          · obtain ⟨d, e1, e2, e3⟩ := ih _ _ _ _ _ _ _ _ h
            exact ⟨d, e1, by simpa [ids, hb] using e2, e3⟩
    · simp only [Option.some.injEq, Prod.mk.injEq] at h
      obtain ⟨h1, _, _, h4⟩ := h
      subst h1 h4
      exact ⟨[], by simp, by simp, rfl⟩

/-- returning a prefix of the held buffers keeps the invariant -/
theorem own_drop (br br' : BR) (t : List AllocEv) (dropped : List Nat) (ho : Own br t)
    (hi : ids br = dropped ++ ids br') (hn : br'.nextId = br.nextId) : Own br' (t ++ dropped.map AllocEv.free) := by
  have hnd := ho.nodup
  rw [hi] at hnd
  obtain ⟨nd1, nd2, nd3⟩ := List.nodup_append.mp hnd
  have hf : freesOf (t ++ dropped.map AllocEv.free) = freesOf t ++ dropped := by rw [freesOf_append, freesOf_frees]
  have hm : mallocsOf (t ++ dropped.map AllocEv.free) = mallocsOf t := by rw [mallocsOf_append, mallocsOf_frees]; simp
  refine ⟨nd2, ?_, ?_, ?_, ?_, ?_, by rw [hm]; exact ho.mallocs_nodup⟩
  · intro i hi'
    rw [hf]
    simp only [List.mem_append, not_or]
    exact ⟨ho.held_fresh i (by rw [hi]; simp [hi']), fun hd => nd3 i hd i hi' rfl⟩
  · rw [hf]
    exact List.nodup_append.mpr ⟨ho.frees_nodup, nd1, by
      intro a ha b hb e; subst e
      exact ho.held_fresh a (by rw [hi]; simp [hb]) ha⟩
  · intro i; rw [hm, hn]; exact ho.malloced i
  · intro i hi'; rw [hn]; exact ho.held_lt i (by rw [hi]; simp [hi'])
  · intro i hi'
    rw [hf] at hi'
    rw [hn]
    rcases List.mem_append.mp hi' with h | h
    · exact ho.freed_lt i h
    · exact ho.held_lt i (by rw [hi]; simp [h])

theorem read_own (br br' : BR) (n : Nat) (out : Bytes) (eof : Bool) (evs t : List AllocEv)
    (ho : Own br t) (h : read br n = some (br', out, eof, evs)) : Own br' (t ++ evs) := by
  unfold read at h
  split at h
  · cases h; simpa using ho
  · split at h
    · cases h; simpa using ho
    · obtain ⟨d, e1, e2, e3⟩ := readLoop_ids _ _ _ _ _ _ _ _ _ h
      rw [e1]
      exact own_drop br br' t d ho e2 e3

theorem close_own (br : BR) (t : List AllocEv) (ho : Own br t) : Own (close br).1 (t ++ (close br).2) := by
  unfold close
  split
  · simpa using ho
  · have : (br.buffers.map fun b => AllocEv.free b.id) = (ids br).map AllocEv.free := by simp [ids]
    simp only [this]
    exact own_drop br _ t (ids br) ho (by simp [ids]) rfl

/-! ### programs with `Close` -/

inductive Op2
  | append (d : Bytes) (extra : Nat)
  | read (n : Nat)
  | close

/-- run an op on (reader, allocator trace so far) -/
def step2 (maxBody : Nat) (s : BR × List AllocEv) : Op2 → BR × List AllocEv
  | .append d extra =>
    match append maxBody s.1 d extra with
    | some (br', evs) => (br', s.2 ++ evs)
    | none => s
  | .read n =>
    match read s.1 n with
    | some (br', _, _, evs) => (br', s.2 ++ evs)
    | none => s
  | .close => ((close s.1).1, s.2 ++ (close s.1).2)

theorem own_program (maxBody : Nat) (ops : List Op2) : ∀ (br : BR) (t : List AllocEv), Own br t →
    Own (ops.foldl (step2 maxBody) (br, t)).1 (ops.foldl (step2 maxBody) (br, t)).2 := by
  induction ops with
  | nil => intro br t ho; exact ho
  | cons op ops ih =>
    intro br t ho
    simp only [List.foldl_cons]
    cases op with
    | append d extra =>
      simp only [step2]
      cases ha : append maxBody br d extra with
      | none => exact ih br t ho
      | some r => exact ih r.1 (t ++ r.2) (append_own maxBody br r.1 d extra r.2 t ho ha)
    | read n =>
      simp only [step2]
      cases hr : read br n with
      | none => exact ih br t ho
      | some r =>
        obtain ⟨br', out, eof, evs⟩ := r
        exact ih br' (t ++ evs) (read_own br br' n out eof evs t ho hr)
    | close =>
      simp only [step2]
      exact ih _ _ (close_own br t ho)

/-- **Free at most once, and only what was handed out.** Along every program of appends, reads and closes (in any
    order, including appends after `Close`), in the allocator trace every identity is returned at most once, every
    returned identity was handed out, no identity is handed out twice, and nothing the reader still holds has been
    returned. -/
theorem free_once (maxBody : Nat) (ops : List Op2) :
    let s := ops.foldl (step2 maxBody) ({}, [])
    (freesOf s.2).Nodup ∧ (∀ i ∈ freesOf s.2, i ∈ mallocsOf s.2) ∧ (mallocsOf s.2).Nodup ∧
      (∀ i ∈ ids s.1, i ∉ freesOf s.2) := by
  have ho := own_program maxBody ops {} [] own_init
  exact ⟨ho.frees_nodup, fun i hi => (ho.malloced i).mp (ho.freed_lt i hi), ho.mallocs_nodup, ho.held_fresh⟩

/-- after `Close` on a reader that was open, everything it held is back at the allocator -/
theorem close_releases (br : BR) (hc : br.closed = false) :
    freesOf (close br).2 = ids br ∧ ids (close br).1 = [] := by
  unfold close
  simp only [hc, Bool.false_eq_true, if_false]
  have : (br.buffers.map fun b => AllocEv.free b.id) = (ids br).map AllocEv.free := by simp [ids]
  simp only [this, freesOf_frees]
  simp [ids]

end HttpBody
