import NbioVerif.Model.Pipeline
/-! C10: `closeDecision` (the rule of `ServerProcessor.OnComplete`) against RFC 7230 §6.3 -/
namespace Pipeline

/-- agreed domain of the RFC comparison: a `Connection` header line carries one option — no list
    separator (comma) and no horizontal tab (Go trims spaces only) -/
def Simple (v : Bytes) : Prop := ∀ b ∈ v, b ≠ 44 ∧ b ≠ 9

theorem splitComma_ne_nil : ∀ v : Bytes, splitComma v ≠ []
  | [] => by simp [splitComma]
  | b :: r => by
    simp only [splitComma]
    split
    · simp
    · split <;> simp

theorem splitComma_simple : ∀ v : Bytes, (∀ b ∈ v, b ≠ 44) → splitComma v = [v]
  | [], _ => by simp [splitComma]
  | b :: r, h => by
    have ih := splitComma_simple r (fun x hx => h x (List.mem_cons_of_mem _ hx))
    have hb : (b == 44) = false := by simpa using h b (List.mem_cons_self)
    simp [splitComma, ih, hb]

theorem dropOWS_eq_dropSp : ∀ v : Bytes, (∀ b ∈ v, b ≠ 9) → dropOWS v = dropSp v
  | [], _ => by simp [dropOWS, dropSp]
  | b :: r, h => by
    have ih := dropOWS_eq_dropSp r (fun x hx => h x (List.mem_cons_of_mem _ hx))
    have hb : (b == 9) = false := by simpa using h b (List.mem_cons_self)
    simp [dropOWS, dropSp, isOWS, hb, ih]

theorem dropSp_mem : ∀ (v : Bytes) (b : UInt8), b ∈ dropSp v → b ∈ v
  | [], _, h => by simp [dropSp] at h
  | x :: r, b, h => by
    simp only [dropSp] at h
    split at h
    · exact List.mem_cons_of_mem _ (dropSp_mem r b h)
    · exact h

theorem trimOWS_eq_trimSp (v : Bytes) (h : ∀ b ∈ v, b ≠ 9) : trimOWS v = trimSp v := by
  simp only [trimOWS, trimSp]
  rw [dropOWS_eq_dropSp v h, dropOWS_eq_dropSp]
  intro b hb
  exact h b (dropSp_mem v b (List.mem_reverse.mp hb))

theorem options_simple (vals : List Bytes) (h : ∀ v ∈ vals, Simple v) :
    options vals = ((vals.map trimSp).filter (fun o => !o.isEmpty)).map lower := by
  have h1 : vals.flatMap splitComma = vals := by
    induction vals with
    | nil => rfl
    | cons v vs ih =>
      simp only [List.flatMap_cons]
      rw [splitComma_simple v (fun b hb => (h v List.mem_cons_self b hb).1),
        ih (fun w hw => h w (List.mem_cons_of_mem _ hw))]
      rfl
  have h2 : vals.map trimOWS = vals.map trimSp := by
    apply List.map_congr_left
    intro v hv
    exact trimOWS_eq_trimSp v (fun b hb => (h v hv b hb).2)
  simp only [options, h1, h2]

theorem lower_length (v : Bytes) : (lower v).length = v.length := by simp [lower]

/-- membership of a non-empty (lower-case) option name among the options of simple header lines -/
theorem contains_options (vals : List Bytes) (t : Bytes) (ht : t ≠ [])
    (h : ∀ v ∈ vals, Simple v) :
    (options vals).contains t = vals.any (fun v => lower (trimSp v) == t) := by
  rw [options_simple vals h]
  induction vals with
  | nil => rfl
  | cons v vs ih =>
    have ih' := ih (fun w hw => h w (List.mem_cons_of_mem _ hw))
    simp only [List.map_cons, List.any_cons]
    rw [← ih']
    by_cases he : (trimSp v).isEmpty
    · have hne : (lower (trimSp v) == t) = false := by
        have : trimSp v = [] := by simpa using he
        rw [this]
        cases t with
        | nil => exact absurd rfl ht
        | cons a b => simp [lower]
      simp [he, hne]
    · simp [he, Bool.beq_comm]

theorem scanConn_fst : ∀ (vals : List Bytes) (ka : Bool),
    (scanConn vals ka).1 = vals.any (fun v => lower (trimSp v) == sClose)
  | [], _ => rfl
  | v :: vs, ka => by
    simp only [scanConn, List.any_cons]
    split
    · rename_i h; simp [h]
    · rename_i h
      split
      · rw [scanConn_fst vs true]; simp [h]
      · rw [scanConn_fst vs ka]; simp [h]

theorem scanConn_snd : ∀ (vals : List Bytes) (ka : Bool), (scanConn vals ka).1 = false →
    (scanConn vals ka).2 = (ka || vals.any (fun v => lower (trimSp v) == sKeepAlive))
  | [], ka, _ => by simp [scanConn]
  | v :: vs, ka, h => by
    simp only [scanConn] at h ⊢
    split
    · rename_i hc; simp [hc] at h
    · rename_i hc
      simp only [hc] at h
      split
      · rename_i hk
        simp only [hk] at h
        rw [scanConn_snd vs true h]; simp [hk]
      · rename_i hk
        simp only [hk] at h
        rw [scanConn_snd vs ka h]; simp [hk]

end Pipeline
