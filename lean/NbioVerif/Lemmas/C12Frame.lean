import NbioVerif.Model.Ws
/-! probe: C12 core — one frame written by `encodeFrame` (either role, any mask key, any length class) is decoded by
    `decodeHdr`/`frameBody` to the same opcode, flags and payload -/
namespace Ws
open WsF

theorem xor_xor_cancel (x k : UInt8) : x ^^^ k ^^^ k = x := by
  rw [UInt8.xor_assoc, UInt8.xor_self, UInt8.xor_zero]

/-- masking is an involution -/
theorem maskSpec_involutive (key b : Bytes) : maskSpec key (maskSpec key b) = b := by
  unfold maskSpec
  apply List.ext_getElem
  · simp
  · intro i h1 h2
    simp [xor_xor_cancel]

/-- header bytes of `encHdr` decode to the header (Ws-side decoder, incl. RSV2/RSV3 = 0 and the mask-adjusted length) -/
theorem decodeHdr_encHdr (h : Hdr) (tail : Bytes) (hop : h.opcode < 16) (hlen : h.len < 2 ^ 63) :
    decodeHdr (encHdr h ++ tail) = some (.ok
      { opcode := h.opcode, fin := h.fin, r1 := h.rsv1, r2 := false, r3 := false, masked := h.masked,
        bodyLen := h.len, headLen := (encHdr h).length + (if h.masked then 4 else 0) }) := by
  obtain ⟨fin, rsv1, opcode, masked, len⟩ := h
  simp only at hop hlen
  have hb0 : bit fin 128 + bit rsv1 64 + opcode < 256 := by unfold bit; split <;> split <;> omega
  have e_op : (bit fin 128 + bit rsv1 64 + opcode) % 16 = opcode := by unfold bit; split <;> split <;> omega
  have e_fin : ((bit fin 128 + bit rsv1 64 + opcode) / 128 % 2 == 1) = fin := by
    unfold bit; cases fin <;> cases rsv1 <;> simp <;> omega
  have e_r1 : ((bit fin 128 + bit rsv1 64 + opcode) / 64 % 2 == 1) = rsv1 := by
    unfold bit; cases fin <;> cases rsv1 <;> simp <;> omega
  have e_r2 : ((bit fin 128 + bit rsv1 64 + opcode) / 32 % 2 == 1) = false := by
    unfold bit; cases fin <;> cases rsv1 <;> simp <;> omega
  have e_r3 : ((bit fin 128 + bit rsv1 64 + opcode) / 16 % 2 == 1) = false := by
    unfold bit; cases fin <;> cases rsv1 <;> simp <;> omega
  unfold encHdr
  simp only
  by_cases h1 : len < 126
  · simp only [h1, if_true]
    have hb1 : bit masked 128 + len < 256 := by unfold bit; split <;> omega
    have e_m : ((bit masked 128 + len) / 128 % 2 == 1) = masked := by unfold bit; cases masked <;> simp <;> omega
    have e_pl : (bit masked 128 + len) % 128 = len := by unfold bit; split <;> omega
    have n1 : ¬ len = 126 := by omega
    have n2 : ¬ len = 127 := by omega
    simp [decodeHdr, mkHdr, b_toNat _ hb0, b_toNat _ hb1, e_op, e_fin, e_r1, e_r2, e_r3, e_m, e_pl, n1, n2]
    cases masked <;> simp
  · simp only [h1, if_false]
    by_cases h2 : len ≤ 65535
    · simp only [h2, if_true]
      have hb1 : bit masked 128 + 126 < 256 := by unfold bit; split <;> omega
      have e_m : ((bit masked 128 + 126) / 128 % 2 == 1) = masked := by unfold bit; cases masked <;> simp
      have e_pl : (bit masked 128 + 126) % 128 = 126 := by unfold bit; split <;> omega
      have ht : (beEnc 2 len ++ tail).take 2 = beEnc 2 len := by
        rw [List.take_append_of_le_length (by simp [beEnc_length])]
        exact List.take_of_length_le (by simp [beEnc_length])
      simp [decodeHdr, mkHdr, b_toNat _ hb0, b_toNat _ hb1, e_op, e_fin, e_r1, e_r2, e_r3, e_m, e_pl, ht,
        beDec_beEnc 2 len (by omega), beEnc_length]
      cases masked <;> simp
    · simp only [h2, if_false]
      have hb1 : bit masked 128 + 127 < 256 := by unfold bit; split <;> omega
      have e_m : ((bit masked 128 + 127) / 128 % 2 == 1) = masked := by unfold bit; cases masked <;> simp
      have e_pl : (bit masked 128 + 127) % 128 = 127 := by unfold bit; split <;> omega
      have ht : (beEnc 8 len ++ tail).take 8 = beEnc 8 len := by
        rw [List.take_append_of_le_length (by simp [beEnc_length])]
        exact List.take_of_length_le (by simp [beEnc_length])
      have hlt : len < 256 ^ 8 := by
        have : (2:Nat) ^ 63 < 256 ^ 8 := by decide
        omega
      have hnot : ¬ (2 ^ 63 ≤ len) := by omega
      simp [decodeHdr, mkHdr, b_toNat _ hb0, b_toNat _ hb1, e_op, e_fin, e_r1, e_r2, e_r3, e_m, e_pl, ht,
        beDec_beEnc 8 len hlt, beEnc_length, hnot]
      cases masked <;> simp

/-- the header `encodeFrame` writes -/
def hdrOf (isClient : Bool) (opcode : Nat) (sendOpcode fin : Bool) (data : Bytes) (rsv1 : Bool) : Hdr :=
  { fin, rsv1, opcode := if sendOpcode then opcode else 0, masked := isClient, len := data.length }

def infoOf (isClient : Bool) (opcode : Nat) (sendOpcode fin : Bool) (data : Bytes) (rsv1 : Bool) : HdrInfo :=
  let h := hdrOf isClient opcode sendOpcode fin data rsv1
  { opcode := h.opcode, fin := h.fin, r1 := h.rsv1, r2 := false, r3 := false, masked := h.masked,
    bodyLen := h.len, headLen := (encHdr h).length + (if h.masked then 4 else 0) }

/-- payload recovery: what `frameBody` extracts from an encoded frame (followed by anything) is the payload written,
    for either role and any 4-byte mask key -/
theorem frameBody_encodeFrame (isClient : Bool) (key : Bytes) (hk : key.length = 4) (opcode : Nat) (sendOpcode fin : Bool)
    (data : Bytes) (rsv1 : Bool) (tail : Bytes) :
    frameBody (encodeFrame isClient key opcode sendOpcode fin data rsv1 ++ tail) (infoOf isClient opcode sendOpcode fin data rsv1) = data := by
  unfold frameBody infoOf encodeFrame hdrOf
  simp only
  cases isClient with
  | false =>
    simp only [Bool.false_eq_true, if_false, Nat.add_zero, List.append_assoc]
    rw [List.drop_left' rfl]
    simp
  | true =>
    simp only [if_true, List.append_assoc, Int.toNat_natCast]
    have e1 : ∀ (hd : Bytes), List.drop (hd.length + 4) (hd ++ (key ++ (maskSpec key data ++ tail)))
        = maskSpec key data ++ tail := by
      intro hd
      rw [← List.drop_drop, List.drop_left' rfl, List.drop_left' hk]
    have e2 : ∀ (hd : Bytes), List.take 4 (List.drop (hd.length + 4 - 4) (hd ++ (key ++ (maskSpec key data ++ tail))))
        = key := by
      intro hd
      rw [Nat.add_sub_cancel, List.drop_left' rfl, List.take_left' hk]
    rw [e1, e2]
    have : List.take data.length (maskSpec key data ++ tail) = maskSpec key data := by
      rw [List.take_left' (by simp [maskSpec])]
    rw [this, maskSpec_involutive]

theorem encodeFrame_shape (isClient : Bool) (key : Bytes) (opcode : Nat) (so fin : Bool) (data : Bytes) (rsv1 : Bool) :
    ∃ rest, encodeFrame isClient key opcode so fin data rsv1 = encHdr (hdrOf isClient opcode so fin data rsv1) ++ rest ∧
      rest.length = data.length + (if isClient then key.length else 0) := by
  unfold encodeFrame hdrOf
  cases isClient with
  | false => exact ⟨data, by simp⟩
  | true => exact ⟨key ++ maskSpec key data, by simp [maskSpec]; omega⟩

/-- total length of an encoded frame = what the decoder will consume -/
theorem encodeFrame_length (isClient : Bool) (key : Bytes) (hk : key.length = 4) (opcode : Nat) (so fin : Bool) (data : Bytes) (rsv1 : Bool) :
    (infoOf isClient opcode so fin data rsv1).headLen + data.length = (encodeFrame isClient key opcode so fin data rsv1).length := by
  obtain ⟨rest, hshape, hrl⟩ := encodeFrame_shape isClient key opcode so fin data rsv1
  rw [hshape]
  simp only [infoOf, hdrOf, List.length_append, hrl, hk]
  cases isClient <;> simp <;> omega

/-- the header of an encoded frame decodes to `infoOf` whatever follows -/
theorem decodeHdr_encodeFrame (isClient : Bool) (key : Bytes) (opcode : Nat) (so fin : Bool) (data : Bytes) (rsv1 : Bool)
    (tail : Bytes) (hop : opcode < 16) (hlen : data.length < 2 ^ 63) :
    decodeHdr (encodeFrame isClient key opcode so fin data rsv1 ++ tail) = some (.ok (infoOf isClient opcode so fin data rsv1)) := by
  obtain ⟨rest, hshape, _⟩ := encodeFrame_shape isClient key opcode so fin data rsv1
  have hop' : (hdrOf isClient opcode so fin data rsv1).opcode < 16 := by
    unfold hdrOf; simp only; split <;> omega
  rw [hshape, List.append_assoc]
  exact decodeHdr_encHdr _ _ hop' (by simpa [hdrOf] using hlen)

/-- C12 (frame level): whatever follows in the cache, the receiver's `nextFrame` hands out exactly the frame that
    `encodeFrame` wrote — same opcode, FIN, RSV1, payload, and the exact number of bytes consumed — provided the
    receiver's size and validity checks pass for that header. -/
theorem nextFrame_encodeFrame (gr : Cfg) (isClient : Bool) (key : Bytes) (hk : key.length = 4) (s : S) (opcode : Nat) (so fin : Bool)
    (data : Bytes) (rsv1 : Bool) (tail : Bytes)
    (hcache : s.cache = encodeFrame isClient key opcode so fin data rsv1 ++ tail)
    (hop : opcode < 16) (hlen : data.length < 2 ^ 63)
    (hsz : sizeCheck gr (msgLen s) (infoOf isClient opcode so fin data rsv1) = none)
    (hv : validFrame gr (infoOf isClient opcode so fin data rsv1).opcode fin rsv1 false false s.k.expecting = none) :
    nextFrame gr s = .frame (encodeFrame isClient key opcode so fin data rsv1).length
      (infoOf isClient opcode so fin data rsv1).opcode data fin rsv1 := by
  have hdec : decodeHdr s.cache = some (.ok (infoOf isClient opcode so fin data rsv1)) := by
    rw [hcache]; exact decodeHdr_encodeFrame isClient key opcode so fin data rsv1 tail hop hlen
  have hbody := frameBody_encodeFrame isClient key hk opcode so fin data rsv1 tail
  have hinfo_len : (infoOf isClient opcode so fin data rsv1).bodyLen = (data.length : Int) := by simp [infoOf, hdrOf]
  have hinfo_fin : (infoOf isClient opcode so fin data rsv1).fin = fin := by simp [infoOf, hdrOf]
  have hinfo_r1 : (infoOf isClient opcode so fin data rsv1).r1 = rsv1 := by simp [infoOf, hdrOf]
  have hinfo_r2 : (infoOf isClient opcode so fin data rsv1).r2 = false := by simp [infoOf]
  have hinfo_r3 : (infoOf isClient opcode so fin data rsv1).r3 = false := by simp [infoOf]
  have htotal := encodeFrame_length isClient key hk opcode so fin data rsv1
  unfold nextFrame
  rw [hdec]
  simp only [hsz, hinfo_len, Int.toNat_natCast, hinfo_fin, hinfo_r1, hinfo_r2, hinfo_r3, hv]
  have hge : (0 : Int) ≤ (data.length : Int) ∧ s.cache.length ≥ (infoOf isClient opcode so fin data rsv1).headLen + data.length := by
    refine ⟨Int.natCast_nonneg _, ?_⟩
    rw [htotal, hcache]; simp
  simp only [ge_iff_le, hge, and_self, if_true]
  rw [htotal, hcache, hbody]

end Ws
