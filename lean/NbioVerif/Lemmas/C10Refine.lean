import NbioVerif.Model.Pipeline
import NbioVerif.Model.ExecQ
/-! C10 (a) ↔ C05: the `queue` / `cur` / `closed` part of `Pipeline` is the `Conn.Execute` job queue of `ExecQ`
(Kind.conn) under a refinement map.

`Pipeline.step` was written against the *specification* of the per-connection job queue (FIFO, one at a time,
`Execute` refuses on a closed conn).  Here that is derived: every enabled `Pipeline` action is translated into the
`ExecQ` actions it stands for in nbhttp's non-blocking modes (`parser.Execute = nbio.Conn.Execute`):

* `parse`    — `Execute(job)`: `submit next false`, plus the executor starting the drainer closure (`spawn 0`)
               when the job is the head;
* `start`    — the drainer enters `job()`: `start 0`;
* `write`, `flush` — inside the job / the poller: no queue action;
* `finish`   — `job()` returns (`finish 0`), `flushResponse`'s `conn.Close()` if the request closes (`close`),
               the drainer's locked "take the next or reset and return" paragraph (`next 0`);
* `extClose` — `closeWithError`: `close`.

`Rel` relates the two states; `step_sim` shows it is preserved (forward simulation), `run_sim` lifts it to `run`. -/
namespace Pipeline
variable {α : Type}

/-- the `ExecQ` actions a `Pipeline` action that is enabled in `s` stands for -/
def execActs (cfg : Cfg α) (s : St α) : Act → List ExecQ.Act
  | .parse =>
    if s.queue.isEmpty && !s.closed then [.submit s.next false, .spawn 0 false] else [.submit s.next false]
  | .start => [.start 0]
  | .write _ => []
  | .flush _ => []
  | .finish =>
    let cl := match s.queue with
      | k :: _ => (match cfg.reqs[k]? with | some r => r.close | none => false)
      | [] => false
    .finish 0 false :: ((if cl then [.close] else []) ++ [.next 0 false])
  | .extClose => [.close]

/-- the `ExecQ` action sequence of a `Pipeline` run (disabled `Pipeline` actions contribute nothing) -/
def execTrace (cfg : Cfg α) : St α → List Act → List ExecQ.Act
  | _, [] => []
  | s, a :: as =>
    match step cfg s a with
    | some s' => execActs cfg s a ++ execTrace cfg s' as
    | none => execTrace cfg s as

/-- jobs whose `job()` was entered, in order -/
def startsOf : List ExecQ.Ev → List Nat
  | [] => []
  | .s j :: r => j :: startsOf r
  | .e _ :: r => startsOf r

theorem startsOf_append (a b : List ExecQ.Ev) : startsOf (a ++ b) = startsOf a ++ startsOf b := by
  induction a with
  | nil => rfl
  | cons x r ih => cases x <;> simp [startsOf, ih]

/-- the refinement relation -/
structure Rel (s : St α) (e : ExecQ.St) : Prop where
  closed : e.closed = s.closed
  crash  : e.crash = false
  acc    : e.done ++ s.queue = e.acc
  fin    : e.done.length = s.fin
  starts : startsOf e.log = s.handled
  shape  : (e.drs = [] ∧ e.list = [] ∧ s.queue = [] ∧ s.cur = none) ∨
           (∃ x, e.drs = [x] ∧ 1 ≤ x.taken ∧ x.taken ≤ e.list.length ∧ s.queue = x.job :: e.list.drop x.taken ∧
              ((x.ph = .ready ∧ s.cur = none) ∨ (x.ph = .running ∧ s.cur.isSome = true)))

theorem rel_init : Rel (init : St α) ExecQ.init := by
  refine ⟨rfl, rfl, rfl, rfl, rfl, Or.inl ⟨rfl, rfl, rfl, rfl⟩⟩

theorem execq_run_append (k : ExecQ.Kind) : ∀ (as bs : List ExecQ.Act) (e : ExecQ.St),
    ExecQ.run k e (as ++ bs) = ExecQ.run k (ExecQ.run k e as) bs := by
  intro as
  induction as with
  | nil => intro bs e; rfl
  | cons a as ih =>
    intro bs e
    simp only [List.cons_append, ExecQ.run]
    split <;> exact ih _ _

/-! ### the `ExecQ` side of the composite steps -/

theorem execq_submit_head (e : ExecQ.St) (j : Nat) (hc : e.closed = false) (hl : e.list = []) (hd : e.drs = []) :
    ExecQ.run .conn e [.submit j false, .spawn 0 false] =
      { e with list := [j], acc := e.acc ++ [j], drs := [{ taken := 1, job := j, ph := .ready }] } := by
  simp [ExecQ.run, ExecQ.step, hc, hl, hd]

theorem execq_submit_behind (e : ExecQ.St) (j : Nat) (hc : e.closed = false) (hl : e.list ≠ []) :
    ExecQ.run .conn e [.submit j false] = { e with list := e.list ++ [j], acc := e.acc ++ [j] } := by
  simp [ExecQ.run, ExecQ.step, hc, hl]

theorem execq_submit_refused (e : ExecQ.St) (j : Nat) (hc : e.closed = true) :
    ExecQ.run .conn e [.submit j false] = e := by
  simp [ExecQ.run, ExecQ.step, hc]

theorem execq_start (e : ExecQ.St) (x : ExecQ.Drainer) (hd : e.drs = [x]) (hp : x.ph = .ready) :
    ExecQ.run .conn e [.start 0] =
      { e with drs := [{ x with ph := .running }], log := e.log ++ [.s x.job] } := by
  simp [ExecQ.run, ExecQ.step, hd, hp]

/-- `job()` returns, `conn.Close()` if the request closes, the drainer finds nothing more: it resets the list and returns -/
theorem execq_finish_last (e : ExecQ.St) (x : ExecQ.Drainer) (cl : Bool) (hd : e.drs = [x]) (hp : x.ph = .running)
    (hl : e.list.length = x.taken) :
    ExecQ.run .conn e (.finish 0 false :: ((if cl then [.close] else []) ++ [.next 0 false])) =
      { e with drs := [], list := [], log := e.log ++ [.e x.job], done := e.done ++ [x.job],
               closed := e.closed || cl } := by
  cases cl <;> simp [ExecQ.run, ExecQ.step, ExecQ.take, ExecQ.resetList, hd, hp, hl]

/-- … or takes the next job -/
theorem execq_finish_more (e : ExecQ.St) (x : ExecQ.Drainer) (cl : Bool) (j : Nat) (hd : e.drs = [x]) (hp : x.ph = .running)
    (hl : ¬ e.list.length = x.taken) (hj : e.list[x.taken]? = some j) :
    ExecQ.run .conn e (.finish 0 false :: ((if cl then [.close] else []) ++ [.next 0 false])) =
      { e with drs := [{ taken := x.taken + 1, job := j, ph := .ready }], log := e.log ++ [.e x.job],
               done := e.done ++ [x.job], closed := e.closed || cl } := by
  cases cl <;> simp [ExecQ.run, ExecQ.step, ExecQ.take, hd, hp, hl, hj]

/-- **Forward simulation**: an enabled `Pipeline` step (non-blocking modes) is matched by the `ExecQ` actions
    `execActs` gives for it, none of which is disabled or skipped. -/
theorem step_sim (cfg : Cfg α) (hsync : cfg.sync = false) (s s' : St α) (e : ExecQ.St) (a : Act)
    (hr : Rel s e) (hs : step cfg s a = some s') : Rel s' (ExecQ.run .conn e (execActs cfg s a)) := by
  obtain ⟨hcl, hcr, hacc, hfin, hst, hsh⟩ := hr
  cases a with
  | parse =>
    simp only [step, hsync] at hs
    split at hs
    · by_cases hc : s.closed = true
      · -- Execute refuses
        have hs' : s' = { s with next := s.next + 1 } := by simp [hc] at hs; rw [← hs]; simp [hc]
        subst hs'
        have hacts : execActs cfg s .parse = [.submit s.next false] := by simp [execActs, hc]
        rw [hacts, execq_submit_refused e _ (by rw [hcl]; exact hc)]
        exact ⟨hcl, hcr, hacc, hfin, hst, hsh⟩
      · have hc' : s.closed = false := by simpa using hc
        have hs' : s' = { s with next := s.next + 1, queue := s.queue ++ [s.next] } := by
          simp [hc'] at hs; rw [← hs]; simp [hc']
        subst hs'
        rcases hsh with ⟨hd, hl, hq, hcur⟩ | ⟨x, hd, h1, h2, hq, hph⟩
        · -- head job: submit + spawn
          have hacts : execActs cfg s .parse = [.submit s.next false, .spawn 0 false] := by
            simp [execActs, hq, hc']
          rw [hacts, execq_submit_head e _ (by rw [hcl]; exact hc') hl hd]
          refine ⟨hcl, hcr, ?_, hfin, hst, Or.inr ⟨_, rfl, Nat.le_refl _, by simp, ?_, Or.inl ⟨rfl, hcur⟩⟩⟩
          · show e.done ++ (s.queue ++ [s.next]) = e.acc ++ [s.next]
            rw [← List.append_assoc, hacc]
          · show s.queue ++ [s.next] = s.next :: List.drop 1 [s.next]
            rw [hq]; rfl
        · -- behind a running / waiting drainer: submit only
          have hne : e.list ≠ [] := by
            intro h; rw [h] at h2; simp at h2; omega
          have hacts : execActs cfg s .parse = [.submit s.next false] := by simp [execActs, hq]
          rw [hacts, execq_submit_behind e _ (by rw [hcl]; exact hc') hne]
          refine ⟨hcl, hcr, ?_, hfin, hst, Or.inr ⟨x, hd, h1, ?_, ?_, hph⟩⟩
          · show e.done ++ (s.queue ++ [s.next]) = e.acc ++ [s.next]
            rw [← List.append_assoc, hacc]
          · show x.taken ≤ (e.list ++ [s.next]).length
            simp; omega
          · show s.queue ++ [s.next] = x.job :: (e.list ++ [s.next]).drop x.taken
            rw [List.drop_append_of_le_length h2, hq]; rfl
    · cases hs
  | start =>
    simp only [step] at hs
    split at hs
    · rename_i k q hcur hq
      split at hs
      · rename_i r hrk
        cases hs
        rcases hsh with ⟨_, _, hq0, _⟩ | ⟨x, hd, h1, h2, hqx, hph⟩
        · rw [hq0] at hq; cases hq
        · rcases hph with ⟨hready, _⟩ | ⟨_, hsome⟩
          · have hjob : x.job = k := by rw [hqx] at hq; cases hq; rfl
            have hacts : execActs cfg s .start = [.start 0] := rfl
            rw [hacts, execq_start e x hd hready]
            refine ⟨hcl, hcr, hacc, hfin, ?_, Or.inr ⟨_, rfl, h1, h2, hqx, Or.inr ⟨rfl, rfl⟩⟩⟩
            show startsOf (e.log ++ [.s x.job]) = s.handled ++ [k]
            rw [startsOf_append, hst, hjob]; rfl
          · rw [hcur] at hsome; cases hsome
      · cases hs
    · cases hs
  | write k =>
    have hacts : execActs cfg s (.write k) = [] := rfl
    rw [hacts]
    simp only [step] at hs
    split at hs
    · rename_i p ps hcur
      have hkeep : ∀ (s'' : St α), s''.queue = s.queue → s''.closed = s.closed → s''.fin = s.fin →
          s''.handled = s.handled → s''.cur = some ps → Rel s'' e := by
        intro s'' hq hc hf hh hcu
        refine ⟨by rw [hc]; exact hcl, hcr, by rw [hq]; exact hacc, by rw [hf]; exact hfin, by rw [hh]; exact hst, ?_⟩
        rcases hsh with ⟨_, _, _, hn⟩ | ⟨x, hd, h1, h2, hqx, hph⟩
        · rw [hcur] at hn; cases hn
        · rcases hph with ⟨_, hn⟩ | ⟨hrun, _⟩
          · rw [hcur] at hn; cases hn
          · exact Or.inr ⟨x, hd, h1, h2, by rw [hq]; exact hqx, Or.inr ⟨hrun, by rw [hcu]; rfl⟩⟩
      split at hs
      · cases hs; exact hkeep _ rfl rfl rfl rfl rfl
      · split at hs <;> (cases hs; exact hkeep _ rfl rfl rfl rfl rfl)
    · cases hs
  | flush k =>
    have hacts : execActs cfg s (.flush k) = [] := rfl
    rw [hacts]
    simp only [step] at hs
    split at hs
    · cases hs
      exact ⟨hcl, hcr, hacc, hfin, hst, hsh⟩
    · cases hs
  | finish =>
    simp only [step] at hs
    split at hs
    · rename_i k q hcur hq
      cases hs
      rcases hsh with ⟨_, _, hq0, _⟩ | ⟨x, hd, h1, h2, hqx, hph⟩
      · rw [hq0] at hq; cases hq
      · rcases hph with ⟨_, hn⟩ | ⟨hrun, _⟩
        · rw [hcur] at hn; cases hn
        · have hjob : x.job = k := by rw [hqx] at hq; cases hq; rfl
          have hqd : q = e.list.drop x.taken := by rw [hqx] at hq; cases hq; rfl
          have hacts : execActs cfg s .finish = .finish 0 false ::
              ((if (match cfg.reqs[k]? with | some r => r.close | none => false) = true then [.close] else []) ++ [.next 0 false]) := by
            simp [execActs, hq]
          rw [hacts]
          have hA : (e.done ++ [x.job]) ++ q = e.acc := by rw [← hacc, hq, hjob]; simp
          have hF : (e.done ++ [x.job]).length = s.fin + 1 := by simp [hfin]
          have hS : startsOf (e.log ++ [.e x.job]) = s.handled := by
            rw [startsOf_append, hst]; simp [startsOf]
          by_cases hlen : e.list.length = x.taken
          · rw [execq_finish_last e x _ hd hrun hlen]
            have hq0 : q = [] := by rw [hqd]; exact List.drop_eq_nil_of_le (by omega)
            exact ⟨congrArg (fun b => b || _) hcl, hcr, hA, hF, hS, Or.inl ⟨rfl, rfl, hq0, rfl⟩⟩
          · have hlt : x.taken < e.list.length := by omega
            have hget : e.list[x.taken]? = some e.list[x.taken] := List.getElem?_eq_getElem hlt
            rw [execq_finish_more e x _ _ hd hrun hlen hget]
            have hqc : q = e.list[x.taken] :: e.list.drop (x.taken + 1) := by
              rw [hqd]; exact List.drop_eq_getElem_cons hlt
            exact ⟨congrArg (fun b => b || _) hcl, hcr, hA, hF, hS,
              Or.inr ⟨_, rfl, by simp, by show x.taken + 1 ≤ e.list.length; omega, hqc, Or.inl ⟨rfl, rfl⟩⟩⟩
    · cases hs
  | extClose =>
    simp only [step] at hs
    cases hs
    have hacts : execActs cfg s .extClose = [.close] := rfl
    rw [hacts]
    have hE : ExecQ.run .conn e [.close] = { e with closed := true } := by simp [ExecQ.run, ExecQ.step]
    rw [hE]
    exact ⟨rfl, hcr, hacc, hfin, hst, hsh⟩

theorem run_sim (cfg : Cfg α) (hsync : cfg.sync = false) : ∀ (acts : List Act) (s : St α) (e : ExecQ.St),
    Rel s e → Rel (run cfg s acts) (ExecQ.run .conn e (execTrace cfg s acts)) := by
  intro acts
  induction acts with
  | nil => intro s e h; exact h
  | cons a as ih =>
    intro s e h
    simp only [run, execTrace]
    cases hs : step cfg s a with
    | none => exact ih s e h
    | some s' =>
      simp only []
      rw [execq_run_append]
      exact ih s' _ (step_sim cfg hsync s s' e a h hs)

/-! ### blocking modes: `parser.Execute` is the `SyncExecutor` — `Execute(f)` calls `f()` inline and returns true

There is no job list and no drainer: the goroutine that reads and parses is the one that runs the job, so it cannot
complete the next request before the job has returned.  In `Pipeline` that is a discipline on the schedule:
`parse` happens only while no job is pending. -/

/-- the schedule respects the inline discipline from state `s` on: every `parse` finds the queue empty -/
def inlineSched (cfg : Cfg α) : St α → List Act → Prop
  | _, [] => True
  | s, a :: as =>
    (a = .parse → s.queue = []) ∧
      (match step cfg s a with
       | some s' => inlineSched cfg s' as
       | none => inlineSched cfg s as)

theorem step_queue_len (cfg : Cfg α) (s s' : St α) (a : Act) (hs : step cfg s a = some s')
    (hp : a = .parse → s.queue = []) (hl : s.queue.length ≤ 1) : s'.queue.length ≤ 1 := by
  cases a with
  | parse =>
    have hq := hp rfl
    simp only [step] at hs
    split at hs
    · split at hs <;> (cases hs; simp [hq])
    · cases hs
  | start =>
    simp only [step] at hs
    split at hs
    · split at hs
      · cases hs; exact hl
      · cases hs
    · cases hs
  | write k =>
    simp only [step] at hs
    split at hs
    · split at hs
      · cases hs; exact hl
      · split at hs <;> (cases hs; exact hl)
    · cases hs
  | flush k =>
    simp only [step] at hs
    split at hs
    · cases hs; exact hl
    · cases hs
  | finish =>
    simp only [step] at hs
    split at hs
    · rename_i k q _ hq
      cases hs
      rw [hq] at hl
      have h2 : q.length + 1 ≤ 1 := hl
      show q.length ≤ 1
      omega
    · cases hs
  | extClose =>
    simp only [step] at hs
    cases hs; exact hl

theorem inline_queue_len (cfg : Cfg α) : ∀ (acts : List Act) (s : St α), inlineSched cfg s acts →
    s.queue.length ≤ 1 → (run cfg s acts).queue.length ≤ 1 := by
  intro acts
  induction acts with
  | nil => intro s _ hl; exact hl
  | cons a as ih =>
    intro s hi hl
    obtain ⟨hp, hrest⟩ := hi
    simp only [run]
    cases hs : step cfg s a with
    | none =>
      rw [hs] at hrest
      exact ih s hrest hl
    | some s' =>
      rw [hs] at hrest
      exact ih s' hrest (step_queue_len cfg s s' a hs hp hl)

end Pipeline
