import NbioVerif.Lemmas.ConnFlush
/-! ConnFull: edge-triggered reporting. A backlog is only ever left behind after the kernel refused or
shortened a write (so a writability report is due): the observers `directRefused`, `sendfileRefused`,
`flushRefused` look at answers and request sizes only; the lemmas here connect them with what the code
paths do to the queue. -/
namespace ConnFull

/-- fields no call and no flush touches -/
def R (s : S) := (s.reg, s.connecting, s.connEv)

theorem R_kctl_mod (s : S) (o : Bool) : R (kctl s false o) = R s := by
  unfold kctl; simp only [Bool.false_eq_true, if_false]; split <;> rfl
theorem R_pModWrite (g : Cfg) (s : S) : R (pModWrite g s) = R s := by
  unfold pModWrite; split; rfl; exact R_kctl_mod _ _
theorem R_pResetRead (g : Cfg) (s : S) : R (pResetRead g s) = R s := by
  unfold pResetRead; split; rfl; exact R_kctl_mod _ _
theorem R_cModWrite (g : Cfg) (s : S) : R (cModWrite g s) = R s := by
  unfold cModWrite; split
  · rw [R_pModWrite]; rfl
  · rfl
theorem R_cResetRead (g : Cfg) (s : S) : R (cResetRead g s) = R s := by
  unfold cResetRead; split
  · rw [R_pResetRead]; rfl
  · rfl

theorem R_of_E {s t : S} (h : E t = E s) : R t = R s := by
  obtain ⟨_, _, _, e4, _, _, e7, e8⟩ := E_fields h
  simp [R, e4, e7, e8]

theorem R_finishCall (g : Cfg) (r : S × Ret) : R (finishCall g r).1 = R r.1 := by
  unfold finishCall
  split
  · simp only
    split
    · rfl
    · exact R_cModWrite g r.1
  · rfl

theorem hung_finishCall (g : Cfg) (r : S × Ret) : (finishCall g r).1.hung = r.1.hung := by
  unfold finishCall
  split
  · simp only
    split
    · rfl
    · have := D_cModWrite g r.1; simp only [D, Prod.mk.injEq] at this; exact this.2.1
  · rfl

/-- Write: registration, connect state and `hung` are untouched -/
theorem frame_write (g : Cfg) (s : S) (b : Bytes) (k : KAns) (hp : AllPos s.wl) :
    R (write g s b k).1 = R s ∧ (write g s b k).1.hung = s.hung := by
  unfold write
  split
  · exact ⟨rfl, rfl⟩
  split
  · exact ⟨rfl, rfl⟩
  · have hg := grow_writeInner g s b k hp
    exact ⟨(R_finishCall g _).trans (R_of_E hg.e), (hung_finishCall g _).trans hg.hung⟩

theorem frame_writev (g : Cfg) (s : S) (bs : List Bytes) (k : KAns) (hp : AllPos s.wl) :
    R (writev g s bs k).1 = R s ∧ (writev g s bs k).1.hung = s.hung := by
  unfold writev
  split
  · exact ⟨rfl, rfl⟩
  split
  · exact ⟨rfl, rfl⟩
  · split
    · rename_i b
      have hg := grow_writeInner g s b k hp
      exact ⟨(R_finishCall g _).trans (R_of_E hg.e), (hung_finishCall g _).trans hg.hung⟩
    · have hg := grow_writevInner g s bs k hp
      exact ⟨(R_finishCall g _).trans (R_of_E hg.e), (hung_finishCall g _).trans hg.hung⟩

theorem directAns_ne_eintr (ks : List KAns) : directAns ks ≠ .eintr := by
  induction ks with
  | nil => simp [directAns]
  | cons k ks ih => cases k <;> simp [directAns, ih]

theorem kN_lt_refused {k : KAns} {len : Nat} (hk : k ≠ .eintr) (hf : k ≠ .fail) (h : kN k len < len) :
    refused k len = true := by
  cases k with
  | wrote n => simp [kN] at h; simp [refused]; omega
  | eagain => rfl
  | eintr => exact absurd rfl hk
  | fail => exact absurd rfl hf

/-- c.write on an empty queue leaves a backlog only if the kernel refused (part of) the direct write -/
theorem writeInner_backlog (g : Cfg) (s : S) (b : Bytes) (k : KAns) (hw : s.wl = []) (hk : k ≠ .eintr)
    (_he : (writeInner g s b k).2.err = .none) (hne : (writeInner g s b k).1.wl ≠ []) :
    (b.length != 0 && !overflow g s b.length && refused k b.length) = true := by
  unfold writeInner at hne
  split at hne
  · exact absurd hw hne
  rename_i hb
  split at hne
  · exact absurd hw hne
  rename_i hov
  have hemp : s.wl.isEmpty = true := by simp [hw]
  rw [if_pos hemp] at hne
  split at hne
  · exact absurd hw hne
  rename_i hf
  simp only at hne
  split at hne
  · rename_i hlt
    have : refused k b.length = true := kN_lt_refused hk hf (by omega)
    simp [hb, this]
    simpa using hov
  · exact absurd hw hne

theorem writevInner_backlog (g : Cfg) (s : S) (bs : List Bytes) (k : KAns) (hw : s.wl = []) (hk : k ≠ .eintr)
    (_he : (writevInner g s bs k).2.err = .none) (hne : (writevInner g s bs k).1.wl ≠ []) :
    (total bs != 0 && !overflow g s (total bs) && refused k (total bs)) = true := by
  unfold writevInner at hne
  simp only at hne
  split at hne
  · exact absurd hw hne
  rename_i hov
  have hemp : (!s.wl.isEmpty) = false := by simp [hw]
  simp only [hemp, Bool.false_eq_true, if_false] at hne
  split at hne
  · exact absurd hw hne
  rename_i h0
  split at hne
  · exact absurd hw hne
  rename_i hf
  split at hne
  · rename_i hlt
    have : refused k (total bs) = true := kN_lt_refused hk hf hlt
    simp [h0, this]
    simpa using hov
  · exact absurd hw hne

/-- flush gives up on a backlog only after the kernel refused a request -/
theorem flushLoop_refused (g : Cfg) : ∀ (fuel : Nat) (s : S) (ks : List KAns) (t : S),
    t = flushLoop g fuel s ks → t.hung = false → t.closed = false → t.wl ≠ [] →
    flushRefused fuel s.wl ks = true := by
  intro fuel
  induction fuel with
  | zero => intro s ks t ht hh _ _; subst ht; simp [flushLoop] at hh
  | succ fuel ih =>
    intro s ks t ht hh hc hw
    unfold flushLoop at ht
    split at ht
    · rename_i hwl
      subst ht
      rw [wl_cResetRead] at hw
      exact absurd hwl hw
    · rename_i d off tl hwl
      rw [hwl]
      unfold flushRefused
      simp only [List.length_drop] at ht ⊢
      by_cases h0 : d.length - off = 0
      · rw [if_pos h0] at ht ⊢
        have := ih s ks t ht hh hc hw
        rw [hwl] at this; exact this
      · rw [if_neg h0] at ht ⊢
        cases ks with
        | nil => rfl
        | cons k ks' =>
          cases k with
          | eagain => rfl
          | eintr =>
            simp only at ht ⊢
            have := ih s ks' t ht hh hc hw
            rw [hwl] at this; exact this
          | fail => subst ht; simp [closeNow] at hc
          | wrote n0 =>
            simp only at ht ⊢
            by_cases hlt : n0 < d.length - off
            · rw [if_pos hlt]
            · rw [if_neg hlt]
              have hmin : min n0 (d.length - off) = d.length - off := by omega
              rw [hmin, if_neg h0] at ht
              simp only [if_true] at ht
              exact ih _ ks' t ht hh hc hw
    · rename_i off rem tl hwl
      rw [hwl]
      unfold flushRefused
      by_cases h0 : rem = 0
      · rw [if_pos h0] at ht ⊢
        have := ih s ks t ht hh hc hw
        rw [hwl] at this; exact this
      · rw [if_neg h0] at ht ⊢
        cases ks with
        | nil => rfl
        | cons k ks' =>
          cases k with
          | eagain => rfl
          | eintr =>
            simp only at ht ⊢
            have := ih s ks' t ht hh hc hw
            rw [hwl] at this; exact this
          | fail => subst ht; simp [closeNow] at hc
          | wrote n0 =>
            simp only at ht ⊢
            by_cases hlt : n0 < rem
            · rw [if_pos hlt]
            · rw [if_neg hlt]
              have hmin : min n0 rem = rem := by omega
              rw [hmin, if_neg h0] at ht
              simp only [if_true] at ht
              exact ih _ ks' t ht hh hc hw

theorem flush_refused (g : Cfg) (s : S) (ks : List KAns) (hcs : s.closed = false)
    (hh : (flush g s ks).hung = false) (hc : (flush g s ks).closed = false) (hw : (flush g s ks).wl ≠ []) :
    flushRefused (ks.length + 1) s.wl ks = true := by
  unfold flush at hh hc hw
  rw [if_neg (by simp [hcs])] at hh hc hw
  split at hh
  · rename_i he
    rw [if_pos he, wl_cResetRead] at hw
    exact absurd (isEmpty_eq_true he) hw
  · rename_i he
    rw [if_neg he] at hc hw
    exact flushLoop_refused g _ s ks _ rfl hh hc hw

/-- the direct loop of Sendfile queues the rest of the range only after the kernel refused a request -/
theorem sendfileLoop_refused (g : Cfg) (ks : List KAns) : ∀ (s : S) (off rem : Nat), s.wl = [] →
    (sendfileLoop g s off rem ks).1.closed = false → (sendfileLoop g s off rem ks).1.wl ≠ [] →
    sendfileRefused rem ks = true := by
  induction ks with
  | nil =>
    intro s off rem hwl _ hw
    unfold sendfileLoop at hw
    split at hw
    · exact absurd hwl hw
    · rename_i hr
      cases rem with
      | zero => exact absurd rfl hr
      | succ r => rfl
  | cons k ks ih =>
    intro s off rem hwl hc hw
    unfold sendfileLoop at hc hw
    split at hw
    · exact absurd hwl hw
    rename_i hr
    rw [if_neg hr] at hc
    cases rem with
    | zero => exact absurd rfl hr
    | succ r =>
      unfold sendfileRefused
      cases k with
      | eagain => rfl
      | eintr => exact ih s off (r + 1) hwl hc hw
      | fail => simp [closeNow] at hc
      | wrote n0 =>
        simp only at hc hw ⊢
        by_cases hlt : n0 < min maxSendfile (r + 1)
        · rw [if_pos hlt]
        · rw [if_neg hlt]
          have hmin : min n0 (min maxSendfile (r + 1)) = min maxSendfile (r + 1) := by omega
          have hpos : min maxSendfile (r + 1) ≠ 0 := by simp [maxSendfile]
          rw [hmin, if_neg hpos] at hc hw
          exact ih _ _ _ (by exact hwl) hc hw

theorem frame_sendfileLoop (g : Cfg) (ks : List KAns) :
    ∀ (s : S) (off rem : Nat), R (sendfileLoop g s off rem ks).1 = R s ∧ (sendfileLoop g s off rem ks).1.hung = s.hung := by
  induction ks with
  | nil =>
    intro s off rem
    unfold sendfileLoop
    split
    · exact ⟨rfl, rfl⟩
    · refine ⟨by rw [R_cModWrite]; rfl, ?_⟩
      have := D_cModWrite g (enqueueFile { s with accepted := s.accepted ++ fileRange g off rem } off rem)
      simp only [D, Prod.mk.injEq] at this; exact this.2.1
  | cons k ks ih =>
    intro s off rem
    unfold sendfileLoop
    split
    · exact ⟨rfl, rfl⟩
    split
    · refine ⟨by rw [R_cModWrite]; rfl, ?_⟩
      have := D_cModWrite g (enqueueFile { s with accepted := s.accepted ++ fileRange g off rem } off rem)
      simp only [D, Prod.mk.injEq] at this; exact this.2.1
    · exact ih s off rem
    · exact ⟨rfl, rfl⟩
    · simp only
      split
      · exact ⟨rfl, rfl⟩
      · exact ih _ _ _

theorem frame_sendfile (g : Cfg) (s : S) (off len : Nat) (ks : List KAns) :
    R (sendfile g s off len ks).1 = R s ∧ (sendfile g s off len ks).1.hung = s.hung := by
  unfold sendfile
  simp only
  repeat' split
  all_goals first | exact ⟨rfl, rfl⟩ | exact frame_sendfileLoop g ks s off _

theorem finishCall_backlog (g : Cfg) (r : S × Ret) (hc : (finishCall g r).1.closed = false)
    (hw : (finishCall g r).1.wl ≠ []) : r.2.err = .none ∧ r.1.wl ≠ [] := by
  unfold finishCall at hc hw
  split at hc
  · rename_i he
    rw [if_pos he] at hw
    simp only at hw
    split at hw
    · rename_i hemp; exact absurd (isEmpty_eq_true hemp) hw
    · rename_i hemp; exact ⟨he, isEmpty_ne_true hemp⟩
  · simp [flip] at hc

theorem write_backlog (g : Cfg) (s : S) (b : Bytes) (k : KAns) (hh : s.hung = false) (hcs : s.closed = false)
    (hw0 : s.wl = []) (hk : k ≠ .eintr) (hc : (write g s b k).1.closed = false) (hw : (write g s b k).1.wl ≠ []) :
    directRefused g s b.length k = true := by
  unfold write at hc hw
  rw [if_neg (by simp [hh]), if_neg (by simp [hcs])] at hc hw
  obtain ⟨he, hne⟩ := finishCall_backlog g _ hc hw
  have := writeInner_backlog g s b k hw0 hk he hne
  simp only [directRefused, hh, hcs, hw0, List.isEmpty_nil, Bool.not_false, Bool.true_and, Bool.and_true]
  simpa [Bool.and_assoc] using this

theorem writev_backlog (g : Cfg) (s : S) (bs : List Bytes) (k : KAns) (hh : s.hung = false) (hcs : s.closed = false)
    (hw0 : s.wl = []) (hk : k ≠ .eintr) (hc : (writev g s bs k).1.closed = false) (hw : (writev g s bs k).1.wl ≠ []) :
    directRefused g s (total bs) k = true := by
  rw [writev_eq] at hc hw
  rw [if_neg (by simp [hh]), if_neg (by simp [hcs])] at hc hw
  obtain ⟨he, hne⟩ := finishCall_backlog g _ hc hw
  have : (total bs != 0 && !overflow g s (total bs) && refused k (total bs)) = true := by
    generalize hr : writevCore g s bs k = r at he hne
    unfold writevCore at hr
    split at hr
    · rename_i b
      subst hr
      have := writeInner_backlog g s b k hw0 hk he hne
      simpa [total] using this
    · subst hr
      exact writevInner_backlog g s bs k hw0 hk he hne
  simp only [directRefused, hh, hcs, hw0, List.isEmpty_nil, Bool.not_false, Bool.true_and, Bool.and_true]
  simpa [Bool.and_assoc] using this

theorem sendfile_backlog (g : Cfg) (s : S) (off len : Nat) (ks : List KAns) (hh : s.hung = false)
    (hcs : s.closed = false) (hw0 : s.wl = []) (hc : (sendfile g s off len ks).1.closed = false)
    (hw : (sendfile g s off len ks).1.wl ≠ []) : sendfileRefused (sendRange g off len) ks = true := by
  unfold sendfile at hc hw
  rw [if_neg (by simp [hh]), if_neg (by simp [hcs])] at hc hw
  simp only at hc hw
  split at hw
  · exact absurd hw0 hw
  rename_i hr
  rw [if_neg hr] at hc
  have hemp : (!s.wl.isEmpty) = false := by simp [hw0]
  simp only [hemp, Bool.false_eq_true, if_false] at hc hw
  have hc' : (sendfileLoop g s off (sendRange g off len) ks).1.closed = false := by
    split at hc <;> exact hc
  have hw' : (sendfileLoop g s off (sendRange g off len) ks).1.wl ≠ [] := by
    split at hw <;> exact hw
  exact sendfileLoop_refused g ks s off _ hw0 hc' hw'

/-! ### the invariant of edge-triggered reporting -/

structure InvE (g : Cfg) (s : S) : Prop where
  /-- ET: an open, registered connection with a backlog is owed a writability report -/
  et : g.mode = .et → s.closed = false → s.hung = false → s.reg = true → s.early = false → s.wl ≠ [] →
    s.edgeDue = true
  /-- while an async connect is in progress (connected callback not yet started) nothing is queued -/
  ec : s.closed = false → s.early = false → s.connecting = true → s.connEv = false → s.wl = []

theorem invE_init (g : Cfg) : InvE g init := by constructor <;> simp [init]

theorem invE_of_closed {g : Cfg} {s : S} (h : s.closed = true) : InvE g s :=
  ⟨fun _ hc => by simp [h] at hc, fun hc => by simp [h] at hc⟩

theorem write_closed_id (g : Cfg) (s : S) (b : Bytes) (k : KAns) (h : s.closed = true) : (write g s b k).1 = s := by
  unfold write; split; rfl; simp [h]
theorem writev_closed_id (g : Cfg) (s : S) (bs : List Bytes) (k : KAns) (h : s.closed = true) : (writev g s bs k).1 = s := by
  unfold writev; split; rfl; simp [h]
theorem sendfile_closed_id (g : Cfg) (s : S) (off len : Nat) (ks : List KAns) (h : s.closed = true) :
    (sendfile g s off len ks).1 = s := by
  unfold sendfile; split; rfl; simp [h]

/-- the common shape of the three calls: `w` is the state after the call, `ref` the refusal observer -/
theorem invE_call (g : Cfg) (s w : S) (ref : Bool) (hi : InvE g s)
    (hR : R w = R s) (hhung : w.hung = s.hung) (hcl : s.closed = true → w = s)
    (hback : s.hung = false → s.closed = false → s.wl = [] → w.closed = false → w.wl ≠ [] → ref = true) :
    InvE g (ghost w (s.edgeDue || ref) (s.early || isEarly s)) := by
  simp only [R, Prod.mk.injEq] at hR
  obtain ⟨r1, r2, r3⟩ := hR
  have hopen : w.closed = false → s.closed = false := by
    intro h
    cases hc : s.closed
    · rfl
    · rw [hcl hc] at h; rw [hc] at h; exact absurd h (by simp)
  constructor
  · intro hm hc hh hr hy hw
    have hc' : w.closed = false := hc
    have hh' : s.hung = false := by rw [← hhung]; exact hh
    have hr' : s.reg = true := by rw [← r1]; exact hr
    have hy' : s.early = false := by
      have : (s.early || isEarly s) = false := hy
      simp at this; exact this.1
    have hw' : w.wl ≠ [] := hw
    show (s.edgeDue || ref) = true
    by_cases hw0 : s.wl = []
    · rw [hback hh' (hopen hc') hw0 hc' hw']; simp
    · rw [hi.et hm (hopen hc') hh' hr' hy' hw0]; simp
  · intro hc hy hcn hcv
    have hy' : (s.early || isEarly s) = false := hy
    have hcn' : s.connecting = true := by rw [← r2]; exact hcn
    have hcv' : s.connEv = false := by rw [← r3]; exact hcv
    simp [isEarly, hcn', hcv'] at hy'

/-- what the poller's re-arming helpers leave alone -/
def W (s : S) := (s.wl, s.hung, s.reg, s.edgeDue, s.early, s.closed, s.connecting, s.connEv)

theorem W_kctl_mod (s : S) (o : Bool) : W (kctl s false o) = W s := by
  unfold kctl; simp only [Bool.false_eq_true, if_false]; split <;> rfl
theorem W_pModWrite (g : Cfg) (s : S) : W (pModWrite g s) = W s := by
  unfold pModWrite; split; rfl; exact W_kctl_mod _ _
theorem W_pResetRead (g : Cfg) (s : S) : W (pResetRead g s) = W s := by
  unfold pResetRead; split; rfl; exact W_kctl_mod _ _
theorem W_cResetRead (g : Cfg) (s : S) : W (cResetRead g s) = W s := by
  unfold cResetRead; split
  · rw [W_pResetRead]; rfl
  · rfl
theorem W_resetPollerEvent (g : Cfg) (s : S) : W (resetPollerEvent g s) = W s := by
  unfold resetPollerEvent; split
  · split
    · exact W_pResetRead _ _
    · exact W_pModWrite _ _
  · rfl

theorem InvE.of_W {g : Cfg} {s t : S} (hi : InvE g s) (h : W t = W s) : InvE g t := by
  simp only [W, Prod.mk.injEq] at h
  obtain ⟨w1, w2, w3, w4, w5, w6, w7, w8⟩ := h
  exact ⟨by rw [w6, w2, w3, w5, w1, w4]; exact hi.et, by rw [w6, w5, w7, w8, w1]; exact hi.ec⟩

theorem invE_evEnd (g : Cfg) (s : S) (hi : InvE g s) : InvE g (evEnd g s) := by
  unfold evEnd
  split
  · exact hi
  · simp only
    have h0 : InvE g (if s.connEv = true then cResetRead g { s with connecting := false, connEv := false } else s) := by
      split
      · have hw := W_cResetRead g { s with connecting := false, connEv := false }
        simp only [W, Prod.mk.injEq] at hw
        obtain ⟨w1, w2, w3, w4, w5, w6, w7, w8⟩ := hw
        constructor
        · rw [w6, w2, w3, w5, w1, w4]; exact hi.et
        · intro _ _ hcn _
          rw [w7] at hcn; simp at hcn
      · exact hi
    generalize (if s.connEv = true then cResetRead g { s with connecting := false, connEv := false } else s) = s0 at h0 ⊢
    have h1 : InvE g (if s0.rearm = true then resetPollerEvent g { s0 with rearm := false } else s0) := by
      split
      · exact (h0.of_W (t := { s0 with rearm := false }) rfl).of_W (W_resetPollerEvent g _)
      · exact h0
    generalize (if s0.rearm = true then resetPollerEvent g { s0 with rearm := false } else s0) = t at h1 ⊢
    split
    · split
      · exact h1.of_W rfl
      · exact invE_of_closed (by simp [flipWE, flip, stopTimer])
    · exact h1

theorem invE_evConnEnd (g : Cfg) (s : S) (hi : InvE g s) : InvE g (evConnEnd g s) := by
  unfold evConnEnd
  split
  · exact hi
  · split
    · have hw := W_cResetRead g { s with connecting := false, connEv := false }
      simp only [W, Prod.mk.injEq] at hw
      obtain ⟨w1, w2, w3, w4, w5, w6, w7, w8⟩ := hw
      constructor
      · rw [w6, w2, w3, w5, w1, w4]; exact hi.et
      · intro _ _ hcn _
        rw [w7] at hcn; simp at hcn
    · exact hi

theorem invE_evRearm (g : Cfg) (s : S) (hi : InvE g s) : InvE g (evRearm g s) := by
  unfold evRearm
  split
  · exact hi
  · split
    · exact (hi.of_W (t := { s with rearm := false }) rfl).of_W (W_resetPollerEvent g _)
    · exact hi

theorem invE_evErrClose (g : Cfg) (s : S) (hi : InvE g s) : InvE g (evErrClose s) := by
  unfold evErrClose
  split
  · exact hi
  · split
    · split
      · exact hi.of_W rfl
      · exact invE_of_closed (by simp [flipWE, flip, stopTimer])
    · exact hi

theorem invE_evTake (g : Cfg) (s : S) (o0 i e : Bool) (ks : List KAns) (hd : InvD g s) (hi : InvE g s) :
    InvE g (evTakeOp g s o0 i e ks) := by
  unfold evTakeOp
  simp only
  generalize ho : (o0 && (g.mode != .et || s.edgeDue)) = o
  by_cases hdl : (!((deliverable s o i e).1 || (deliverable s o i e).2.1 || (deliverable s o i e).2.2)) = true
  · -- nothing is delivered
    have hno : (deliverable s o i e).1 = false := by
      cases h : (deliverable s o i e).1
      · rfl
      · simp [h] at hdl
    have hs : evTake g s o i e ks = s := by
      unfold evTake; simp only; rw [if_pos hdl]
    rw [hs, hno]
    refine hi.of_W ?_
    simp [W, ghost]
  · obtain ⟨hh, hr, hc, hdis, hre, hee, hcv, hany⟩ := deliverable_some hdl
    -- what the event does to the fields of the invariant
    have hdv : (deliverable s o i e).1 = (o && s.kOut) := by
      simp [deliverable, hh, hr, hc, hdis, hre, hee, hcv]
    unfold evTake
    simp only
    rw [if_neg hdl]
    have h1 : W (if (g.mode == Mode.oneshot) = true then { s with disarmed := true } else s) = W s := by
      split <;> rfl
    generalize (if (g.mode == Mode.oneshot) = true then { s with disarmed := true } else s) = s1 at h1 ⊢
    simp only [W, Prod.mk.injEq] at h1
    obtain ⟨w1, w2, w3, w4, w5, w6, w7, w8⟩ := h1
    generalize hd1 : (deliverable s o i e).1 = d1 at hdv ⊢
    cases d1 with
    | false =>
      -- no EPOLLOUT part: nothing but the poller's bookkeeping changes
      simp only [Bool.false_eq_true, if_false, Bool.false_and, Bool.or_false]
      refine hi.of_W ?_
      simp [W, ghost, w1, w2, w3, w5, w6, w7, w8]
    | true =>
      simp only [if_true, Bool.true_and]
      -- ET delivers EPOLLOUT only when a report is due
      have hedge : g.mode = .et → s.edgeDue = true := by
        intro hm
        have : o = true := by
          cases o
          · simp at hdv
          · rfl
        rw [this] at ho
        simp [hm] at ho
        exact ho.2
      by_cases hcn : s1.connecting = true
      · -- the connect completes: connected callback, no flush
        rw [if_pos hcn]
        have hcn' : s.connecting = true := by rw [← w7]; exact hcn
        constructor
        · intro _ hc' _ _ hy hw
          have hw' : s1.wl ≠ [] := hw
          rw [w1] at hw'
          exact absurd (hi.ec hc hy hcn' hcv) hw'
        · intro _ _ _ hcv'
          have : (true : Bool) = false := hcv'
          exact absurd this (by simp)
      · rw [if_neg hcn]
        have hcn' : s.connecting = false := by rw [← w7]; simpa using hcn
        have hcal := calm_flush g s1 ks
        have hc1 : s1.closed = false := by rw [w6]; exact hc
        constructor
        · intro hm hc' hh' hr' hy hw
          have hw' : (flush g s1 ks).wl ≠ [] := hw
          have href := flush_refused g s1 ks hc1 hh' hc' hw'
          rw [w1] at href
          show ((if (true && g.mode == Mode.et) = true then false else s.edgeDue) ||
            (!s.connecting && flushRefused (ks.length + 1) s.wl ks)) = true
          simp [hcn', href]
        · intro _ _ hcn2 _
          have : (flush g s1 ks).connecting = true := hcn2
          rw [hcal.connecting] at this
          exact absurd this hcn

theorem invE_step (g : Cfg) (s : S) (op : Op) (hd : InvD g s) (hi : InvE g s) : InvE g (step g s op) := by
  cases op with
  | write b ks =>
    have hk := directAns_ne_eintr ks
    show InvE g (ghost (write g s b (directAns ks)).1 (s.edgeDue || directRefused g s b.length (directAns ks))
      (s.early || isEarly s))
    generalize directAns ks = k at hk ⊢
    have hf := frame_write g s b k hd.pos
    exact invE_call g s _ _ hi hf.1 hf.2 (write_closed_id g s b k)
      (fun hh hc hw0 h1 h2 => write_backlog g s b k hh hc hw0 hk h1 h2)
  | writev bs ks =>
    have hk := directAns_ne_eintr ks
    show InvE g (ghost (writev g s bs (directAns ks)).1 (s.edgeDue || directRefused g s (total bs) (directAns ks))
      (s.early || isEarly s))
    generalize directAns ks = k at hk ⊢
    have hf := frame_writev g s bs k hd.pos
    exact invE_call g s _ _ hi hf.1 hf.2 (writev_closed_id g s bs k)
      (fun hh hc hw0 h1 h2 => writev_backlog g s bs k hh hc hw0 hk h1 h2)
  | sendfile off len ks =>
    have hf := frame_sendfile g s off len ks
    have h := invE_call g s (sendfile g s off len ks).1
      (!s.hung && !s.closed && s.wl.isEmpty && sendfileRefused (sendRange g off len) ks) hi hf.1 hf.2
      (sendfile_closed_id g s off len ks)
      (fun hh hc hw0 h1 h2 => by
        rw [sendfile_backlog g s off len ks hh hc hw0 h1 h2]; simp [hh, hc, hw0])
    exact h
  | register =>
    show InvE g (ghost (register g s) (s.edgeDue || (!s.hung && !s.reg && !s.closed)) s.early)
    unfold register
    split
    · rename_i h
      -- nothing happens: already registered, closed or hung
      constructor
      · intro hm hc hh hr hy hw
        have hreg : s.reg = true := by
          cases hrr : s.reg
          · have hc' : s.closed = false := hc
            have hh' : s.hung = false := hh
            simp [hh', hrr, hc'] at h
          · rfl
        have := hi.et hm hc hh hreg hy hw
        show (s.edgeDue || _) = true
        rw [this]; simp
      · exact hi.ec
    · rename_i h
      have h3 : (s.hung = false ∧ s.reg = false) ∧ s.closed = false := by simpa using h
      obtain ⟨⟨hh, hr⟩, hc⟩ := h3
      constructor
      · intro _ _ _ _ _ _
        show (s.edgeDue || (!s.hung && !s.reg && !s.closed)) = true
        simp [hh, hr, hc]
      · intro hc' hy hcn hcv
        have e1 : (if s.wl.isEmpty = true then pAddRead g s else pAddReadWrite g s).wl = s.wl := by
          split
          · have := D_pAddRead g s; simp only [D, Prod.mk.injEq] at this; exact this.2.2.1
          · have := D_pAddReadWrite g s; simp only [D, Prod.mk.injEq] at this; exact this.2.2.1
        have e2 : R (if s.wl.isEmpty = true then pAddRead g s else pAddReadWrite g s) = (true, s.connecting, s.connEv) := by
          split
          · unfold pAddRead; split <;> simp [kctl, R]
          · simp [pAddReadWrite, kctl, R]
        simp only [R, Prod.mk.injEq] at e2
        show (if s.wl.isEmpty = true then pAddRead g s else pAddReadWrite g s).wl = []
        rw [e1]
        exact hi.ec hc hy (by rw [← e2.2.1]; exact hcn) (by rw [← e2.2.2]; exact hcv)
  | registerDial =>
    show InvE g (ghost (registerDial g s) (s.edgeDue || (!s.hung && !s.reg && !s.closed))
      (s.early || (!s.hung && !s.reg && !s.closed && !s.wl.isEmpty)))
    unfold registerDial
    split
    · rename_i h
      constructor
      · intro hm hc hh hr hy hw
        have hc' : s.closed = false := hc
        have hh' : s.hung = false := hh
        have hreg : s.reg = true := by
          cases hrr : s.reg
          · simp [hh', hrr, hc'] at h
          · rfl
        have hy' : s.early = false := by
          have : (s.early || (!s.hung && !s.reg && !s.closed && !s.wl.isEmpty)) = false := hy
          simp at this; exact this.1
        have := hi.et hm hc hh hreg hy' hw
        show (s.edgeDue || _) = true
        rw [this]; simp
      · intro hc hy hcn hcv
        have hy' : s.early = false := by
          have : (s.early || (!s.hung && !s.reg && !s.closed && !s.wl.isEmpty)) = false := hy
          simp at this; exact this.1
        exact hi.ec hc hy' hcn hcv
    · rename_i h
      have h3 : (s.hung = false ∧ s.reg = false) ∧ s.closed = false := by simpa using h
      obtain ⟨⟨hh, hr⟩, hc⟩ := h3
      have e1 : (pAddReadWrite g { s with isWAdded := true, connecting := true }).wl = s.wl := by
        have := D_pAddReadWrite g { s with isWAdded := true, connecting := true }
        simp only [D, Prod.mk.injEq] at this; exact this.2.2.1
      constructor
      · intro _ _ _ _ _ _
        show (s.edgeDue || (!s.hung && !s.reg && !s.closed)) = true
        simp [hh, hr, hc]
      · intro _ hy _ _
        have : (s.early || (!s.hung && !s.reg && !s.closed && !s.wl.isEmpty)) = false := hy
        simp [hh, hr, hc] at this
        show (pAddReadWrite g { s with isWAdded := true, connecting := true }).wl = []
        rw [e1]; exact this.2
  | registerDialNow =>
    show InvE g (ghost (registerDialNow g s) (s.edgeDue || (!s.hung && !s.reg && !s.closed)) s.early)
    unfold registerDialNow
    split
    · rename_i h
      constructor
      · intro hm hc hh hr hy hw
        have hreg : s.reg = true := by
          cases hrr : s.reg
          · have hc' : s.closed = false := hc
            have hh' : s.hung = false := hh
            simp [hh', hrr, hc'] at h
          · rfl
        have := hi.et hm hc hh hreg hy hw
        show (s.edgeDue || _) = true
        rw [this]; simp
      · exact hi.ec
    · rename_i h
      have h3 : (s.hung = false ∧ s.reg = false) ∧ s.closed = false := by simpa using h
      obtain ⟨⟨hh, hr⟩, hc⟩ := h3
      have e1 : (pAddReadWrite g { s with isWAdded := true, idle := true }).wl = s.wl := by
        have := D_pAddReadWrite g { s with isWAdded := true, idle := true }
        simp only [D, Prod.mk.injEq] at this; exact this.2.2.1
      have e2 : R (pAddReadWrite g { s with isWAdded := true, idle := true }) = (true, s.connecting, s.connEv) := by
        simp [pAddReadWrite, kctl, R]
      simp only [R, Prod.mk.injEq] at e2
      constructor
      · intro _ _ _ _ _ _
        show (s.edgeDue || (!s.hung && !s.reg && !s.closed)) = true
        simp [hh, hr, hc]
      · intro hc' hy hcn hcv
        show (pAddReadWrite g { s with isWAdded := true, idle := true }).wl = []
        rw [e1]
        exact hi.ec hc hy (by rw [← e2.2.1]; exact hcn) (by rw [← e2.2.2]; exact hcv)
  | evTake o0 i e ks => exact invE_evTake g s o0 i e ks hd hi
  | evEnd => exact invE_evEnd g s hi
  | evConnEnd => exact invE_evConnEnd g s hi
  | evRearm => exact invE_evRearm g s hi
  | evErrClose => exact invE_evErrClose g s hi
  | flipClosed =>
    show InvE g (flipClosed s)
    unfold flipClosed
    split
    · exact hi
    · exact invE_of_closed (by simp [flipWE, flip, stopTimer])
  | teardown =>
    show InvE g (teardown s)
    unfold teardown
    split
    · constructor
      · intro _ _ _ _ _ hw; simp at hw
      · intro _ _ _ _; rfl
    · exact hi
  | setWriteDeadline z =>
    show InvE g (setWriteDeadline s z)
    unfold setWriteDeadline
    split
    · exact hi
    · exact ⟨hi.et, hi.ec⟩
  | timerExpire =>
    show InvE g (timerExpire s)
    unfold timerExpire
    split
    · exact ⟨hi.et, hi.ec⟩
    · exact hi
  | timerFire =>
    show InvE g (timerFire s)
    unfold timerFire
    split
    · exact hi
    · split
      · exact ⟨hi.et, hi.ec⟩
      · exact invE_of_closed (by simp [flipWE, flip, stopTimer])

end ConnFull
