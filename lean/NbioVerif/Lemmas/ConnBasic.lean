import NbioVerif.Model.ConnFull
/-! ConnFull: lemmas about the abstract quantities (pending, unsent, backlog, fileRange) and the queue helpers -/
namespace ConnFull

/-! ### fileRange -/

theorem fileRangeAux_eq (g : Cfg) (off n : Nat) : ∀ acc : Bytes,
    fileRangeAux g off n acc = ((List.range n).map fun i => g.file (off + i)) ++ acc := by
  induction n with
  | zero => intro acc; simp [fileRangeAux]
  | succ n ih => intro acc; rw [fileRangeAux, ih, List.range_succ]; simp

theorem fileRange_eq (g : Cfg) (off n : Nat) : fileRange g off n = (List.range n).map fun i => g.file (off + i) := by
  simp [fileRange, fileRangeAux_eq]

theorem fileRange_length (g : Cfg) (off n : Nat) : (fileRange g off n).length = n := by
  simp [fileRange_eq]

theorem fileRange_zero (g : Cfg) (off : Nat) : fileRange g off 0 = [] := by
  simp [fileRange_eq]

theorem fileRange_add (g : Cfg) (off a b : Nat) :
    fileRange g off (a + b) = fileRange g off a ++ fileRange g (off + a) b := by
  simp [fileRange_eq, List.range_add, List.map_append, List.map_map, Function.comp_def, Nat.add_assoc]

theorem fileRange_split (g : Cfg) (off n rem : Nat) (h : n ≤ rem) :
    fileRange g off rem = fileRange g off n ++ fileRange g (off + n) (rem - n) := by
  have : rem = n + (rem - n) := by omega
  conv => lhs; rw [this]
  exact fileRange_add g off n (rem - n)

/-! ### pending / unsent / backlog -/

theorem pending_nil (g : Cfg) : pending g [] = [] := rfl
theorem unsent_nil : unsent [] = 0 := rfl
theorem backlog_nil : backlog [] = 0 := rfl

theorem pending_cons (g : Cfg) (t : Item) (wl : List Item) : pending g (t :: wl) = t.rest g ++ pending g wl := by
  simp [pending]
theorem unsent_cons (t : Item) (wl : List Item) : unsent (t :: wl) = t.held + unsent wl := by
  simp [unsent]
theorem backlog_cons (t : Item) (wl : List Item) : backlog (t :: wl) = t.todo + backlog wl := by
  simp [backlog]

theorem foldFile_eq {α : Type} (g : Cfg) (f : α → UInt8 → α) (rem : Nat) : ∀ (off : Nat) (a : α),
    foldFile g f off rem a = (fileRange g off rem).foldl f a := by
  induction rem with
  | zero => intro off a; simp [foldFile, fileRange_zero]
  | succ n ih =>
    intro off a
    have e : fileRange g off (n + 1) = g.file off :: fileRange g (off + 1) n := by
      rw [Nat.add_comm n 1, fileRange_add g off 1 n]; simp [fileRange_eq]
    rw [foldFile, ih, e, List.foldl_cons]

/-- the driver's hash of the queued bytes is the hash of `pending` -/
theorem foldPending_eq {α : Type} (g : Cfg) (f : α → UInt8 → α) (wl : List Item) : ∀ a : α,
    foldPending g f wl a = (pending g wl).foldl f a := by
  induction wl with
  | nil => intro a; rfl
  | cons t tl ih =>
    intro a
    rw [pending_cons, List.foldl_append]
    cases t with
    | buf d off => rw [foldPending, ih]; rfl
    | file off rem => rw [foldPending, ih, foldFile_eq]; rfl

theorem pending_append (g : Cfg) (a b : List Item) : pending g (a ++ b) = pending g a ++ pending g b := by
  simp [pending]
theorem unsent_append (a b : List Item) : unsent (a ++ b) = unsent a + unsent b := by
  simp [unsent]
theorem backlog_append (a b : List Item) : backlog (a ++ b) = backlog a + backlog b := by
  simp [backlog]

theorem pending_length (g : Cfg) (wl : List Item) : (pending g wl).length = backlog wl := by
  induction wl with
  | nil => rfl
  | cons t tl ih =>
    rw [pending_cons, backlog_cons, List.length_append, ih]
    cases t <;> simp [Item.rest, Item.todo, fileRange_length]

theorem unsent_le_backlog (wl : List Item) : unsent wl ≤ backlog wl := by
  induction wl with
  | nil => simp [unsent, backlog]
  | cons t tl ih =>
    rw [unsent_cons, backlog_cons]
    cases t <;> simp [Item.held, Item.todo] <;> omega

/-- every queued item has something left to send -/
def Item.Pos : Item → Prop
  | .buf d off => off < d.length
  | .file _ rem => 0 < rem

def AllPos (wl : List Item) : Prop := ∀ t ∈ wl, t.Pos

theorem allPos_nil : AllPos [] := by intro t ht; cases ht

theorem allPos_append {a b : List Item} (ha : AllPos a) (hb : AllPos b) : AllPos (a ++ b) := by
  intro t ht
  rcases List.mem_append.mp ht with h | h
  · exact ha t h
  · exact hb t h

theorem allPos_tail {t : Item} {tl : List Item} (h : AllPos (t :: tl)) : AllPos tl :=
  fun x hx => h x (List.mem_cons_of_mem _ hx)

theorem wl_split (wl : List Item) (t : Item) (h : wl.getLast? = some t) : wl = wl.dropLast ++ [t] := by
  obtain ⟨ys, hy⟩ := List.getLast?_eq_some_iff.mp h
  subst hy; simp

theorem total_nil : total [] = 0 := rfl
theorem total_cons (b : Bytes) (bs : List Bytes) : total (b :: bs) = b.length + total bs := by
  simp [total]
theorem flatten_length_total (bs : List Bytes) : bs.flatten.length = total bs := by
  induction bs with
  | nil => rfl
  | cons b bs ih => simp [total_cons, ih]

end ConnFull
