import NbioVerif.Model.HttpBody
/-! `BodyReader` theorems: the reader is a FIFO byte queue — what `Read` returns, in order, is what `append` was
    given, for any read sizes and any interleaving; `left` is the number of unread bytes; the read loop terminates;
    `Close` is idempotent and `Read` after `Close` is EOF. -/
namespace HttpBody

def flat (bs : List Buf) : Bytes := (bs.map (·.data)).flatten

theorem content_eq (br : BR) : content br = (flat br.buffers).drop br.index := rfl

/-- representation invariant -/
structure WF (br : BR) : Prop where
  left_eq : br.left = (content br).length
  nonempty : ∀ b ∈ br.buffers, b.data ≠ []
  index_lt : ∀ b bs, br.buffers = b :: bs → br.index < b.data.length
  index_zero : br.buffers = [] → br.index = 0
  cap_ok : ∀ b ∈ br.buffers, b.data.length ≤ b.cap

theorem wf_init : WF {} := by
  constructor <;> simp [content]

/-! ### append -/

/-- the buffers after `appendBufs`: same bytes followed by `data`; every buffer non-empty and within capacity; the
    first buffer only grows -/
theorem appendBufs_spec (data : Bytes) (extra id : Nat) (hd : data ≠ []) :
    ∀ (bufs : List Buf), (∀ b ∈ bufs, b.data ≠ []) → (∀ b ∈ bufs, b.data.length ≤ b.cap) →
      flat (appendBufs bufs data extra id).1 = flat bufs ++ data ∧
      (∀ b ∈ (appendBufs bufs data extra id).1, b.data ≠ []) ∧
      (∀ b ∈ (appendBufs bufs data extra id).1, b.data.length ≤ b.cap) ∧
      (appendBufs bufs data extra id).1 ≠ [] ∧
      (∀ b bs, bufs = b :: bs → ∃ b' bs', (appendBufs bufs data extra id).1 = b' :: bs' ∧
        b.data.length ≤ b'.data.length) := by
  intro bufs
  induction bufs with
  | nil =>
    intro _ _
    refine ⟨by simp [appendBufs, flat], ?_, ?_, by simp [appendBufs], by intro b bs h; cases h⟩
    · intro b hb; simp only [appendBufs, List.mem_singleton] at hb; subst hb; exact hd
    · intro b hb; simp only [appendBufs, List.mem_singleton] at hb; subst hb; simp
  | cons b bs ih =>
    intro hne hcap
    cases bs with
    | nil =>
      have hb := hne b (by simp)
      have hc := hcap b (by simp)
      simp only [appendBufs]
      split
      · rename_i hrest
        have htake : data.take (min (b.cap - b.data.length) data.length) = data := by
          have : data.length ≤ min (b.cap - b.data.length) data.length := by
            have := congrArg List.length hrest
            simp only [List.length_drop, List.length_nil] at this
            omega
          exact List.take_of_length_le this
        refine ⟨by simp [flat, htake], ?_, ?_, by simp, ?_⟩
        · intro x hx; simp only [List.mem_singleton] at hx; subst hx
          simp only; intro e; simp at e; exact hb e.1
        · intro x hx; simp only [List.mem_singleton] at hx; subst hx
          simp only [List.length_append, List.length_take]; omega
        · intro x xs h; cases h; exact ⟨_, _, rfl, by simp⟩
      · rename_i hrest
        refine ⟨?_, ?_, ?_, by simp, ?_⟩
        · simp only [flat, List.map_cons, List.map_nil, List.flatten_cons, List.flatten_nil, List.append_nil]
          rw [List.append_assoc, List.take_append_drop]
        · intro x hx
          simp only [List.mem_cons, List.mem_nil_iff, or_false] at hx
          rcases hx with hx | hx <;> subst hx
          · simp only; intro e; simp at e; exact hb e.1
          · exact hrest
        · intro x hx
          simp only [List.mem_cons, List.mem_nil_iff, or_false] at hx
          rcases hx with hx | hx <;> subst hx
          · simp only [List.length_append, List.length_take]; omega
          · simp
        · intro x xs h; cases h; exact ⟨_, _, rfl, by simp⟩
    | cons b' bs' =>
      obtain ⟨i1, i2, i3, i4, _⟩ := ih (fun x hx => hne x (by simp [hx])) (fun x hx => hcap x (by simp [hx]))
      simp only [appendBufs]
      refine ⟨?_, ?_, ?_, by simp, ?_⟩
      · simp only [flat, List.map_cons, List.flatten_cons] at i1 ⊢
        rw [i1]; simp
      · intro x hx
        simp only [List.mem_cons] at hx
        rcases hx with hx | hx
        · subst hx; exact hne _ (by simp)
        · exact i2 x hx
      · intro x hx
        simp only [List.mem_cons] at hx
        rcases hx with hx | hx
        · subst hx; exact hcap _ (by simp)
        · exact i3 x hx
      · intro x xs h; cases h; exact ⟨_, _, rfl, Nat.le_refl _⟩

/-- `append` adds exactly `data` at the end of the unread bytes, keeps the invariant, and does not touch `closed` or
    the read index -/
theorem append_spec (maxBody : Nat) (br br' : BR) (data : Bytes) (extra : Nat) (evs : List AllocEv)
    (hw : WF br) (h : append maxBody br data extra = some (br', evs)) :
    WF br' ∧ content br' = content br ++ data ∧ br'.closed = br.closed ∧ br'.index = br.index := by
  unfold append at h
  split at h
  · rename_i hd; cases h; subst hd; exact ⟨hw, by simp, rfl, rfl⟩
  · rename_i hd
    split at h
    · cases h
    · simp only [Option.some.injEq, Prod.mk.injEq] at h
      obtain ⟨h, _⟩ := h
      subst h
      obtain ⟨a1, a2, a3, a4, a5⟩ := appendBufs_spec data extra br.nextId hd br.buffers hw.nonempty hw.cap_ok
      have hidx : br.index ≤ (flat br.buffers).length := by
        cases hb : br.buffers with
        | nil => rw [hw.index_zero hb]; exact Nat.zero_le _
        | cons b bs =>
          have := hw.index_lt b bs hb
          simp only [flat, List.map_cons, List.flatten_cons, List.length_append]
          omega
      have hc : ∀ (l nid : Nat), content { br with left := l, buffers := (appendBufs br.buffers data extra br.nextId).1, nextId := nid } = content br ++ data := by
        intro l nid
        simp only [content_eq]
        rw [a1, List.drop_append_of_le_length hidx]
      refine ⟨⟨?_, a2, ?_, ?_, a3⟩, hc _ _, rfl, rfl⟩
      · rw [hc]; simp only [List.length_append, hw.left_eq]
      · intro b bs hb
        simp only at hb
        cases hbb : br.buffers with
        | nil =>
          simp only [hw.index_zero hbb]
          exact List.length_pos_iff.mpr (a2 b (by rw [hb]; simp))
        | cons b0 bs0 =>
          obtain ⟨b', bs', e, hle⟩ := a5 b0 bs0 hbb
          rw [hb] at e
          cases e
          have := hw.index_lt b0 bs0 hbb
          simp only; omega
      · intro e; exact absurd e a4

/-- `append` refuses exactly when the size limit would be exceeded -/
theorem append_limit (maxBody : Nat) (br : BR) (data : Bytes) (extra : Nat) :
    (append maxBody br data extra = none ↔ data ≠ [] ∧ maxBody > 0 ∧ data.length + br.left > maxBody) := by
  unfold append
  by_cases hd : data = []
  · simp [hd]
  · by_cases hm : maxBody > 0 ∧ data.length + br.left > maxBody
    · simp [hm, hd]
    · simp [hm, hd]

/-- so `left` never exceeds MaxHTTPBodySize (when set) -/
theorem append_bound (maxBody : Nat) (hm : maxBody > 0) (br br' : BR) (data : Bytes) (extra : Nat) (evs : List AllocEv)
    (hb : br.left ≤ maxBody) (h : append maxBody br data extra = some (br', evs)) : br'.left ≤ maxBody := by
  unfold append at h
  split at h
  · cases h; exact hb
  · split at h
    · cases h
    · rename_i hn
      simp only [Option.some.injEq, Prod.mk.injEq] at h
      obtain ⟨h, _⟩ := h
      subst h
      simp only
      have : ¬ (data.length + br.left > maxBody) := fun x => hn ⟨hm, x⟩
      omega

/-! ### Read -/

theorem content_cons (br : BR) (b : Buf) (bs : List Buf) (h : br.buffers = b :: bs) (hi : br.index ≤ b.data.length) :
    content br = b.data.drop br.index ++ flat bs := by
  simp only [content_eq, flat, h, List.map_cons, List.flatten_cons]
  rw [List.drop_append_of_le_length hi]

theorem take_app (a b : Bytes) (k : Nat) (h : a.length ≤ k) : (a ++ b).take k = a ++ b.take (k - a.length) := by
  rw [List.take_append, List.take_of_length_le h]

theorem drop_app (a b : Bytes) (k : Nat) (h : a.length ≤ k) : (a ++ b).drop k = b.drop (k - a.length) := by
  rw [List.drop_append, List.drop_of_length_le h]; simp

/-- the read loop under the invariant: it copies `min (need - |out|) |content|` bytes — the next unread ones —,
    never takes the divergence exit, never runs out of fuel, and keeps the invariant -/
theorem readLoop_spec : ∀ (fuel : Nat) (br : BR) (need : Nat) (out : Bytes) (evs : List AllocEv), WF br →
    2 * br.buffers.length + (if out.length < need then 1 else 0) < fuel →
    ∃ br' evs', readLoop fuel br need out evs = some (br', out ++ (content br).take (need - out.length), false, evs') ∧
      WF br' ∧ content br' = (content br).drop (need - out.length) ∧ br'.closed = br.closed := by
  intro fuel
  induction fuel with
  | zero => intro br need out evs _ h; omega
  | succ fuel ih =>
    intro br need out evs hw hf
    unfold readLoop
    by_cases hc : out.length < need ∧ br.left > 0
    · rw [if_pos hc]
      obtain ⟨hlt, hleft⟩ := hc
      have hcne : (content br).length > 0 := by rw [← hw.left_eq]; exact hleft
      cases hb : br.buffers with
      | nil => simp [content_eq, flat, hb] at hcne
      | cons b bs =>
        have hidx := hw.index_lt b bs hb
        have hcont := content_cons br b bs hb (Nat.le_of_lt hidx)
        simp only
        rw [if_neg (by omega)]
        -- the bytes this iteration copies
        have hchunk_len : ((b.data.drop br.index).take (min (need - out.length) (b.data.length - br.index))).length
            = min (need - out.length) (b.data.length - br.index) := by
          simp only [List.length_take, List.length_drop]; omega
        by_cases hall : min (need - out.length) (b.data.length - br.index) + br.index ≥ b.data.length
        · -- the rest of the first buffer is consumed: drop it
          rw [if_pos hall]
          have hnc : min (need - out.length) (b.data.length - br.index) = b.data.length - br.index := by omega
          have hchunk : (b.data.drop br.index).take (min (need - out.length) (b.data.length - br.index))
              = b.data.drop br.index := by
            rw [hnc]; exact List.take_of_length_le (by simp)
          have hleft_eq : br.left = (b.data.length - br.index) + (flat bs).length := by
            rw [hw.left_eq, hcont]; simp
          have hw1 : WF { br with buffers := bs, index := 0, left := br.left - min (need - out.length) (b.data.length - br.index) } := by
            refine ⟨?_, ?_, ?_, ?_, ?_⟩
            · simp only [content_eq, List.drop_zero]; rw [hnc, hleft_eq]; omega
            · intro x hx; exact hw.nonempty x (by rw [hb]; simp [hx])
            · intro x xs hx; simp only at hx
              exact List.length_pos_iff.mpr (hw.nonempty x (by rw [hb, hx]; simp))
            · intro _; rfl
            · intro x hx; exact hw.cap_ok x (by rw [hb]; simp [hx])
          have hfuel : 2 * bs.length + (if (out ++ (b.data.drop br.index).take (min (need - out.length) (b.data.length - br.index))).length < need then 1 else 0) < fuel := by
            rw [hb] at hf
            simp only [List.length_cons, hlt, if_true] at hf
            split <;> omega
          obtain ⟨br', evs', e, hw', hc', hcl'⟩ := ih _ need (out ++ (b.data.drop br.index).take (min (need - out.length) (b.data.length - br.index))) (evs ++ [.free b.id]) hw1 hfuel
          have hc1 : content { br with buffers := bs, index := 0, left := br.left - min (need - out.length) (b.data.length - br.index) } = flat bs := by
            simp [content_eq]
          have hdl : (b.data.drop br.index).length = b.data.length - br.index := by simp
          have hle : (b.data.drop br.index).length ≤ need - out.length := by rw [hdl]; omega
          have hk : need - (out ++ b.data.drop br.index).length = need - out.length - (b.data.drop br.index).length := by
            rw [List.length_append]; omega
          refine ⟨br', evs', ?_, hw', ?_, hcl'⟩
          · rw [e, hc1, hcont, hchunk, take_app _ _ _ hle, hk, List.append_assoc]
          · rw [hc', hc1, hcont, hchunk, drop_app _ _ _ hle, hk]
        · -- the request is satisfied inside the first buffer
          rw [if_neg hall]
          have hnc : min (need - out.length) (b.data.length - br.index) = need - out.length := by omega
          have hw1 : WF { br with index := br.index + min (need - out.length) (b.data.length - br.index), left := br.left - min (need - out.length) (b.data.length - br.index) } := by
            refine ⟨?_, hw.nonempty, ?_, ?_, hw.cap_ok⟩
            · have : content { br with index := br.index + min (need - out.length) (b.data.length - br.index), left := br.left - min (need - out.length) (b.data.length - br.index) }
                  = (content br).drop (min (need - out.length) (b.data.length - br.index)) := by
                simp only [content_eq, List.drop_drop]
              rw [this, List.length_drop, hw.left_eq]
            · intro x xs hx; simp only at hx; rw [hb] at hx; cases hx; simp only; omega
            · intro e; simp only at e; rw [hb] at e; cases e
          have hfuel : 2 * br.buffers.length + (if (out ++ (b.data.drop br.index).take (min (need - out.length) (b.data.length - br.index))).length < need then 1 else 0) < fuel := by
            have : ¬ ((out ++ (b.data.drop br.index).take (min (need - out.length) (b.data.length - br.index))).length < need) := by
              rw [List.length_append, hchunk_len]; omega
            simp only [this, if_false]
            simp only [hlt, if_true] at hf
            omega
          obtain ⟨br', evs', e, hw', hc', hcl'⟩ := ih _ need (out ++ (b.data.drop br.index).take (min (need - out.length) (b.data.length - br.index))) evs hw1 hfuel
          simp only [hb] at e
          refine ⟨br', evs', ?_, hw', ?_, hcl'⟩
          · rw [e]
            have hz : need - (out ++ (b.data.drop br.index).take (min (need - out.length) (b.data.length - br.index))).length = 0 := by
              rw [List.length_append, hchunk_len]; omega
            rw [hz, List.take_zero, List.append_nil, hcont, hnc]
            congr 2
            rw [List.take_append_of_le_length (by simp only [List.length_drop]; omega)]
          · rw [hc']
            have hz : need - (out ++ (b.data.drop br.index).take (min (need - out.length) (b.data.length - br.index))).length = 0 := by
              rw [List.length_append, hchunk_len]; omega
            rw [hz, List.drop_zero]
            simp only [content_eq, List.drop_drop]
            congr 1; omega
    · rw [if_neg hc]
      refine ⟨br, evs, ?_, hw, ?_, rfl⟩
      · congr 2
        by_cases h1 : out.length < need
        · have : br.left = 0 := by
            have := fun h2 => hc ⟨h1, h2⟩
            omega
          have : content br = [] := List.eq_nil_of_length_eq_zero (by rw [← hw.left_eq]; exact this)
          simp [this]
        · have : need - out.length = 0 := by omega
          simp [this]
      · by_cases h1 : out.length < need
        · have : br.left = 0 := by
            have := fun h2 => hc ⟨h1, h2⟩
            omega
          have : content br = [] := List.eq_nil_of_length_eq_zero (by rw [← hw.left_eq]; exact this)
          simp [this]
        · have : need - out.length = 0 := by omega
          simp [this]

/-- **Read.** On an open reader `Read(p)` returns the next `min len(p) left` unread bytes, in order; `io.EOF` exactly
    when nothing is left; the loop never takes its divergence exit and never runs out of fuel; the invariant is kept. -/
theorem read_spec (br : BR) (n : Nat) (hw : WF br) (hc : br.closed = false) :
    ∃ br' evs, read br n = some (br', (content br).take n, decide (content br = []), evs) ∧
      WF br' ∧ content br' = (content br).drop n ∧ br'.closed = false := by
  unfold read
  simp only [hc, Bool.false_eq_true, if_false]
  by_cases hl : br.left = 0
  · have hz : content br = [] := List.eq_nil_of_length_eq_zero (by rw [← hw.left_eq]; exact hl)
    simp only [hl, if_true]
    exact ⟨br, [], by simp [hz], hw, by simp [hz], hc⟩
  · simp only [hl, if_false]
    obtain ⟨br', evs', e, hw', hc', hcl'⟩ := readLoop_spec (2 * br.buffers.length + n + 2) br n [] [] hw
      (by simp only [List.length_nil]; split <;> omega)
    have hne : content br ≠ [] := by
      intro e0; rw [hw.left_eq, e0] at hl; exact hl rfl
    refine ⟨br', evs', ?_, hw', by simpa using hc', by rw [hcl', hc]⟩
    rw [e]; simp [hne]

/-- **Read after Close** is `(0, io.EOF)` and touches nothing -/
theorem read_closed (br : BR) (n : Nat) (hc : br.closed = true) : read br n = some (br, [], true, []) := by
  simp [read, hc]

/-- **Close** is idempotent, frees every buffer the reader holds exactly once, and leaves an empty closed reader -/
theorem close_spec (br : BR) :
    (close br).1.closed = true ∧ close (close br).1 = ((close br).1, []) ∧
    (br.closed = false → (close br).2 = br.buffers.map (fun b => AllocEv.free b.id) ∧ (close br).1.buffers = [] ∧
      (close br).1.left = 0 ∧ (close br).1.index = 0 ∧ WF (close br).1) := by
  unfold close
  by_cases hc : br.closed = true
  · simp [hc]
  · have hc' : br.closed = false := by simpa using hc
    simp only [hc', Bool.false_eq_true, if_false, if_true]
    refine ⟨trivial, trivial, fun _ => ⟨trivial, trivial, trivial, trivial, ?_⟩⟩
    constructor <;> simp [content]

/-! ### programs: any interleaving of appends and reads -/

inductive Op
  | append (d : Bytes) (extra : Nat)
  | read (n : Nat)

/-- run an op on (reader, bytes appended so far, bytes read so far); a refused append changes nothing -/
def step (maxBody : Nat) (s : BR × Bytes × Bytes) : Op → BR × Bytes × Bytes
  | .append d extra =>
    match append maxBody s.1 d extra with
    | some (br', _) => (br', s.2.1 ++ d, s.2.2)
    | none => s
  | .read n =>
    match read s.1 n with
    | some (br', out, _, _) => (br', s.2.1, s.2.2 ++ out)
    | none => s

/-- **FIFO.** For every program of appends (any sizes, any allocator capacities) and reads (any buffer sizes), in any
    interleaving, on an open reader: the bytes read so far followed by the bytes still held are exactly the bytes
    appended so far — nothing lost, duplicated or reordered — and `left` is the number of bytes still held. -/
theorem fifo (maxBody : Nat) (ops : List Op) : ∀ (br : BR) (app rd : Bytes),
    WF br → br.closed = false → rd ++ content br = app →
    let s := ops.foldl (step maxBody) (br, app, rd)
    s.2.2 ++ content s.1 = s.2.1 ∧ WF s.1 ∧ s.1.closed = false ∧ s.1.left = (content s.1).length := by
  induction ops with
  | nil => intro br app rd hw hc h; exact ⟨h, hw, hc, hw.left_eq⟩
  | cons op ops ih =>
    intro br app rd hw hc h
    simp only [List.foldl_cons]
    cases op with
    | append d extra =>
      simp only [step]
      cases ha : append maxBody br d extra with
      | none => exact ih br app rd hw hc h
      | some r =>
        obtain ⟨br', evs⟩ := r
        obtain ⟨hw', hc', hcl', _⟩ := append_spec maxBody br br' d extra evs hw ha
        exact ih br' (app ++ d) rd hw' (by rw [hcl', hc]) (by rw [hc', ← List.append_assoc, h])
    | read n =>
      simp only [step]
      obtain ⟨br', evs, e, hw', hc', hcl'⟩ := read_spec br n hw hc
      rw [e]
      exact ih br' app (rd ++ (content br).take n) hw' hcl'
        (by rw [hc', List.append_assoc, List.take_append_drop, h])

/-- draining: reading with a large enough buffer returns everything that is held -/
theorem drain (br : BR) (n : Nat) (hw : WF br) (hc : br.closed = false) (hn : br.left ≤ n) :
    ∃ br' evs, read br n = some (br', content br, decide (content br = []), evs) ∧ content br' = [] := by
  obtain ⟨br', evs, e, _, hc', _⟩ := read_spec br n hw hc
  have hle : (content br).length ≤ n := by rw [← hw.left_eq]; exact hn
  refine ⟨br', evs, by rw [e, List.take_of_length_le hle], by rw [hc', List.drop_of_length_le hle]⟩

/-- **RawBodyBuffers** hands out exactly the unread bytes, in order (the first buffer from the read index on) -/
theorem rawBuffers_spec (br : BR) (hw : WF br) : (rawBuffers br).flatten = content br := by
  unfold rawBuffers
  cases hb : br.buffers with
  | nil => simp [content, hb]
  | cons b bs =>
    have hi := hw.index_lt b bs hb
    rw [content_cons br b bs hb (Nat.le_of_lt hi)]
    simp [flat]

end HttpBody
