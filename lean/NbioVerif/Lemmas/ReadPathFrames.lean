import NbioVerif.Lemmas.ReadPathSteps
/-! ReadPath: what `report` leaves alone (used by the delivery, drain and measure invariants) -/
namespace ReadPath

theorem gate_frame (s : St) :
    (gate s).k = s.k ∧ (gate s).closed = s.closed ∧ (gate s).ps = s.ps ∧ (gate s).sess = s.sess ∧ (gate s).opens = s.opens ∧
    (gate s).dlv = s.dlv ∧ (gate s).sentS = s.sentS ∧ (gate s).sentD = s.sentD ∧ (gate s).deqD = s.deqD ∧
    (gate s).lost = s.lost ∧ (gate s).cerr = s.cerr ∧
    ((gate s).task = s.task ∨ (s.re = 0 ∧ (gate s).task = .queued)) ∧ (gate s).re ≤ s.re + 1 := by
  rcases gate_cases s with ⟨_, e⟩ | ⟨_, e⟩ | ⟨h0, e⟩ <;> rw [e] <;> simp [spawnTask, *]

theorem dispatch_frame (g : Cfg) (s : St) (fl : Flags) :
    let t := dispatch g s fl
    t.k = s.k ∧ t.closed = s.closed ∧ t.sess = s.sess ∧ t.opens = s.opens ∧ t.dlv = s.dlv ∧ t.sentS = s.sentS ∧
    t.sentD = s.sentD ∧ t.deqD = s.deqD ∧ t.lost = s.lost ∧ t.cerr = s.cerr ∧
    (t.task = s.task ∨ (t.task = .queued ∧ ((g.mode = .os ∧ g.isAsync = true) ∨ (g.mode = .et ∧ s.re = 0)))) ∧
    t.re ≤ s.re + 1 ∧ (g.isAsync = false → t.re = s.re) := by
  obtain ⟨u1, u2, u3, u4, u5, u6, u7, u8, u9, u10, u11, u12, u13, u14, u15⟩ := setHup_frame s fl.hang
  obtain ⟨g1, g2, g3, g4, g5, g6, g7, g8, g9, g10, g11, g12, g13⟩ := gate_frame (setHup s fl.hang)
  rcases dispatch_cases g s fl with ⟨_, ha, e⟩ | ⟨_, e⟩ | ⟨_, ha, hm, e⟩ | ⟨_, ha, hm, e⟩
  · simp only; rw [e]; simp [setPs]
  · simp only; rw [e]; simp [setPs]
  · simp only; rw [e]; simp only [setPs, spawnTask]
    exact ⟨u1, u2, u8, u9, u10, u11, u12, u13, u14, u15, Or.inr ⟨by trivial, Or.inl ⟨hm, ha⟩⟩, by rw [u3]; omega, fun h => by simp [ha] at h⟩
  · simp only; rw [e]; simp only [setPs]
    refine ⟨by rw [g1, u1], by rw [g2, u2], by rw [g4, u8], by rw [g5, u9], by rw [g6, u10], by rw [g7, u11], by rw [g8, u12],
      by rw [g9, u13], by rw [g10, u14], by rw [g11, u15], ?_, by rw [← u3]; exact g13, fun h => by simp [ha] at h⟩
    rcases g12 with h | ⟨h0, h⟩
    · exact Or.inl (by rw [h, u5])
    · exact Or.inr ⟨h, Or.inr ⟨hm, by rw [← u3]; exact h0⟩⟩

/-- `report` only changes the poller position, the gate (counter, task) and the arming bits of the kernel side -/
theorem report_frame (g : Cfg) (s s' : St) (i o : Bool) (h : report g s i o = some s') :
    s'.k.rq = s.k.rq ∧ s'.k.dq = s.k.dq ∧ s'.k.intr = s.k.intr ∧ s'.k.eof = s.k.eof ∧ s'.k.rerr = s.k.rerr ∧
    s'.closed = s.closed ∧ s'.sess = s.sess ∧ s'.opens = s.opens ∧ s'.dlv = s.dlv ∧ s'.sentS = s.sentS ∧
    s'.sentD = s.sentD ∧ s'.deqD = s.deqD ∧ s'.lost = s.lost ∧ s'.cerr = s.cerr ∧ s.ps = .idle ∧ s.closed = false ∧
    (s'.task = s.task ∨ (s'.task = .queued ∧ ((g.mode = .os ∧ g.isAsync = true) ∨ (g.mode = .et ∧ s.re = 0)))) ∧
    s'.re ≤ s.re + 1 ∧ (g.isAsync = false → s'.re = s.re) ∧
    (s'.ps = .idle ∨ (∃ fl, (s'.ps = .fin fl ∨ s'.ps = .rd 0 fl) ∧ fl = flagsOf s i o)) := by
  unfold report at h
  split at h
  case isFalse => cases h
  next hok =>
  obtain ⟨hps, hcl, _⟩ := reportOk_spec g s i o hok
  cases h
  obtain ⟨d1, d2, d3, d4, d5, d6, d7, d8, d9, d10, d11, d12, d13⟩ := dispatch_frame g (setK s (disarm g s.k)) (flagsOf s i o)
  have hdis : (disarm g s.k).rq = s.k.rq ∧ (disarm g s.k).dq = s.k.dq ∧ (disarm g s.k).intr = s.k.intr ∧
      (disarm g s.k).eof = s.k.eof ∧ (disarm g s.k).rerr = s.k.rerr := by
    unfold disarm; cases g.mode <;> simp
  refine ⟨by rw [d1]; exact hdis.1, by rw [d1]; exact hdis.2.1, by rw [d1]; exact hdis.2.2.1, by rw [d1]; exact hdis.2.2.2.1,
    by rw [d1]; exact hdis.2.2.2.2, d2, d3, d4, d5, d6, d7, d8, d9, d10, hps, hcl, d11, d12, d13, ?_⟩
  rcases dispatch_cases g (setK s (disarm g s.k)) (flagsOf s i o) with ⟨_, _, e⟩ | ⟨_, e⟩ | ⟨_, _, _, e⟩ | ⟨_, _, _, e⟩
  · rw [e]; exact Or.inr ⟨_, Or.inr rfl, rfl⟩
  · rw [e]; simp only [setPs, afterEvent]
    split
    · exact Or.inr ⟨_, Or.inl rfl, rfl⟩
    · exact Or.inl rfl
  · rw [e]; exact Or.inl rfl
  · rw [e]; exact Or.inl rfl

/-- with the core invariant, a `report` starts a task only when none is alive -/
theorem report_task (g : Cfg) (s s' : St) (i o : Bool) (hc : Core g s) (h : report g s i o = some s') :
    s'.task = s.task ∨ (s.task = .none ∧ s'.task = .queued) := by
  obtain ⟨_, _, _, _, _, _, _, _, _, _, _, _, _, _, _, hcl, ht, _, _, _⟩ := report_frame g s s' i o h
  rcases ht with ht | ⟨ht, hm⟩
  · exact Or.inl ht
  · right
    refine ⟨?_, ht⟩
    rcases hm with ⟨hm, _⟩ | ⟨hm, h0⟩
    · unfold report at h
      split at h
      case isFalse => cases h
      next hok =>
      obtain ⟨_, _, _, _, _, _, harm⟩ := reportOk_spec g s i o hok
      exact hc.lost.osArmed hm (harm hm)
    · exact (hc.gate.alive hm hcl).mpr h0

end ReadPath
