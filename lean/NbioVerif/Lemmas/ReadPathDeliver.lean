import NbioVerif.Lemmas.ReadPathFrames
/-! ReadPath: stream delivery — what the callbacks got, plus what a parked task holds, plus what is still in the
kernel queue, is exactly what the peer sent (in order, exactly once) -/
namespace ReadPath

def dlvBytes (s : St) : List UInt8 := (s.dlv.map Prod.snd).flatten

/-- bytes a parked read task has taken from the kernel and not yet handed to the callback -/
def inflight (s : St) : List UInt8 := match s.task with
  | .rd (.data _ b) _ => b
  | _ => []

def ansBytes : Ans → List UInt8
  | .data _ b => b
  | _ => []

def DelS (g : Cfg) (s : St) : Prop := g.udp = false → dlvBytes s ++ inflight s ++ s.k.rq = s.sentS

theorem consume_dlv (g : Cfg) (s : St) (a : Ans) : dlvBytes (consume g s a).2 = dlvBytes s ++ ansBytes a := by
  unfold consume ansBytes
  cases a with
  | data src b =>
    cases src with
    | none =>
      dsimp only
      by_cases hb : b.isEmpty = true
      · have : b = [] := by simpa using hb
        subst this; split <;> simp [dlvBytes]
      · split <;> simp [dlvBytes, hb]
    | some x =>
      obtain ⟨h1, h2, h3, h4, h5, h6, h7, h8, h9, h10, h11, h12, h13, h14, h15⟩ := session_frame s x
      dsimp only
      by_cases hb : b.isEmpty = true
      · have : b = [] := by simpa using hb
        subst this; split <;> simp [dlvBytes, h12]
      · split <;> simp [dlvBytes, hb, h12]
  | zero => simp [dlvBytes]
  | eagain => simp [dlvBytes]
  | eintr => simp [dlvBytes]
  | closed => simp [dlvBytes]
  | err => simp only [closeWith, dlvBytes]; split <;> simp

/-- a stream read moves bytes from the kernel queue into the answer -/
theorem doRead_bytes (g : Cfg) (s : St) (hu : g.udp = false) :
    ansBytes (doRead g s).1 ++ (doRead g s).2.k.rq = s.k.rq := by
  rcases hd : doRead g s with ⟨a, t⟩
  have h := doRead_rel' g s a t hd
  cases h with
  | dgram x d rest hc hi hu' hq => rw [hu] at hu'; cases hu'
  | bytes hc hi hu' hq => simp [ansBytes]
  | _ => simp [ansBytes]

theorem taskRead_del (g : Cfg) (s : St) (bh : Bool) (hu : g.udp = false) :
    dlvBytes (taskRead g s bh) ++ inflight (taskRead g s bh) ++ (taskRead g s bh).k.rq = dlvBytes s ++ s.k.rq ∧
    (taskRead g s bh).sentS = s.sentS := by
  unfold taskRead
  split
  · simp [setTask, dlvBytes, inflight]
  · obtain ⟨f1, f2, f3, f4, f5, f6, f7, f8, f9, _⟩ := doRead_frame g s
    have hb := doRead_bytes g s hu
    simp only [setTask]
    refine ⟨?_, f9⟩
    have hi : inflight { (doRead g s).2 with task := TS.rd (doRead g s).1 bh } = ansBytes (doRead g s).1 := by
      simp only [inflight, ansBytes]
      cases (doRead g s).1 <;> rfl
    rw [hi]
    have hd : dlvBytes { (doRead g s).2 with task := TS.rd (doRead g s).1 bh } = dlvBytes s := by
      simp only [dlvBytes, f8]
    rw [hd, List.append_assoc, hb]

theorem dels_init (g : Cfg) : DelS g init := by intro _; rfl

theorem dels_step (g : Cfg) (s s' : St) (a : Act) (hc : Core g s) (hd : DelS g s) (hs : step g s a = some s') :
    DelS g s' := by
  intro hu
  have hd := hd hu
  cases a with
  | push b =>
    simp only [step] at hs
    split at hs
    · cases hs
    · cases hs
      simp only [dlvBytes, inflight] at hd ⊢
      rw [← hd]; simp
  | dgram x b =>
    simp only [step] at hs
    split at hs
    · cases hs
    · next h => simp [hu] at h
  | eof =>
    simp only [step] at hs
    split at hs
    · cases hs
    · cases hs; exact hd
  | rderr => simp only [step] at hs; cases hs; exact hd
  | intr n => simp only [step] at hs; cases hs; exact hd
  | stale =>
    simp only [step] at hs
    split at hs
    · cases hs
    · cases hs; exact hd
  | report i o =>
    obtain ⟨r1, _, _, _, _, _, _, _, r9, r10, _⟩ := report_frame g s s' i o hs
    have ht := report_task g s s' i o hc hs
    have hi : inflight s' = inflight s := by
      rcases ht with h | ⟨h1, h2⟩
      · simp only [inflight, h]
      · simp only [inflight, h1, h2]
    simp only [dlvBytes] at hd ⊢
    rw [hi, r1, r9, r10]; exact hd
  | pstep =>
    simp only [step] at hs
    unfold pstep at hs
    split at hs
    · cases hs
    · next i fl hps =>
      cases hs
      have hasync : g.isAsync = false := by
        cases ha : g.isAsync
        · rfl
        · exact absurd hps (hc.psok.asyncPs ha i fl)
      have htn := (hc.gate.sync hasync).1
      obtain ⟨f1, f2, f3, f4, f5, f6, f7, f8, f9, _⟩ := doRead_frame g s
      obtain ⟨k1, k2, k3, k4, k5, k6, k7, k8, _⟩ := consume_frame g (doRead g s).2 (doRead g s).1
      have hb := doRead_bytes g s hu
      have hdl := consume_dlv g (doRead g s).2 (doRead g s).1
      have hi0 : inflight s = [] := by simp only [inflight, htn]
      have hi2 : inflight (consume g (doRead g s).2 (doRead g s).1).2 = [] := by simp only [inflight, k4, f5, htn]
      have hd0 : dlvBytes (doRead g s).2 = dlvBytes s := by simp only [dlvBytes, f8]
      show dlvBytes (consume g (doRead g s).2 (doRead g s).1).2 ++ inflight (consume g (doRead g s).2 (doRead g s).1).2 ++
        (consume g (doRead g s).2 (doRead g s).1).2.k.rq = (consume g (doRead g s).2 (doRead g s).1).2.sentS
      rw [hdl, hi2, k1, k8, f9, hd0, ← hd, hi0]
      simp only [List.append_nil, List.append_assoc]
      rw [hb]
    · next fl hps =>
      cases hs
      have : (finish g s fl).dlv = s.dlv ∧ (finish g s fl).task = s.task ∧ (finish g s fl).k.rq = s.k.rq ∧ (finish g s fl).sentS = s.sentS := by
        unfold finish rearm closeHang
        dsimp only
        repeat' split
        all_goals simp
      obtain ⟨h1, h2, h3, h4⟩ := this
      show dlvBytes (finish g s fl) ++ inflight (finish g s fl) ++ (finish g s fl).k.rq = (finish g s fl).sentS
      simp only [dlvBytes, inflight, h1, h2, h3, h4] at hd ⊢
      exact hd
  | tstep =>
    simp only [step] at hs
    unfold tstep at hs
    split at hs
    · cases hs
    · next ht =>
      cases hs
      obtain ⟨h1, h2⟩ := taskRead_del g s s.hup hu
      rw [h1, h2, ← hd]; simp [inflight, ht]
    · next a hb ht =>
      cases hs
      obtain ⟨k1, k2, k3, k4, k5, k6, k7, k8, _⟩ := consume_frame g s a
      have hdl := consume_dlv g s a
      have hia : inflight s = ansBytes a := by simp only [inflight, ht, ansBytes]; cases a <;> rfl
      have hgoal : dlvBytes (consume g s a).2 ++ (consume g s a).2.k.rq = (consume g s a).2.sentS := by
        rw [hdl, k1, k8, ← hd, hia]
      cases hnx : (consume g s a).1 with
      | again =>
        obtain ⟨h1, h2⟩ := taskRead_del g (consume g s a).2 hb hu
        simp only [taskNext]
        rw [h1, h2]; exact hgoal
      | dead =>
        show dlvBytes (consume g s a).2 ++ [] ++ (consume g s a).2.k.rq = (consume g s a).2.sentS
        rw [List.append_nil]; exact hgoal
      | brk =>
        simp only [taskNext]
        have hr : ∀ t : St, dlvBytes (rearm t) = dlvBytes t ∧ (rearm t).k.rq = t.k.rq ∧ (rearm t).sentS = t.sentS := by
          intro t; unfold rearm; split <;> simp [dlvBytes]
        have hcl : ∀ t : St, dlvBytes (closeHang t) = dlvBytes t ∧ (closeHang t).k.rq = t.k.rq ∧ (closeHang t).sentS = t.sentS := by
          intro t; unfold closeHang; split <;> simp [dlvBytes]
        split
        · obtain ⟨r1, r2, r3⟩ := hcl (consume g s a).2
          show dlvBytes (closeHang (consume g s a).2) ++ [] ++ (closeHang (consume g s a).2).k.rq = (closeHang (consume g s a).2).sentS
          rw [List.append_nil, r1, r2, r3]; exact hgoal
        split
        · obtain ⟨r1, r2, r3⟩ := hr (consume g s a).2
          show dlvBytes (rearm (consume g s a).2) ++ [] ++ (rearm (consume g s a).2).k.rq = (rearm (consume g s a).2).sentS
          rw [List.append_nil, r1, r2, r3]; exact hgoal
        · split
          · show dlvBytes (consume g s a).2 ++ [] ++ (consume g s a).2.k.rq = (consume g s a).2.sentS
            rw [List.append_nil]; exact hgoal
          · show dlvBytes (consume g s a).2 ++ [] ++ (consume g s a).2.k.rq = (consume g s a).2.sentS
            rw [List.append_nil]; exact hgoal
    · next v ht =>
      cases hs
      obtain ⟨h1, h2⟩ := taskRead_del g s s.hup hu
      rw [h1, h2, ← hd]; simp [inflight, ht]

theorem dels_run (g : Cfg) (as : List Act) : ∀ s, Core g s → DelS g s → DelS g (run g s as) := by
  induction as with
  | nil => intro s _ h; exact h
  | cons a as ih =>
    intro s hc h
    simp only [run]
    split
    · next s' hs => exact ih s' (core_step g s s' a hc hs) (dels_step g s s' a hc h hs)
    · exact ih s hc h

end ReadPath
