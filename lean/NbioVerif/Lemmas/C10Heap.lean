import NbioVerif.Model.SharedHeap
/-! C10 (b): non-interference on the shared heap — simulation between an interleaved run and the
solo run of one connection -/
namespace SharedHeap

@[simp] theorem set_heap (g : G) (b : Bid) (x : Buf) (i : Bid) :
    (set g b x).heap i = if i = b then x else g.heap i := rfl
@[simp] theorem set_wire (g : G) (b : Bid) (x : Buf) : (set g b x).wire = g.wire := rfl
@[simp] theorem emit_heap (g : G) (c : Cid) (d : Bytes) : (emit g c d).heap = g.heap := rfl
@[simp] theorem emit_wire (g : G) (c : Cid) (d : Bytes) (i : Cid) :
    (emit g c d).wire i = if i = c then g.wire c ++ [d] else g.wire i := rfl

/-- what connection `a` can see is the same in the interleaved state `g` and the solo state `s` -/
structure Sim (a : Cid) (g s : G) : Prop where
  own  : ∀ b, (g.heap b).owner = some a ↔ (s.heap b).owner = some a
  solo : ∀ b, (s.heap b).owner = none ∨ (s.heap b).owner = some a
  mem  : ∀ b, (g.heap b).owner = some a →
           (g.heap b).dirty = (s.heap b).dirty ∧ ((g.heap b).dirty = false → (g.heap b).data = (s.heap b).data)
  len  : ∀ b, (g.heap b).owner = some a → (g.heap b).data.length = (s.heap b).data.length
  wire : g.wire a = s.wire a

theorem sim_init (a : Cid) : Sim a init init := by
  constructor <;> simp [init]

/-- an operation of `a` itself: enabled in the solo state too, and the simulation is kept -/
theorem sim_own {a : Cid} {g s : G} (h : Sim a g s) (op : Op) (hf : fault g a op = none) :
    fault s a op = none ∧ Sim a (apply g a op) (apply s a op) := by
  cases op with
  | malloc b n =>
    simp only [fault] at hf ⊢
    have hg : (g.heap b).owner = none := by
      by_cases hh : (g.heap b).owner = none
      · exact hh
      · simp [hh] at hf
    have hs : (s.heap b).owner = none := by
      rcases h.solo b with h1 | h1
      · exact h1
      · have := (h.own b).mpr h1; rw [hg] at this; cases this
    refine ⟨by simp [hs], ?_⟩
    constructor
    · intro i; simp only [apply, set_heap]; split
      · simp
      · exact h.own i
    · intro i; simp only [apply, set_heap]; split
      · right; rfl
      · exact h.solo i
    · intro i; simp only [apply, set_heap]; split
      · intro _
        refine ⟨rfl, ?_⟩
        intro hd
        have hn : n = 0 := by
          simp only [decide_eq_false_iff_not, Nat.not_lt, Nat.le_zero_eq] at hd; exact hd
        subst hn; simp [resize]
      · exact h.mem i
    · intro i; simp only [apply, set_heap]; split
      · intro _; simp [resize]
      · exact h.len i
    · simpa [apply] using h.wire
  | reset b =>
    simp only [fault] at hf ⊢
    have hg : (g.heap b).owner = some a := by
      by_cases hh : (g.heap b).owner = some a
      · exact hh
      · simp [hh] at hf
    have hs := (h.own b).mp hg
    refine ⟨by simp [hs], ?_⟩
    constructor
    · intro i; simp only [apply, set_heap]; split
      · rename_i hi; subst hi; simp [hg, hs]
      · exact h.own i
    · intro i; simp only [apply, set_heap]; split
      · rename_i hi; subst hi; right; exact hs
      · exact h.solo i
    · intro i; simp only [apply, set_heap]; split
      · intro _; exact ⟨rfl, fun _ => rfl⟩
      · exact h.mem i
    · intro i; simp only [apply, set_heap]; split
      · intro _; rfl
      · exact h.len i
    · simpa [apply] using h.wire
  | fill b d =>
    simp only [fault] at hf ⊢
    have hg : (g.heap b).owner = some a := by
      by_cases hh : (g.heap b).owner = some a
      · exact hh
      · simp [hh] at hf
    have hs := (h.own b).mp hg
    obtain ⟨hd, hdat⟩ := h.mem b hg
    have hlen := h.len b hg
    refine ⟨by simp [hs], ?_⟩
    constructor
    · intro i; simp only [apply, set_heap]; split
      · rename_i hi; subst hi; simp [hg, hs]
      · exact h.own i
    · intro i; simp only [apply, set_heap]; split
      · rename_i hi; subst hi; right; exact hs
      · exact h.solo i
    · intro i; simp only [apply, set_heap]; split
      · rename_i hi; subst hi
        intro _
        refine ⟨by simp only [hd, hlen], ?_⟩
        intro hdd
        simp only [Bool.and_eq_false_iff, decide_eq_false_iff_not, Nat.not_lt] at hdd
        rcases hdd with hdd | hdd
        · rw [hdat hdd]
        · -- the whole old content is overwritten
          rw [List.drop_of_length_le hdd, List.drop_of_length_le (by rw [← hlen]; exact hdd)]
      · exact h.mem i
    · intro i; simp only [apply, set_heap]; split
      · rename_i hi; subst hi
        intro _
        simp only [List.length_append, List.length_drop, hlen]
      · exact h.len i
    · simpa [apply] using h.wire
  | append b d =>
    simp only [fault] at hf ⊢
    have hg : (g.heap b).owner = some a := by
      by_cases hh : (g.heap b).owner = some a
      · exact hh
      · simp [hh] at hf
    have hs := (h.own b).mp hg
    obtain ⟨hd, hdat⟩ := h.mem b hg
    refine ⟨by simp [hs], ?_⟩
    constructor
    · intro i; simp only [apply, set_heap]; split
      · rename_i hi; subst hi; simp [hg, hs]
      · exact h.own i
    · intro i; simp only [apply, set_heap]; split
      · rename_i hi; subst hi; right; exact hs
      · exact h.solo i
    · intro i; simp only [apply, set_heap]; split
      · rename_i hi; subst hi
        intro _
        refine ⟨hd, ?_⟩
        intro hdd; simp only at hdd; rw [hdat hdd]
      · exact h.mem i
    · intro i; simp only [apply, set_heap]; split
      · rename_i hi; subst hi
        intro _; simp only [List.length_append, h.len i hg]
      · exact h.len i
    · simpa [apply] using h.wire
  | send b =>
    simp only [fault] at hf ⊢
    have hg : (g.heap b).owner = some a := by
      by_cases hh : (g.heap b).owner = some a
      · exact hh
      · simp [hh] at hf
    have hdirty : (g.heap b).dirty = false := by
      cases hd : (g.heap b).dirty with
      | false => rfl
      | true => simp [hg, hd] at hf
    have hs := (h.own b).mp hg
    obtain ⟨hd, hdat⟩ := h.mem b hg
    refine ⟨by simp [hs, ← hd, hdirty], ?_⟩
    constructor
    · intro i; simpa [apply] using h.own i
    · intro i; simpa [apply] using h.solo i
    · intro i; simpa [apply] using h.mem i
    · intro i; simpa [apply] using h.len i
    · simp [apply, h.wire, hdat hdirty]
  | sendLit d =>
    refine ⟨rfl, ?_⟩
    constructor
    · intro i; simpa [apply] using h.own i
    · intro i; simpa [apply] using h.solo i
    · intro i; simpa [apply] using h.mem i
    · intro i; simpa [apply] using h.len i
    · simp [apply, h.wire]
  | free b =>
    simp only [fault] at hf ⊢
    have hg : (g.heap b).owner = some a := by
      by_cases hh : (g.heap b).owner = some a
      · exact hh
      · simp [hh] at hf
    have hs := (h.own b).mp hg
    refine ⟨by simp [hs], ?_⟩
    constructor
    · intro i; simp only [apply, set_heap]; split
      · simp
      · exact h.own i
    · intro i; simp only [apply, set_heap]; split
      · left; rfl
      · exact h.solo i
    · intro i; simp only [apply, set_heap]; split
      · intro hh; cases hh
      · exact h.mem i
    · intro i; simp only [apply, set_heap]; split
      · intro hh; cases hh
      · exact h.len i
    · simpa [apply] using h.wire

/-- a (non-faulting) operation of another connection is invisible to `a` -/
theorem sim_other {a c : Cid} {g s : G} (h : Sim a g s) (hca : c ≠ a) (op : Op)
    (hf : fault g c op = none) : Sim a (apply g c op) s := by
  have hne : (some c : Option Cid) ≠ some a := by intro hh; cases hh; exact hca rfl
  -- a buffer touched by `c` is not owned by `a`, neither in `g` nor in `s`
  have touched : ∀ b, ((g.heap b).owner = none ∨ (g.heap b).owner = some c) →
      ∀ x : Buf, x.owner ≠ some a → Sim a (set g b x) s := by
    intro b hb x hx
    have hga : (g.heap b).owner ≠ some a := by
      rcases hb with hb | hb <;> rw [hb]
      · intro hh; cases hh
      · exact hne
    constructor
    · intro i; simp only [set_heap]; split
      · rename_i hi; subst hi
        constructor
        · intro hh; exact absurd hh hx
        · intro hh; exact absurd ((h.own i).mpr hh) hga
      · exact h.own i
    · exact h.solo
    · intro i; simp only [set_heap]; split
      · intro hh; exact absurd hh hx
      · exact h.mem i
    · intro i; simp only [set_heap]; split
      · intro hh; exact absurd hh hx
      · exact h.len i
    · simpa using h.wire
  cases op with
  | malloc b n =>
    simp only [fault] at hf
    have hg : (g.heap b).owner = none := by
      by_cases hh : (g.heap b).owner = none
      · exact hh
      · simp [hh] at hf
    exact touched b (Or.inl hg) _ hne
  | reset b =>
    simp only [fault] at hf
    have hg : (g.heap b).owner = some c := by
      by_cases hh : (g.heap b).owner = some c
      · exact hh
      · simp [hh] at hf
    exact touched b (Or.inr hg) _ (by simpa [hg] using hne)
  | fill b d =>
    simp only [fault] at hf
    have hg : (g.heap b).owner = some c := by
      by_cases hh : (g.heap b).owner = some c
      · exact hh
      · simp [hh] at hf
    exact touched b (Or.inr hg) _ (by simpa [hg] using hne)
  | append b d =>
    simp only [fault] at hf
    have hg : (g.heap b).owner = some c := by
      by_cases hh : (g.heap b).owner = some c
      · exact hh
      · simp [hh] at hf
    exact touched b (Or.inr hg) _ (by simpa [hg] using hne)
  | send b =>
    constructor
    · intro i; simpa [apply] using h.own i
    · exact h.solo
    · intro i; simpa [apply] using h.mem i
    · intro i; simpa [apply] using h.len i
    · simp [apply, Ne.symm hca, h.wire]
  | sendLit d =>
    constructor
    · intro i; simpa [apply] using h.own i
    · exact h.solo
    · intro i; simpa [apply] using h.mem i
    · intro i; simpa [apply] using h.len i
    · simp [apply, Ne.symm hca, h.wire]
  | free b =>
    simp only [fault] at hf
    have hg : (g.heap b).owner = some c := by
      by_cases hh : (g.heap b).owner = some c
      · exact hh
      · simp [hh] at hf
    exact touched b (Or.inr hg) _ (by simp)

theorem sim_run (a : Cid) (acts : List (Cid × Op)) : ∀ (g s g' : G), Sim a g s → run g acts = .ok g' →
    ∃ s', run s (proj a acts) = .ok s' ∧ Sim a g' s' := by
  induction acts with
  | nil =>
    intro g s g' h hr
    simp only [run] at hr; cases hr
    exact ⟨s, rfl, h⟩
  | cons x rest ih =>
    intro g s g' h hr
    obtain ⟨c, op⟩ := x
    simp only [run] at hr
    split at hr
    · cases hr
    · rename_i hf
      by_cases hca : c = a
      · subst hca
        obtain ⟨hfs, hsim⟩ := sim_own h op hf
        obtain ⟨s', hs', hsim'⟩ := ih _ _ _ hsim hr
        refine ⟨s', ?_, hsim'⟩
        simp only [proj, List.filter_cons, beq_self_eq_true, if_true, run, hfs]
        exact hs'
      · have hsim := sim_other h hca op hf
        obtain ⟨s', hs', hsim'⟩ := ih _ _ _ hsim hr
        refine ⟨s', ?_, hsim'⟩
        have : (c == a) = false := by simpa using hca
        simp only [proj, List.filter_cons, this]
        exact hs'

end SharedHeap
