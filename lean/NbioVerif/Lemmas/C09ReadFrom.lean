import NbioVerif.Lemmas.C09Main
import NbioVerif.Lemmas.C09Choice
/-! `Response.ReadFrom` in the `http.ServeContent` shape (explicit Content-Length, nothing written before):
the head goes out first, then exactly the reader's bytes. -/
namespace Resp

/-- the fields flushResponse looks at -/
def SameCtl (r r' : R) : Prop :=
  r'.buffer = r.buffer ∧ r'.bodyBuffer = r.bodyBuffer ∧ r'.headEncoded = r.headEncoded ∧
  r'.statusCode = r.statusCode ∧ r'.chunked = r.chunked ∧ r'.chunkChecked = r.chunkChecked ∧ r'.header = r.header ∧ r'.closeDelim = r.closeDelim

theorem copyLoop_ok (g : Cfg) (hg : NoFail g) (f : Nat) (r : R) (d : Bytes) (w : Nat) (hf : d.length < f) :
    ∃ r', copyLoop g f r d w = (r', w + d.length, true) ∧ r'.wire.flatten = r.wire.flatten ++ d ∧ SameCtl r r' := by
  induction f generalizing r d w with
  | zero => omega
  | succ f ih =>
    unfold copyLoop
    by_cases hd : d = []
    · subst hd
      exact ⟨r, by simp, by simp, rfl, rfl, rfl, rfl, rfl, rfl, rfl, rfl⟩
    · have hne : (d == []) = false := by simpa using hd
      rw [hne]
      simp only [Bool.false_eq_true, ↓reduceIte, send_ok g hg]
      have hlen : 0 < d.length := by cases d with | nil => exact absurd rfl hd | cons a t => simp
      obtain ⟨r', h1, h2, h3⟩ := ih { r with attempts := r.attempts + 1, wire := r.wire ++ [d.take 32768] }
        (d.drop 32768) (w + (d.take 32768).length) (by rw [List.length_drop]; omega)
      refine ⟨r', ?_, ?_, h3⟩
      · rw [h1]
        have : w + (d.take 32768).length + (d.drop 32768).length = w + d.length := by
          rw [List.length_take, List.length_drop]; omega
        rw [this]
      · rw [h2]
        simp only [List.flatten_append, List.flatten_cons, List.flatten_nil, List.append_nil, List.append_assoc,
          List.take_append_drop]

/-- the copy of ReadFrom on a connection that accepts the writes -/
theorem readCopy_ok (g : Cfg) (hg : NoFail g) (r : R) (k : RKind) (data : Bytes) :
    ∃ r', readCopy g r k data = (r', .ok data.length) ∧ r'.wire.flatten = r.wire.flatten ++ data ∧ SameCtl r r' := by
  unfold readCopy
  by_cases h1 : ((k == RKind.limited || k == RKind.limitedMem) && data.length == 0) = true
  · rw [if_pos h1]
    have hd : data = [] := by
      have := (Bool.and_eq_true _ _ ▸ h1).2
      cases data with
      | nil => rfl
      | cons a t => simp at this
    subst hd
    exact ⟨r, rfl, by simp, rfl, rfl, rfl, rfl, rfl, rfl, rfl, rfl⟩
  · rw [if_neg h1]
    by_cases h2 : (g.sendfile && (k == RKind.file || k == RKind.limited)) = true
    · rw [if_pos h2]
      unfold sendDirect
      simp only [send_ok g hg, ↓reduceIte]
      exact ⟨_, rfl, by simp, rfl, rfl, rfl, rfl, rfl, rfl, rfl, rfl⟩
    · rw [if_neg h2]
      obtain ⟨r', c1, c2, c3⟩ := copyLoop_ok g hg (data.length + 1) r data 0 (Nat.lt_succ_self _)
      rw [c1]
      simp only [↓reduceIte, Nat.zero_add]
      exact ⟨r', rfl, c2, c3⟩

theorem sendHeadFirst_eq (g : Cfg) (r : R) : sendHeadFirst g r = sendFreeBuffer g r := rfl

/-- ReadFrom's second paragraph: afterwards everything accepted so far is on the wire -/
theorem sendBodyFirst_spec (g : Cfg) (hg : NoFail g) (r : R) (hd : Option Bytes) (B : Bytes)
    (h : Bytes' r hd B) (hb0 : bufB r = []) :
    (sendBodyFirst g r).2 = true ∧ (sendBodyFirst g r).1.wire.flatten = hd.getD [] ++ B ∧
    bufB (sendBodyFirst g r).1 = [] ∧ bodyB (sendBodyFirst g r).1 = [] ∧
    (sendBodyFirst g r).1.headEncoded = r.headEncoded ∧ (sendBodyFirst g r).1.statusCode = r.statusCode ∧
    (sendBodyFirst g r).1.chunked = r.chunked ∧ (sendBodyFirst g r).1.chunkChecked = r.chunkChecked ∧
    (sendBodyFirst g r).1.header = r.header ∧ (sendBodyFirst g r).1.closeDelim = r.closeDelim := by
  unfold sendBodyFirst
  have hb0' : r.buffer.getD [] = [] := hb0
  cases hbb : r.bodyBuffer with
  | none =>
    have := h []
    simp only [bufB, bodyB, hb0', hbb, Option.getD_none, List.nil_append, List.append_nil] at this
    exact ⟨rfl, this, hb0, by simp [bodyB, hbb], rfl, rfl, rfl, rfl, rfl, rfl⟩
  | some bb =>
    simp only []
    by_cases hl : bb.length > 0
    · rw [if_pos hl, send_ok g hg]
      have := h []
      simp only [bufB, bodyB, hb0', hbb, Option.getD_some, List.nil_append, List.append_nil] at this
      refine ⟨rfl, ?_, by simpa [bufB] using hb0', by simp [bodyB], rfl, rfl, rfl, rfl, rfl, rfl⟩
      simpa using this
    · rw [if_neg hl]
      have hbe : bb = [] := by
        cases bb with
        | nil => rfl
        | cons a t => simp at hl
      have := h []
      simp only [bufB, bodyB, hb0', hbb, hbe, Option.getD_some, List.nil_append, List.append_nil] at this
      exact ⟨rfl, this, hb0, by simp [bodyB, hbb, hbe], rfl, rfl, rfl, rfl, rfl, rfl⟩

/-- **ReadFrom appends.** In any state that satisfies the framing invariant `Base`, on a connection that accepts
the writes: ReadFrom returns the number of bytes the reader yields; the head (encoded now if it was not) and
everything accepted so far go out first, then exactly the reader's bytes; nothing stays buffered. -/
theorem readFrom_appends (g : Cfg) (hg : NoFail g) (r : R) (hd : Option Bytes) (B : Bytes)
    (h : Base r hd B) (k : RKind) (data : Bytes) :
    ∃ r', readFrom g r k data = (r', .ok data.length) ∧
      r'.wire.flatten = (hdAfter g { writeHeader200 r with hasBody := true } hd).getD [] ++ B ++ data ∧
      bufB r' = [] ∧ bodyB r' = [] ∧ r'.headEncoded = true ∧ r'.statusCode = (writeHeader200 r).statusCode ∧
      r'.chunkChecked = r.chunkChecked ∧ r'.chunked = r.chunked ∧ r'.header = (writeHeader200 r).header ∧
      r'.closeDelim = r.closeDelim := by
  obtain ⟨w1, w2, w3, w4, w5, w6⟩ := writeHeader_proj r 200 stOK
  have hb1 : Base (writeHeader200 r) hd B := by
    obtain ⟨b1, b2, b3, b4⟩ := h
    refine ⟨?_, by rw [← b2]; exact w4, ?_, ?_⟩
    · intro X; have := b1 X; unfold bufB bodyB writeHeader200 at *; rw [w1, w2, w3]; exact this
    · intro hc; unfold writeHeader200 at *; rw [w2]; exact b3 (by rw [← w4]; exact hc)
    · intro hc; unfold writeHeader200 at *; rw [w1]; exact b4 (by rw [← w4]; exact hc)
  have w5' : (writeHeader200 r).chunkChecked = r.chunkChecked := w5
  have w6' : (writeHeader200 r).chunked = r.chunked := w6
  have w7' : (writeHeader200 r).closeDelim = r.closeDelim := by unfold writeHeader200; simp
  unfold readFrom
  dsimp only
  generalize writeHeader200 r = r1 at *
  have hb : Base { r1 with hasBody := true } hd B := ⟨hb1.bytes, hb1.henc, hb1.nobuf, hb1.nowire⟩
  obtain ⟨e1, e2⟩ := eoncodeHead_base g { r1 with hasBody := true } hd B hb
  generalize hdAfter g { r1 with hasBody := true } hd = hd1 at *
  have q1 : (eoncodeHead g { r1 with hasBody := true }).statusCode = r1.statusCode := by simp
  have q2 : (eoncodeHead g { r1 with hasBody := true }).chunked = r1.chunked := by simp
  have q3 : (eoncodeHead g { r1 with hasBody := true }).chunkChecked = r1.chunkChecked := by simp
  have q4 : (eoncodeHead g { r1 with hasBody := true }).header = r1.header := by simp
  have q5 : (eoncodeHead g { r1 with hasBody := true }).closeDelim = r1.closeDelim := by simp
  generalize eoncodeHead g { r1 with hasBody := true } = r2 at *
  rw [sendHeadFirst_eq]
  obtain ⟨s1, s2, s3⟩ := sendFreeBuffer_spec g hg r2 hd1 B e1.bytes
  have p1 : (sendFreeBuffer g r2).1.headEncoded = r2.headEncoded ∧ (sendFreeBuffer g r2).1.statusCode = r2.statusCode ∧
      (sendFreeBuffer g r2).1.chunked = r2.chunked ∧ (sendFreeBuffer g r2).1.chunkChecked = r2.chunkChecked ∧
      (sendFreeBuffer g r2).1.header = r2.header ∧ (sendFreeBuffer g r2).1.closeDelim = r2.closeDelim := by
    unfold sendFreeBuffer
    cases r2.buffer with
    | none => exact ⟨rfl, rfl, rfl, rfl, rfl, rfl⟩
    | some b => simp [send_ok g hg]
  generalize sendFreeBuffer g r2 = p at *
  obtain ⟨r3, ok3⟩ := p
  dsimp only at s1 s2 s3 p1 ⊢
  subst s1
  simp only [Bool.not_true, Bool.false_eq_true, ↓reduceIte]
  obtain ⟨t1, t2, t3, t4, t5, t6, t7, t8, t9, t10⟩ := sendBodyFirst_spec g hg r3 hd1 B s2 s3
  generalize sendBodyFirst g r3 = q at *
  obtain ⟨r4, ok4⟩ := q
  dsimp only at t1 t2 t3 t4 t5 t6 t7 t8 t9 t10 ⊢
  subst t1
  simp only [Bool.not_true, Bool.false_eq_true, ↓reduceIte]
  obtain ⟨r', c1, c2, c3⟩ := readCopy_ok g hg r4 k data
  obtain ⟨u1, u2, u3, u4, u5, u6, u7, u8⟩ := c3
  refine ⟨r', c1, by rw [c2, t2], ?_, ?_, ?_, ?_, ?_, ?_, ?_, ?_⟩
  · unfold bufB at t3 ⊢; rw [u1]; exact t3
  · unfold bodyB at t4 ⊢; rw [u2]; exact t4
  · rw [u3, t5, p1.1]; exact e2
  · rw [u4, t6, p1.2.1, q1]
  · rw [u6, t8, p1.2.2.2.1, q3, w5']
  · rw [u5, t7, p1.2.2.1, q2, w6']
  · rw [u7, t9, p1.2.2.2.2.1, q4]
  · rw [u8, t10, p1.2.2.2.2.2, q5, w7']

/-- flushResponse after everything has been sent (nothing buffered): nothing more goes out -/
theorem finish_sent (g : Cfg) (hg : NoFail g) (r : R) (hb : bufB r = []) (hbb : bodyB r = []) (he : r.headEncoded = true)
    (hsc : r.statusCode ≠ 0) (hch : r.chunked = false) (hcc : r.chunkChecked = false)
    (hte : (hget r.header kTE).contains (str "chunked") = false) (htr : hget r.header kTrailer = [])
    (hcl : hfirst r.header kCL ≠ []) :
    (finish g r).1.wire.flatten = r.wire.flatten ∧ (finish g r).2 = (g.reqClose || r.closeDelim) := by
  have hcl' : (hfirst r.header kCL == []) = false := by simpa using hcl
  have e1 : checkChunked g (writeHeader200 r) = { r with chunkChecked := true } := by
    rw [writeHeader200_pre r hsc]
    have hte' : ¬ str "chunked" ∈ hget r.header kTE := by simpa using hte
    unfold checkChunked
    simp [hcc, hte', htr, hcl']
  unfold finish
  rw [e1, eoncodeHead_enc g _ (by exact he)]
  have hby : Bytes' { r with chunkChecked := true } (some r.wire.flatten) [] := by
    intro X
    have h1 : bufB { r with chunkChecked := true } = [] := hb
    have h2 : bodyB { r with chunkChecked := true } = [] := hbb
    rw [h1, h2]; simp
  have hc2 : ({ r with chunkChecked := true } : R).chunked = false := hch
  have hc3 : ({ r with chunkChecked := true } : R).closeDelim = r.closeDelim := rfl
  generalize ({ r with chunkChecked := true } : R) = r2 at *
  obtain ⟨c1, c2⟩ := flushIdentity_spec g hg r2 _ [] hby
  simp only [hc2, Bool.false_eq_true, ↓reduceIte]
  exact ⟨by simpa using c2, by simp [c1, hc3]⟩

/-- the same in a body-phase state (prelude done): no condition on the header map -/
theorem finish_sent_pre (g : Cfg) (hg : NoFail g) (r : R) (hp : Pre r) (hb : bufB r = []) (hbb : bodyB r = [])
    (he : r.headEncoded = true) (hch : r.chunked = false) :
    (finish g r).1.wire.flatten = r.wire.flatten ∧ (finish g r).2 = (g.reqClose || r.closeDelim) := by
  unfold finish
  rw [prelude_id g r hp, eoncodeHead_enc g r he]
  have hby : Bytes' r (some r.wire.flatten) [] := by
    intro X; rw [hb, hbb]; simp
  obtain ⟨c1, c2⟩ := flushIdentity_spec g hg r _ [] hby
  simp only [hch, Bool.false_eq_true, ↓reduceIte]
  exact ⟨by simpa using c2, by simp [c1]⟩

/-- **ReadFrom, ServeContent shape.** -/
theorem readFrom_spec (g : Cfg) (hg : NoFail g) (hdr : Header) (sc : Nat) (st : Bytes) (k : RKind) (data : Bytes)
    (hs : saneFraming g hdr = true)
    (hte : (hget hdr kTE).contains (str "chunked") = false) (htr : hget hdr kTrailer = [])
    (hcl : hfirst hdr kCL ≠ []) :
    (readFrom g (start hdr sc st) k data).2 = .ok data.length ∧
    (finish g (readFrom g (start hdr sc st) k data).1).1.wire.flatten =
      g.head { writeHeader200 (start hdr sc st) with hasBody := true } ++ data ∧
    (finish g (readFrom g (start hdr sc st) k data).1).2 = g.reqClose := by
  obtain ⟨w1, w2, w3, w4⟩ := writeHeader200_sane g hdr sc st hs
  have hsc : (writeHeader200 (start hdr sc st)).statusCode ≠ 0 := writeHeader200_sc _
  have hbase : Base (start hdr sc st) none [] :=
    ⟨by intro X; simp [start, bufB, bodyB], rfl, fun _ => rfl, fun _ => rfl⟩
  obtain ⟨r', e, f1, f2, f3, f4, f5, f6, f7, f8, f9⟩ := readFrom_appends g hg (start hdr sc st) none [] hbase k data
  have hq : (writeHeader200 (start hdr sc st)).headEncoded = false := by
    obtain ⟨_, _, _, p4, _, _⟩ := writeHeader_proj (start hdr sc st) 200 stOK
    exact p4
  have hH : (hdAfter g { writeHeader200 (start hdr sc st) with hasBody := true } none).getD [] =
      g.head { writeHeader200 (start hdr sc st) with hasBody := true } := by
    unfold hdAfter; simp [hq]
  rw [hH] at f1
  rw [e]
  obtain ⟨g1, g2⟩ := finish_sent g hg r' f2 f3 f4 (by rw [f5]; exact hsc) (by rw [f7]; rfl)
    (by rw [f6]; rfl) (by rw [f8, w1]; exact hte) (by rw [f8, w1]; exact htr) (by rw [f8, w1]; exact hcl)
  exact ⟨rfl, by rw [g1, f1]; simp, by rw [g2, f9]; simp [start]⟩

end Resp
