import NbioVerif.Lemmas.C09Main
import NbioVerif.Lemmas.C09Choice
/-! `Response.ReadFrom` in the `http.ServeContent` shape (explicit Content-Length, nothing written before):
the head goes out first, then exactly the reader's bytes. -/
namespace Resp

/-- the fields flushResponse looks at -/
def SameCtl (r r' : R) : Prop :=
  r'.buffer = r.buffer ∧ r'.bodyBuffer = r.bodyBuffer ∧ r'.headEncoded = r.headEncoded ∧
  r'.statusCode = r.statusCode ∧ r'.chunked = r.chunked ∧ r'.chunkChecked = r.chunkChecked ∧ r'.header = r.header

theorem copyLoop_ok (g : Cfg) (hg : NoFail g) (f : Nat) (r : R) (d : Bytes) (w : Nat) (hf : d.length < f) :
    ∃ r', copyLoop g f r d w = (r', w + d.length, true) ∧ r'.wire.flatten = r.wire.flatten ++ d ∧ SameCtl r r' := by
  induction f generalizing r d w with
  | zero => omega
  | succ f ih =>
    unfold copyLoop
    by_cases hd : d = []
    · subst hd
      exact ⟨r, by simp, by simp, rfl, rfl, rfl, rfl, rfl, rfl, rfl⟩
    · have hne : (d == []) = false := by simpa using hd
      rw [hne]
      simp only [Bool.false_eq_true, ↓reduceIte, send_ok g hg]
      have hlen : 0 < d.length := by cases d with | nil => exact absurd rfl hd | cons a t => simp
      obtain ⟨r', h1, h2, h3⟩ := ih { r with attempts := r.attempts + 1, wire := r.wire ++ [d.take 32768] }
        (d.drop 32768) (w + (d.take 32768).length) (by rw [List.length_drop]; omega)
      refine ⟨r', ?_, ?_, h3⟩
      · rw [h1]
        have : w + (d.take 32768).length + (d.drop 32768).length = w + d.length := by
          rw [List.length_take, List.length_drop]; omega
        rw [this]
      · rw [h2]
        simp only [List.flatten_append, List.flatten_cons, List.flatten_nil, List.append_nil, List.append_assoc,
          List.take_append_drop]

/-- flushResponse after everything has been sent: nothing more goes out -/
theorem finish_sent (g : Cfg) (r : R) (hb : r.buffer = none) (hbb : r.bodyBuffer = none) (he : r.headEncoded = true)
    (hsc : r.statusCode ≠ 0) (hch : r.chunked = false) (hcc : r.chunkChecked = false)
    (hte : (hget r.header kTE).contains (str "chunked") = false) (htr : hget r.header kTrailer = [])
    (hcl : hfirst r.header kCL ≠ []) :
    (finish g r).1.wire = r.wire ∧ (finish g r).2 = g.reqClose := by
  have hcl' : (hfirst r.header kCL == []) = false := by simpa using hcl
  have e1 : checkChunked g (writeHeader200 r) = { r with chunkChecked := true } := by
    rw [writeHeader200_pre r hsc]
    have hte' : ¬ str "chunked" ∈ hget r.header kTE := by simpa using hte
    unfold checkChunked
    simp [hcc, hte', htr, hcl']
  unfold finish
  rw [e1, eoncodeHead_enc g _ (by exact he)]
  simp only [hch, Bool.false_eq_true, ↓reduceIte]
  unfold flushIdentity mergeStep sendFreeBuffer sendFreeBody
  simp [hb, hbb]

/-- **ReadFrom, ServeContent shape.** -/
theorem readFrom_spec (g : Cfg) (hg : NoFail g) (hdr : Header) (sc : Nat) (st : Bytes) (k : RKind) (data : Bytes)
    (hs : saneFraming g hdr = true)
    (hte : (hget hdr kTE).contains (str "chunked") = false) (htr : hget hdr kTrailer = [])
    (hcl : hfirst hdr kCL ≠ []) :
    (readFrom g (start hdr sc st) k data).2 = .ok data.length ∧
    (finish g (readFrom g (start hdr sc st) k data).1).1.wire.flatten =
      g.head { writeHeader200 (start hdr sc st) with hasBody := true } ++ data ∧
    (finish g (readFrom g (start hdr sc st) k data).1).2 = g.reqClose := by
  obtain ⟨w1, w2, w3, w4⟩ := writeHeader200_sane g hdr sc st hs
  obtain ⟨p1, p2, p3, p4, _, _⟩ := writeHeader_proj (start hdr sc st) 200 stOK
  have hsc : (writeHeader200 (start hdr sc st)).statusCode ≠ 0 := writeHeader200_sc _
  have q1 : (writeHeader200 (start hdr sc st)).wire = [] := p1
  have q2 : (writeHeader200 (start hdr sc st)).buffer = none := p2
  have q3 : (writeHeader200 (start hdr sc st)).bodyBuffer = none := p3
  have q4 : (writeHeader200 (start hdr sc st)).headEncoded = false := p4
  generalize hr1 : writeHeader200 (start hdr sc st) = r1 at *
  -- the state after the head and the bytes went out
  suffices hmain : ∃ r', readFrom g (start hdr sc st) k data = (r', .ok data.length) ∧
      r'.wire.flatten = g.head { r1 with hasBody := true } ++ data ∧ r'.buffer = none ∧ r'.bodyBuffer = none ∧
      r'.headEncoded = true ∧ r'.statusCode = r1.statusCode ∧ r'.chunked = false ∧ r'.chunkChecked = false ∧
      r'.header = hdr by
    obtain ⟨r', e, f1, f2, f3, f4, f5, f6, f7, f8⟩ := hmain
    rw [e]
    obtain ⟨g1, g2⟩ := finish_sent g r' f2 f3 f4 (by rw [f5]; exact hsc) f6 f7 (by rw [f8]; exact hte)
      (by rw [f8]; exact htr) (by rw [f8]; exact hcl)
    exact ⟨rfl, by rw [g1]; exact f1, g2⟩
  have e2 := eoncodeHead_new g { r1 with hasBody := true } q4
  unfold readFrom
  simp only [hr1, e2, send_ok g hg, Bool.not_true, Bool.false_eq_true, ↓reduceIte]
  clear e2
  generalize hH : g.head { r1 with hasBody := true } = H
  by_cases h1 : (k == RKind.limited && data.length == 0) = true
  · rw [if_pos h1]
    have hd : data = [] := by
      have := (Bool.and_eq_true _ _ ▸ h1).2
      cases data with
      | nil => rfl
      | cons a t => simp at this
    subst hd
    exact ⟨_, rfl, by simp [q1], rfl, q3, rfl, rfl, w4, w3, w1⟩
  · rw [if_neg h1]
    by_cases h2 : (g.sendfile && k != RKind.plain) = true
    · rw [if_pos h2]
      unfold sendDirect
      simp only [send_ok g hg, ↓reduceIte]
      exact ⟨_, rfl, by simp [q1], rfl, q3, rfl, rfl, w4, w3, w1⟩
    · rw [if_neg h2]
      obtain ⟨r', c1, c2, c3⟩ := copyLoop_ok g hg (data.length + 1)
        { r1 with trailer := trailerOf r1.header, buffer := none, headEncoded := true, hasBody := true,
                  wire := r1.wire ++ [H], attempts := r1.attempts + 1 } data 0 (Nat.lt_succ_self _)
      rw [c1]
      simp only [↓reduceIte, Nat.zero_add]
      obtain ⟨s1, s2, s3, s4, s5, s6, s7⟩ := c3
      exact ⟨r', rfl, by rw [c2]; simp [q1], s1, by rw [s2]; exact q3, s3, s4, by rw [s5]; exact w4,
        by rw [s6]; exact w3, by rw [s7]; exact w1⟩

end Resp
