/-! shared helpers of the drivers: hex, payload patterns, FNV-1a-64 (same definitions as harness/internal/lp) -/
namespace Drv

def hexVal (c : Char) : Nat :=
  if c.isDigit then c.toNat - 48 else if c.toNat ≥ 97 then c.toNat - 87 else c.toNat - 55

def unhex (s : String) : List UInt8 :=
  let rec go : List Char → List UInt8
    | a :: b :: r => UInt8.ofNat (hexVal a * 16 + hexVal b) :: go r
    | _ => []
  go s.toList

def hexDigit (n : Nat) : Char := if n < 10 then Char.ofNat (48 + n) else Char.ofNat (87 + n)

def hex (b : List UInt8) : String :=
  String.ofList (b.foldr (fun x acc => hexDigit (x.toNat / 16) :: hexDigit (x.toNat % 16) :: acc) [])

/-- byte i of pattern p is (i*7 + p) mod 256 -/
def pattern (n p : Nat) : List UInt8 := (List.range n).map fun i => UInt8.ofNat ((i * 7 + p) % 256)

/-- FNV-1a, 64 bit -/
def fnv (b : List UInt8) : UInt64 :=
  b.foldl (fun h x => (h ^^^ x.toUInt64) * 1099511628211) 14695981039346656037

/-- "@len:pattern", "-" (empty) or hex -/
def payload (s : String) : List UInt8 :=
  if s.startsWith "@" then
    match (s.drop 1).toString.splitOn ":" with
    | [n, p] => pattern n.toNat! p.toNat!
    | _ => []
  else if s == "-" then [] else unhex s

/-- value of `key=` in a list of tokens -/
def field (ws : List String) (key : String) : Option String :=
  (ws.find? (·.startsWith (key ++ "="))).map fun w => (w.drop (key.length + 1)).toString

end Drv
