"""Critical-section predicates of the HTTP parser family (DESIGN 2.4c): the Lean models treat one `Parse` call and one
`CloseAndClean` as atomic steps of the same parser, and the engine readers as "Parse; on error close" with nothing in
between. These predicates check the lock discipline and the call structure that make that granularity right."""
from .cs import pred

_CALLBACKS = ["recv.Processor.OnMethod", "recv.Processor.OnURL", "recv.Processor.OnProto", "recv.Processor.OnStatus",
              "recv.Processor.OnHeader", "recv.Processor.OnContentLength", "recv.Processor.OnBody",
              "recv.Processor.OnTrailerHeader"]

# Parser.Parse: state, cache and every processor callback under p.mux; no goroutine started
PARSE_ATOMIC = pred("http_parse_atomic", "nbhttp/parser.go", "nbhttp.Parser.Parse",
                    guarded={"recv.mux": ["recv.state", "recv.bytesCached"]},
                    held_calls={"recv.mux": _CALLBACKS}, no_go=True)

# Parser.CloseAndClean: the state flip to Close, the processor clean-up and the cache release under the same mutex
CLOSE_ATOMIC = pred("http_closeandclean_atomic", "nbhttp/parser.go", "nbhttp.Parser.CloseAndClean",
                    guarded={"recv.mux": ["recv.state", "recv.bytesCached"]},
                    held_calls={"recv.mux": ["recv.Processor.Close"]}, no_go=True)

# the four readers: Parse and the close it triggers are made by the same goroutine, in the same function, without a
# `go` statement in between (the engine mutex is not held across them)
READER_NB = pred("http_reader_nonblocking", "nbhttp/engine.go", "nbhttp.Engine.DataHandler",
                 unheld_calls={"recv.mux": ["readerCloser.Parse", "c.CloseWithError"]}, no_go=True)
READER_B = pred("http_reader_blocking", "nbhttp/engine.go", "nbhttp.Engine.readConnBlocking",
                unheld_calls={"recv.mux": ["parserCloser.Parse", "conn.Close", "parserCloser.CloseAndClean", "recv._onClose"]},
                no_go=True)
READER_TLS_NB = pred("http_reader_tls_nonblocking", "nbhttp/engine.go", "nbhttp.Engine.TLSDataHandler",
                     unheld_calls={"recv.mux": ["parserCloser.Parse", "c.CloseWithError"]}, no_go=True)
READER_TLS_B = pred("http_reader_tls_blocking", "nbhttp/engine.go", "nbhttp.Engine.readTLSConnBlocking",
                    unheld_calls={"recv.mux": ["parserCloser.Parse", "parserCloser.CloseAndClean", "tlsConn.Close", "recv._onClose"]},
                    no_go=True)

HTTP_CS = [PARSE_ATOMIC, CLOSE_ATOMIC, READER_NB, READER_B, READER_TLS_NB, READER_TLS_B]
