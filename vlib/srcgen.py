"""Regenerated-from-source facts: tools/go2lean translates the pure decision functions listed in
tools/go2lean/funcs.json from $VERIF_REPO's working tree into lean/NbioVerif/Generated/Src_*.lean
(written only when the content changes).  The bridge lemmas (NbioVerif.Lemmas.SrcBridge{Ws,Http,Conn,Alloc})
prove that the hand-written model functions equal the translated ones; a property that lists
`srcgen.src_facts` under "facts" and its bridge module under "lean" has them re-checked by its lake
build on every run.  A Go construct outside the translator's subset is a broken tie (docs/go2lean.md)."""
import os

from . import core

_SRC = os.path.join(core.VERIF, "tools", "go2lean")
_BIN = os.path.join(core.VERIF, "tools", "bin", "go2lean")
GENERATED = os.path.join(core.LEAN, "NbioVerif", "Generated")

BRIDGE_WS = "NbioVerif.Lemmas.SrcBridgeWs"
BRIDGE_HTTP = "NbioVerif.Lemmas.SrcBridgeHttp"
BRIDGE_CONN = "NbioVerif.Lemmas.SrcBridgeConn"
BRIDGE_ALLOC = "NbioVerif.Lemmas.SrcBridgeAlloc"


def src_facts(sc):
    """facts step: returns (changed, detail) like the table regenerators of the ws/http families."""
    with core.LeanLock():
        newest = max(os.path.getmtime(os.path.join(_SRC, f)) for f in ("main.go", "go.mod"))
        if not os.path.exists(_BIN) or os.path.getmtime(_BIN) < newest:
            core.run(["go", "build", "-o", _BIN, "."], cwd=_SRC, env=core.GOENV, check=True)
        p = core.run([_BIN, "-repo", core.REPO, "-spec", os.path.join(_SRC, "funcs.json"), "-out", GENERATED],
                     env=core.GOENV, timeout=300)
    if p.returncode != 0:
        raise core.TieBroken("go2lean could not translate the listed nbio functions (construct outside its subset, "
                             "or a listed function/constant disappeared)", (p.stderr or p.stdout)[-2000:])
    written = [l.split(" ", 1)[1] for l in p.stdout.splitlines() if l.startswith("written ")]
    return bool(written), "regenerated from the working tree: " + ", ".join(os.path.basename(w) for w in written)
