"""Conn write path family: C01 (outbound stream integrity), C04 (flush liveness), C17 (write-buffer bound).

One differential stream (harness hconn, driver conndrv) serves the three properties; each compares
its own fields of the result lines and owns the direct oracles with its prefix."""

_SIZES = {"quick": {"n": 200, "shards": 16}, "thorough": {"n": 4700, "shards": 32, "timeout": 3000}}


def _run(fields):
    return dict({"harness": "hconn", "driver": "conndrv", "fields": fields, "corpus": "conn"}, **_SIZES)


_TECH = "Lean 4 proof (invariants by induction over the op sequence of the transition system) + differential correspondence"
_IOV = ("Writev passes at most IOV_MAX (1024) non-empty slices to writev(2) (more would be a fatal EINVAL in reality); "
        "the generator uses 0-6 slices and the model's kernel answer does not depend on the slice count")

_KERNEL = ("kernel semantics are inputs of the model: every write/writev/sendfile answer (accepted count <= request, EAGAIN, "
           "EINTR, fatal error) is scripted, an exhausted script means EAGAIN, a zero-length request returns 0 without needing room; "
           "epoll: MOD before ADD fails with ENOENT, ONESHOT disarms the descriptor when an event is reported until the next "
           "successful MOD, ET reports writability again after a short write or EAGAIN")
_ATOMIC = ("one model step = one section of the Go code under the connection mutex: Write, Writev, Sendfile, flush (evTake: delivery + "
           "ONESHOT disarm + flush are one step), the registration in addConn / addDialer, each of the poller's three tail actions "
           "(connected tail c.resetRead(), ResetPollerEvent, closeWithError after an error event: ops evConnEnd / evRearm / evErrClose), "
           "SetWriteDeadline, the timer's close; a close is two steps: the flag flip under the mutex (flipClosed) and the teardown "
           "(teardown) that may come later, other ops may run in between (they find closed = true); that each of these is one locked "
           "region is checked by the critical-section predicates (cs_*), not proved")

# --------------------------------------------------------------------------- critical-section predicates
# Coarse structural checks over the scratch copy of the source: that what the model treats as one step
# really runs under the connection mutex (DESIGN 2.4c). Predicates over the ordered stream of
# Lock / Unlock / return / selected statements of a function body, not AST equality.

from . import srcgen
import os
import re


def _body(sc, fname, sig):
    src = open(os.path.join(sc.dir, "nbio", fname), encoding="utf-8").read()
    src = re.sub(r"//[^\n]*", "", src)
    m = re.search(sig, src)
    if not m:
        return None
    i = src.index("{", m.end() - 1)
    depth, j = 0, i
    while j < len(src):
        if src[j] == "{":
            depth += 1
        elif src[j] == "}":
            depth -= 1
            if depth == 0:
                return src[i:j + 1]
        j += 1
    return None


_TOK = [("L", r"c\.mux\.Lock\(\)"), ("D", r"defer c\.mux\.Unlock\(\)"), ("U", r"c\.mux\.Unlock\(\)"), ("R", r"\breturn\b"),
        ("C", r"c\.closed = true"), ("T", r"c\.closeWithErrorWithoutLock\("), ("W", r"c\.writeList"),
        ("A", r"p\.(addRead|addReadWrite|resetRead|modWrite)\(fd\)"), ("F", r"\bfunc\(")]


def _tokens(body):
    out = []
    for name, rx in _TOK:
        for m in re.finditer(rx, body):
            out.append((m.start(), name))
    out.sort()
    toks, last = [], -1
    for pos, name in out:
        if name == "U" and toks and toks[-1] == "D" and pos - last < 8:
            continue  # the Unlock inside "defer c.mux.Unlock()"
        toks.append(name)
        last = pos
    return "".join(toks)


def cs_write_calls_locked(sc):
    """Write / Writev: lock first, every return preceded by its own unlock, teardown only after the flag
    was set and the mutex released; Sendfile / flush: lock + deferred unlock, nothing else."""
    bad = []
    for f, sig in (("conn_unix.go", r"func \(c \*Conn\) Write\("), ("conn_unix.go", r"func \(c \*Conn\) Writev\(")):
        b = _body(sc, f, sig)
        t = re.sub(r"[AF]", "", _tokens(b)) if b else ""
        # closed test; fatal error path (flag, unlock, teardown); queue test + arming; final unlock
        if not re.fullmatch(r"L(UR)+(CUTR)+W+UR", t):
            bad.append("%s: lock/unlock/return stream %r" % (sig, t))
    for f, sig in (("conn_unix.go", r"func \(c \*Conn\) flush\("), ("sendfile_unix.go", r"func \(c \*Conn\) Sendfile\(")):
        b = _body(sc, f, sig)
        t = re.sub(r"[AFR]", "", _tokens(b)) if b else ""
        # the mutex is taken (and its release deferred) before the write list is looked at
        if not re.fullmatch(r"LD[WCT]*", t):
            bad.append("%s: lock stream %r (write list touched outside the locked region?)" % (sig, t))
    return (not bad, "; ".join(bad))


def cs_rearm_and_register_locked(sc):
    """ResetPollerEvent and addConn: the look at the write list and the epoll_ctl lie in one locked region."""
    bad = []
    b = _body(sc, "poller_epoll.go", r"func \(c \*Conn\) ResetPollerEvent\(")
    t = re.sub(r"[RF]", "", _tokens(b)) if b else ""
    if not re.fullmatch(r"LWA+U", t):
        bad.append("ResetPollerEvent: %r" % t)
    b = _body(sc, "poller_epoll.go", r"func \(p \*poller\) addConn\(")
    t = re.sub(r"[RF]", "", _tokens(b)) if b else ""
    if not re.search(r"LWA+U", t) or re.search(r"A", re.sub(r"LWA+U", "", t)):
        bad.append("addConn: %r" % t)
    return (not bad, "; ".join(bad))


def cs_close_test_and_set(sc):
    """closeWithError: test-and-set of closed in one locked region, teardown after the unlock."""
    b = _body(sc, "conn_unix.go", r"func \(c \*Conn\) closeWithError\(")
    t = re.sub(r"[WAF]", "", _tokens(b)) if b else ""
    ok = bool(re.fullmatch(r"LCURTUR|LCUTRUR|LCUR?TR?UR", t))
    return (ok, "closeWithError: %r" % t)


def _real_tier(sc, rs, tier, seed):
    """Supporting tier on real sockets / the real kernel: hconn real prints the cases, hconn exec runs them."""
    from . import core
    n = 36 if tier == "quick" else 600
    p = core.run([sc.exe("hconn"), "real", "-seed", str(seed), "-n", str(n)], timeout=60)
    return core.diff_run(sc, "hconn", "conndrv", [], 0, seed, fields=rs.get("fields"), corpus=p.stdout,
                         timeout=300 if tier == "quick" else 1800)


def _sim_and_real(sc, rs, tier, seed):
    """The simulated-kernel stream (corpus first) and, merged into the same result, the real-socket tier."""
    from . import core
    par = rs[tier] if tier in rs else rs["quick"]
    r = core.diff_run(sc, "hconn", "conndrv", ["-n", str(par["n"]), "-tier", tier], par["shards"], seed,
                      fields=rs.get("fields"), corpus=core.load_corpus("conn"), timeout=par.get("timeout", 1500))
    r.merge(_real_tier(sc, rs, tier, seed))
    return r


def _run_with_real(fields):
    return dict(_run(fields), custom=_sim_and_real)


def cs_dialer(sc):
    """DialAsync path: addDialer marks the write interest (isWAdded) before it ADDs read+write; the tail of the
    connected callback calls c.resetRead() inside its own locked region."""
    bad = []
    b = _body(sc, "poller_epoll.go", r"func \(p \*poller\) addDialer\(") or ""
    if not re.search(r"c\.isWAdded = true\s*err := p\.addReadWrite\(fd\)", b):
        bad.append("addDialer: isWAdded = true does not precede addReadWrite")
    b = _body(sc, "conn_unix.go", r"func \(c \*Conn\) dialed\(") or _body(sc, "poller_epoll.go", r"func \(p \*poller\) readWriteLoop\(") or ""
    if not re.search(r"c\.mux\.Lock\(\)\s*c\.resetRead\(\)\s*c\.mux\.Unlock\(\)", b):
        bad.append("connected tail: c.resetRead() is not called in its own locked region")
    return (not bad, "; ".join(bad))


def cs_model_appends_only(sc):
    """The model never reads `wire` / `accepted` (it only appends to them): what lets the driver hash them
    incrementally. Every occurrence in the step functions must be `f := s.f ++ …`."""
    from . import core
    src = open(os.path.join(core.LEAN, "NbioVerif", "Model", "ConnFull.lean"), encoding="utf-8").read()
    src = re.sub(r"/-.*?-/", "", src, flags=re.S)
    src = re.sub(r"--[^\n]*", "", src)
    src = src.split("abstract quantities", 1)[0]
    bad = []
    for f in ("wire", "accepted"):
        for m in re.finditer(r"\.%s\b" % f, src):
            pre = src[max(0, m.start() - len(f) - 6):m.start()]
            post = src[m.end():m.end() + 4]
            if not (re.search(r"%s := s$" % f, pre) and post.startswith(" ++")):
                bad.append("%s at offset %d: %r" % (f, m.start(), src[max(0, m.start() - 30):m.end() + 10]))
    return (not bad, "; ".join(bad[:3]))


def _shared_cs():
    """the lock-set predicates of tools/csfacts for the same functions (vlib/cs.py: WRITE, CLOSE, DEADLINE)"""
    try:
        from . import cs
        return list(cs.WRITE) + list(cs.CLOSE) + list(cs.DEADLINE)
    except Exception:  # the shared module is optional for this family's own predicates
        return []


_CS = _shared_cs() + [cs_model_appends_only, cs_dialer, cs_write_calls_locked, cs_rearm_and_register_locked, cs_close_test_and_set]

PROPS = {
    "C01": {
        "manifest": {
            "text": "Lean theorems on the ConnFull model of Write/Writev/Sendfile/flush (all op sequences, all kernel answer sequences): "
                    "wire ++ pending = accepted while open, wire is a prefix of accepted after close, return-value theorems, accepted = the "
                    "ranges the calls reported (c01_accepted_is_reported), Sendfile under a failing dup(2) (c01_sendfile_nodup); tied to the "
                    "code by differential execution of the real Conn and poller loop on a scripted kernel (fields incl. queue shape, hash of the "
                    "queued bytes, hash of the reported ranges), with a wire-vs-reported-ranges oracle on the implementation alone and an "
                    "oracle-only real-socket tier",
            "note": "model fidelity is sampled on every run (simulated kernel: vsys shim). Non-interleaving of concurrent callers is not a "
                    "differential result: it rests on the critical-section predicates (each call is one locked region) and the real-socket "
                    "oracle c01-real-stream; the real tier compares no model field. accepted = reported is proved for well-formed sendfile(2) "
                    "answers only (OpsWF); c01_reported_needs_wf shows the divergence otherwise. After a fatal Sendfile the wire may hold a "
                    "prefix of the failing call's range although the call reported 0 (harness: tolerate): c01_wire_prefix_of_reported proves (under "
                    "OpsWF), open or closed, accepted = reported ++ p and wire <+: reported ++ p, where p != [] implies that the conn is closed and "
                    "p is a prefix of the range of SOME Sendfile op of the run - no more at run level; that this op is the failing, closing one "
                    "is stated at step level only (step_reported_ex). Transport differences are covered by sampling (typ=, "
                    "which the model ignores) and the oracle-only real tier",
            "technique": _TECH},
        "lean": ["NbioVerif.Properties.C01", "NbioVerif.Properties.ConnTimer", "NbioVerif.Properties.ConnClose", srcgen.BRIDGE_CONN], "drivers": ["conndrv"], "harness": ["hconn"],
        "runs": [_run_with_real(["n", "err", "ow", "cb", "rc", "deliv", "closed", "wire", "wl", "left", "pend", "acc", "onclose", "wtimer"])],
        "facts": [srcgen.src_facts],
        "oracles": ["c01-"], "cs": _CS,
        "rule": "case = (stream type, epoll mode, bound, calls inside the open callback, op sequence with scripted kernel answers); distinct by "
                "hash of (cell, per op: kind, error class, delivered event parts, queue length class, closed); non-trivial iff a backlog existed "
                "at some observation or a call returned an error",
        "assumptions": [_KERNEL, _ATOMIC,
                        "sendfile(2) transfers the range it reports and the source file is not truncated while queued",
                        _IOV,
                        "non-interleaving of concurrent calls rests on 'one call = one critical section' (critical-section predicates "
                        "cs_write_calls_locked + the real-tier oracle c01-real-stream with concurrent writer goroutines), not on a "
                        "model of two writers inside one call",
                        "a call failing with a fatal error may have put a prefix of its own input on the wire before the connection was closed "
                        "(Sendfile reports 0 then): the closed-connection clause allows exactly that prefix"],
    },
    "C04": {
        "manifest": {
            "text": "Lean theorems on the same model: whenever the connection is open and its queue non-empty, EPOLLOUT is armed in the kernel or "
                    "the step that arms it is pending (registration, ResetPollerEvent, the error close); under EPOLLET a writability report is owed "
                    "whenever a registered open conn has a backlog (ghost edgeDue, c04_et_edge); a delivered EPOLLOUT with kernel room strictly "
                    "reduces the backlog (also behind leading EINTRs, c04_progress_eintr); flush terminates; from a quiet state `backlog` rounds of "
                    "report + flush drain the queue in all three modes (c04_drains); differential correspondence incl. epoll_ctl log, the edge "
                    "ghost and injected events through the real readWriteLoop, with quiescent-unarmed / progress / lost-edge / hang oracles on "
                    "the implementation alone",
            "note": "liveness in safety form (armed invariant + ET edge invariant + decreasing measure + composed drain rounds) under the fairness "
                    "assumption that an armed writable fd is eventually reported; in ET the kernel is assumed to report writability after every "
                    "refused or short write (ghost edgeDue), and c04_drains composes the rounds under that; c04_drains starts from a Quiet state "
                    "(registered, no event tail pending) and is proved for ONE canonical schedule only: every round is [EPOLLOUT reported and "
                    "answered .wrote N with N > 0, evEnd], no EINTR, no read or error events and no calls inside the rounds. A reachable state "
                    "that is registered, has early = false, whose connect event (if it is dialing) has been taken (connecting -> connEv), and "
                    "that is still open after the tail is Quiet after the poller's tail (c04_quiet_after_tail, composed in c04_drains_from_open); "
                    "excluded: a dialing conn whose connect event has not arrived, early = true, an error close in the tail; an unregistered "
                    "conn is registered first (c04_register_arms, not composed). Calls "
                    "between the poller's tail actions are covered by the theorems over arbitrary op sequences and the critical-section "
                    "predicates; the differential runs the merged evEnd only (= the three ops in a row, c04_tail_is_three_steps), except for "
                    "race= ops where the driver runs evConnEnd, evRearm, the racing call, evErrClose - with no error event pending there this is "
                    "extensionally evEnd followed by the call, and no op ever lands between evConnEnd and evRearm. Only the "
                    "default read path is modelled (g.onRead == nil, AsyncReadInPoller off). ET edge and drain theorems assume no call precedes "
                    "the connected callback of a DialAsync conn (c04_et_edge_counterexample_early). A dial that connected at once (addDialer without a "
                    "pending callback: read+write registered, isWAdded set, nothing queued) is the op registerDialNow / hconn dial=2 (state flag "
                    "idle in the belief invariant); flush on an empty queue calls resetRead as in the code (repo fix 42b91d9) and ResetPollerEvent clears "
                    "isWAdded when it re-arms for reading only (repo fix 002fd23): the former drops that "
                    "idle write interest (c04_flush_empty_drops_idle) and is a no-op otherwise (c04_flush_empty_noop); the dial callback of such "
                    "a conn is an ordinary caller (hconn runs its calls right after the registration)",
            "technique": _TECH},
        "lean": ["NbioVerif.Properties.C04", srcgen.BRIDGE_CONN], "drivers": ["conndrv"], "harness": ["hconn"],
        "runs": [_run_with_real(["deliv", "closed", "wl", "wadded", "reg", "kout", "dis", "edge", "ctl", "onclose"])],
        "facts": [srcgen.src_facts],
        "oracles": ["c04-"], "cs": _CS,
        "rule": "same stream as C01 (writes inside the open callback before registration, from the data callback while an event is handled, "
                "and between events; EPOLLOUT-only events whose flush ends in EAGAIN); non-trivial iff a backlog existed at some observation",
        "assumptions": [_KERNEL, _ATOMIC,
                        "answer scripts are finite and an exhausted script means EAGAIN: a kernel answering (0, nil) or EINTR for ever "
                        "(where Go's writeFile / writeBuffer / the flush loop, the `for errors.Is(err, syscall.EINTR)` retry loops of the "
                        "direct write in write / writev and the `continue` of Sendfile's loop would spin under the mutex) is excluded",
                        "the default read path of the poller is modelled (g.onRead == nil, AsyncReadInPoller off): a custom OnRead "
                        "handler must call ResetPollerEvent itself in ONESHOT mode, and the async read path re-arms from its task "
                        "goroutine (same ResetPollerEvent, now under the connection mutex)",
                        "fairness: an armed, writable descriptor is eventually reported by epoll_wait"],
    },
    "C17": {
        "manifest": {
            "text": "Lean theorems on the same model: left = unsent bytes held in queued buffers, left <= MaxWriteBufferSize, a call that fits is "
                    "accepted in full, a call that does not fit fails with ErrOverflow and closes, an empty queue means left = 0; differential "
                    "correspondence on the counter and queue shape plus bound/accounting oracles on the implementation alone",
            "note": "queued file ranges (Sendfile) are not held bytes and are not counted, as in the code. Writev is assumed to pass <= IOV_MAX "
                    "non-empty slices; where exactly that matters is proved on the model with the kernel's EINVAL rule as an answer transformer "
                    "(c17_fits_writev_iovmax_partial: <= IOV_MAX slices or any number behind a backlog: accepted in full; > IOV_MAX on an empty "
                    "queue: (0, err), not ErrOverflow, nothing accepted, conn closed); iovAns / iovCount / iovMax are specification-side "
                    "definitions in Properties/C17.lean, not part of the model: the theorem is about writev g s bs (iovAns bs k), the driver never "
                    "applies iovAns, and the Go side of the EINVAL case is not sampled (the generator uses 0-6 slices). Sendfile's acceptance (c17_fits_accepted_sendfile) assumes dup(2) succeeds and no fatal kernel answer; "
                    "with a failing dup the call may fail although it fits (the oracle c17-fits exempts EMFILE) and what holds instead is proved "
                    "on the model: c17_fits_sendfile_nodup_partial (hypotheses: reachable state and well-formed sendfile answers KWF ks; never "
                    "the overflow error, n = whole range or 0, and while the conn stays open queue and counter are exactly as before), "
                    "c17_inv_nodup (accounting and bound hold after it)",
            "technique": _TECH},
        "lean": ["NbioVerif.Properties.C17"], "drivers": ["conndrv"], "harness": ["hconn"],
        "runs": [_run(["n", "err", "ow", "cb", "rc", "closed", "left", "wl"])],
        "oracles": ["c17-"], "cs": _CS,
        "rule": "same stream as C01 with bounds drawn around the running totals (left + n = bound - 1, bound, bound + 1) and fill/drain cycles; "
                "non-trivial iff a backlog existed at some observation or a call returned an error",
        "assumptions": [_KERNEL, _ATOMIC, _IOV,
                        "'fits => accepted' for Sendfile: dup(2) succeeds and no kernel answer is fatal"],
    },
}
