"""Conn write path family: C01 (outbound stream integrity), C04 (flush liveness), C17 (write-buffer bound).

One differential stream (harness hconn, driver conndrv) serves the three properties; each compares
its own fields of the result lines and owns the direct oracles with its prefix."""

_SIZES = {"quick": {"n": 200, "shards": 16}, "thorough": {"n": 4700, "shards": 32, "timeout": 3000}}


def _run(fields):
    return dict({"harness": "hconn", "driver": "conndrv", "fields": fields, "corpus": "conn"}, **_SIZES)


_TECH = "Lean 4 proof (invariants by induction over the op sequence of the transition system) + differential correspondence"
_KERNEL = ("kernel semantics are inputs of the model: every write/writev/sendfile answer (accepted count <= request, EAGAIN, "
           "EINTR, fatal error) is scripted, an exhausted script means EAGAIN, a zero-length request returns 0 without needing room; "
           "epoll: MOD before ADD fails with ENOENT, ONESHOT disarms the descriptor when an event is reported until the next "
           "successful MOD, ET reports writability again after a short write or EAGAIN")
_ATOMIC = ("one model step = one section of the Go code under the connection mutex (Write, Writev, Sendfile, flush, the registration "
           "in addConn) or one unlocked poller statement (ResetPollerEvent, closeWithError after an error event); close = flag flip + teardown "
           "in one step (nothing else touches the write list once the flag is set)")

PROPS = {
    "C01": {
        "manifest": {
            "text": "Lean theorems on the ConnFull model of Write/Writev/Sendfile/flush (all op sequences, all kernel answer sequences): "
                    "wire ++ pending = accepted while open, wire is a prefix of accepted after close, return-value theorems; tied to the "
                    "code by differential execution of the real Conn and poller loop on a scripted kernel, with a wire-vs-reported-ranges "
                    "oracle on the implementation alone",
            "note": "model fidelity is sampled on every run (simulated kernel: vsys shim); real sockets are not part of this check",
            "technique": _TECH},
        "lean": ["NbioVerif.Properties.C01"], "drivers": ["conndrv"], "harness": ["hconn"],
        "runs": [_run(["n", "err", "ow", "cb", "rc", "deliv", "closed", "wire", "onclose"])],
        "oracles": ["c01-"],
        "rule": "case = (stream type, epoll mode, bound, calls inside the open callback, op sequence with scripted kernel answers); distinct by "
                "hash of (cell, per op: kind, error class, delivered event parts, queue length class, closed); non-trivial iff a backlog existed "
                "at some observation or a call returned an error",
        "assumptions": [_KERNEL, _ATOMIC,
                        "sendfile(2) transfers the range it reports and the source file is not truncated while queued; dup(2) succeeds",
                        "a call failing with a fatal error may have put a prefix of its own input on the wire before the connection was closed "
                        "(Sendfile reports 0 then): the closed-connection clause allows exactly that prefix"],
    },
    "C04": {
        "manifest": {
            "text": "Lean theorems on the same model: whenever the connection is open and its queue non-empty, EPOLLOUT is armed in the kernel or "
                    "the step that arms it is pending (registration, ResetPollerEvent); a delivered EPOLLOUT with kernel room strictly reduces the "
                    "backlog; flush terminates; differential correspondence incl. epoll_ctl log and injected events through the real "
                    "readWriteLoop, with quiescent-unarmed / progress / hang oracles on the implementation alone",
            "note": "liveness in safety form (armed invariant + decreasing measure) under the assumption that an armed writable fd is eventually reported",
            "technique": _TECH},
        "lean": ["NbioVerif.Properties.C04"], "drivers": ["conndrv"], "harness": ["hconn"],
        "runs": [_run(["deliv", "closed", "wl", "wadded", "reg", "ctl", "onclose"])],
        "oracles": ["c04-"],
        "rule": "same stream as C01 (writes inside the open callback before registration, from the data callback while an event is handled, "
                "and between events; EPOLLOUT-only events whose flush ends in EAGAIN); non-trivial iff a backlog existed at some observation",
        "assumptions": [_KERNEL, _ATOMIC,
                        "ResetPollerEvent reads closed/writeList without the mutex; the model treats the read and the epoll_ctl as one step",
                        "fairness: an armed, writable descriptor is eventually reported by epoll_wait"],
    },
    "C17": {
        "manifest": {
            "text": "Lean theorems on the same model: left = unsent bytes held in queued buffers, left <= MaxWriteBufferSize, a call that fits is "
                    "accepted in full, a call that does not fit fails with ErrOverflow and closes, an empty queue means left = 0; differential "
                    "correspondence on the counter and queue shape plus bound/accounting oracles on the implementation alone",
            "note": "queued file ranges (Sendfile) are not held bytes and are not counted, as in the code",
            "technique": _TECH},
        "lean": ["NbioVerif.Properties.C17"], "drivers": ["conndrv"], "harness": ["hconn"],
        "runs": [_run(["n", "err", "ow", "cb", "rc", "closed", "left", "wl"])],
        "oracles": ["c17-"],
        "rule": "same stream as C01 with bounds drawn around the running totals (left + n = bound - 1, bound, bound + 1) and fill/drain cycles; "
                "non-trivial iff a backlog existed at some observation or a call returned an error",
        "assumptions": [_KERNEL, _ATOMIC],
    },
}
