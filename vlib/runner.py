"""run_property: the per-property pipeline (DESIGN.md section 4)."""
import json
import os
import re
import time

from . import core
from .props import PROPS


def _oracle_name(report):
    m = re.search(r"oracle=(\S+)", report)
    return m.group(1) if m else "?"


def _belongs(pid, name, spec):
    return any(name.startswith(p) for p in spec.get("oracles", [pid.lower() + "-"]))


def _match_known(pid, name, report, known):
    for k in known.get("findings", []):
        if k["property"] != pid:
            continue
        if k.get("oracle") and k["oracle"] != name:
            continue
        if k.get("signature") and not re.search(k["signature"], report):
            continue
        return k
    return None


def _rerun_case(sc, runspec, case_ops):
    """Execute one case on impl and model; returns (disagrees, oracle_reports)."""
    text = "\n".join(_strip_annotations(case_ops)) + "\n"
    rc, impl_out, impl_err = core.exec_ops(sc.exe(runspec["harness"]), text, timeout=120,
                                           args=runspec.get("exec_args", ()))
    ann = [l[2:] for l in impl_out.split("\n") if l.startswith("> ")]
    impl_rest = "\n".join(l for l in impl_out.split("\n") if not l.startswith("> "))
    ann_text = "\n".join(ann) + "\n"
    mrc, model_out, _ = core.model_ops(runspec["driver"], ann_text, timeout=120)
    r = core.compare(ann_text, impl_rest, model_out, runspec.get("fields"))
    reports = [rep for o in r.oracle_failures for rep in o["reports"]]
    return bool(r.disagreements) or rc != 0, reports, r


def _strip_annotations(ops):
    # annotated ops carry environment answers appended by the executor as key=value tokens that the
    # executor itself ignores on input, so they can be fed back unchanged
    return ops


def run_property(pid, tier, seed, keep=False):
    clean = tier == "thorough" and os.environ.get("VERIF_NO_CLEAN") != "1"
    with core.RunLock(exclusive=clean):     # a clean rebuild needs the tree for itself (see core.RunLock)
        return _run_property(pid, tier, seed, keep)


def _run_property(pid, tier, seed, keep=False):
    spec = PROPS[pid]
    t0 = time.time()
    known = core.load_known()
    problems = []          # broken obligations / ties: (what, detail)
    violations = []        # (replay payload, found_input: bool)
    known_hits = {}
    cov = {"checker_cmd": "cd /verif/lean && lake build %s && lake env lean Audit/%s.lean" % (" ".join(spec["lean"]), pid),
           "trusted_base": core.TRUSTED_BASE + spec.get("trusted_extra", [])}
    results = []
    try:
        with core.Scratch(sorted(set(spec["harness"])), keep=keep) as sc:
            # --- regenerated facts
            for fct in spec.get("facts", []):
                changed, detail = fct(sc)
                if changed:
                    core.log("generated facts changed:", detail)
            # --- Lean obligations
            ok, out = core.lean_build(spec["lean"] + spec.get("drivers", []), clean=(tier == "thorough" and os.environ.get("VERIF_NO_CLEAN") != "1"))
            if not ok:
                errs = "\n".join(l for l in out.split("\n") if "error" in l)[:3000]
                problems.append(("lean-build", "lake build failed for %s:\n%s" % (spec["lean"], errs)))
            thms, wanted, aprob = ({}, [], [])
            if ok:
                thms, wanted, aprob = core.audit(pid)
                for p in aprob:
                    problems.append(("axiom-audit", p))
                for h in core.lean_grep_banned():
                    problems.append(("banned-token", h))
                if tier == "thorough":
                    with core.LeanLock():
                        p = core.run(["lake", "env", "leanchecker"] + spec["lean"], cwd=core.LEAN, timeout=3000)
                    cov["leanchecker"] = "ok" if p.returncode == 0 else "FAILED"
                    if p.returncode != 0:
                        problems.append(("leanchecker", (p.stdout + p.stderr)[-1500:]))
            cov["obligations"] = max(len(wanted), 1)
            cov["discharged"] = len([t for t in wanted if t in thms and all(a in core.ALLOWED_AXIOMS for a in thms[t])]) if ok else 0
            cov["theorems"] = wanted
            cov["axioms_seen"] = sorted({a for t in thms.values() for a in t})
            # --- critical-section predicates
            for pred in spec.get("cs", []):
                okp, detail = pred(sc)
                cov.setdefault("critical_section_predicates", []).append({"name": pred.__name__, "ok": okp})
                if not okp:
                    problems.append(("critical-section:" + pred.__name__, detail))
            # --- correspondence + direct oracles
            total_cases = total_eval = 0
            keys = {}
            stats = {}
            samples = []
            for rs in spec["runs"]:
                if not ok and rs.get("driver"):
                    # without a model binary we still run the direct oracles: use the last built driver if any
                    if not os.path.exists(os.path.join(core.LEAN, ".lake", "build", "bin", rs["driver"])):
                        problems.append(("driver-missing", rs["driver"]))
                        continue
                par = rs[tier] if tier in rs else rs["quick"]
                gen_args = ["-n", str(par["n"]), "-tier", tier] + rs.get("gen_args", [])
                corpus = core.load_corpus(rs["corpus"]) if rs.get("corpus") else None
                if rs.get("custom"):
                    r = rs["custom"](sc, rs, tier, seed)
                else:
                    r = core.diff_run(sc, rs["harness"], rs["driver"], gen_args, par["shards"], seed,
                                      fields=rs.get("fields"), exec_args=rs.get("exec_args", ()), corpus=corpus,
                                      timeout=par.get("timeout", 1500))
                results.append((rs, r))
                total_cases += r.cases
                total_eval += r.evaluations
                for k, v in r.keys.items():
                    keys[rs["harness"] + k] = keys.get(rs["harness"] + k, False) or v
                stats[rs["harness"]] = r.stats
                samples += r.samples[:2]
                for c in r.crashes:
                    problems.append(("harness-crash", json.dumps(c)[:1500]))
                # direct-oracle failures that belong to this property
                for o in r.oracle_failures:
                    mine = [rep for rep in o["reports"] if _belongs(pid, _oracle_name(rep), spec)]
                    for rep in mine:
                        name = _oracle_name(rep)
                        k = _match_known(pid, name, rep, known)
                        if k:
                            known_hits.setdefault(k["id"], [k, 0])[1] += 1
                        else:
                            violations.append(({"property": pid, "kind": "direct-oracle", "oracle": name, "report": rep,
                                                "harness": rs["harness"], "driver": rs["driver"], "ops": o["ops"], "impl": o["impl"],
                                                "seed": seed, "tier": tier}, True))
                # disagreements between model and implementation
                shrink_deadline = time.time() + 90
                for d in r.disagreements[:3]:
                    payload = {"property": pid, "kind": "correspondence", "broken": "model/impl correspondence stream '%s'" % rs["harness"],
                               "harness": rs["harness"], "driver": rs["driver"], "ops": d["ops"], "impl": d["impl"], "model": d["model"],
                               "first_diff_line": d["first_diff_line"], "note": d.get("note"), "seed": seed, "tier": tier,
                               "theorems_depending": wanted}
                    found = False
                    try:
                        if d["first_diff_line"] >= 0:
                            def still_bad(cand, rs=rs):
                                if time.time() > shrink_deadline:
                                    return False
                                bad, _, _ = _rerun_case(sc, rs, cand)
                                return bad
                            small = core.shrink_case(d["ops"], still_bad, max_iter=60)
                            bad, reports, rr = _rerun_case(sc, rs, small)
                            if bad:
                                payload["ops_shrunk"] = small
                                if rr.disagreements:
                                    payload["impl_shrunk"] = rr.disagreements[0]["impl"]
                                    payload["model_shrunk"] = rr.disagreements[0]["model"]
                            _, reports0, _ = _rerun_case(sc, rs, d["ops"])
                            mine = [rep for rep in reports + reports0 if _belongs(pid, _oracle_name(rep), spec)
                                    and not _match_known(pid, _oracle_name(rep), rep, known)]
                            if mine:
                                found = True
                                payload["oracle_reports"] = mine
                    except Exception as ex:  # shrinking is best effort
                        payload["shrink_error"] = repr(ex)
                    if not _disagreement_known(pid, payload, known, known_hits):
                        violations.append((payload, found))
                cov.setdefault("disagreements_checked", 0)
                cov["disagreements_checked"] += len(r.disagreements)
            # --- failing-input search when an obligation or the tie broke but no input was found yet
            if (problems or any(not f for _, f in violations)) and not any(f for _, f in violations):
                boosted = None
                if spec.get("search"):
                    # family-specific failing-input search (e.g. free-running races repeated under a time budget);
                    # returns a replay payload like _boosted_search's, or None
                    try:
                        boosted = spec["search"](sc, pid, spec, tier, seed, known)
                    except Exception as ex:
                        core.log("search hook failed: %r" % (ex,))
                boosted = boosted or _boosted_search(sc, pid, spec, tier, seed, known)
                if boosted:
                    violations.insert(0, (boosted, True))
            # --- known findings: replay listed witnesses
            kf_lines = _replay_known(sc, pid, spec, known, known_hits)
            cov.update({"traces_validated_against_impl": total_cases, "evaluations": total_eval,
                        "distinct_nontrivial": sum(1 for v in keys.values() if v),
                        "rule": spec.get("rule", ""), "samples": samples[:3] or [{"note": "no differential stream for this property"}],
                        "distribution": stats, "exhaustive": False,
                        "known_findings_replayed": kf_lines,
                        "direct_oracles": spec.get("oracles", [pid.lower() + "-"]),
                        "harness_build_s": round(sc.build_s, 1)})
    except core.TieBroken as tb:
        problems.append(("tie-broken", tb.what + "\n" + tb.detail))
        cov.setdefault("obligations", 1)
        cov.setdefault("discharged", 0)
        kf_lines = []
    # --- verdict
    rc = 0
    out_lines = []
    for line in kf_lines:
        out_lines.append(line)
    reported = 0
    # report at most three; violations that come with a failing input first (stable order otherwise)
    violations.sort(key=lambda v: 0 if v[1] else 1)
    for payload, found in violations[:3]:
        path = core.write_replay(pid, payload)
        out_lines.append("VIOLATION property=%s replay=%s%s" % (pid, path, "" if found else " no-failing-input-found"))
        reported += 1
        rc = 1
    if problems and not any(f for _, f in violations):
        payload = {"property": pid, "kind": "obligation", "broken": [p[0] for p in problems],
                   "detail": [p[1][:3000] for p in problems], "seed": seed, "tier": tier}
        path = core.write_replay(pid, payload)
        out_lines.append("VIOLATION property=%s replay=%s no-failing-input-found" % (pid, path))
        rc = 1
    elif problems:
        cov["obligation_problems"] = [p[0] + ": " + p[1][:300] for p in problems]
    cov["problems"] = [p[0] for p in problems]
    core.write_evidence(pid, tier, seed, cov, spec.get("assumptions", []), time.time() - t0, len(violations) + (1 if problems and not violations else 0))
    for l in out_lines:
        print(l)
    print("%s %s tier=%s seed=%d cases=%s evaluations=%s obligations=%s/%s wall=%.1fs" % (
        pid, "OK" if rc == 0 else "FAIL", tier, seed, cov.get("traces_validated_against_impl"), cov.get("evaluations"),
        cov.get("discharged"), cov.get("obligations"), time.time() - t0))
    return rc


def _disagreement_known(pid, payload, known, known_hits):
    """A model/impl disagreement is never a known finding by itself (the model reproduces known
    defects); kept as a hook for signatures that name a correspondence stream explicitly."""
    return False


def _boosted_search(sc, pid, spec, tier, seed, known):
    """Search for a concrete failing input of the property with the direct oracles: more seeds."""
    for rs in spec["runs"]:
        if rs.get("custom"):
            continue
        par = rs["quick"]
        gen_args = ["-n", str(par["n"]), "-tier", "thorough"] + rs.get("gen_args", [])
        try:
            r = core.diff_run(sc, rs["harness"], rs["driver"], gen_args, max(par["shards"], 16), seed + 7919,
                              fields=rs.get("fields"), exec_args=rs.get("exec_args", ()), timeout=900)
        except Exception:
            continue
        for o in r.oracle_failures:
            for rep in o["reports"]:
                name = _oracle_name(rep)
                if _belongs(pid, name, spec) and not _match_known(pid, name, rep, known):
                    return {"property": pid, "kind": "direct-oracle", "oracle": name, "report": rep, "found_by": "boosted search",
                            "harness": rs["harness"], "driver": rs["driver"], "ops": o["ops"], "impl": o["impl"], "seed": seed + 7919}
    return None


def _replay_known(sc, pid, spec, known, known_hits):
    lines = []
    for k in known.get("findings", []):
        if k["property"] != pid:
            continue
        reproduced = known_hits.get(k["id"], [k, 0])[1] > 0
        w = k.get("witness")
        if w and not reproduced:
            rs = next((r for r in spec["runs"] if r["harness"] == w["harness"]), None)
            if rs:
                # a witness that depends on how the kernel splits reads may need several attempts ("attempts" in the entry)
                for _ in range(int(w.get("attempts", 1))):
                    _, reports, _ = _rerun_case(sc, rs, w["ops"])
                    reproduced = any(_match_known(pid, _oracle_name(rep), rep, {"findings": [k]}) for rep in reports)
                    if reproduced:
                        break
        if reproduced:
            lines.append("KNOWN-FINDING: property=%s %s" % (pid, k["what"]))
        else:
            core.log("note: known finding %s not reproduced on this tree" % k["id"])
    return lines


def replay(pid, path, keep=False):
    with core.RunLock():
        return _replay(pid, path, keep)


def _replay(pid, path, keep=False):
    spec = PROPS[pid]
    payload = json.load(open(path))
    if payload.get("kind") not in ("direct-oracle", "correspondence"):
        print("replay file names a broken obligation, not an input:", payload.get("broken"))
        print(json.dumps(payload.get("detail"), indent=1)[:3000])
        return 1
    rs = next(r for r in spec["runs"] if r["harness"] == payload["harness"])
    ops = payload.get("ops_shrunk") or payload["ops"]
    with core.Scratch([rs["harness"]], keep=keep) as sc:
        ok, out = core.lean_build(spec.get("drivers", []))
        bad, reports, r = _rerun_case(sc, rs, ops)
        print("ops:")
        for l in ops[:60]:
            print("  " + l[:300])
        for d in r.disagreements:
            j = d["first_diff_line"]
            print("model/impl disagreement at line", j)
            if 0 <= j:
                print("  impl :", (d["impl"][j] if j < len(d["impl"]) else "<missing>")[:600])
                print("  model:", (d["model"][j] if j < len(d["model"]) else "<missing>")[:600])
        for rep in reports:
            print(rep[:1000])
        mine = [rep for rep in reports if _belongs(pid, _oracle_name(rep), spec)]
        if bad or mine:
            print("REPRODUCED property=%s" % pid)
            return 1
        print("not reproduced on the current tree")
        return 0
