"""Critical-section predicates of the read-path / lifecycle family (DESIGN 2.4c): what the Lean models
ReadPath (C02) and Life (C03) take as one atomic step, checked structurally on the scratch copy."""
from . import cs


def _custom(name, relfile, func, fn):
    def check(sc):
        fs = cs.facts(sc, relfile)
        if func not in fs:
            return False, "function %s not found in %s" % (func, relfile)
        problems = fn(fs[func])
        return (not problems), "; ".join(problems)
    check.__name__ = name
    return check


# ---- C02: the AsyncRead gate touches readEvents only through atomic operations; the poller side (closure 0) only
# loads / compare-and-swaps (no add that would have to be undone), the task decrements with one AddInt32
def _gate(fl):
    problems = []
    atom = {}
    for f in fl:
        # (the scratch copy reroutes atomic.AddInt32 to vsys.AddInt32, same operation plus the schedule hook)
        if f["kind"] == "call" and (f["expr"].startswith("atomic.") or f["expr"] == "vsys.AddInt32"):
            atom.setdefault(f["line"], []).append((f["expr"].replace("vsys.", "atomic."), f["closure"]))
    acc = [f for f in fl if f["kind"] == "access" and f["expr"] in ("recv.readEvents", "recv.hup")]
    if not acc:
        problems.append("AsyncRead: no access to recv.readEvents (predicate vacuous)")
    for f in acc:
        if f["line"] not in atom:
            problems.append("AsyncRead: %s accessed at line %d outside an atomic operation" % (f["expr"], f["line"]))
    gate_ops = sorted({e for l in atom.values() for (e, c) in l if c == 0})
    task_ops = sorted({e for l in atom.values() for (e, c) in l if c != 0})
    if "atomic.AddInt32" in gate_ops:
        problems.append("AsyncRead: the poller side adds to readEvents (add-then-undo gate)")
    if "atomic.CompareAndSwapInt32" not in gate_ops:
        problems.append("AsyncRead: no compare-and-swap on the poller side")
    if "atomic.AddInt32" not in task_ops:
        problems.append("AsyncRead: the read task does not decrement readEvents with AddInt32")
    n_exec = len([f for f in fl if f["kind"] == "call" and f["expr"] == "g.IOExecute"])
    if n_exec != 2:
        problems.append("AsyncRead: %d IOExecute calls, expected 2 (one-shot branch, gated branch)" % n_exec)
    return problems


# ---- C03: addConn = closed test and c.p = p in one c.mux region (model steps addCheck, addP), open notification (addOpen),
# fd table (addTable), epoll registration (addReg) — in this order, as separate statements
def _addconn_order(fl):
    def first(kind, expr, write=None, held=None):
        ls = [f["line"] for f in fl if f["kind"] == kind and f["expr"] == expr and (write is None or bool(f.get("write")) == write)
              and (held is None or held in f["held"])]
        return min(ls) if ls else None
    k = first("access", "c.closed", None, "c.mux")
    p = first("access", "c.p", True)
    o = first("call", "recv.g.onOpen")
    t = first("access", "recv.g.connsUnix", True)
    regs = [x for x in (first("call", "recv.addRead"), first("call", "recv.addReadWrite")) if x is not None]
    r = min(regs) if regs else None
    if None in (k, p, o, t, r):
        return ["addConn: locked closed test / c.p write / onOpen / connsUnix write / addRead not all found (%s, %s, %s, %s, %s)" % (k, p, o, t, r)]
    if not (k < p < o < t < r):
        return ["addConn: order is not closed test(%d) < c.p = p(%d) < onOpen(%d) < connsUnix[fd]=c(%d) < addRead(%d)" % (k, p, o, t, r)]
    # the closed test and c.p = p are ONE critical section (the model disables flips between addCheck and addP)
    pw = [f for f in fl if f["kind"] == "access" and f["expr"] == "c.p" and f.get("write") and f["line"] == p]
    if not pw or "c.mux" not in pw[0]["held"]:
        return ["addConn: c.p = p at line %d is not inside the c.mux region of the closed test" % p]
    if [f for f in fl if f["kind"] == "unlock" and f["expr"] == "c.mux" and k < f["line"] < p and "return" not in
            [g["kind"] for g in fl if f["line"] < g["line"] < p]]:
        return ["addConn: c.mux is released between the closed test (%d) and c.p = p (%d)" % (k, p)]
    # second critical section, after the open notification: closed test, table store and registration under c.mux
    tw = [f for f in fl if f["kind"] == "access" and f["expr"] == "recv.g.connsUnix" and f.get("write")]
    if [f["line"] for f in tw if "c.mux" not in f["held"]]:
        return ["addConn: connsUnix[fd] written without c.mux held (a conn closed by its open callback must not touch the entry)"]
    if not [f for f in fl if f["kind"] == "access" and f["expr"] == "c.closed" and "c.mux" in f["held"] and o < f["line"] < t]:
        return ["addConn: no closed test under c.mux between the open notification (%d) and the table store (%d)" % (o, t)]
    if [f for f in fl if f["kind"] in ("unlock",) and f["expr"] == "c.mux" and t <= f["line"] <= r]:
        return ["addConn: c.mux released between the table store (%d) and the registration (%d)" % (t, r)]
    bad = [f["line"] for f in fl if f["kind"] == "access" and f["expr"] == "c.closed" and "c.mux" not in f["held"]]
    if bad:
        return ["addConn: c.closed read without c.mux at line %d" % bad[0]]
    return []


# ---- C03: DialAsyncTimeout arms the dial timeout (model step armDial) in one locked region together with the test
# "not closed and the dial callback still stored", after the registration (addDialer)
def _arm_dial(fl):
    problems = []
    fl0 = [f for f in fl if f["closure"] == 0]
    arm = [f for f in fl0 if f["kind"] == "access" and f["expr"] == "c.wTimer" and f.get("write")]
    if not arm:
        return ["DialAsyncTimeout: no write of c.wTimer (predicate vacuous)"]
    reg = [f["line"] for f in fl0 if f["kind"] == "call" and f["expr"] == "recv.addDialer"]
    for f in arm:
        if "c.mux" not in f["held"]:
            problems.append("DialAsyncTimeout: c.wTimer written at line %d without c.mux held" % f["line"])
        if not reg or f["line"] < min(reg):
            problems.append("DialAsyncTimeout: c.wTimer written before addDialer")
    for fld in ("c.closed", "c.onConnected"):
        tests = [f for f in fl0 if f["kind"] == "access" and f["expr"] == fld and not f.get("write") and "c.mux" in f["held"]]
        if not tests:
            problems.append("DialAsyncTimeout: no test of %s under c.mux before the dial timeout is armed" % fld)
    if [f for f in fl0 if f["kind"] == "call" and f["expr"] == "c.setDeadline"]:
        problems.append("DialAsyncTimeout: arms the dial timeout through setDeadline (no pending test)")
    return problems


# ---- C03: the teardown (one model step) does its effects in the order the model's theorems and the oracles rely on:
# record the cause, report a pending dial, leave the fd table + notify (deleteConn), close the descriptor last (so
# that the descriptor number cannot be reused while the conn is still in the table); it does not take the mutex itself
def _teardown(fl):
    problems = []

    def lines(kind, exprs, write=None):
        return [f["line"] for f in fl if f["kind"] == kind and f["expr"] in exprs and (write is None or bool(f.get("write")) == write)]
    cause = lines("access", ("recv.closeErr",), True)
    dial = lines("call", ("onConnected",))
    dele = lines("call", ("recv.p.deleteConn",))
    clo = lines("call", ("syscall.Close", "vsys.Close", "recv.connUDP.Close"))
    if not cause:
        problems.append("closeWithErrorWithoutLock: does not record closeErr")
    if not dial:
        problems.append("closeWithErrorWithoutLock: does not invoke a pending dial callback")
    if not dele:
        problems.append("closeWithErrorWithoutLock: does not call p.deleteConn")
    if not clo:
        problems.append("closeWithErrorWithoutLock: does not close the descriptor")
    if not problems and not (max(cause) < min(dial) and max(dial) < min(dele) and max(dele) < min(clo)):
        problems.append("closeWithErrorWithoutLock: order is not closeErr(%s) < dial callback(%s) < deleteConn(%s) < close(%s)"
                        % (cause, dial, dele, clo))
    if [f for f in fl if f["kind"] == "lock" and f["expr"] == "recv.mux"]:
        problems.append("closeWithErrorWithoutLock: takes recv.mux itself")
    return problems


C02_CS = [
    _custom("asyncread_gate_atomic_cas", "conn_unix.go", "nbio.Conn.AsyncRead", _gate),
    cs.CLOSE[1],   # ReadAndGetConn: closed test and doRead under the mutex (one read = one model step)
    # ResetPollerEvent (the model's `rearm`): closed test, look at the write list and EPOLL_CTL_MOD in one locked region
    cs.pred("rearm_closed_test_and_mod_locked", "poller_epoll.go", "nbio.Conn.ResetPollerEvent", closure=0,
            guarded={"recv.mux": ["recv.closed", "recv.writeList"]}, held_calls={"recv.mux": ["p.resetRead", "p.modWrite"]}),
]

C03_CS = [
    cs.CLOSE[0],   # closeWithError: test-and-set under the mutex, teardown after the unlock
    cs.WRITE[0], cs.WRITE[1],   # Write / Writev: closed test under the mutex, teardown after the unlock
    cs.WRITE[2], cs.WRITE[3],   # flush / Sendfile: closed test and queue under the mutex
    cs.JOBQ[0],    # Execute: closed test under the mutex
    cs.pred("dialed_takes_callback_locked", "conn_unix.go", "nbio.Conn.dialed", closure=0,
            guarded={"recv.mux": ["recv.closed", "recv.onConnected"]},
            unheld_calls={"recv.mux": ["onConnected", "recv.closeWithError"]}, held_calls={"recv.mux": ["recv.resetRead"]}),
    _custom("addconn_test_p_open_table_register", "poller_epoll.go", "nbio.poller.addConn", _addconn_order),
    _custom("dial_timeout_armed_locked_while_pending", "engine_unix.go", "nbio.Engine.DialAsyncTimeout", _arm_dial),
    _custom("teardown_cause_dial_notify_close_in_order", "conn_unix.go", "nbio.Conn.closeWithErrorWithoutLock", _teardown),
]
