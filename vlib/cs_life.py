"""Critical-section predicates of the read-path / lifecycle family (DESIGN 2.4c): what the Lean models
ReadPath (C02) and Life (C03) take as one atomic step, checked structurally on the scratch copy."""
from . import cs


def _custom(name, relfile, func, fn):
    def check(sc):
        fs = cs.facts(sc, relfile)
        if func not in fs:
            return False, "function %s not found in %s" % (func, relfile)
        problems = fn(fs[func])
        return (not problems), "; ".join(problems)
    check.__name__ = name
    return check


# ---- C02: the AsyncRead gate touches readEvents only through atomic operations; the poller side (closure 0) only
# loads / compare-and-swaps (no add that would have to be undone), the task decrements with one AddInt32
def _gate(fl):
    problems = []
    atom = {}
    for f in fl:
        # (the scratch copy reroutes atomic.AddInt32 to vsys.AddInt32, same operation plus the schedule hook)
        if f["kind"] == "call" and (f["expr"].startswith("atomic.") or f["expr"] == "vsys.AddInt32"):
            atom.setdefault(f["line"], []).append((f["expr"].replace("vsys.", "atomic."), f["closure"]))
    acc = [f for f in fl if f["kind"] == "access" and f["expr"] in ("recv.readEvents", "recv.hup")]
    if not acc:
        problems.append("AsyncRead: no access to recv.readEvents (predicate vacuous)")
    for f in acc:
        if f["line"] not in atom:
            problems.append("AsyncRead: %s accessed at line %d outside an atomic operation" % (f["expr"], f["line"]))
    gate_ops = sorted({e for l in atom.values() for (e, c) in l if c == 0})
    task_ops = sorted({e for l in atom.values() for (e, c) in l if c != 0})
    if "atomic.AddInt32" in gate_ops:
        problems.append("AsyncRead: the poller side adds to readEvents (add-then-undo gate)")
    if "atomic.CompareAndSwapInt32" not in gate_ops:
        problems.append("AsyncRead: no compare-and-swap on the poller side")
    if "atomic.AddInt32" not in task_ops:
        problems.append("AsyncRead: the read task does not decrement readEvents with AddInt32")
    n_exec = len([f for f in fl if f["kind"] == "call" and f["expr"] == "g.IOExecute"])
    if n_exec != 2:
        problems.append("AsyncRead: %d IOExecute calls, expected 2 (one-shot branch, gated branch)" % n_exec)
    return problems


# ---- C03: addConn announces the conn before it publishes it: open notification, then fd table, then epoll
def _addconn_order(fl):
    def first(kind, expr, write=None):
        ls = [f["line"] for f in fl if f["kind"] == kind and f["expr"] == expr and (write is None or bool(f.get("write")) == write)]
        return min(ls) if ls else None
    o = first("call", "recv.g.onOpen")
    t = first("access", "recv.g.connsUnix", True)
    r = min([x for x in (first("call", "recv.addRead"), first("call", "recv.addReadWrite")) if x is not None] or [None]) \
        if (first("call", "recv.addRead") or first("call", "recv.addReadWrite")) else None
    if None in (o, t, r):
        return ["addConn: onOpen / connsUnix write / addRead not all found (%s, %s, %s)" % (o, t, r)]
    if not (o < t < r):
        return ["addConn: order is not onOpen(%d) < connsUnix[fd]=c(%d) < addRead(%d)" % (o, t, r)]
    return []


# ---- C03: the teardown reports a pending dial and notifies; it does not take the mutex itself
def _teardown(fl):
    problems = []
    if not [f for f in fl if f["kind"] == "call" and f["expr"] == "onConnected"]:
        problems.append("closeWithErrorWithoutLock: does not invoke a pending dial callback")
    if not [f for f in fl if f["kind"] == "call" and f["expr"] == "recv.p.deleteConn"]:
        problems.append("closeWithErrorWithoutLock: does not call p.deleteConn")
    if [f for f in fl if f["kind"] == "lock" and f["expr"] == "recv.mux"]:
        problems.append("closeWithErrorWithoutLock: takes recv.mux itself")
    return problems


C02_CS = [
    _custom("asyncread_gate_atomic_cas", "conn_unix.go", "nbio.Conn.AsyncRead", _gate),
    cs.CLOSE[1],   # ReadAndGetConn: closed test and doRead under the mutex (one read = one model step)
]

C03_CS = [
    cs.CLOSE[0],   # closeWithError: test-and-set under the mutex, teardown after the unlock
    cs.WRITE[0], cs.WRITE[1],   # Write / Writev: closed test under the mutex, teardown after the unlock
    cs.WRITE[2], cs.WRITE[3],   # flush / Sendfile: closed test and queue under the mutex
    cs.JOBQ[0],    # Execute: closed test under the mutex
    cs.pred("dialed_takes_callback_locked", "conn_unix.go", "nbio.Conn.dialed", closure=0,
            guarded={"recv.mux": ["recv.closed", "recv.onConnected"]},
            unheld_calls={"recv.mux": ["onConnected", "recv.closeWithError"]}, held_calls={"recv.mux": ["recv.resetRead"]}),
    _custom("addconn_open_table_register", "poller_epoll.go", "nbio.poller.addConn", _addconn_order),
    _custom("teardown_reports_dial_and_notifies", "conn_unix.go", "nbio.Conn.closeWithErrorWithoutLock", _teardown),
]
