"""Critical-section / statement-order predicates of the stop family (C14, C16, C18) — DESIGN 2.4c.

The Lean models Deadline, StopM, WsCb and SendQ take one mutex-protected region (or one unlocked statement) of the Go
code as one atomic step. These predicates check structurally, on the scratch copy, that the regions are what the
models say. Existing predicates of the other families are reused where the step is the same."""
import os
import re

from . import core, cs, cs_conc, cs_life


def _custom(name, relfile, func, fn):
    def check(sc):
        fs = cs.facts(sc, relfile)
        if func not in fs:
            return False, "function %s not found in %s" % (func, relfile)
        problems = fn(fs[func])
        return (not problems), "; ".join(problems)
    check.__name__ = name
    return check


def _lines(fl, kind, expr, closure=None, write=None):
    return sorted(f["line"] for f in fl if f["kind"] == kind and f["expr"] == expr
                  and (closure is None or f["closure"] == closure) and (write is None or bool(f.get("write")) == write))


def _source(sc, relfile):
    return open(os.path.join(sc.dir, "nbio", relfile), encoding="utf-8").read()


# ------------------------------------------------------------------------------------------------ C16

# the timer closures do nothing but closeWithError (model: `cb` = closeWith under the mutex)
def _timer_closure_only_closes(fl):
    problems = []
    calls = [f for f in fl if f["kind"] == "call" and f["closure"] >= 1]
    if not calls:
        problems.append("no timer closure found (predicate vacuous)")
    for f in calls:
        if f["expr"] != "recv.closeWithError":
            problems.append("timer closure calls %s at line %d" % (f["expr"], f["line"]))
        if "recv.mux" in f["held"]:
            problems.append("timer closure calls closeWithError with recv.mux held (line %d)" % f["line"])
    return problems


# setDeadline: create-or-Reset / Stop-and-drop all happen under the mutex taken at the top (deferred unlock)
def _setdeadline1(fl):
    problems = []
    for expr in ("(*timer).Reset", "(*timer).Stop", "recv.p.g.AfterFunc"):
        ls = [f for f in fl if f["kind"] == "call" and f["expr"] == expr and f["closure"] == 0]
        if not ls:
            problems.append("setDeadline: call %s not found" % expr)
        for f in ls:
            if "recv.mux" not in f["held"]:
                problems.append("setDeadline: %s at line %d without recv.mux" % (expr, f["line"]))
    return problems


C16_CS = cs.DEADLINE + [
    _custom("setdeadline1_timer_ops_locked", "conn_unix.go", "nbio.Conn.setDeadline", _setdeadline1),
    _custom("setdeadline_closures_only_close", "conn_unix.go", "nbio.Conn.SetDeadline", _timer_closure_only_closes),
    _custom("setdeadline1_closure_only_closes", "conn_unix.go", "nbio.Conn.setDeadline", _timer_closure_only_closes),
    cs.CLOSE[0],                 # closeWithError: test-and-set + both timers stopped under the mutex
    cs.WRITE[0], cs.WRITE[1],    # Write/Writev: closed, writeList and wTimer under the mutex
    cs.pred("flush_stops_wtimer_locked", "conn_unix.go", "nbio.Conn.flush", closure=0,
            guarded={"recv.mux": ["recv.closed", "recv.writeList", "recv.wTimer"]},
            held_calls={"recv.mux": ["recv.wTimer.Stop", "recv.resetRead"]}),
]


# ------------------------------------------------------------------------------------------------ C18

# Engine.Stop: the statement order the model's program counter follows
def _stop_order(fl):
    def first(kind, expr):
        ls = _lines(fl, kind, expr, closure=0)
        return ls[0] if ls else None
    seq = [("call", "l.stop"), ("lock", "recv.mux"), ("access", "recv.connsUnix"), ("unlock", "recv.mux"),
           ("call", "recv.wgConn.Done"), ("call", "recv.Async"), ("call", "recv.wgConn.Wait"), ("call", "recv.onStop"),
           ("call", "recv.pollers[i].stop"), ("call", "recv.Wait")]
    got = [(k, e, first(k, e)) for k, e in seq]
    missing = [e for _, e, l in got if l is None]
    if missing:
        return ["Engine.Stop: not found: %s" % ", ".join(missing)]
    problems = []
    for (k1, e1, l1), (k2, e2, l2) in zip(got, got[1:]):
        if not l1 < l2:
            problems.append("Engine.Stop: %s (line %d) does not precede %s (line %d)" % (e1, l1, e2, l2))
    tab = [f for f in fl if f["kind"] == "access" and f["expr"] == "recv.connsUnix" and f["closure"] == 0]
    if any("recv.mux" not in f["held"] for f in tab):
        problems.append("Engine.Stop: the table copy is taken outside recv.mux")
    cl = [f for f in fl if f["kind"] == "call" and f["expr"] == "cc.Close"]
    if not cl or any(f["closure"] == 0 for f in cl):
        problems.append("Engine.Stop: conns are not closed inside the Async closures")
    return problems


# the OnClose wrapper: Async(func() { defer wgConn.Done(); h(c, err) }) — Done runs after the handler returned
def onclose_wrapper_done_after_handler(sc):
    fs = cs.facts(sc, "engine.go")
    fl = fs.get("nbio.Engine.OnClose")
    if fl is None:
        return False, "nbio.Engine.OnClose not found"
    problems = []
    a = [f for f in fl if f["kind"] == "call" and f["expr"] == "recv.Async"]
    d = [f for f in fl if f["kind"] == "call" and f["expr"] == "recv.wgConn.Done"]
    h = [f for f in fl if f["kind"] == "call" and f["expr"] == "h"]
    if not (a and d and h):
        problems.append("OnClose wrapper: Async / wgConn.Done / h not all found")
    elif not (d[0]["closure"] == h[0]["closure"] and d[0]["closure"] > a[0]["closure"]):
        problems.append("OnClose wrapper: Done and the handler are not in the same Async closure")
    src = _source(sc, "engine.go")
    m = re.search(r"func \(g \*Engine\) OnClose\(.*?\n}\n", src, re.S)
    body = m.group(0) if m else ""
    if not re.search(r"defer\s+g\.wgConn\.Done\(\)\s*\n\s*h\(c, err\)", body):
        problems.append("OnClose wrapper: `defer g.wgConn.Done()` does not directly precede `h(c, err)` (Done must run after the handler)")
    return (not problems), "; ".join(problems)


# the OnOpen wrapper counts before it calls the handler (model: `open c` = Add(1) then handler)
def _onopen(fl):
    a = _lines(fl, "call", "recv.wgConn.Add")
    h = _lines(fl, "call", "h")
    if not a or not h:
        return ["OnOpen wrapper: wgConn.Add / h not found"]
    if not a[0] < h[0]:
        return ["OnOpen wrapper: the handler is called before wgConn.Add"]
    return []


# deleteConn: clears the slot only if it still holds this conn, then notifies (model: `teardown`)
def _deleteconn(fl):
    w = _lines(fl, "access", "recv.g.connsUnix", write=True)
    n = _lines(fl, "call", "recv.g.onClose")
    if not w or not n:
        return ["deleteConn: table write / onClose not found"]
    if not w[0] < n[0]:
        return ["deleteConn: onClose is called before the table slot is cleared"]
    return []


# DialAsyncTimeout: Add(1) before addDialer; on addDialer's failure exactly one Done, by DialAsync itself —
# addDialer's failure path detaches the conn (c.p = nil) before closeWithError so that teardown does not notify
def _dial(fl):
    a, d, r = _lines(fl, "call", "recv.wgConn.Add"), _lines(fl, "call", "recv.wgConn.Done"), _lines(fl, "call", "recv.addDialer")
    if not (a and d and r):
        return ["DialAsyncTimeout: wgConn.Add / addDialer / wgConn.Done not all found"]
    if not (a[0] < r[0] < d[0]) or len(d) != 1:
        return ["DialAsyncTimeout: expected Add < addDialer < a single Done on the failure path (Add %s, addDialer %s, Done %s)" % (a, r, d)]
    return []


def _adddialer_fail_detaches(fl):
    reg = _lines(fl, "call", "recv.addReadWrite")
    cls = _lines(fl, "call", "c.closeWithError")
    pw = _lines(fl, "access", "c.p", write=True)
    if not reg or not cls or not pw:
        return ["addDialer: addReadWrite / closeWithError / c.p write not found"]
    after = [l for l in cls if l > reg[0]]
    if not after:
        return ["addDialer: no closeWithError after addReadWrite (failure path missing)"]
    if not [l for l in pw if reg[0] < l < after[0]]:
        return ["addDialer: the failure path does not detach the conn (c.p = nil) before closeWithError: teardown would "
                "notify and DialAsync's own Done would be the second one for a single Add"]
    return []



# addConn / addDialer: the table-limit refusal (fd >= len(connsUnix) => closeWithError, return) comes before the conn
# gets its poller (c.p = p): closeWithError then does NOT reach deleteConn, which would index the table with that fd
def _limit_refusal_before_poller(fl):
    cls = _lines(fl, "call", "c.closeWithError")
    pw = _lines(fl, "access", "c.p", write=True)
    tbl = [f["line"] for f in fl if f["kind"] == "access" and f["expr"] == "recv.g.connsUnix" and f.get("write")]
    if not cls or not pw or not tbl:
        return ["table-limit refusal: closeWithError / c.p write / table store not found"]
    problems = []
    if not cls[0] < pw[0]:
        problems.append("the conn gets its poller (c.p = p, line %d) before the table-limit refusal (closeWithError, line %d): the refusal would run deleteConn with an fd outside the table" % (pw[0], cls[0]))
    if not pw[0] < min(tbl):
        problems.append("the table store precedes c.p = p")
    return problems

# ---- nbhttp engine (Model/HttpStop.lean)

# closeAllConns: the whole sweep is one critical section of engine.mux (model: `sweep` is atomic w.r.t. insert/delete)
def _closeall(fl):
    cl = [f for f in fl if f["kind"] == "call" and f["expr"] == "c.Close"]
    acc = [f for f in fl if f["kind"] == "access" and f["expr"] in ("recv.conns", "recv.dialerConns")]
    problems = []
    if not cl or not acc:
        problems.append("closeAllConns: Close calls / map accesses not found")
    for f in cl + acc:
        if "recv.mux" not in f["held"]:
            problems.append("closeAllConns: %s at line %d without engine.mux" % (f["expr"], f["line"]))
    return problems


# nbhttp Stop: shutdown flag < stopListeners < closeAllConns < core Engine.Stop (model: stopFlag, stopListeners, sweep, coreBegin)
def _http_stop_order(fl):
    w = _lines(fl, "access", "recv.shutdown", write=True)
    s, c, e = _lines(fl, "call", "recv.stopListeners"), _lines(fl, "call", "recv.closeAllConns"), _lines(fl, "call", "recv.Engine.Stop")
    if not (w and s and c and e):
        return ["nbhttp Stop: shutdown write / stopListeners / closeAllConns / Engine.Stop not all found"]
    if not (w[0] < s[0] < c[0] < e[0]):
        return ["nbhttp Stop: expected shutdown = true < stopListeners < closeAllConns < Engine.Stop, found lines %s %s %s %s" % (w, s, c, e)]
    return []


# nbhttp Shutdown: flag < stopListeners < loop{closeAllConns; test of the map} < core Engine.Shutdown, nothing under a lock
def _http_shutdown_order(fl):
    w = _lines(fl, "access", "recv.shutdown", write=True)
    s, c, e = _lines(fl, "call", "recv.stopListeners"), _lines(fl, "call", "recv.closeAllConns"), _lines(fl, "call", "recv.Engine.Shutdown")
    m = _lines(fl, "access", "recv.conns")
    if not (w and s and len(c) >= 2 and e and m):
        return ["nbhttp Shutdown: shutdown write / stopListeners / two closeAllConns (deferred + loop) / map test / Engine.Shutdown not all found"]
    if not (w[0] < s[0] < c[-1] < m[0] < e[0]):
        return ["nbhttp Shutdown: expected flag < stopListeners < closeAllConns (loop) < len(conns) test < Engine.Shutdown, found %s %s %s %s %s" % (w, s, c, m, e)]
    return []


# the add paths: insert under engine.mux < _onOpen (unlocked) < AddConn (unlocked) < delete under engine.mux on failure
def _addconn_nb(fl):
    ins = [f for f in fl if f["kind"] == "access" and f["expr"] == "recv.conns" and f.get("write")]
    dele = [f for f in fl if f["kind"] == "call" and f["expr"] == "delete"]
    op, add = _lines(fl, "call", "recv._onOpen"), _lines(fl, "call", "recv.AddConn")
    problems = []
    if not (ins and dele and op and add):
        return ["non-blocking add path: insert / _onOpen / AddConn / delete not all found"]
    for f in ins + dele:
        if "recv.mux" not in f["held"]:
            problems.append("add path: engine.conns changed at line %d without engine.mux" % f["line"])
    for f in fl:
        if f["kind"] == "call" and f["expr"] in ("recv._onOpen", "recv.AddConn") and f["held"]:
            problems.append("add path: %s called with %s held" % (f["expr"], f["held"]))
    if not (ins[0]["line"] < op[0] < add[0] < dele[0]["line"]):
        problems.append("add path: expected insert < _onOpen < AddConn < delete-on-failure")
    return problems


def _addconn_transferred(fl):
    ins = [f for f in fl if f["kind"] == "access" and f["expr"] == "recv.conns" and f.get("write")]
    dele = [f for f in fl if f["kind"] == "call" and f["expr"] == "delete"]
    op, add = _lines(fl, "call", "recv._onOpen"), _lines(fl, "call", "recv.AddConn")
    if not (ins and dele and op and add):
        return ["AddTransferredConn: insert / AddConn / delete / _onOpen not all found"]
    problems = ["AddTransferredConn: engine.conns changed at line %d without engine.mux" % f["line"] for f in ins + dele if "recv.mux" not in f["held"]]
    if not (ins[0]["line"] < add[0] < dele[0]["line"] < op[0]):
        problems.append("AddTransferredConn: expected insert < AddConn < delete-on-failure < _onOpen")
    return problems


def _addconn_blk(fl):
    ins = [f for f in fl if f["kind"] == "access" and f["expr"] == "recv.conns" and f.get("write")]
    op = _lines(fl, "call", "recv._onOpen")
    go = [f for f in fl if f["kind"] == "go"]
    if not (ins and op and len(go) == 1):
        return ["blocking add path: insert / _onOpen / exactly one go statement not found"]
    problems = ["blocking add path: engine.conns changed at line %d without engine.mux" % f["line"] for f in ins if "recv.mux" not in f["held"]]
    if not (ins[0]["line"] < op[0] < go[0]["line"]):
        problems.append("blocking add path: expected insert < _onOpen < go readConnBlocking")
    return problems


# the reader goroutine's deferred exit: delete under engine.mux, then _onClose, on every return (one deferred closure,
# no return path around it: the defer is registered before the read loop) — `transferred ⇒ deleted`
def _reader_exit(fl):
    dele = [f for f in fl if f["kind"] == "call" and f["expr"] == "delete" and f["closure"] >= 1]
    oc = [f for f in fl if f["kind"] == "call" and f["expr"] == "recv._onClose" and f["closure"] >= 1]
    rd = [f for f in fl if f["kind"] == "call" and f["expr"] in ("conn.Read", "rconn.Read") and f["closure"] == 0]
    if not (dele and oc and rd):
        return ["reader goroutine: deferred delete / _onClose or the Read call not found"]
    problems = []
    if "recv.mux" not in dele[0]["held"]:
        problems.append("reader goroutine: delete(engine.conns) without engine.mux")
    if oc[0]["held"]:
        problems.append("reader goroutine: _onClose called with %s held" % oc[0]["held"])
    if not (dele[0]["line"] < oc[0]["line"] < rd[0]["line"]):
        problems.append("reader goroutine: the deferred exit (delete < _onClose) must be registered before the read loop")
    if dele[0]["closure"] != oc[0]["closure"]:
        problems.append("reader goroutine: delete and _onClose are not in the same deferred function")
    return problems


def reader_exit_delete_unconditional(sc):
    """the delete in the deferred exit of readConnBlocking / readTLSConnBlocking is not under `if !conn.Trasfered`"""
    src = _source(sc, "nbhttp/engine.go")
    problems = []
    for fn in ("readConnBlocking", "readTLSConnBlocking"):
        m = re.search(r"func \(engine \*Engine\) %s\(.*?\n}\n" % fn, src, re.S)
        body = m.group(0) if m else ""
        d = re.search(r"defer func\(\) \{(.*?)\n\t\}\(\)", body, re.S)
        if not d:
            problems.append("%s: deferred exit not found" % fn)
            continue
        blk = d.group(1)
        guard = re.search(r"if !conn\.Trasfered \{(.*?)\n\t\t\}", blk, re.S)
        if guard and "delete(engine.conns" in guard.group(1):
            problems.append("%s: delete(engine.conns, key) is inside `if !conn.Trasfered`" % fn)
        if "delete(engine.conns" not in blk:
            problems.append("%s: the deferred exit does not delete the key" % fn)
    return (not problems), "; ".join(problems)


# the close job of a non-blocking conn: submitted through the conn's executor; _onClose and the delete inside the job
def _close_job(fl):
    me = [f for f in fl if f["kind"] == "call" and f["expr"] == "c.MustExecute"]
    dele = [f for f in fl if f["kind"] == "call" and f["expr"] == "delete" and "engine.mux" in " ".join(f["held"])]
    oc = [f for f in fl if f["kind"] == "call" and f["expr"] == "engine._onClose"]
    if not (me and dele and oc):
        return ["NewEngine: close job (MustExecute / _onClose / delete under engine.mux) not found"]
    if not (dele[0]["closure"] > me[0]["closure"] and oc[0]["closure"] == dele[0]["closure"]):
        return ["NewEngine: _onClose and the delete are not inside the job given to MustExecute"]
    return []


# the listen loop: a conn accepted while shutting down is closed (model: `accept` with `closeLate`)
def listen_closes_late_conn(sc):
    src = _source(sc, "nbhttp/engine.go")
    m = re.search(r"func \(e \*Engine\) listen\(.*?\n}\n", src, re.S)
    body = m.group(0) if m else ""
    ok = re.search(r"if err == nil && !e\.shutdown \{\s*addConn\(.*?\)\s*\} else if err == nil \{[^}]*conn\.Close\(\)", body, re.S)
    return bool(ok), "" if ok else "listen: a conn returned by Accept with e.shutdown set is not closed"


# poller.addConn: the closed test and `c.p = p` are one critical section of the conn's mutex, before the open callback
def _addconn_closed_test(fl):
    t = [f for f in fl if f["kind"] == "access" and f["expr"] == "c.closed"]
    pw = [f for f in fl if f["kind"] == "access" and f["expr"] == "c.p" and f.get("write")]
    op = _lines(fl, "call", "recv.g.onOpen")
    if not (t and pw and op):
        return ["poller.addConn: c.closed test / c.p write / onOpen not all found"]
    problems = []
    if "c.mux" not in t[0]["held"] or "c.mux" not in pw[0]["held"]:
        problems.append("poller.addConn: the closed test and c.p = p are not both under c.mux")
    if not (t[0]["line"] < pw[0]["line"] < op[0]):
        problems.append("poller.addConn: expected closed test < c.p = p < onOpen")
    for f in fl:
        if f["kind"] == "call" and f["expr"] == "recv.g.onOpen" and "c.mux" in f["held"]:
            problems.append("poller.addConn: onOpen called with c.mux held")
    return problems


# ---- lmux (Model/Lmux.lean)

# Stop: close the listeners < wg.Wait < close(chClose) < closeQueued (model: `stop`, then `stopFinish` once muxAlive = false)
def lmux_stop_order(sc):
    src = _source(sc, "lmux/lmux.go")
    m = re.search(r"func \(lm \*ListenerMux\) Stop\(\) \{.*?\n}\n", src, re.S)
    body = m.group(0) if m else ""
    idx = [body.find(x) for x in ("lm.shutdown = true", "l.Close()", "lm.wg.Wait()", "close(lm.chClose)", "closeQueued()")]
    if min(idx) < 0:
        return False, "lmux Stop: shutdown flag / listener Close / wg.Wait / close(chClose) / closeQueued not all found"
    if idx != sorted(idx):
        return False, "lmux Stop: expected shutdown = true < l.Close < wg.Wait < close(chClose) < closeQueued"
    return True, ""


# the accept goroutine: wg.Add before `go`, deferred Done inside; one channel send per accepted conn (A or B), the
# error event to both; the counter test and the sends are not under any lock (model: `route` = add-test-send)
def _lmux_start(fl):
    add = [f for f in fl if f["kind"] == "call" and f["expr"] == "recv.wg.Add"]
    done = [f for f in fl if f["kind"] == "call" and f["expr"] == "recv.wg.Done"]
    go = [f for f in fl if f["kind"] == "go"]
    if not (add and done and len(go) == 1):
        return ["lmux Start: wg.Add / wg.Done / exactly one go statement not found"]
    problems = []
    if not add[0]["line"] < go[0]["line"]:
        problems.append("lmux Start: wg.Add is not before the go statement")
    if done[0]["closure"] <= add[0]["closure"]:
        problems.append("lmux Start: wg.Done is not inside the goroutine")
    return problems


def lmux_closequeued_closes_and_decreases(sc):
    src = _source(sc, "lmux/lmux.go")
    m = re.search(r"func \(l \*ChanListener\) closeQueued\(\) \{.*?\n}\n", src, re.S)
    body = m.group(0) if m else ""
    ok = "<-l.chEvent" in body and "e.conn.Close()" in body and "l.Decrease()" in body and "default:" in body
    return ok, "" if ok else "lmux closeQueued: does not drain chEvent non-blockingly closing each conn and giving back its online count"


C18_HTTP_CS = [
    _custom("http_closeallconns_one_section", "nbhttp/engine.go", "nbhttp.Engine.closeAllConns", _closeall),
    _custom("http_stop_statement_order", "nbhttp/engine.go", "nbhttp.Engine.Stop", _http_stop_order),
    _custom("http_shutdown_statement_order", "nbhttp/engine.go", "nbhttp.Engine.Shutdown", _http_shutdown_order),
    _custom("http_add_nonblocking_order", "nbhttp/engine.go", "nbhttp.Engine.AddConnNonTLSNonBlocking", _addconn_nb),
    _custom("http_add_tls_nonblocking_order", "nbhttp/engine.go", "nbhttp.Engine.AddConnTLSNonBlocking", _addconn_nb),
    _custom("http_add_transferred_order", "nbhttp/engine.go", "nbhttp.Engine.AddTransferredConn", _addconn_transferred),
    _custom("http_add_blocking_order", "nbhttp/engine.go", "nbhttp.Engine.AddConnNonTLSBlocking", _addconn_blk),
    _custom("http_add_tls_blocking_order", "nbhttp/engine.go", "nbhttp.Engine.AddConnTLSBlocking", _addconn_blk),
    _custom("http_reader_exit_deletes_then_notifies", "nbhttp/engine.go", "nbhttp.Engine.readConnBlocking", _reader_exit),
    _custom("http_tls_reader_exit_deletes_then_notifies", "nbhttp/engine.go", "nbhttp.Engine.readTLSConnBlocking", _reader_exit),
    reader_exit_delete_unconditional,
    _custom("http_close_job_inside_mustexecute", "nbhttp/engine.go", "nbhttp.NewEngine", _close_job),
    listen_closes_late_conn,
    _custom("addconn_closed_test_with_poller_assignment", "poller_epoll.go", "nbio.poller.addConn", _addconn_closed_test),
    lmux_stop_order,
    _custom("lmux_start_counts_accept_goroutines", "lmux/lmux.go", "lmux.ListenerMux.Start", _lmux_start),
    lmux_closequeued_closes_and_decreases,
]


C18_CS = [
    _custom("stop_statement_order", "engine.go", "nbio.Engine.Stop", _stop_order),
    onclose_wrapper_done_after_handler,
    _custom("onopen_wrapper_add_before_handler", "engine.go", "nbio.Engine.OnOpen", _onopen),
    cs_life.C03_CS[7],            # addConn: onOpen < table store < addRead (the model's open / store / register)
    _custom("deleteconn_clears_slot_then_notifies", "poller_epoll.go", "nbio.poller.deleteConn", _deleteconn),
    _custom("dial_add_before_register_single_done", "engine_unix.go", "nbio.Engine.DialAsyncTimeout", _dial),
    _custom("adddialer_failure_detaches_conn", "poller_epoll.go", "nbio.poller.addDialer", _adddialer_fail_detaches),
    cs.CLOSE[0],                  # closeWithError: test-and-set (model: `flip`), teardown after the unlock
    cs_conc.cs_conn_close_flip,
    cs_conc.cs_timer_async,       # the Async queue is ExecQ's async instance
    _custom("adddialer_limit_refusal_before_poller", "poller_epoll.go", "nbio.poller.addDialer", _limit_refusal_before_poller),
    _custom("addconn_limit_refusal_before_poller", "poller_epoll.go", "nbio.poller.addConn", _limit_refusal_before_poller),
] + C18_HTTP_CS


# ------------------------------------------------------------------------------------------------ C14

# Upgrade: the 101 response is written before the open handler is called; both inside Upgrade (the request's job)
def _upgrade_order(fl):
    r = _lines(fl, "call", "recv.commResponse")
    o = _lines(fl, "call", "wsc.openHandler")
    if not r or not o:
        return ["Upgrade: commResponse / openHandler call not found"]
    if not r[0] < o[0]:
        return ["Upgrade: the open handler is called before the response is written"]
    return []


# handleMessage / handleDataFrame dispatch through the conn's executor (model: `recv` = Execute(job))
def _dispatch(fl):
    if not [f for f in fl if f["kind"] == "call" and f["expr"] == "recv.Execute"]:
        return ["handleMessage: does not dispatch through recv.Execute"]
    if [f for f in fl if f["kind"] == "go"]:
        return ["handleMessage: starts a goroutine of its own"]
    return []


# Upgrade's decision table (WsCb.execOf): `wsc.Execute = nbhttp.SyncExecutor` appears only inside the two
# transferred-to-poller branches (`if transferConn {`), each time under the ET+ONESHOT test and right after
# `wsc.Execute = nbc.Execute`; the poller-driven branches assign `parser.Execute` and nothing behind the switch
# reassigns the executor
def upgrade_sync_executor_only_in_transfer_branches(sc):
    src = _source(sc, "nbhttp/websocket/upgrader.go")
    m = re.search(r"func \(u \*Upgrader\) Upgrade\(.*?\n}\n", src, re.S)
    if not m:
        return False, "Upgrader.Upgrade not found"
    lines = m.group(0).split("\n")
    indent = lambda l: len(l) - len(l.lstrip("\t"))
    problems, found = [], 0
    for i, l in enumerate(lines):
        if "wsc.Execute = nbhttp.SyncExecutor" not in l:
            continue
        found += 1
        k, chain = indent(l), []
        for j in range(i - 1, -1, -1):
            if lines[j].strip() and indent(lines[j]) < k:
                k = indent(lines[j])
                chain.append(lines[j].strip())
        if "if transferConn {" not in chain:
            problems.append("Upgrade: SyncExecutor installed outside a transferred-to-poller branch (line %d of the function; enclosing: %s)" % (i + 1, chain[:3]))
        if not any("EPOLLONESHOT" in c for c in chain[:1]):
            problems.append("Upgrade: SyncExecutor installed without the ET+ONESHOT test (line %d of the function)" % (i + 1))
    if found != 2:
        problems.append("Upgrade: expected the SyncExecutor rule in exactly the two transferred branches, found %d" % found)
    body = m.group(0)
    tail = body[body.find("// Scenario 4"):]
    tail = tail[tail.find("\n\t}\n"):] if "\n\t}\n" in tail else tail
    if re.search(r"wsc\.Execute\s*=", tail.split("commResponse")[0]):
        problems.append("Upgrade: the executor is reassigned behind the scenario switch")
    if body.count("wsc.Execute = parser.Execute") < 2:
        problems.append("Upgrade: the poller-driven branches do not install parser.Execute")
    return (not problems), "; ".join(problems)


# "one hold across all fragments" (AUDIT C14/2): the lock-set predicates say every writeFrame call happens with the ws
# mutex held; they would still pass with `Unlock(); Lock()` between two fragments. This one excludes it: in the body of
# WriteMessage (closure 0) the mutex is locked once, before the first writeFrame call, released only by the deferred
# unlock, and no Unlock / second Lock of it lies between the first and the last writeFrame call (nor anywhere else in
# the body); writeFrame's own body (closure 0, the direct-mode write) never touches the mutex.
def no_unlock_between(name, relfile, func, mutex, call):
    def check(sc):
        fs = cs.facts(sc, relfile)
        if func not in fs:
            return False, "function %s not found in %s" % (func, relfile)
        fl = [f for f in fs[func] if f["closure"] == 0]
        calls = sorted(f["line"] for f in fl if f["kind"] == "call" and f["expr"] == call)
        locks = sorted(f["line"] for f in fl if f["kind"] == "lock" and f["expr"] == mutex)
        unlocks = sorted(f["line"] for f in fl if f["kind"] == "unlock" and f["expr"] == mutex)
        dunlocks = [f for f in fl if f["kind"] == "defer-unlock" and f["expr"] == mutex]
        problems = []
        if len(calls) < 2:
            problems.append("%s: fewer than two %s calls found (predicate vacuous)" % (func, call))
        if len(locks) != 1 or len(dunlocks) != 1:
            problems.append("%s: expected one Lock and one deferred Unlock of %s, found %d / %d" % (func, mutex, len(locks), len(dunlocks)))
        elif calls and not locks[0] < calls[0]:
            problems.append("%s: %s is locked after the first %s call" % (func, mutex, call))
        if calls:
            between = [l for l in unlocks + locks[1:] if calls[0] <= l <= calls[-1]]
            if between:
                problems.append("%s: %s is unlocked / relocked at line(s) %s between the first and the last %s call" % (func, mutex, between, call))
        if unlocks:
            problems.append("%s: explicit Unlock of %s at line(s) %s (only the deferred one is expected)" % (func, mutex, unlocks))
        return (not problems), "; ".join(problems)
    check.__name__ = name
    return check


def _writeframe_body_keeps_lock(fl):
    bad = [f for f in fl if f["closure"] == 0 and f["kind"] in ("lock", "unlock", "defer-unlock") and f["expr"] == "recv.mux"]
    if bad:
        return ["writeFrame: its own body locks/unlocks the ws mutex at line(s) %s (the caller's hold would be interrupted)" % [f["line"] for f in bad]]
    if not [f for f in fl if f["closure"] == 0 and f["kind"] == "call" and f["expr"] == "recv.Conn.Write"]:
        return ["writeFrame: direct conn write not found (predicate vacuous)"]
    return []


# handleProtocolMessage (ping / pong / close frames) dispatches like a data message: through handleMessage (hence
# recv.Execute, the conn's job queue) and in no other way (model: a control frame is a `recv` step like any other)
def _protocol_dispatch(fl):
    calls = [f["expr"] for f in fl if f["kind"] == "call"]
    if "recv.handleMessage" not in calls:
        return ["handleProtocolMessage: does not go through handleMessage"]
    other = [c for c in calls if c != "recv.handleMessage"]
    if other:
        return ["handleProtocolMessage: handles control frames on a path of its own (%s) instead of the job queue" % ", ".join(sorted(set(other)))]
    return []


C14_CS = cs.WSWRITE + cs.WSCLOSE + [
    cs_conc.cs_conn_submit, cs_conc.cs_conn_drainer, cs_conc.cs_conn_close_flip, cs_conc.cs_nbhttp_close_routed,
    _custom("upgrade_response_before_open", "nbhttp/websocket/upgrader.go", "websocket.Upgrader.Upgrade", _upgrade_order),
    _custom("ws_message_dispatched_through_execute", "nbhttp/websocket/conn.go", "websocket.Conn.handleMessage", _dispatch),
    upgrade_sync_executor_only_in_transfer_branches,
    _custom("ws_control_frames_dispatched_like_messages", "nbhttp/websocket/conn.go", "websocket.Conn.handleProtocolMessage", _protocol_dispatch),
    no_unlock_between("ws_writemessage_single_hold_across_fragments", "nbhttp/websocket/conn.go", "websocket.Conn.WriteMessage", "recv.mux", "recv.writeFrame"),
    _custom("ws_writeframe_body_keeps_callers_lock", "nbhttp/websocket/conn.go", "websocket.Conn.writeFrame", _writeframe_body_keeps_lock),
]
