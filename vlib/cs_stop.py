"""Critical-section / statement-order predicates of the stop family (C14, C16, C18) — DESIGN 2.4c.

The Lean models Deadline, StopM, WsCb and SendQ take one mutex-protected region (or one unlocked statement) of the Go
code as one atomic step. These predicates check structurally, on the scratch copy, that the regions are what the
models say. Existing predicates of the other families are reused where the step is the same."""
import os
import re

from . import core, cs, cs_conc, cs_life


def _custom(name, relfile, func, fn):
    def check(sc):
        fs = cs.facts(sc, relfile)
        if func not in fs:
            return False, "function %s not found in %s" % (func, relfile)
        problems = fn(fs[func])
        return (not problems), "; ".join(problems)
    check.__name__ = name
    return check


def _lines(fl, kind, expr, closure=None, write=None):
    return sorted(f["line"] for f in fl if f["kind"] == kind and f["expr"] == expr
                  and (closure is None or f["closure"] == closure) and (write is None or bool(f.get("write")) == write))


def _source(sc, relfile):
    return open(os.path.join(sc.dir, "nbio", relfile), encoding="utf-8").read()


# ------------------------------------------------------------------------------------------------ C16

# the timer closures do nothing but closeWithError (model: `cb` = closeWith under the mutex)
def _timer_closure_only_closes(fl):
    problems = []
    calls = [f for f in fl if f["kind"] == "call" and f["closure"] >= 1]
    if not calls:
        problems.append("no timer closure found (predicate vacuous)")
    for f in calls:
        if f["expr"] != "recv.closeWithError":
            problems.append("timer closure calls %s at line %d" % (f["expr"], f["line"]))
        if "recv.mux" in f["held"]:
            problems.append("timer closure calls closeWithError with recv.mux held (line %d)" % f["line"])
    return problems


# setDeadline: create-or-Reset / Stop-and-drop all happen under the mutex taken at the top (deferred unlock)
def _setdeadline1(fl):
    problems = []
    for expr in ("(*timer).Reset", "(*timer).Stop", "recv.p.g.AfterFunc"):
        ls = [f for f in fl if f["kind"] == "call" and f["expr"] == expr and f["closure"] == 0]
        if not ls:
            problems.append("setDeadline: call %s not found" % expr)
        for f in ls:
            if "recv.mux" not in f["held"]:
                problems.append("setDeadline: %s at line %d without recv.mux" % (expr, f["line"]))
    return problems


C16_CS = cs.DEADLINE + [
    _custom("setdeadline1_timer_ops_locked", "conn_unix.go", "nbio.Conn.setDeadline", _setdeadline1),
    _custom("setdeadline_closures_only_close", "conn_unix.go", "nbio.Conn.SetDeadline", _timer_closure_only_closes),
    _custom("setdeadline1_closure_only_closes", "conn_unix.go", "nbio.Conn.setDeadline", _timer_closure_only_closes),
    cs.CLOSE[0],                 # closeWithError: test-and-set + both timers stopped under the mutex
    cs.WRITE[0], cs.WRITE[1],    # Write/Writev: closed, writeList and wTimer under the mutex
    cs.pred("flush_stops_wtimer_locked", "conn_unix.go", "nbio.Conn.flush", closure=0,
            guarded={"recv.mux": ["recv.closed", "recv.writeList", "recv.wTimer"]},
            held_calls={"recv.mux": ["recv.wTimer.Stop", "recv.resetRead"]}),
]


# ------------------------------------------------------------------------------------------------ C18

# Engine.Stop: the statement order the model's program counter follows
def _stop_order(fl):
    def first(kind, expr):
        ls = _lines(fl, kind, expr, closure=0)
        return ls[0] if ls else None
    seq = [("call", "l.stop"), ("lock", "recv.mux"), ("access", "recv.connsUnix"), ("unlock", "recv.mux"),
           ("call", "recv.wgConn.Done"), ("call", "recv.Async"), ("call", "recv.wgConn.Wait"), ("call", "recv.onStop"),
           ("call", "recv.pollers[i].stop"), ("call", "recv.Wait")]
    got = [(k, e, first(k, e)) for k, e in seq]
    missing = [e for _, e, l in got if l is None]
    if missing:
        return ["Engine.Stop: not found: %s" % ", ".join(missing)]
    problems = []
    for (k1, e1, l1), (k2, e2, l2) in zip(got, got[1:]):
        if not l1 < l2:
            problems.append("Engine.Stop: %s (line %d) does not precede %s (line %d)" % (e1, l1, e2, l2))
    tab = [f for f in fl if f["kind"] == "access" and f["expr"] == "recv.connsUnix" and f["closure"] == 0]
    if any("recv.mux" not in f["held"] for f in tab):
        problems.append("Engine.Stop: the table copy is taken outside recv.mux")
    cl = [f for f in fl if f["kind"] == "call" and f["expr"] == "cc.Close"]
    if not cl or any(f["closure"] == 0 for f in cl):
        problems.append("Engine.Stop: conns are not closed inside the Async closures")
    return problems


# the OnClose wrapper: Async(func() { defer wgConn.Done(); h(c, err) }) — Done runs after the handler returned
def onclose_wrapper_done_after_handler(sc):
    fs = cs.facts(sc, "engine.go")
    fl = fs.get("nbio.Engine.OnClose")
    if fl is None:
        return False, "nbio.Engine.OnClose not found"
    problems = []
    a = [f for f in fl if f["kind"] == "call" and f["expr"] == "recv.Async"]
    d = [f for f in fl if f["kind"] == "call" and f["expr"] == "recv.wgConn.Done"]
    h = [f for f in fl if f["kind"] == "call" and f["expr"] == "h"]
    if not (a and d and h):
        problems.append("OnClose wrapper: Async / wgConn.Done / h not all found")
    elif not (d[0]["closure"] == h[0]["closure"] and d[0]["closure"] > a[0]["closure"]):
        problems.append("OnClose wrapper: Done and the handler are not in the same Async closure")
    src = _source(sc, "engine.go")
    m = re.search(r"func \(g \*Engine\) OnClose\(.*?\n}\n", src, re.S)
    body = m.group(0) if m else ""
    if not re.search(r"defer\s+g\.wgConn\.Done\(\)\s*\n\s*h\(c, err\)", body):
        problems.append("OnClose wrapper: `defer g.wgConn.Done()` does not directly precede `h(c, err)` (Done must run after the handler)")
    return (not problems), "; ".join(problems)


# the OnOpen wrapper counts before it calls the handler (model: `open c` = Add(1) then handler)
def _onopen(fl):
    a = _lines(fl, "call", "recv.wgConn.Add")
    h = _lines(fl, "call", "h")
    if not a or not h:
        return ["OnOpen wrapper: wgConn.Add / h not found"]
    if not a[0] < h[0]:
        return ["OnOpen wrapper: the handler is called before wgConn.Add"]
    return []


# deleteConn: clears the slot only if it still holds this conn, then notifies (model: `teardown`)
def _deleteconn(fl):
    w = _lines(fl, "access", "recv.g.connsUnix", write=True)
    n = _lines(fl, "call", "recv.g.onClose")
    if not w or not n:
        return ["deleteConn: table write / onClose not found"]
    if not w[0] < n[0]:
        return ["deleteConn: onClose is called before the table slot is cleared"]
    return []


# DialAsyncTimeout: Add(1) before addDialer; on addDialer's failure exactly one Done, by DialAsync itself —
# addDialer's failure path detaches the conn (c.p = nil) before closeWithError so that teardown does not notify
def _dial(fl):
    a, d, r = _lines(fl, "call", "recv.wgConn.Add"), _lines(fl, "call", "recv.wgConn.Done"), _lines(fl, "call", "recv.addDialer")
    if not (a and d and r):
        return ["DialAsyncTimeout: wgConn.Add / addDialer / wgConn.Done not all found"]
    if not (a[0] < r[0] < d[0]) or len(d) != 1:
        return ["DialAsyncTimeout: expected Add < addDialer < a single Done on the failure path (Add %s, addDialer %s, Done %s)" % (a, r, d)]
    return []


def _adddialer_fail_detaches(fl):
    reg = _lines(fl, "call", "recv.addReadWrite")
    cls = _lines(fl, "call", "c.closeWithError")
    pw = _lines(fl, "access", "c.p", write=True)
    if not reg or not cls or not pw:
        return ["addDialer: addReadWrite / closeWithError / c.p write not found"]
    after = [l for l in cls if l > reg[0]]
    if not after:
        return ["addDialer: no closeWithError after addReadWrite (failure path missing)"]
    if not [l for l in pw if reg[0] < l < after[0]]:
        return ["addDialer: the failure path does not detach the conn (c.p = nil) before closeWithError: teardown would "
                "notify and DialAsync's own Done would be the second one for a single Add"]
    return []


C18_CS = [
    _custom("stop_statement_order", "engine.go", "nbio.Engine.Stop", _stop_order),
    onclose_wrapper_done_after_handler,
    _custom("onopen_wrapper_add_before_handler", "engine.go", "nbio.Engine.OnOpen", _onopen),
    cs_life.C03_CS[7],            # addConn: onOpen < table store < addRead (the model's open / store / register)
    _custom("deleteconn_clears_slot_then_notifies", "poller_epoll.go", "nbio.poller.deleteConn", _deleteconn),
    _custom("dial_add_before_register_single_done", "engine_unix.go", "nbio.Engine.DialAsyncTimeout", _dial),
    _custom("adddialer_failure_detaches_conn", "poller_epoll.go", "nbio.poller.addDialer", _adddialer_fail_detaches),
    cs.CLOSE[0],                  # closeWithError: test-and-set (model: `flip`), teardown after the unlock
    cs_conc.cs_conn_close_flip,
    cs_conc.cs_timer_async,       # the Async queue is ExecQ's async instance
]


# ------------------------------------------------------------------------------------------------ C14

# Upgrade: the 101 response is written before the open handler is called; both inside Upgrade (the request's job)
def _upgrade_order(fl):
    r = _lines(fl, "call", "recv.commResponse")
    o = _lines(fl, "call", "wsc.openHandler")
    if not r or not o:
        return ["Upgrade: commResponse / openHandler call not found"]
    if not r[0] < o[0]:
        return ["Upgrade: the open handler is called before the response is written"]
    return []


# handleMessage / handleDataFrame dispatch through the conn's executor (model: `recv` = Execute(job))
def _dispatch(fl):
    if not [f for f in fl if f["kind"] == "call" and f["expr"] == "recv.Execute"]:
        return ["handleMessage: does not dispatch through recv.Execute"]
    if [f for f in fl if f["kind"] == "go"]:
        return ["handleMessage: starts a goroutine of its own"]
    return []


C14_CS = cs.WSWRITE + cs.WSCLOSE + [
    cs_conc.cs_conn_submit, cs_conc.cs_conn_drainer, cs_conc.cs_conn_close_flip, cs_conc.cs_nbhttp_close_routed,
    _custom("upgrade_response_before_open", "nbhttp/websocket/upgrader.go", "websocket.Upgrader.Upgrade", _upgrade_order),
    _custom("ws_message_dispatched_through_execute", "nbhttp/websocket/conn.go", "websocket.Conn.handleMessage", _dispatch),
]
