"""End-to-end HTTP family: C10 (real nbhttp engines over loopback + whole-message composition model)."""

E2E_RUN = {"harness": "he2e", "driver": "pipedrv", "fields": None, "corpus": "e2e",
           # quick: 3 matrix cells (every I/O mode, plain and TLS, every epoll mode; Latin selection by seed),
           #        4 shards x 9 cases x ~6 concurrent histories ~ 200 connection histories
           "quick": {"n": 9, "shards": 4, "timeout": 600},
           # thorough: full matrix 3 x 2 x 3 (+ AsyncReadInPoller variants), 1..64 concurrent connections per case,
           #        18 shards x 12 cases x ~25 histories x ~4.5 requests ~ 20 000 requests
           "thorough": {"n": 12, "shards": 18, "timeout": 2400}}

from . import cs

# Critical-section predicates (DESIGN 2.4c): one ClientFifo model step = one critical section of ClientConn.mux.
_F = "nbhttp/client_conn.go"
_CS = [
    cs.pred("cs_client_do", _F, "nbhttp.ClientConn.Do", closure=0, no_go=True,
            guarded={"recv.mux": ["recv.handlers", "recv.closed", "recv.conn"]},
            held_calls={"recv.mux": ["recv.closeWithErrorWithoutLock", "handler"]}),
    cs.pred("cs_client_onResponse", _F, "nbhttp.ClientConn.onResponse", no_go=True,
            guarded={"recv.mux": ["recv.handlers", "recv.closed", "recv.conn"]},
            held_calls={"recv.mux": ["head.h", "recv.closeWithErrorWithoutLock"]}),
    cs.pred("cs_client_closeByConn", _F, "nbhttp.ClientConn.closeByConn", no_go=True,
            guarded={"recv.mux": ["recv.closed", "recv.conn"]},
            held_calls={"recv.mux": ["recv.closeWithErrorWithoutLock"]}),
    cs.pred("cs_client_CloseWithError", _F, "nbhttp.ClientConn.CloseWithError", no_go=True,
            guarded={"recv.mux": ["recv.closed"]},
            held_calls={"recv.mux": ["recv.closeWithErrorWithoutLock"]}),
    cs.pred("cs_client_Reset", _F, "nbhttp.ClientConn.Reset", no_go=True,
            guarded={"recv.mux": ["recv.handlers", "recv.closed", "recv.conn"]}),
]

PROPS = {
    "C10": {
        "manifest": {
            "text": "Lean theorems on a whole-message composition model: (a) per-connection pipeline (parser -> per-conn job queue -> "
                    "response writer, each represented by the conclusion of its own property) under every interleaving of parsing, job "
                    "execution and closes: wire is always a prefix of resp_1..resp_m, equals it at quiescence, closed iff a closing request "
                    "exists, nothing after the close; closeDecision = RFC 7230 6.3 on single-option Connection values; (b) non-interference "
                    "of N connections on a shared buffer heap under C11/C20's conclusions; (c) client callback FIFO: exactly once, k-th "
                    "callback gets the k-th response or an error.  Tied to the code by real nbhttp engines over loopback: the per-connection "
                    "response sequence observed by a raw pipelining client, net/http and the nbhttp client is compared with the model's "
                    "prediction over the matrix IOMod x {plain, TLS} x epoll mode, plus direct oracles for order, close, foreign bytes, callbacks",
            "note": "proof on model, partial: TLS record layer, real scheduling and I/O-mode dispatch are exercised, not modelled; "
                    "the model is above C05/C06/C07/C09/C11/C20 (their conclusions are hypotheses of the composition)",
            "technique": "Lean 4 proof (invariants over all interleavings, simulation for non-interference) + differential correspondence on real sockets"},
        "lean": ["NbioVerif.Properties.C10"], "drivers": ["pipedrv"], "harness": ["he2e"],
        "runs": [E2E_RUN],
        "oracles": ["c10-"], "cs": _CS,
        "rule": "case = one matrix cell + 1..64 concurrent connection histories (raw pipelining client, net/http, nbhttp ClientConn pipelined, "
                "nbhttp Client pool); distinct by hash of (cell, client kinds, per request: version, Connection values, framing, size class, "
                "writes, sync); non-trivial iff a history has >= 3 requests, a response >= 60 KB or a possibly closing request",
        "assumptions": ["TLS record layer (llib), goroutine scheduling, poller dispatch and the kernel are exercised, not modelled",
                        "conclusions of C05 (FIFO exactly-once job queue), C06/C07 (parser delivers the requests in order), C09 (response "
                        "bytes of one handler are contiguous) and C11/C20 (ownership well-formed traces, allocator frame property) enter the "
                        "composition theorems as hypotheses",
                        "agreed domain of the close rule: each Connection header line carries one option (no comma / tab); "
                        "a client does not pipeline behind a closing request whose response exceeds 32 KB (RFC 7230 6.6 reset hazard)",
                        "the nbhttp client is exercised over TLS 1.2 (llib v1.2.4's TLS 1.3 client handshake fails on this toolchain, outside nbio) "
                        "and without HEAD (its response parser does not know the request method)",
                        "timing: a stalled case is re-run twice before it is reported; content failures are reported at once"],
    },
}
