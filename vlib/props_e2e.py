"""End-to-end HTTP family: C10 (real nbhttp engines over loopback + whole-message composition model)."""

E2E_RUN = {"harness": "he2e", "driver": "pipedrv", "fields": None, "corpus": "e2e",
           # quick: 3 matrix cells (every I/O mode, plain and TLS, every epoll mode; Latin selection by seed),
           #        4 shards x 9 cases x ~6 concurrent histories ~ 200 connection histories
           "quick": {"n": 9, "shards": 4, "timeout": 600},
           # thorough: full matrix 3 x 2 x 3 (+ AsyncReadInPoller variants), 1..64 concurrent connections per case,
           #        18 shards x 12 cases x ~25 histories x ~4.5 requests ~ 20 000 requests
           "thorough": {"n": 12, "shards": 18, "timeout": 2400}}

from . import cs

# Critical-section predicates (DESIGN 2.4c): one ClientFifo model step = one critical section of ClientConn.mux.
_F = "nbhttp/client_conn.go"
_CS = [
    cs.pred("cs_client_do", _F, "nbhttp.ClientConn.Do", closure=0, no_go=True,
            guarded={"recv.mux": ["recv.handlers", "recv.closed", "recv.conn"]},
            held_calls={"recv.mux": ["recv.closeWithErrorWithoutLock", "handler"]}),
    cs.pred("cs_client_onResponse", _F, "nbhttp.ClientConn.onResponse", no_go=True,
            guarded={"recv.mux": ["recv.handlers", "recv.closed", "recv.conn"]},
            held_calls={"recv.mux": ["head.h", "recv.closeWithErrorWithoutLock"]}),
    cs.pred("cs_client_closeByConn", _F, "nbhttp.ClientConn.closeByConn", no_go=True,
            guarded={"recv.mux": ["recv.closed", "recv.conn"]},
            held_calls={"recv.mux": ["recv.closeWithErrorWithoutLock"]}),
    cs.pred("cs_client_CloseWithError", _F, "nbhttp.ClientConn.CloseWithError", no_go=True,
            guarded={"recv.mux": ["recv.closed"]},
            held_calls={"recv.mux": ["recv.closeWithErrorWithoutLock"]}),
    cs.pred("cs_client_Reset", _F, "nbhttp.ClientConn.Reset", no_go=True,
            guarded={"recv.mux": ["recv.handlers", "recv.closed", "recv.conn"]}),
]



def cs_oncomplete_submits_job(sc):
    """Pipeline step `parse`: OnComplete hands handler + flushResponse to parser.Execute as ONE job (both calls sit in the
    closure passed to Execute, in this order), starts no goroutine and runs neither of them inline."""
    fl = cs.facts(sc, "nbhttp/processor.go").get("nbhttp.ServerProcessor.OnComplete")
    if fl is None:
        return False, "ServerProcessor.OnComplete not found"
    calls = [f for f in fl if f["kind"] == "call"]
    ex = [f for f in calls if f["expr"] == "parser.Execute" and f["closure"] == 0]
    sv = [f for f in calls if f["expr"] == "engine.Handler.ServeHTTP"]
    fr = [f for f in calls if f["expr"] == "recv.flushResponse"]
    problems = []
    if len(ex) != 1:
        problems.append("expected exactly one top-level call of parser.Execute, found %d" % len(ex))
    if len(sv) != 1 or len(fr) != 1:
        problems.append("expected one ServeHTTP and one flushResponse call, found %d/%d" % (len(sv), len(fr)))
    elif not (sv[0]["closure"] >= 1 and sv[0]["closure"] == fr[0]["closure"] and sv[0]["line"] < fr[0]["line"]):
        problems.append("ServeHTTP and flushResponse are not (in this order) in the one closure handed to Execute")
    if [f for f in fl if f["kind"] == "go"]:
        problems.append("go statement in OnComplete")
    return (not problems), "; ".join(problems)


def cs_flush_before_close(sc):
    """Pipeline step `finish`: in flushResponse the response is flushed (res.flush) before any conn.Close, and the
    close decision is acted on in the same function (so inside the job: no other job of the connection runs in between)."""
    fl = cs.facts(sc, "nbhttp/processor.go").get("nbhttp.ServerProcessor.flushResponse")
    if fl is None:
        return False, "ServerProcessor.flushResponse not found"
    calls = [f for f in fl if f["kind"] == "call" and f["closure"] == 0]
    fls = [f["line"] for f in calls if f["expr"] == "res.flush"]
    cls = [f["line"] for f in calls if f["expr"] == "conn.Close"]
    problems = []
    if len(fls) != 1:
        problems.append("expected one res.flush call, found %d" % len(fls))
    if not cls:
        problems.append("no conn.Close call (predicate vacuous)")
    if fls and cls and min(cls) < fls[0]:
        problems.append("conn.Close at line %d precedes res.flush at line %d" % (min(cls), fls[0]))
    if [f for f in fl if f["kind"] == "go"]:
        problems.append("go statement in flushResponse")
    return (not problems), "; ".join(problems)


# Pipeline steps: `parse` (OnComplete -> Execute: submit atomic), `start/finish` (Conn.execute: next job taken under the
# mutex, job run outside), `write` (Conn.Write one critical section), closes (test-and-set of closed)
_CS_PIPE = [cs_oncomplete_submits_job, cs_flush_before_close] + cs.JOBQ + cs.WRITE[:1] + cs.WRITE[2:3] + cs.CLOSE[:1]

PROPS = {
    "C10": {
        "manifest": {
            "text": "Lean theorems on a whole-message composition model: (a) per-connection pipeline (parser -> per-conn job queue -> "
                    "response writer, each represented by the conclusion of its own property) under every interleaving of parsing, job "
                    "execution, short writes, flushes and closes: wire is always a prefix of resp_1..resp_m and nothing follows a close; at "
                    "quiescence it EQUALS resp_1..resp_m only when no close found bytes still queued (any history without closing request, "
                    "or a kernel that takes every write in full) - for a closing request under a short write the tree truncates the answer "
                    "(known finding c10-close-drops-backlog, c10_pipeline_counterexample); closed iff a closing request exists; "
                    "closeDecision = RFC 7230 6.3 on single-option Connection values only; (b) non-interference "
                    "of N connections on a shared buffer heap under the hypothesis that the interleaved run itself is fault-free (no allocLive / notOwner / staleRead; that hypothesis is established by no theorem of C11 or C20); (c) client callback FIFO: exactly once, k-th "
                    "callback gets the k-th response or an error.  Tied to the code by real nbhttp engines over loopback: the per-connection "
                    "response sequence observed by a raw pipelining client, net/http and the nbhttp client is compared with the model's "
                    "prediction over the matrix IOMod x {plain, TLS} x epoll mode, plus direct oracles for order, close, foreign bytes, callbacks",
            "note": "proof on model, partial: TLS record layer, real scheduling and I/O-mode dispatch are exercised, not modelled; "
                    "the model is above C05/C06/C07/C09/C11/C20 (their conclusions are hypotheses of the composition; for C05 there is a forward simulation only: every Pipeline run of the non-blocking "
                    "modes has a matching ExecQ run, c10_queue_refines_execq — no converse, so Pipeline's theorems are NOT transferred to "
                    "the interleavings of conn.go; in the blocking modes, where Execute calls the job inline, c10_queue_sync states the "
                    "queue clause about Pipeline alone; the parser and the response writer stay cited).  Clause status: 'answers each request exactly once' is VIOLATED on the tree "
                    "for closing requests whose response the kernel did not take in full (finding c10-close-drops-backlog, "
                    "c10_pipeline_counterexample); it is proved for histories without a closing request under any kernel behaviour "
                    "(c10_pipeline_keepalive), for any history when the kernel takes every write in full (c10_pipeline), and otherwise only "
                    "under the ghost condition dropped = false (c10_pipeline_partial).  'bytes never appear on another connection': the "
                    "SharedHeap theorem is about the mechanism and is executed by no driver — the tie of this clause is the oracle "
                    "c10-foreign only.  Shared pollers / executors / the fd table have no model (oracles only).  "
                    "What a reader should NOT conclude: (1) the staleRead-freedom hypothesis of c10_noninterference is established by no "
                    "theorem of C11; it rests on C09's byte-level differential and c10-foreign.  (2) the interleaving fed to Pipeline.run "
                    "(sched=) comes from the generator, not from the observed execution; external closes (extClose) and short writes are "
                    "replayed only in the forced-schedule histories (xclose=: the harness closes the server-side connection from outside "
                    "between two pipelined requests; sndbuf=: a backlog the handler observed, echoed as short=); aborting clients are "
                    "predicted by truncating the history; the cut= and forced paths are covered by the safety theorems "
                    "(c10_wire_prefix, c10_close_cause, c10_run_cut_checked), not by c10_run_checked.  (3) the close rule is proved equal "
                    "to RFC 7230 6.3 only for single-option Connection lines (lists in one line deviate: "
                    "c10_close_rfc_list_counterexample).  (4) client clause: got=/lost= are echoed; timeout expiry inside onResponse and "
                    "Reset are never replayed against the implementation; the response-matches-request part assumes EnvOK (the peer sends "
                    "exactly one response per request on the current connection).  (5) C05: c10_queue_refines_execq is a FORWARD "
                    "simulation, direction Pipeline -> ExecQ, for cfg.sync = false: every Pipeline run has a matching ExecQ run built by the "
                    "proof's own translation execTrace, which uses only submit _ false, spawn, start, finish 0 false, next 0 false and close "
                    "(no MustExecute, no panic, big = false; submit+spawn and finish[+close]+next are fused); it relates queue, closed, fin, "
                    "handled and the flag cur.isSome — not next, wire, pending, dropped, byServer.  What it carries over from C05 are four "
                    "conjuncts weaker than C05's theorems: handled = done ++ running, at most one running, done a prefix of acc, and "
                    "acc.Nodup -> handled.Nodup with the premise NOT discharged (at most once, not exactly once; C05's completeness conjunct "
                    "is dropped; Pipeline's own c10_handlers_in_order, handled = 0..h-1, is stronger and true by construction of the model).  "
                    "There is NO converse: no theorem maps an ExecQ run — the model tied to conn.go — to a Pipeline schedule, so the "
                    "Pipeline theorems are not shown to hold for the real interleavings of Conn.Execute; in the blocking modes Execute runs the job inline and there is no ExecQ: c10_queue_sync (all "
                    "schedules: pending jobs = requests fin..next-1, nothing refused, handled = 0..fin-1 plus the running one) is a theorem "
                    "about Pipeline alone (a consequence of the model's invariant, i.e. of how parse/finish are written) and is the only one "
                    "that covers the driver's blocking-mode runs; c10_sync_inline (schedules in which a request is completed only while no "
                    "job is pending: the queue never holds more than the running job) applies to NONE of pipedrv's runs — the driver gives "
                    "every response two conn writes and its forced schedules parse everything first, so its schedules fail inlineSched, which "
                    "the driver never evaluates; the witness uses one-write responses; that the SyncExecutor is `f(); return true` is read off "
                    "the source, not modelled; the translation "
                    "execTrace is a definition of this proof (which ExecQ actions a Pipeline action stands for), not something observed; "
                    "C06/C07 (parse) and C09 (pieces) remain hypotheses without a refinement theorem",
            "technique": "Lean 4 proof (invariants over all interleavings, simulation for non-interference) + differential correspondence on real sockets"},
        "lean": ["NbioVerif.Properties.C10"], "drivers": ["pipedrv"], "harness": ["he2e"],
        "runs": [E2E_RUN],
        "oracles": ["c10-"], "cs": _CS + _CS_PIPE,
        "rule": "case = one matrix cell + 1..64 concurrent connection histories (raw pipelining client, net/http, nbhttp ClientConn pipelined, "
                "nbhttp Client pool); distinct by hash of (cell, client kinds, per request: version, Connection values, framing, size class, "
                "writes, sync); non-trivial iff a history has >= 3 requests, a response >= 60 KB or a possibly closing request",
        "assumptions": ["TLS record layer (llib), goroutine scheduling, poller dispatch and the kernel are exercised, not modelled",
                        "conclusions of C05 (FIFO exactly-once job queue), C06/C07 (parser delivers the requests in order), C09 (response "
                        "bytes of one handler are contiguous) and C11/C20 (ownership well-formed traces, allocator frame property) enter the "
                        "composition theorems as hypotheses",
                        "agreed domain of the close rule: each Connection header line carries one option (no comma / tab); "
                        "a client does not pipeline behind a closing request whose response exceeds 32 KB (RFC 7230 6.6 reset hazard)",
                        "the nbhttp client is exercised over TLS 1.2 (llib v1.2.4's TLS 1.3 client handshake fails on this toolchain, outside nbio); "
                        "llib's close_notify peek drops the last plaintext when the alert record arrives in two reads (known finding "
                        "c10-tls-alert-split-drops-tail, tagged only when the executor's TLS record tracker saw that split on the connection) "
                        "and without HEAD (its response parser does not know the request method)",
                        "timing: a stalled case is re-run twice before it is reported; content failures are reported at once; an attempt "
                        "with a failure during which the executor's environment canary (sleeping goroutine, plain-net loopback echo, "
                        "/proc/pressure) shows that the process itself did not run for >= 1 s is discarded and re-run when the machine is "
                        "calm, a case without a calm attempt is skipped and counted (coverage group env), not reported",
                        "echoed inputs of the model (taken from the implementation, not computed): got= (number of responses the nbhttp "
                        "client's parser delivered; the model only insists got <= what the server sent), lost= (pool-client requests whose "
                        "callback got an error), cut= (first response that broke off; accepted only if a closing request at or behind it "
                        "exists), short= (write backlogs the handler observed through the hook VerifState); sched= comes from the generator, the real interleaving is not observed; cfg.sync is not observable; "
                        "the ghost `handled` is not compared (handler order is a direct oracle instead); st=/body=/rb= are recomputed by "
                        "driver glue from the request line, not by a proved function",
                        "ClientFifo operations never executed against the implementation: timeout expiry inside onResponse, reset "
                        "(the pool client is predicted per exchange); executed: do_ (dial ok / dial failed / write failed via nbx), "
                        "onResponse (current and stale connection), connClosed, closeAll",
                        "a callback that panics is outside the model (pop and call are one step); covered by harness histories cbpanic="],
    },
}
