"""HTTP response family: C09 (response framing), C11 (pooled-buffer ownership: nbhttp Response, Parser/BodyReader,
core Conn write queue, websocket Conn)."""

from . import cs

# Critical sections of the websocket twin `OwnW` (Model/OwnWs.lean): each action of the transition system is one
# hold of the ws mutex (or, for dStart/dEnd, the conn write made outside it).
#   send      = WriteMessage: all fragments inside one hold            -> cs.WSWRITE (writemessage/writeframe locked)
#   dAdvance  = the sender goroutine takes the next slot under the lock,
#   dStart..dEnd = conn.Write of the frame with the lock NOT held      -> cs.WSWRITE (ws_sendqueue_advance_locked)
#   close     = CloseAndClean frees slots/cache/message inside one hold -> cs.WSCLOSE
#   rxAppend, rxFrame = Parse touches bytesCached/message only under the lock; rxHandle = handlers outside it
_WS_RX = [
    cs.pred("ws_parse_buffers_locked", "nbhttp/websocket/conn.go", "websocket.Conn.Parse",
            guarded={"recv.mux": ["recv.bytesCached", "recv.message"]},
            unheld_calls={"recv.mux": ["recv.handleMessage", "recv.handleDataFrame", "recv.handleProtocolMessage"]}),
    cs.callers_hold("ws_nextframe_only_under_lock", "nbhttp/websocket/conn.go", "recv.nextFrame", "recv.mux"),
]
_CS_WS = cs.WSWRITE + cs.WSCLOSE + _WS_RX
# core Conn write queue (OwnC): Write/Writev/Sendfile/flush/Close are each one hold of the conn mutex (the predicates of the conn family)
_CS_CONN = cs.WRITE + cs.CLOSE

# HTTP side (OwnBody): a Parse call and CloseAndClean are each ONE hold of the parser mutex (the twin's `parse` and
# `closeAndClean` are atomic steps; the handler works on objects handed over to it: docs/resp.md §10 C11/3)
_CS_HTTP = [
    cs.pred("http_parse_cache_locked", "nbhttp/parser.go", "nbhttp.Parser.Parse",
            guarded={"recv.mux": ["recv.bytesCached", "recv.state"]}),
    cs.pred("http_close_and_clean_locked", "nbhttp/parser.go", "nbhttp.Parser.CloseAndClean",
            guarded={"recv.mux": ["recv.bytesCached", "recv.state"]}, held_calls={"recv.mux": ["recv.Processor.Close"]}),
]

RESP_RUN = {"harness": "hresp", "driver": "respdrv",
            "fields": ["n", "err", "w", "head", "hdr", "rest", "trl", "close"], "corpus": "resp",
            "quick": {"n": 175, "shards": 16}, "thorough": {"n": 3200, "shards": 32}}

PROPS = {
    "C09": {
        "manifest": {
            "text": "Lean theorems on a byte-level model of nbhttp.Response (Write/WriteString/writeChunk/ReadFrom/Flush/checkChunked/"
                    "eoncodeHead/flush + flushResponse): every successful write returns len(data); wire = head ++ framing(written bytes) "
                    "for every handler program, write size, head byte string; reference unframing recovers the written bytes; "
                    "tied to the code by differential execution of generated handler programs through the real Parser -> handler -> "
                    "flushResponse path, plus a net/http.ReadResponse decoding oracle on the implementation alone",
            "note": "model fidelity is sampled (differential run on every check); Sane excludes handler errors (see docs/resp.md); "
                    "ReadFrom is proved for identity framing with an explicit Content-Length (ServeContent shape and after earlier writes); "
                    "ReadFrom without an explicit Content-Length is outside Sane: no theorem, no decode oracle; "
                    "every theorem except c09_write_returns_len assumes a conn that accepts the writes (failAt = 0); HEAD is finding resp-head-body "
                    "(the request method is not an input of the model); "
                    "trailers: c09_stage2_trailers is a render/parse round trip of the last-chunk block; c09_stage2_trailer_keys adds that its field "
                    "names are the declared Trailer keys and each value the first value the header map holds for the key when the handler returns "
                    "(for body-phase header operations on declared trailers only); the same is tied by the trl comparison and c09-decode; "
                    "automatic header fields are proved only as autoPairs of an existentially quantified encoding state (status line, framing flag "
                    "and handler fields pinned), except Content-Length without Flush (c09_identity_auto_length) and its absence after a Flush "
                    "(c09_flush_close_delimited)",
            "technique": "Lean 4 proof (invariant over op sequences) + differential correspondence + independent decoder oracle"},
        "lean": ["NbioVerif.Properties.C09"], "drivers": ["respdrv"], "harness": ["hresp"],
        "runs": [RESP_RUN],
        "oracles": ["c09-"],
        "rule": "case = (request version/method/connection, handler program, injected conn error); distinct by hash of (config, op-kind "
                "sequence with number of conn writes per op and write size class, framing); non-trivial iff a conn write happened "
                "before the final flush",
        "assumptions": ["http.StatusText and http.CanonicalHeaderKey verdicts are inputs of the model (recorded from the real functions)",
                        "Date is pinned (29-byte placeholder when the handler does not set it); Go map order canonicalised by sorting lines",
                        "io.Copy's 32 KiB chunking and Sendfile are modelled as conn writes of the same bytes"],
    },
    "C11": {
        "manifest": {
            "text": "Lean theorems on length-abstracted ownership twins (ids + lengths, contents erased) of the response writer, the "
                    "BodyReader, the parser cache, the core Conn write queue and the websocket Conn (send queue + sender goroutine at "
                    "critical-section granularity, receive buffers): for every op sequence / interleaving and every environment answer the heap with a live set "
                    "never records a double free or use after free and owner fields never share a buffer; tied to the code by comparing "
                    "the twin's Malloc/Append/Free/conn.Write trace with the trace of a tracking allocator installed through the public "
                    "allocator interface (mempool.DefaultMemPool, Config.BodyAllocator); the tracker's own verdicts (poison, live set, "
                    "recording conn) are the direct oracles",
            "note": "ws cases drive real websocket.Conn objects over a gated conn (the sender goroutine of the async send queue is "
                    "stepped deterministically); harness/internal/track is used by hresp and by hws -track; wsdrv runs no Own* model: the hws run "
                    "contributes the tracker's oracles only; "
                    "reads and reslices of pooled buffers leave no allocator event; their placement in the twins is untied and covered only by "
                    "the read-side oracles; only the websocket twin is an interleaving model; the HTTP and conn twins are sequential (their atomic "
                    "steps are tied by critical-section predicates, the asynchronous handler by an informal hand-over argument); paths outside the "
                    "twins (upgrade, client processor, RetainHTTPBody, Hijack, handler panic, deflate) are covered at most by the tracker's oracles; "
                    "uniqueness is proved per twin; cross-layer hand-over is checked by the tracker only; leaks are not checked (not part of C11)",
            "technique": "Lean 4 proof (ownership invariant by induction over op sequences) + differential trace correspondence + tracking allocator"},
        "lean": ["NbioVerif.Properties.C11"], "drivers": ["respdrv", "wsdrv"], "harness": ["hresp", "hws"],
        "runs": [dict(RESP_RUN, fields=["n", "err", "tr", "own", "rd", "cache", "q", "msg", "dl", "fl"]),
                 # the ws family's stream with the tracking allocator installed (compressed receive path, engine-level
                 # upgrade, real message contents): the tracker's verdicts are the c11- oracles, the comparison with wsdrv
                 # keeps the run honest (same fields as the ws family)
                 {"harness": "hws", "driver": "wsdrv", "exec_args": ["-track"],
                  "fields": ["err", "werr", "rerr", "berr", "recv", "back"], "corpus": "ws",
                  "quick": {"n": 160, "shards": 8, "timeout": 400}, "thorough": {"n": 800, "shards": 16, "timeout": 3000}}],
        "oracles": ["c11-"], "cs": _CS_WS + _CS_HTTP + _CS_CONN,
        "rule": "same stream as C09 (resp cases) plus body cases (segmented requests, handler reads, CloseAndClean) and conn cases (write "
                "queue under scripted kernel answers) and ws cases (received segments with fragments/control frames/an invalid frame, "
                "WriteMessage direct or through the async send queue with gated conn writes, write errors, CloseAndClean at any point); distinct by hash of (config, op-kind sequence with conn writes / parser state / "
                "queue length per op); non-trivial iff a buffer changed hands: a conn write before the final flush, bytes left in the "
                "parser cache, a non-empty write queue, a frame in flight in the sender goroutine, or bytes in the ws cache/message",
        "assumptions": ["the twins' theorems hold for ALL environment answers; the driver runs Own.step itself (an instance of Own.run) with the "
                        "answers computed by the byte-level model Resp; no lemma relates Resp to Own (not needed for soundness): the driver "
                        "evaluates the relation Own.sim after every op and the owner fields (ids, lengths) are compared with the real Response",
                        "HTTP side is sequential (handler inline): interleavings with an asynchronous handler are argued from "
                        "c11_response_frames_request + exclusive hand-over of request/response to the handler closure",
                        "reads/reslices of a pooled buffer leave no allocator event: their placement in the twins is untied "
                        "(read-side oracles: cache = unparsed tail, handler payloads live, pong echoes its ping)",
                        "not in the twins: Parse's upgrade path, ClientProcessor, RetainHTTPBody, Hijack, panicking handlers, "
                        "permessage-deflate buffers (hws -track), UDP",
                        "the tracking allocator replaces the real pool (non-recycling, poison on free, move on growth): pool-internal "
                        "behaviour is C20's subject",
                        "content-dependent decisions (chunked, Content-Length verdict, head length) are environment answers of the twin, "
                        "computed by the byte-level model in the driver"],
    },
}
