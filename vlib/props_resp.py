"""HTTP response family: C09 (response framing), C11 (pooled-buffer ownership, HTTP side)."""

RESP_RUN = {"harness": "hresp", "driver": "respdrv",
            "fields": ["n", "err", "w", "head", "hdr", "rest", "trl", "close"], "corpus": "resp",
            "quick": {"n": 130, "shards": 16}, "thorough": {"n": 3200, "shards": 32}}

PROPS = {
    "C09": {
        "manifest": {
            "text": "Lean theorems on a byte-level model of nbhttp.Response (Write/WriteString/writeChunk/ReadFrom/Flush/checkChunked/"
                    "eoncodeHead/flush + flushResponse): every successful write returns len(data); wire = head ++ framing(written bytes) "
                    "for every handler program, write size, head byte string; reference unframing recovers the written bytes; "
                    "tied to the code by differential execution of generated handler programs through the real Parser -> handler -> "
                    "flushResponse path, plus a net/http.ReadResponse decoding oracle on the implementation alone",
            "note": "model fidelity is sampled (differential run on every check); Sane excludes handler errors (see docs/resp.md)",
            "technique": "Lean 4 proof (invariant over op sequences) + differential correspondence + independent decoder oracle"},
        "lean": ["NbioVerif.Properties.C09"], "drivers": ["respdrv"], "harness": ["hresp"],
        "runs": [RESP_RUN],
        "oracles": ["c09-"],
        "rule": "case = (request version/method/connection, handler program, injected conn error); distinct by hash of (config, op-kind "
                "sequence with number of conn writes per op and write size class, framing); non-trivial iff a conn write happened "
                "before the final flush",
        "assumptions": ["http.StatusText and http.CanonicalHeaderKey verdicts are inputs of the model (recorded from the real functions)",
                        "Date is pinned (29-byte placeholder when the handler does not set it); Go map order canonicalised by sorting lines",
                        "io.Copy's 32 KiB chunking and Sendfile are modelled as conn writes of the same bytes"],
    },
}
