"""Per-property configuration: Lean modules, audit file, harness runs, oracles, assumptions."""

HTTP_RUN = {"harness": "hhttp", "driver": "httpdrv", "fields": ["cache", "err"], "corpus": "http",
            "quick": {"n": 1500, "shards": 16}, "thorough": {"n": 40000, "shards": 32}}

PROPS = {
    "C06": {
        "lean": ["NbioVerif.Properties.C06"], "drivers": ["httpdrv"], "harness": ["hhttp"],
        "runs": [HTTP_RUN],
        "oracles": ["c06-"],
        "rule": "case = (message sequence incl. mutated neighbours, segmentation); distinct by hash of (config class, parser-state "
                "transition per Parse call, error kind); non-trivial iff some cut left bytes in the parser cache or an error was returned",
        "assumptions": ["ReadLimit not hit (hypothesis of the theorem: the entry test is segmentation dependent by construction); "
                        "limit cases are still compared between model and implementation",
                        "url.ParseRequestURI / http.ParseHTTPVersion verdicts are inputs of the model (recorded from the real processors)"],
    },
    "C08": {
        "lean": ["NbioVerif.Properties.C08"], "drivers": ["httpdrv"], "harness": ["hhttp"],
        "runs": [HTTP_RUN],
        "oracles": ["c08-"],
        "rule": "same stream as C06 (random bytes, grammar messages and six+ mutation operators, limits drawn around the sizes); "
                "non-trivial iff bytes were retained across calls or an error was returned",
        "assumptions": ["a recovered panic is observed through the parser's own log line",
                        "'nothing after an error' is checked for the engine glue modelled as CloseAndClean on error"],
    },
}
