"""Property table: the union of vlib/props_<family>.py (each defines PROPS)."""
import glob
import importlib
import os

PROPS = {}
for _f in sorted(glob.glob(os.path.join(os.path.dirname(__file__), "props_*.py"))):
    _m = importlib.import_module("vlib." + os.path.basename(_f)[:-3])
    for _k, _v in _m.PROPS.items():
        if _k in PROPS:
            raise RuntimeError("property %s defined twice" % _k)
        PROPS[_k] = _v
