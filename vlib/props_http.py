"""HTTP parser family: C06, C07, C08."""
from . import srcgen
import os

from . import core
from .cs_http import HTTP_CS, PARSE_ATOMIC, CLOSE_ATOMIC


def http_tables(sc):
    """DESIGN 2.4b: run the real isToken/isHex/isNum/isAlpha/isValidMethodChar over all 256 bytes (plus the
    method set, the parser state enum and constants) and regenerate lean/NbioVerif/Generated/HttpTables.lean.
    The file is written (atomically, under the Lean lock) only when its content changes, so an unchanged tree
    costs no rebuild; `Lemmas/HttpTables.lean` (table = model definition, token table = RFC 7230 tchar) is then
    re-checked by the lake build of the property."""
    p = core.run([sc.exe("hhttp"), "facts"], timeout=60)
    if p.returncode != 0 or "end Http.Gen" not in p.stdout:
        raise core.TieBroken("hhttp facts failed", p.stderr[-2000:])
    path = os.path.join(core.LEAN, "NbioVerif", "Generated", "HttpTables.lean")
    with core.LeanLock():
        old = open(path).read() if os.path.exists(path) else ""
        if old == p.stdout:
            return False, ""
        os.makedirs(os.path.dirname(path), exist_ok=True)
        tmp = path + ".tmp%d" % os.getpid()
        open(tmp, "w").write(p.stdout)
        os.replace(tmp, path)
    import difflib
    d = "\n".join(list(difflib.unified_diff(old.split("\n"), p.stdout.split("\n"), "committed", "regenerated", lineterm="", n=0))[:40])
    return True, "Generated/HttpTables.lean differs from the committed tables:\n" + d


HTTP_RUN = {"harness": "hhttp", "driver": "httpdrv", "fields": ["cache", "err", "st", "held", "msgs"], "corpus": "http",
            "quick": {"n": 1500, "shards": 16}, "thorough": {"n": 6000, "shards": 32}}

C07_RUN = {"harness": "hhttp7", "driver": "httpdrv", "fields": ["render", "err", "cache", "st", "nb", "offs", "ref"], "corpus": "http7",
           "quick": {"n": 700, "shards": 16}, "thorough": {"n": 6000, "shards": 32}}

# engine-level "nothing further after an error" (DESIGN 8 #12): real nbhttp engines over loopback, three I/O modes x
# {plain, TLS}; differential against the engine model (Model/HttpEngine.lean over the parser model): requests that reach
# the handler, whether the server closes the connection, number of Engine.OnClose callbacks
ENGINE_RUN = {"harness": "hhttpe", "driver": "httpdrv", "fields": ["handled", "closed", "onclose"],
              "quick": {"n": 12, "shards": 3, "timeout": 600}, "thorough": {"n": 90, "shards": 8, "timeout": 1800}}

# BodyReader (nbhttp/body.go) against Model/HttpBody.lean: programs of append / Read / Close / RawBodyBuffers / pool
# release-and-reuse with a tracking allocator whose capacities are scripted; whole result lines are compared
BODY_RUN = {"harness": "hbody", "driver": "httpdrv", "fields": None, "corpus": "httpbody",
            "quick": {"n": 400, "shards": 4}, "thorough": {"n": 6000, "shards": 16}}

# the real client path (ClientConn.Do -> engine -> client parser -> ClientProcessor -> callback) against a raw loopback
# server: pipelined GET scripts (and a few with HEAD: known finding), 200 / 204 / 304, Content-Length / chunked; the model
# parser runs over the bytes the server sent: responses delivered before the first parse error, and whether one occurred
CLIENT_RUN = {"harness": "hclient", "driver": "httpdrv", "fields": ["got", "err"], "corpus": "httpclient",
              "quick": {"n": 24, "shards": 3, "timeout": 600}, "thorough": {"n": 400, "shards": 8, "timeout": 1800}}

PROPS = {
    "C07": {
        "manifest": {
            "text": "Lean theorems on the parser model: every production of the HTTP/1.x message grammar (request line, status line, "
                    "header line, end of headers, Content-Length body, chunk, last chunk, trailer line) is parsed to exactly the events of "
                    "the abstract message and the parser returns to its idle state at offset |render m|, in any segmentation, pipelined, for the "
                    "function the driver runs; the processor glue (ServerProcessor/ClientProcessor as functions of the event list) delivers "
                    "reqSpec m / respSpec m, a hand-written reading of the message per RFC 7230 (NOT a model of net/http); decision tables "
                    "framing = RFC 7230 3.3.3 and Close = RFC 7230 6.3 on the agreed domain. Agreement with net/http itself is established by the "
                    "three-way differential on generated messages (real nbio with the real processors, the Lean model and spec, net/http)",
            "note": "no theorem mentions net/http: the reference is not modelled, agreement of reqSpec/respSpec (normal form) with "
                    "http.ReadRequest/ReadResponse is sampled on every case; the agreed domain wfMsg is narrower than RFC 7230 (single "
                    "Connection options, reason phrase empty or starting with a letter, every announced trailer sent exactly once with a "
                    "non-empty value — the last restriction is known finding HTTP-TRAILER-STRICT with c07_trailer_strict_counterexample); "
                    "neighbours of the agreed domain are classified and counted, not judged (except the classes listed as inside the "
                    "wording: strict trailers, responses that end with their header section). reqSpec/respSpec reuse the model's "
                    "canonicalKey, value trimming and Trailer-list splitting; errors common to both are visible only to the net/http "
                    "differential. Delivered-level pipelining is an audited theorem for requests (c07_requests_pipelined) and for responses "
                    "(c07_responses_pipelined) of the agreed domain. Replies to HEAD that announce a body are outside the property as "
                    "proved and checked: known finding HTTP-CLIENT-HEAD (the parser is not told the request; patch proposed, not applied)",
            "technique": "Lean 4 proof (compositional, per grammar production, on the byte-at-a-time spec; lifted to the Go-shaped loop in "
                         "any segmentation by the C06 refinement) + three-way differential correspondence"},
        "lean": ["NbioVerif.Properties.C07", "NbioVerif.Lemmas.HttpTables", srcgen.BRIDGE_HTTP], "drivers": ["httpdrv"], "harness": ["hhttp", "hhttp7", "hbody", "hclient"],
        "facts": [http_tables, srcgen.src_facts],
        "runs": [C07_RUN, BODY_RUN, CLIENT_RUN],
        "oracles": ["c07-"],
        "rule": "case = 1..3 pipelined messages drawn from the Msg grammar (or one neighbour of the agreed domain) + a segmentation; distinct "
                "by hash of (role, method/version, header-count class, framing headers and their spellings, framing kind, chunk count and "
                "length classes, extensions, trailer count); non-trivial iff a body or trailers are present",
        "assumptions": ["url.ParseRequestURI / http.ParseHTTPVersion verdicts are inputs of the model (recorded from the real processors); "
                        "the model's own parseHTTPVersion is cross-checked against the recorded verdicts",
                        "the reference parser is not modelled: agreement of reqSpec/respSpec with net/http is sampled on every case",
                        "header names ASCII (strings.ToLower / CanonicalHeaderKey are modelled bytewise)",
                        "client: the request a response answers is not an input of the parser, hence not of the model; replies to HEAD that "
                        "announce a body are the known finding HTTP-CLIENT-HEAD (reference called with the request, nbhttp not)"],
    },
    "C06": {
        "manifest": {
            "text": "Lean theorems c06_http_driver / c06_http_driver_limit (any segmentation = one piece, for every byte string, state "
                    "table and processor verdict) and c06_messages (same messages delivered) on a hand-written model of Parser.Parse, stated "
                    "for the function the model driver runs (feedAllL: ReadLimit test + checked index loop per call); c06_dlines ties the "
                    "driver's call-by-call chain (HttpEngine.parseE per D line) to feedAllL, empty reads included. The model is tied to the "
                    "code by differential execution of the real parser on generated (message, segmentation) pairs, and a "
                    "whole-vs-segmented oracle runs on the implementation alone",
            "note": "model fidelity is sampled (differential run on every check); ReadLimit entry test excluded by hypothesis (NoTrip). "
                    "The url.ParseRequestURI verdict is recorded from the implementation per Parse call and replayed to the model, so a URL "
                    "rejection and the url event are not independently predicted. The driver's D lines run HttpEngine.parseE once per line; "
                    "its equality with feedAllL (events, final state and cache, first error, silence afterwards) is the audited lemma "
                    "chainE_eq_feedAllL / c06_dlines — the step from the driver's IO loop to chainE is by reading the loop",
            "technique": "Lean 4 proof (refinement of the Go-shaped index loop to a byte-at-a-time spec) + differential correspondence"},
        "lean": ["NbioVerif.Properties.C06", "NbioVerif.Lemmas.HttpTables", srcgen.BRIDGE_HTTP], "drivers": ["httpdrv"], "harness": ["hhttp"],
        "facts": [http_tables, srcgen.src_facts],
        "runs": [HTTP_RUN],
        "oracles": ["c06-"],
        "rule": "case = (message sequence incl. mutated neighbours, segmentation); distinct by hash of (config class, parser-state "
                "transition per Parse call, error kind); non-trivial iff some cut left bytes in the parser cache or an error was returned",
        "assumptions": ["ReadLimit not hit (hypothesis of the theorem: the entry test is segmentation dependent by construction); "
                        "limit cases are still compared between model and implementation",
                        "url.ParseRequestURI / http.ParseHTTPVersion verdicts are inputs of the model (recorded from the real processors)"],
    },
    "C08": {
        "manifest": {
            "text": "Lean theorems on the same parser model, for the chain of Parse calls the driver runs: the loop terminates on every input "
                    "(c08_no_hang_chain), no slice/index expression of the loop can panic (c08_no_panic), no callback meets a nil request/response "
                    "(c08_no_nil_deref_chain), retained bytes <= max(ReadLimit, largest read) along every chain (c08_retained_chain, ReadLimit > 0), "
                    "body held <= MaxHTTPBodySize (c08_body_bound, c08_body_bound_events at event level, c08_body_reader_bound), framing-field validation (c08_content_length(_any), "
                    "c08_transfer_encoding, c08_trailer_names, c08_chunk_size, c08_chunk_line_grammar, c08_bare_lf_rejected), after the first error "
                    "nothing further (c08_parseE_silent; engine model of the four readers: c08_engine_*), BodyReader ownership (c08_body_free_once); "
                    "differential correspondence plus panic / bound / after-error / framing / line-ending oracles on arbitrary and mutated bytes, "
                    "and real engines in three I/O modes x {plain, TLS}",
            "note": "model fidelity sampled. Proved panic-free: the four slice/index shapes of the Parse loop and nil request/response in "
                    "callbacks; every other panic source is total by construction in the model and observed only through the recover log line. "
                    "Non-blocking readers assume nbio delivers no data callback after CloseWithError (A1, property C03). With ReadLimit = 0 "
                    "nothing bounds the retained bytes (an oversized Content-Length body is cached whole before OnBody rejects it). The body "
                    "bound is proved for the model's bodyHeld counter, which is proved to be the sum of the body events since the last "
                    "complete event along every chain (c08_body_held_is_event_sum, c08_body_bound_events: after every Parse call; c08_body_bound_every_prefix: after "
                    "the k first callbacks for every k, whatever the outcome of the chain, errors included), and for the "
                    "BodyReader model; that the real BodyReader.left equals the model's counter is sampled through held=. Framing theorems are about the validation functions on the recorded field values; that an accepted "
                    "stream matches the line grammar is checked by c08-framing-rejected / c08-line-endings, not proved. A bare LF inside a "
                    "request target or version token is rejected by the processor verdicts, which are inputs of the model",
            "technique": "Lean 4 proof (invariants by induction over the input) + differential correspondence"},
        "lean": ["NbioVerif.Properties.C08", "NbioVerif.Lemmas.HttpTables", srcgen.BRIDGE_HTTP], "drivers": ["httpdrv"], "harness": ["hhttp", "hhttpe", "hbody"],
        "facts": [http_tables, srcgen.src_facts],
        "cs": HTTP_CS,
        "runs": [HTTP_RUN, ENGINE_RUN, BODY_RUN],
        "oracles": ["c08-"],
        "rule": "same stream as C06 (random bytes, grammar messages and six+ mutation operators, limits drawn around the sizes); "
                "non-trivial iff bytes were retained across calls or an error was returned",
        "assumptions": ["a recovered panic is observed through the parser's own log line",
                        "'nothing after an error' is checked for the engine glue modelled as CloseAndClean on error",
                        "A1: a non-blocking connection delivers no data callback after CloseWithError (nbio, property C03); the engine model's "
                        "non-blocking readers drop reads that arrive on a closed connection on that ground",
                        "url.ParseRequestURI / http.ParseHTTPVersion verdicts are inputs of the model (recorded from the real processors)"],
    },
}
