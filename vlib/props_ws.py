"""WebSocket family: C12 (round trip), C13 (RFC 6455 frame validation), C15 (size limits).

One harness (hws) and one model driver (wsdrv) serve the three properties: the same case streams are
generated for each, the direct oracles are split by prefix (c12- / c13- / c15-) and the correspondence
compares the fields each property is about."""
from . import srcgen
import os

from . import core

GENERATED = os.path.join(core.LEAN, "NbioVerif", "Generated", "WsFacts.lean")


def ws_facts(sc):
    """Regenerated facts (DESIGN 2.4b): tabulate validFrame (1024 rows), validCloseCode (65536 codes, as
    intervals) and the constants with the real functions of the working tree, emit them as Lean source.
    The file is rewritten only when its content changes; the theorems about the tables
    (NbioVerif.Lemmas.WsTables) are then re-checked by lake build."""
    p = core.run([sc.exe("hws"), "facts"], timeout=120)
    if p.returncode != 0 or "namespace Ws.Gen" not in p.stdout:
        raise core.TieBroken("hws facts failed", p.stderr[-2000:])
    old = open(GENERATED).read() if os.path.exists(GENERATED) else ""
    if old == p.stdout:
        return False, ""
    os.makedirs(os.path.dirname(GENERATED), exist_ok=True)
    with core.LeanLock():
        tmp = GENERATED + ".tmp"
        open(tmp, "w").write(p.stdout)
        os.replace(tmp, GENERATED)
    import difflib
    d = "\n".join(list(difflib.unified_diff(old.split("\n"), p.stdout.split("\n"), "committed", "working tree", lineterm="", n=0))[:40])
    return True, "NbioVerif/Generated/WsFacts.lean regenerated from the working tree:\n" + d


def _run(fields):
    return {"harness": "hws", "driver": "wsdrv", "fields": fields, "corpus": "ws",
            "quick": {"n": 320, "shards": 16, "timeout": 1500}, "thorough": {"n": 1500, "shards": 32, "timeout": 3000}}


COMMON_ASSUME = [
    "compress/flate is a parameter of the model: what it produced for each message (deflate output, inflate output, how the "
    "reader chunked it, which buffer capacities the allocator handed out) is observed by the harness through the public "
    "WebsocketCompressor/WebsocketDecompressor fields and passed to the model as input",
    "poller-driven mode with an executor that runs jobs inline and refuses them once the conn is closed (nbio.Conn.Execute's contract); "
    "the engine's 'close on Parse error' glue is part of the harness",
    "mask keys drawn by the writer (math/rand) are inputs of the model, read off the wire",
    "echoed inputs: the deflate output and the inflate output/read script of every compressed message are taken from the implementation "
    "(annotations defl=/infl=); the codec law readAll(inflate(deflate x)) = x is evaluated by the model on those tables for every "
    "compressed W op (field codec=) and the Go twin inflates independently (RFC 7692 7.2.2) for every compressed message of a receive stream",
    "per-op environments (keys=/infl= of one line) are restrictions of one environment: mask keys are indexed by the global frame counter "
    "and inflate results by message content",
    "Engine.MaxWebsocketFramePayloadSize > 0 (nbhttp.NewEngine replaces values <= 0 by 32 KiB); the model's fragmentation loop has no "
    "meaning for 0 (the Go loop would not terminate)",
]

PROPS = {
    "C12": {
        "manifest": {
            "text": "Lean theorems on a hand-written model of websocket.Conn (WriteMessage/writeFrame, Parse/nextFrame/readAll): every "
                    "message list written by one endpoint is delivered unchanged, once, in order, by the other for every role, per-frame "
                    "mask key, lawful codec, frame-size limit, interleaved control frames and segmentation; maskXOR's strided form = "
                    "bytewise definition and is an involution. Tied to the code by differential execution of two real Conns back to back "
                    "(and of Parse on generated frame streams) against the compiled model, plus received==sent and maskXOR oracles on the "
                    "implementation alone",
            "note": "model fidelity is sampled on every run; compress/flate is a parameter with the round-trip law as hypothesis (MsgOK.codec, "
                    "evaluated on the observed tables per compressed message); text payloads are restricted to valid UTF-8 (invalid text is refused: "
                    "c12_invalid_text_not_delivered) and ReadLimit is 0 in c12_roundtrip; the theorem is over the driver's appWrite sequence; the "
                    "upgrade hand-off: c12_handoff proves that Model/WsUp.upFeed (the fold of upParse the driver runs on H lines) on any segmentation of a "
                    "101 response ++ websocket bytes equals feed on the websocket bytes; the response is only recognised by its 'HTTP/1.1 101 ' prefix "
                    "and its first CR LF CR LF, the HTTP grammar of the response is C06-C08's; the "
                    "little-endian word load/xor/store = bytewise xor step of maskXOR is trusted and checked by the c12-mask oracle (all lengths 0..300); "
                    "opening handshake (Model/WsHandshake.lean: Upgrader.commCheck/commResponse, Dialer request/validation, newConn): structured "
                    "requests/responses with canonical header keys (HTTP syntax is C06-C09), SHA-1 is a parameter observed per case, the origin hook's "
                    "verdict is an input; token lists are read by the model's scanner and compared with an independent reading by the oracle; "
                    "Env.deflate/Env.inflate are abstract: c12_trunc_tail (truncWriter and flateReaderTail are inverse) is a stand-alone lemma not "
                    "connected to them, and the compression level only varies the observed tables; control frames are interleaved BETWEEN messages "
                    "only in c12_roundtrip (control frames between the fragments of one message are covered on the receive side by c13_partial and "
                    "by the generator, not by the round-trip theorem); the driver calls Ws.feed / Ws.upParse / Ws.appWrite of Model/ themselves; "
                    "asynchronous writes through the bounded send queue (Ws.appWriteQ: admission check after compression, then writeFrame's per-frame "
                    "check): c12_sendq_all_or_nothing (accepted = appWrite, refused = nothing queued, state untouched) and c12_sendq_batch (a batch with refusals delivers exactly its accepted messages); c12_sendq_batch_driver states it for Ws.batchQ (Model/WsBatch.lean), which the driver calls ONLY for the sending side named by from= on the B lines of sendq= cases; it starts from fresh endpoints with one Env and receiver readLimit = 0 (as c12_roundtrip), and DeflTable (the observed defl= outputs are a function of the payload: equal payloads, equal outputs) is a hypothesis on observed data that nothing checks; for direct-write B batches (no sendq=, or the other side) the driver runs a hand-written fold over Ws.appWrite for which there is no lemma '= appWrites' (equal by reading only); `hnd` cases (handler configurations data-frame only / both) are outside the model: the driver prints a constant line, they contribute oracle evidence only, no differential evidence and no theorem; exercised by `sendq=` cases "
                    "whose sender conn is gated during a batch so that the queue length is deterministic; the writer goroutine's draining is not "
                    "modelled (the queue is empty again before the next batch starts: harness waits for it)",
            "technique": "Lean 4 proof (induction over frame and segment lists) + differential correspondence"},
        "lean": ["NbioVerif.Properties.C12"], "drivers": ["wsdrv"], "harness": ["hws"],
        "facts": [ws_facts],
        "runs": [_run(["werr", "werrs", "wire", "recv", "rerr", "back", "berr", "err", "codec", "rx", "wx", "proto", "resp", "status", "req", "srx", "swx", "crx", "cwx", "serr"])],
        "oracles": ["c12-"],  # c12-roundtrip, c12-mask, c12-trunc, c12-handshake
        "rule": "case = message program on two back-to-back conns (with a second pair taking a turn inside a message's inflate or deflate in `I` ops; role, compression level, frame limit, message limit, segmentation style) or a "
                "frame stream fed to Parse, or a maskXOR sweep; distinct by hash of (configuration class, per-op outcome classes); non-trivial iff "
                "something was delivered, buffered or refused",
        "assumptions": COMMON_ASSUME,
    },
    "C13": {
        "manifest": {
            "text": "Lean theorems: the model of Parse accepts exactly the frame sequences the RFC 6455 transcription (Model/Rfc6455.lean) allows, "
                    "with the same deliveries, pong and close replies, in every segmentation, apart from the masking direction (known finding, "
                    "proved as the only deviation); validFrame and validCloseCode tables regenerated from the code on every run and proved equal "
                    "to the RFC predicates. Tied to the code by differential execution of Parse on frame streams over the full header space and by "
                    "a Go twin of the RFC predicate evaluated on the implementation alone (and compared with the Lean one on every case)",
            "note": "model fidelity is sampled; the specification (Model/Rfc6455.lean) imports nothing of the model: decoder, byte order, unmasking, "
                    "RFC 3629 UTF-8 and close-code classes are written independently and proved equal to the model's helpers (c13_spec_helpers, "
                    "c13_closeCode_rfc); inflation is a parameter of the specification tied to the endpoint's decompressor by the hypothesis InflAgrees; "
                    "masking direction: known finding (c13_mask_counterexample, c13_partial, c13_masked); "
                    "InflAgrees equates the specification's infl with the model's readAll on the observed inflate script (the independent inflate is "
                    "the Go twin's, compared through tinfl=/exp= on every case); 'fails the connection' = Parse returns an error or the handler closed "
                    "the conn: the engine's close-on-Parse-error is harness glue; c13_partial/c13_masked assume ReadLimit = 0 (the read-limit test is "
                    "about segments); ReadLimit > 0 is c13_readlimit (Lemmas/WsReadLimit.lean: feed_readLimit): the run is that of the endpoint "
                    "without a read limit, cut at the first Parse call refused by the read-limit test with ErrTooLong — the verdict and events on "
                    "the segments before that call are the RFC predicate's, the call adds none; the upgrade hand-off lines (H) are computed by Model/WsUp.upParse: c13_partial_handoff (through c12's "
                    "upFeed_handoff) carries the theorem behind a hand-off; M/T/Q/P/Z lines and the wire of B lines of sendq= cases (Model/WsBatch.batchQ) are computed by modules outside "
                    "C13's closure (over-comparison); `hnd` cases (handler configurations data-frame only / both) are outside the model: the driver "
                    "prints a constant line, they contribute oracle evidence only (c13-accept, accept direction only: a sequence the RFC allows is "
                    "not failed; text validity and the fragment sum are not judged there), no differential evidence and no theorem",
            "technique": "Lean 4 proof (decoder agreement + induction over the frame list, decide over regenerated tables) + differential correspondence"},
        "lean": ["NbioVerif.Properties.C13", srcgen.BRIDGE_WS], "drivers": ["wsdrv"], "harness": ["hws"],
        "facts": [ws_facts, srcgen.src_facts],
        "runs": [_run(["err", "rfc", "len", "may", "exp", "rerr", "berr", "recv", "back"])],
        "oracles": ["c13-"],
        "rule": "same streams as C12; distinct by hash of (role, compression, limits, per-Parse outcome, RFC verdict); non-trivial iff a frame was "
                "completed or refused",
        "assumptions": COMMON_ASSUME + ["close replies of a failing endpoint may carry any failure code (1002/1003/1007-1011)",
                                        "utf8.Valid = the model's utf8Valid: swept over all 1- and 2-byte strings on every run (split over the shards), "
                                        "sampled at 3 and 4 bytes around the encoding boundaries, and compared through every twin line"],
    },
    "C15": {
        "manifest": {
            "text": "Lean theorems: in every reachable state of the Parse model the message under assembly is within MessageLengthLimit, every "
                    "delivered message is, the inflate buffer never holds more than the limit whatever the outcome, an oversized frame, "
                    "fragment sum or inflated size is refused with a 1009 close frame, control payloads over 125 are refused by WriteMessage, WriteClose (status code included), WriteFrame and "
                    "nextFrame, the unparsed cache stays below 14 + max(125, limit - assembled) while the conn lives and within max(ReadLimit, one read) "
                    "(c15_cache_bound_partial; the statement's 'never exceeds the read limit' is a known finding with c15_cache_bound_counterexample). Tied to the code by differential execution (cache and "
                    "assembly lengths compared after every Parse call) and limit oracles on the implementation alone (bombs, limit-1/limit/limit+1; the handler configurations message / data-frame / both in `hnd` cases, which are outside the model and judged by the oracles only; every public send entry point with control payloads of 124..127 bytes, judged on the decoded wire)",
            "note": "model fidelity is sampled; allocator capacities and reader chunking are inputs (bytes requested from the allocator are not "
                    "compared); termination of readAll is not a theorem: the loop is structurally recursive on the observed Read results, a "
                    "no-progress Read is outside the reader contract (stuck) and a spinning implementation is caught by the hang oracle; "
                    "read-limit clause proved as partial (known finding ws-readlimit-first-read); 'fails the connection' = Parse returns an error: "
                    "the close itself is the engine's, harness glue; c15_1009 assumes the conn was still open when the reply was written; the upgrade "
                    "hand-off lines (H) are computed by Model/WsUp.upParse: c15_delivered_within_handoff carries the delivered bound behind a hand-off "
                    "(no bound is claimed for the HTTP response bytes before the upgrade: ReadLimit of the HTTP parser, C08); M/T/Q/P/Z lines and the wire of B lines of sendq= cases (Model/WsBatch.batchQ) are computed by modules outside C15's closure "
                    "(over-comparison); `hnd` cases (handler configurations data-frame only / both) are outside the model: the driver prints a "
                    "constant line, they contribute oracle evidence only (c15-limit ... handlers=<h>: per-frame limit, cache bound, 1009), no "
                    "differential evidence and no theorem; with a data-frame handler only nothing is assembled and the SUM of a message's "
                    "fragments is not limited (per-frame test only) — not judged",
            "technique": "Lean 4 proof (invariant by induction over the frame loop and the segment list) + differential correspondence"},
        "lean": ["NbioVerif.Properties.C15", srcgen.BRIDGE_WS], "drivers": ["wsdrv"], "harness": ["hws"],
        "facts": [ws_facts, srcgen.src_facts],
        "runs": [_run(["err", "cache", "msglen", "werr", "rerr", "berr", "rcache", "rmsglen", "cerr", "cw"])],
        "oracles": ["c15-"],
        "rule": "same streams as C12; non-trivial iff bytes were retained across calls, a limit was configured and approached, or a message was refused",
        "assumptions": COMMON_ASSUME + ["one byte beyond the limit may be read from the inflater to tell 'exactly the limit' from 'more' (it is never buffered)"],
    },
}
