"""Core of the /verif orchestrator: scratch build, Lean build + axiom audit, differential
runs (harness gen/exec vs Lean driver), disagreement handling, known findings, evidence.

Python stdlib only.  See DESIGN.md sections 2-4.
"""
import fcntl
import glob
import hashlib
import json
import os
import re
import shutil
import subprocess
import sys
import tempfile
import time
from concurrent.futures import ThreadPoolExecutor

VERIF = os.path.dirname(os.path.dirname(os.path.abspath(__file__)))
REPO = os.environ.get("VERIF_REPO", "/repo")
LEAN = os.path.join(VERIF, "lean")
NCPU = int(os.environ.get("VERIF_JOBS", "0")) or min(16, os.cpu_count() or 4)

GOENV = dict(os.environ, GOFLAGS="-mod=mod", GOPROXY="off", GOSUMDB="off",
             GOTOOLCHAIN="local", CGO_ENABLED="0")

ALLOWED_AXIOMS = {"propext", "Classical.choice", "Quot.sound"}
BANNED = re.compile(r"\bsorry\b|\badmit\b|^\s*axiom\s|native_decide|bv_decide|implemented_by|"
                    r"\bunsafe\s|maxHeartbeats\s+0")

TRUSTED_BASE = [
    "Lean 4.33.0 kernel",
    "axioms allowed: propext, Classical.choice, Quot.sound (audited per theorem with #print axioms)",
    "hand-written Lean model, tied to /repo by differential execution on this run (sampled)",
    "Go harness, vsys syscall shim, AST call rerouter, verif-tagged hook files",
    "tools/go2lean (Go -> Lean translator of the listed pure decision functions; subset and semantics in docs/go2lean.md)",
    "Lean driver parsing glue and this orchestrator's canonicalisation",
    "go1.23.5 runtime and Linux kernel semantics where modelled as inputs",
]


def log(*a):
    print(*a, file=sys.stderr, flush=True)


def run(cmd, cwd=None, env=None, timeout=None, input=None, check=False):
    p = subprocess.run(cmd, cwd=cwd, env=env, timeout=timeout, input=input,
                       stdout=subprocess.PIPE, stderr=subprocess.PIPE, text=True)
    if check and p.returncode != 0:
        raise RuntimeError("command failed: %s\n%s\n%s" % (cmd, p.stdout[-4000:], p.stderr[-4000:]))
    return p


class TieBroken(Exception):
    """The model/code tie could not be established (build of hooks/harness/Lean failed)."""

    def __init__(self, what, detail=""):
        super().__init__(what)
        self.what = what
        self.detail = detail


# --------------------------------------------------------------------------- scratch build

REROUTE_FLOOR = {"conn_unix.go": 8, "poller_epoll.go": 6, "sendfile_unix.go": 1, "writev_linux.go": 1}


class Scratch:
    """Copy of /repo's working tree with the vsys shim, hook files and the harness, built."""

    def __init__(self, cmds, keep=False):
        self.cmds = cmds
        self.keep = keep
        self.dir = None

    def __enter__(self):
        t0 = time.time()
        self.dir = tempfile.mkdtemp(prefix="nbio-verif-")
        nb = os.path.join(self.dir, "nbio")
        run(["rsync", "-a", "--exclude", ".git", "--exclude", "autobahn", "--exclude", "examples",
             REPO + "/", nb + "/"], check=True)
        # hook files (all //go:build verif) and the vsys package
        for pkg in os.listdir(os.path.join(VERIF, "hooks")):
            src = os.path.join(VERIF, "hooks", pkg)
            dst = nb if pkg == "nbio" else os.path.join(nb, pkg.replace("__", "/"))
            os.makedirs(dst, exist_ok=True)
            for f in os.listdir(src):
                shutil.copy(os.path.join(src, f), os.path.join(dst, f))
        # reroute syscalls in package nbio
        rw = os.path.join(VERIF, "tools", "bin", "rewriter")
        build_tools()
        files = [os.path.join(nb, f) for f in ("conn_unix.go", "poller_epoll.go", "sendfile_unix.go",
                                               "writev_linux.go", "engine_unix.go", "net_unix.go",
                                               "engine.go", "conn.go")
                 if os.path.exists(os.path.join(nb, f))]
        files += [os.path.join(nb, "taskpool", f) for f in ("taskpool.go",)
                  if os.path.exists(os.path.join(nb, "taskpool", f))]
        p = run([rw] + files)
        if p.returncode != 0:
            raise TieBroken("rewriter failed", p.stderr[-2000:])
        counts = dict(re.findall(r"^(\S+) (\d+)$", p.stdout, re.M))
        for f, floor in REROUTE_FLOOR.items():
            if int(counts.get(f, 0)) < floor:
                raise TieBroken("rewriter rerouted fewer calls than the committed floor in " + f,
                                "%s: %s < %d" % (f, counts.get(f, 0), floor))
        # harness
        hs = os.path.join(self.dir, "harness")
        shutil.copytree(os.path.join(VERIF, "harness"), hs)
        shutil.copy(os.path.join(REPO, "go.sum"), os.path.join(hs, "go.sum"))
        self.bin = os.path.join(self.dir, "bin")
        os.makedirs(self.bin)
        pk = ["./cmd/" + c for c in self.cmds]
        p = run(["go", "build", "-tags", "verif", "-o", self.bin + "/"] + pk, cwd=hs, env=GOENV)
        if p.returncode != 0:
            raise TieBroken("harness/hook build failed against /repo's working tree", p.stderr[-4000:])
        self.build_s = time.time() - t0
        return self

    def __exit__(self, *a):
        if self.dir and not self.keep:
            shutil.rmtree(self.dir, ignore_errors=True)

    def exe(self, name):
        return os.path.join(self.bin, name)


def build_tools(force=False):
    """(Re)build the Go tools whose sources are newer than their binary."""
    out = os.path.join(VERIF, "tools", "bin")
    os.makedirs(out, exist_ok=True)
    for t in sorted(os.listdir(os.path.join(VERIF, "tools"))):
        d = os.path.join(VERIF, "tools", t)
        if t == "bin" or not os.path.isdir(d) or not os.path.exists(os.path.join(d, "go.mod")):
            continue
        exe = os.path.join(out, t)
        srcs = [os.path.join(r, f) for r, _, fs in os.walk(d) for f in fs if f.endswith(".go") or f == "go.mod"]
        if force or not os.path.exists(exe) or any(os.path.getmtime(x) > os.path.getmtime(exe) for x in srcs):
            run(["go", "build", "-o", exe, "."], cwd=d, env=GOENV, check=True)


# --------------------------------------------------------------------------- Lean side

class LeanLock:
    def __enter__(self):
        self.f = open(os.path.join(LEAN, ".lock"), "w")
        fcntl.flock(self.f, fcntl.LOCK_EX)

    def __exit__(self, *a):
        fcntl.flock(self.f, fcntl.LOCK_UN)
        self.f.close()


class RunLock:
    """Held by every check for its whole duration: shared normally, exclusive by a check that rebuilds from scratch
    (thorough tier removes lean/.lake/build: a check running in the same tree at that moment would lose its model
    drivers / .olean files and report a spurious violation). Always taken before LeanLock."""

    def __init__(self, exclusive=False):
        self.mode = fcntl.LOCK_EX if exclusive else fcntl.LOCK_SH

    def __enter__(self):
        self.f = open(os.path.join(LEAN, ".runlock"), "w")
        fcntl.flock(self.f, self.mode)

    def __exit__(self, *a):
        fcntl.flock(self.f, fcntl.LOCK_UN)
        self.f.close()


def lean_build(targets, clean=False):
    """lake build of the given modules/exes. Returns (ok, output)."""
    with LeanLock():
        if clean:
            shutil.rmtree(os.path.join(LEAN, ".lake", "build"), ignore_errors=True)
        p = run(["lake", "build"] + targets, cwd=LEAN, timeout=3000)
    return p.returncode == 0, (p.stdout + p.stderr)


def lean_grep_banned():
    hits = []
    for path in glob.glob(os.path.join(LEAN, "NbioVerif", "**", "*.lean"), recursive=True):
        in_block = 0
        for i, line in enumerate(open(path, encoding="utf-8")):
            s = line
            # strip comments (block comments tracked coarsely, line comments exactly)
            if in_block:
                if "-/" in s:
                    in_block = 0
                    s = s.split("-/", 1)[1]
                else:
                    continue
            if "/-" in s:
                head, rest = s.split("/-", 1)
                if "-/" in rest:
                    s = head + rest.split("-/", 1)[1]
                else:
                    s = head
                    in_block = 1
            s = s.split("--", 1)[0]
            if BANNED.search(s):
                hits.append("%s:%d: %s" % (os.path.relpath(path, LEAN), i + 1, line.strip()))
    return hits


def audit(pid):
    """Run Audit/<pid>.lean; returns dict theorem -> list of axioms, and problems list."""
    path = os.path.join(LEAN, "Audit", pid + ".lean")
    with LeanLock():
        p = run(["lake", "env", "lean", path], cwd=LEAN, timeout=1200)
    out = p.stdout + p.stderr
    thms = {}
    problems = []
    for m in re.finditer(r"'([^']+)' depends on axioms: \[([^\]]*)\]", out, re.S):
        axs = [a.strip() for a in m.group(2).replace("\n", " ").split(",") if a.strip()]
        thms[m.group(1)] = axs
        bad = [a for a in axs if a not in ALLOWED_AXIOMS]
        if bad:
            problems.append("%s depends on non-allowed axioms %s" % (m.group(1), bad))
    for m in re.finditer(r"'([^']+)' does not depend on any axioms", out):
        thms[m.group(1)] = []
    if p.returncode != 0:
        problems.append("audit file failed to elaborate: " + out[-1500:])
    wanted = re.findall(r"^#print axioms (\S+)", open(path).read(), re.M)
    for w in wanted:
        if w not in thms:
            problems.append("theorem %s missing from audit output" % w)
    return thms, wanted, problems


# --------------------------------------------------------------------------- differential runs

def split_cases(lines):
    """Group lines into cases: a case starts at a line beginning with 'C '."""
    cases, cur = [], None
    for ln in lines:
        if ln.startswith("C "):
            cur = [ln]
            cases.append(cur)
        elif cur is not None:
            cur.append(ln)
    return cases


class DiffResult:
    def __init__(self):
        self.cases = 0
        self.evaluations = 0          # compared output lines
        self.disagreements = []       # dicts
        self.oracle_failures = []     # dicts
        self.crashes = []
        self.keys = {}                # shape key -> nontrivial flag
        self.stats = {}
        self.samples = []
        self.wall = 0.0

    def merge(self, o):
        self.cases += o.cases
        self.evaluations += o.evaluations
        self.disagreements += o.disagreements
        self.oracle_failures += o.oracle_failures
        self.crashes += o.crashes
        for k, v in o.keys.items():
            self.keys[k] = self.keys.get(k, False) or v
        for k, v in o.stats.items():
            if isinstance(v, dict):
                d = self.stats.setdefault(k, {})
                for kk, vv in v.items():
                    d[kk] = d.get(kk, 0) + vv
            else:
                self.stats[k] = self.stats.get(k, 0) + v
        if len(self.samples) < 3:
            self.samples += o.samples[: 3 - len(self.samples)]

    @property
    def distinct_nontrivial(self):
        return sum(1 for v in self.keys.values() if v)


def canon_fields(line, fields):
    """Keep only the k=v fields listed (None = whole line)."""
    if fields is None:
        return line
    toks = line.split(" ")
    keep = [t for t in toks if "=" not in t or t.split("=", 1)[0] in fields]
    return " ".join(keep)


def exec_ops(exe, ops_text, timeout=600, mem="4GiB", args=()):
    env = dict(os.environ, GOMEMLIMIT=mem, GOMAXPROCS="4")
    try:
        p = subprocess.run([exe, "exec"] + list(args), input=ops_text, stdout=subprocess.PIPE,
                           stderr=subprocess.PIPE, text=True, timeout=timeout, env=env)
        return p.returncode, p.stdout, p.stderr
    except subprocess.TimeoutExpired as e:
        out = e.stdout.decode() if isinstance(e.stdout, bytes) else (e.stdout or "")
        return -9, out, "timeout after %ss" % timeout


def model_ops(driver, ops_text, timeout=900):
    p = subprocess.run([os.path.join(LEAN, ".lake", "build", "bin", driver)], input=ops_text,
                       stdout=subprocess.PIPE, stderr=subprocess.PIPE, text=True, timeout=timeout)
    return p.returncode, p.stdout, p.stderr


def compare(ops_text, impl_out, model_out, fields=None, shard=None):
    """Compare impl and model outputs case by case. Lines starting with '#' or '!' in the
    impl output are metadata / direct-oracle reports and are not sent to the comparison."""
    r = DiffResult()
    ops = [l for l in ops_text.split("\n") if l]
    impl_all = [l for l in impl_out.split("\n") if l]
    model = [l for l in model_out.split("\n") if l]
    impl = []
    # attach metadata to case index
    case_idx = -1
    pos = 0
    meta = {}
    for l in impl_all:
        if l.startswith("#K "):
            _, key, nt = l.split(" ", 2)
            r.keys[key] = r.keys.get(key, False) or nt.strip() == "1"
        elif l.startswith("#S "):
            try:
                st = json.loads(l[3:])
                for k, v in st.items():
                    if isinstance(v, dict):
                        d = r.stats.setdefault(k, {})
                        for kk, vv in v.items():
                            d[kk] = d.get(kk, 0) + vv
                    else:
                        r.stats[k] = r.stats.get(k, 0) + v
            except Exception:
                pass
        elif l.startswith("!"):
            meta.setdefault(max(len(impl) - 1, 0), []).append(l)
        elif l.startswith("#"):
            pass
        else:
            impl.append(l)
    # index of op lines -> case
    starts = [i for i, l in enumerate(ops) if l.startswith("C ")]
    starts.append(len(ops))
    r.cases = len(starts) - 1
    n = min(len(ops), len(impl), len(model))
    for ci in range(len(starts) - 1):
        a, b = starts[ci], starts[ci + 1]
        case_ops = ops[a:b]
        ci_impl = impl[a:b]
        ci_model = model[a:b]
        bad = None
        for j in range(b - a):
            x = ci_impl[j] if j < len(ci_impl) else "<missing>"
            y = ci_model[j] if j < len(ci_model) else "<missing>"
            r.evaluations += 1
            if canon_fields(x, fields) != canon_fields(y, fields):
                bad = j
                break
        oracle = []
        for j in range(a, b):
            oracle += meta.get(j, [])
        if bad is not None:
            r.disagreements.append({"ops": case_ops, "impl": ci_impl, "model": ci_model,
                                    "first_diff_line": bad, "shard": shard})
        if oracle:
            r.oracle_failures.append({"ops": case_ops, "impl": ci_impl, "reports": oracle, "shard": shard})
        if len(r.samples) < 2 and (ci % 97 == 3 or r.cases < 5):
            r.samples.append({"ops": case_ops[:12], "impl": ci_impl[:12], "model": "same" if bad is None else ci_model[:12]})
    if len(impl) != len(ops) or len(model) != len(ops):
        if not r.disagreements:
            r.disagreements.append({"ops": ops[-5:], "impl": impl[-5:], "model": model[-5:],
                                    "first_diff_line": -1, "shard": shard,
                                    "note": "line count mismatch ops=%d impl=%d model=%d" % (len(ops), len(impl), len(model))})
    return r


def diff_run(sc, harness, driver, gen_args, nshards, seed, fields=None, exec_args=(), corpus=None,
             timeout=900):
    """Generate ops with `harness gen`, execute on impl and model, compare. Sharded."""
    exe = sc.exe(harness)
    total = DiffResult()
    t0 = time.time()

    def one(i):
        if i < 0:
            ops_text = corpus
        else:
            p = run([exe, "gen", "-seed", str(seed * 1000 + i)] + gen_args, timeout=timeout)
            if p.returncode != 0:
                raise RuntimeError("generator failed: " + p.stderr[-2000:])
            ops_text = p.stdout
        rc, impl_out, impl_err = exec_ops(exe, ops_text, timeout=timeout, args=exec_args)
        # the executor echoes every op as "> op" annotated with the environment answers it saw;
        # those annotated ops are what the model is run on
        ann = [l[2:] for l in impl_out.split("\n") if l.startswith("> ")]
        n_ops = sum(1 for l in ops_text.split("\n") if l)
        if len(ann) != n_ops:
            # an executor that stopped before the end of its input says nothing about the code under test
            # (seen once on a starved machine): run the shard once more in a fresh process and judge that run;
            # if it stops early again it is reported below as before
            log("note: %s shard %s stopped after %d of %d ops (rc=%s); re-running the shard once" % (harness, i, len(ann), n_ops, rc))
            rc, impl_out, impl_err = exec_ops(exe, ops_text, timeout=timeout, args=exec_args)
            ann = [l[2:] for l in impl_out.split("\n") if l.startswith("> ")]
        impl_out = "\n".join(l for l in impl_out.split("\n") if not l.startswith("> "))
        ann_text = "\n".join(ann) + "\n"
        mrc, model_out, model_err = model_ops(driver, ann_text, timeout=timeout)
        r = compare(ann_text, impl_out, model_out, fields, shard=i)
        n_in = sum(1 for l in ops_text.split("\n") if l)
        if len(ann) != n_in and not r.disagreements:
            r.disagreements.append({"ops": ops_text.split("\n")[len(ann):len(ann) + 5], "impl": [], "model": [],
                                    "first_diff_line": -1, "shard": i,
                                    "note": "executor stopped after %d of %d ops (rc=%s): %s" % (len(ann), n_in, rc, impl_err[-500:])})
        if rc != 0:
            r.crashes.append({"shard": i, "rc": rc, "stderr": impl_err[-3000:]})
        if mrc != 0:
            r.crashes.append({"shard": i, "model_rc": mrc, "stderr": model_err[-3000:]})
        return r

    idx = list(range(nshards))
    if corpus:
        idx = [-1] + idx
    with ThreadPoolExecutor(max_workers=NCPU) as ex:
        for r in ex.map(one, idx):
            total.merge(r)
    total.wall = time.time() - t0
    return total


def load_corpus(pid_or_family):
    d = os.path.join(VERIF, "corpus", pid_or_family)
    text = []
    for f in sorted(glob.glob(os.path.join(d, "*.ops"))):
        text.append(open(f).read().rstrip("\n"))
    return "\n".join(text) + "\n" if text else None


def shrink_case(case_ops, still_bad, max_iter=400):
    """Line-level delta debugging: keep line 0 (config), drop chunks of the rest."""
    head, body = case_ops[:1], list(case_ops[1:])
    n = 2
    it = 0
    while len(body) >= 1 and it < max_iter:
        chunk = max(1, len(body) // n)
        reduced = False
        for i in range(0, len(body), chunk):
            cand = body[:i] + body[i + chunk:]
            it += 1
            if still_bad(head + cand):
                body = cand
                n = max(n - 1, 2)
                reduced = True
                break
        if not reduced:
            if chunk == 1:
                break
            n = min(len(body), n * 2)
    return head + body


# --------------------------------------------------------------------------- findings / evidence

def load_known():
    p = os.path.join(VERIF, "known_findings.json")
    if not os.path.exists(p):
        return {"findings": [], "fixed": []}
    return json.load(open(p))


def write_replay(pid, payload):
    d = os.environ.get("VERIF_REPLAY_DIR") or os.path.join(VERIF, "replays")
    os.makedirs(d, exist_ok=True)
    h = hashlib.sha1(json.dumps(payload, sort_keys=True).encode()).hexdigest()[:10]
    path = os.path.join(d, "%s-%s.json" % (pid, h))
    json.dump(payload, open(path, "w"), indent=1)
    return path


def write_evidence(pid, tier, seed, coverage, assumptions, wall, violations):
    d = os.environ.get("VERIF_EVIDENCE_DIR") or os.path.join(VERIF, "evidence")
    os.makedirs(d, exist_ok=True)
    ev = {"property_id": pid, "tier": tier, "seed": seed, "level": "proof", "coverage": coverage,
          "assumptions": assumptions, "wall_s": round(wall, 2), "violations": violations}
    tmp = os.path.join(d, pid + ".json.tmp")
    json.dump(ev, open(tmp, "w"), indent=1)
    os.replace(tmp, os.path.join(d, pid + ".json"))
