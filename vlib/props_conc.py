"""Concurrency / executor / allocator family: C05, C19, C20."""
from . import srcgen
from . import cs_conc


ALLOC_RUN = {"harness": "halloc", "driver": "allocdrv", "fields": None, "corpus": "conc-alloc",
             "quick": {"n": 400, "shards": 12}, "thorough": {"n": 3000, "shards": 32}}

def search_c05(sc, pid, spec, tier, seed, known):
    """Failing-input search for C05 (only runs when a proof obligation, the correspondence or a
    critical-section predicate already broke and no failing input was found): hammer cases — N goroutines
    calling Execute while another one calls Close, free running — repeated with fresh seeds until the log
    oracle reports a violation or the time budget is used up."""
    import time
    from . import core
    from .runner import _oracle_name, _belongs, _match_known
    budget = 240 if tier == "thorough" else 75
    t0 = time.time()
    rnd = 0
    while time.time() - t0 < budget:
        rnd += 1
        r = core.diff_run(sc, "hjobq", "jobqdrv", ["-n", "150", "-tier", "hammer"], 8, seed * 131 + 50000 + rnd, fields=None)
        for o in r.oracle_failures:
            for rep in o["reports"]:
                name = _oracle_name(rep)
                if _belongs(pid, name, spec) and not _match_known(pid, name, rep, known):
                    return {"property": pid, "kind": "direct-oracle", "oracle": name, "report": rep,
                            "found_by": "hammer search, round %d" % rnd, "harness": "hjobq", "driver": "jobqdrv",
                            "ops": o["ops"], "impl": o["impl"], "seed": seed * 131 + 50000 + rnd}
    return None


JOBQ_RUN = {"harness": "hjobq", "driver": "jobqdrv", "fields": None, "corpus": "conc-jobq",
            "quick": {"n": 250, "shards": 12}, "thorough": {"n": 2500, "shards": 32}}

TPOOL_RUN = {"harness": "htpool", "driver": "tpooldrv", "fields": None, "corpus": "conc-tpool",
             "quick": {"n": 120, "shards": 12}, "thorough": {"n": 1200, "shards": 32}}

# C05 through the websocket upgrade (seed C05-d / C14-d): hwscb's end-to-end cases on the paths where the HTTP handler
# that upgrades and the websocket callbacks share the conn's executor, with a slow handler and frames sent right behind
# the 101 response; direct oracle c05-overlap, plus the `exec=` field (executor installed by Upgrade, model:
# WsCb.execOf). Harness, driver and the retrying runner belong to the stop family (docs/stop.md).
# Round 6 (seed C05-g = C14-f): `hwscb gen -tier c05` also emits 4n gated callback cases with control frames (genCBCtl);
# checkLog reports c05-overlap / c05-fifo for them (websocket ping/pong handlers are jobs of the conn's queue).
from .props_stop import retry_run as _retry_run, WSCB_RUN as _WSCB_RUN  # noqa: E402
WSUP_RUN = {"harness": "hwscb", "driver": "wscbdrv", "corpus": "wscb-c05", "fields": _WSCB_RUN["fields"], "custom": _retry_run,
            "gen_args": ["-tier", "c05"], "quick": {"n": 6, "shards": 6}, "thorough": {"n": 24, "shards": 12}}

# C05 at Stop / Shutdown of the HTTP engine (seed C05-e): hstop's forced schedules with a request handler held by the
# harness while Stop / Shutdown closes its connection — the connection's close handling (CloseAndClean, OnClose, delete
# from engine.conns) is a MustExecute job of the conn's queue and must neither overlap that handler nor run before it
# has finished; direct oracles c05-overlap / c05-close-order (`hstop gen -tier c05`, corpus stopsim-c05).
from .props_stop import STOP_RUN as _STOP_RUN  # noqa: E402
HSIM_RUN = {"harness": "hstop", "driver": "stopdrv", "corpus": "stopsim-c05", "fields": _STOP_RUN["fields"], "custom": _retry_run,
            "gen_args": ["-tier", "c05"], "quick": {"n": 3, "shards": 6}, "thorough": {"n": 10, "shards": 12}}

# C05 at nbhttp's submission site for requests (seed C05-f): he2e's upgrade-behind-slow histories — a request with an
# Upgrade header pipelined right behind a request whose handler is still sleeping, on real nbhttp engines over loopback
# (nb / mx / bl x plain / TLS x lt|et|os|eta|osa, raw and nbhttp-client pipelining) — ServerProcessor.OnComplete must hand
# every request to the connection's job queue: direct oracles c05-overlap (two handlers of one connection at once, from
# the server-side in-flight counter) and c05-fifo (handler entry order = request order); `he2e gen -tier c05`, corpus
# e2e-c05; harness, driver (pipedrv: C10's Pipeline model predicts the answers) and retries belong to the e2e family.
E2EUP_RUN = {"harness": "he2e", "driver": "pipedrv", "corpus": "e2e-c05", "fields": None,
             "gen_args": ["-tier", "c05"], "quick": {"n": 10, "shards": 4, "timeout": 600}, "thorough": {"n": 30, "shards": 12, "timeout": 1200}}

PROPS = {
    "C05": {
        "manifest": {
            "text": "Lean theorems over all action sequences of a transition system that mirrors Conn.Execute/MustExecute/execute at "
                    "critical-section granularity (any number of drainer closures in the state; that there is at most one is proved): "
                    "one at a time, FIFO, exactly once, no lost job in the hand-over race, closed refuses / MustExecute accepts, a panic "
                    "is followed by the hand-over step, completion, close handler after all earlier jobs; the model is tied to the real "
                    "code by replaying generated schedules at the model's granularity (gated jobs, inline / goroutine / bounded-pool / "
                    "parking executors set through Engine.Execute) and comparing events, return values and queue lengths after the "
                    "implementation has become stable; a log-only oracle checks the property on the implementation alone",
            "note": "interleavings of the real code are not enumerated: Lean quantifies over all schedules of the model, the harness "
                    "replays chosen ones; atomicity of the model steps rests on the mutex structure of the three functions (checked on the "
                    "source by the cs predicates, not derived - incl. 'the drainer's drained test and list reset are one critical section', whose "
                    "violation is otherwise only met statistically by the drain-hammer op D); concurrent bursts are free-running: their run order is an input taken "
                    "from the implementation and validated by driver code (JobQMain.admissible: an order-preserving merge of the "
                    "submitters' sequences), not by a theorem; 'whichever executor' is proved for executors that eventually run what "
                    "they are given; the HTTP-handler side of 'handlers and callbacks never overlap' has no model of nbhttp's submission "
                    "sites (cs_nbhttp_close_routed + the oracle below); a second, end-to-end run "
                    "(hwscb -tier c05, owned by the stop family: real nbhttp engine on loopback, poller/blockparser upgrade paths in "
                    "lt|et|etos) checks the consequence 'HTTP handler and WebSocket callbacks of one connection never overlap' with "
                    "the oracle c05-overlap; its model side is C14's WsCb.execOf table (those paths use the same per-conn ExecQ); the same stream "
                    "contains poller-driven gated callback cases in which ping/pong frames (user-set handlers) arrive while a handler of the "
                    "same conn is still running: every callback is a job of the conn's queue (oracles c05-overlap, c05-fifo; model side "
                    "WsCb = ExecQ instance); a third run "
                    "(hstop -tier c05, stop family, seed C05-e) holds a request handler of a conn on a real nbhttp engine while Stop/Shutdown "
                    "closes that conn: the close handling must go through MustExecute and wait its turn (oracles c05-overlap, "
                    "c05-close-order; model side: C18's stop model, no ExecQ theorem is instantiated there); a fourth run "
                    "(he2e -tier c05, e2e family, seed C05-f) pipelines requests that carry an Upgrade header behind a request whose handler "
                    "is still running, on real nbhttp engines: every request must go through the connection's queue (oracles c05-overlap, "
                    "c05-fifo; model side: C10's Pipeline, which takes the queue as given — no ExecQ theorem is instantiated there either)",
            "technique": "Lean 4 proof (inductive invariant of a transition system) + schedule replay / differential correspondence"},
        "lean": ["NbioVerif.Properties.C05"], "drivers": ["jobqdrv", "wscbdrv", "stopdrv", "pipedrv"], "harness": ["hjobq", "hwscb", "hstop", "he2e"],
        "runs": [JOBQ_RUN, WSUP_RUN, HSIM_RUN, E2EUP_RUN],
        "cs": [cs_conc.cs_conn_submit, cs_conc.cs_conn_drainer, cs_conc.cs_conn_close_flip, cs_conc.cs_nbhttp_close_routed],
        "search": search_c05,
        "oracles": ["c05-"],
        "rule": "case = (executor kind, #conns, schedule of submit / spawn / finish(panic) / close / burst ops); distinct by hash of "
                "(config, per-op kind, conn, must, nested, closed, panic); non-trivial iff a job finished or a burst ran",
        "assumptions": ["a model step is atomic in the code: Execute/MustExecute/execute touch closed/jobList only under c.mux "
                        "(checked structurally on every run by the critical-section predicates, tools/csconc)",
                        "the executor eventually runs what it is given (scheduler fairness)"],
    },
    "C19": {
        "manifest": {
            "text": "Lean theorems over all action sequences of a transition system whose steps are the atomic adds, channel operations "
                    "and task boundaries of TaskPool.fork/Go/worker loop/dispatcher/Stop: running <= bound, conservation (every task handed "
                    "over is in exactly one of in-flight/queued/running/done/dropped), idle => counter = 0 and fresh barrier capacity, panic "
                    "contained; timer.Async is an instance of the C05 job-queue system (FIFO, exactly once). The model is tied to the real "
                    "pool by replaying generated schedules with gated tasks (overload bursts, full queue, Go calls parked inside the atomic "
                    "hook, Stop) and checking that every stable state the implementation reaches is a stable successor state of the model; "
                    "bound / exactly-once / panic / barrier-capacity oracles run on the implementation alone",
            "note": "interleavings of the real code are not enumerated (Lean quantifies over the model's schedules, the harness replays "
                    "chosen ones); 'every task handed over before Stop runs exactly once' is proved with Stop included "
                    "(c19_completes, c19_handed_before_stop_runs; the former finding C19-stop-drop is repaired: the dispatcher drains the "
                    "queue when it takes <-chClose) for every task whose Go call had RETURNED before Stop closed the pool; a Go call that "
                    "races or follows Stop may drop its task or leave it in the queue behind the returned dispatcher (ghost inflight, "
                    "c19_lost_only_racing_stop) - that is outside the property text; liveness is 'a finite continuation of the pool's own "
                    "steps exists + every such step decreases a measure' (fair scheduler, terminating tasks); oracle only: "
                    "IOTaskPool buffer exclusivity/size (c19-iobuf), the custom-caller variant of New (run against the same model, its wrapper "
                    "is not modelled), that caller's recover covers worker and dispatcher (c19-panic); the parallelism "
                    "theorem (c19_parallelism_new) gives n-1 simultaneous tasks for New(n, q) (n-2 workers + the dispatcher), not n; TaskPool.Call (caller(f) inline) is in the model with theorems (c19_call_accepts / _ends / _outside_bound: never refuses, not subject to the bound, covered by conservation / exactly-once / completion) but the correspondence does not exercise it yet (no htpool op: that Call is caller(f) rests on reading the source); the driver accepts any stable "
                    "successor state of the model (belief set), queue order is observed only through later start order",
            "technique": "Lean 4 proof (inductive invariants of a transition system) + schedule replay / differential correspondence"},
        "lean": ["NbioVerif.Properties.C19"], "drivers": ["tpooldrv", "jobqdrv"], "harness": ["htpool", "hjobq"],
        "runs": [TPOOL_RUN, JOBQ_RUN],
        "cs": [cs_conc.cs_timer_async, cs_conc.cs_taskpool_counter],
        "oracles": ["c19-"],
        "rule": "case = (bound, queue size, IO wrapper?, schedule of go(park) / release / finish(panic) / stop / barrier probe); distinct by "
                "hash of (config, per-op kind, park mode, #running, panic); non-trivial iff the queue or a blocked Go call was observed, a "
                "parked call was released, Stop happened or the barrier probe ran; plus the hjobq stream (timer.Async cases)",
        "assumptions": ["a model step is atomic in the code (atomic adds, channel operations)",
                        "goroutine scheduling is fair; channel and select semantics of the Go runtime as modelled",
                        "bound >= 1 for the bound theorem (taskpool.New(0, ..) still runs one task at a time on the dispatcher)"],
    },
    "C20": {
        "manifest": {
            "text": "Lean theorems on an abstract-heap model of the three mempool allocators (regions, handles, sync.Pool as a bag with the "
                    "Get choice and Go's append growth as inputs): lengths, content preservation, pairwise disjointness of live regions "
                    "and the frame property, for every op sequence, pool choice and growth; the model is tied to the real allocators by "
                    "differential execution of random Malloc/Append/AppendString/Realloc/Free programs (len, cap, content and stale-byte "
                    "fingerprints compared), and len/content/alias/frame oracles run on the implementation alone",
            "note": "model fidelity is sampled; sync.Pool and the Go allocator are modelled as inputs (pool choice recovered from pointer "
                    "identity / backing-array addresses), so cap after a growth is an echo of the observed capacity; oracle only: concurrent use "
                    "(P programs; the aligned allocator's package-level pools shared between instances are one bag per case in the model) "
                    "and address-level disjointness (the model's handle is (region, len) at offset 0: that the allocators never return an "
                    "interior slice is checked by c20-alias, not proved); the content of the bytes added by Realloc is unspecified; FOREIGN "
                    "buffers (not handed out by the allocator: nil / empty slices, odd capacities, capacities above the thresholds, "
                    "capacities that are a class size) are part of the programs (op G / Op.foreign) for all three allocators - the aligned "
                    "allocator pools a foreign buffer whose capacity is a class size (by design) and, after the repair, ignores cap 0 "
                    "(c20_pooled_class_cap); a foreign capacity that is a multiple of 32 but not a class size (96) is outside the contract "
                    "(c20_aligned_foreign_cap_counterexample) and rejected by model and generator",
            "technique": "Lean 4 proof (heap invariant by induction over op sequences) + differential correspondence"},
        "lean": ["NbioVerif.Properties.C20", srcgen.BRIDGE_ALLOC], "drivers": ["allocdrv"], "harness": ["halloc"],
        "facts": [srcgen.src_facts],
        "runs": [ALLOC_RUN],
        "oracles": ["c20-"],
        "rule": "case = (allocator, MemPool sizes, program of 8-50 ops over up to 6 live handles); distinct by hash of (allocator, sizes, "
                "per-op kind, size bucket, moved?, pool origin); non-trivial iff a pooled buffer was reused or a buffer moved",
        "assumptions": ["sync.Pool returns only what was put or New() (its choice is an input of the model)",
                        "clients are well formed: no use of a handle after Free/Realloc/Append returned another one, no double free, "
                        "only buffers obtained from the same allocator are freed"],
    },
}
