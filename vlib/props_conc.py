"""Concurrency / executor / allocator family: C05, C19, C20."""

ALLOC_RUN = {"harness": "halloc", "driver": "allocdrv", "fields": None, "corpus": "conc-alloc",
             "quick": {"n": 400, "shards": 12}, "thorough": {"n": 4000, "shards": 32}}

PROPS = {
    "C20": {
        "manifest": {
            "text": "Lean theorems on an abstract-heap model of the three mempool allocators (regions, handles, sync.Pool as a bag with the "
                    "Get choice and Go's append growth as inputs): lengths, content preservation, pairwise disjointness of live regions "
                    "and the frame property, for every op sequence, pool choice and growth; the model is tied to the real allocators by "
                    "differential execution of random Malloc/Append/AppendString/Realloc/Free programs (len, cap, content and stale-byte "
                    "fingerprints compared), and len/content/alias/frame oracles run on the implementation alone",
            "note": "model fidelity is sampled; sync.Pool and the Go allocator are modelled as inputs (pool choice recovered from pointer "
                    "identity / backing-array addresses); concurrent programs are a supporting oracle-only stream",
            "technique": "Lean 4 proof (heap invariant by induction over op sequences) + differential correspondence"},
        "lean": ["NbioVerif.Properties.C20"], "drivers": ["allocdrv"], "harness": ["halloc"],
        "runs": [ALLOC_RUN],
        "oracles": ["c20-"],
        "rule": "case = (allocator, MemPool sizes, program of 8-50 ops over up to 6 live handles); distinct by hash of (allocator, sizes, "
                "per-op kind, size bucket, moved?, pool origin); non-trivial iff a pooled buffer was reused or a buffer moved",
        "assumptions": ["sync.Pool returns only what was put or New() (its choice is an input of the model)",
                        "clients are well formed: no use of a handle after Free/Realloc/Append returned another one, no double free, "
                        "only buffers obtained from the same allocator are freed"],
    },
}
