"""Deadlines, Stop/Shutdown, WebSocket callback order and write atomicity: C16, C18, C14.

All three are "proof on the model, partial": the theorems quantify over every interleaving of the model's steps;
Go timer semantics, goroutine/descriptor release and the upgrade paths are measured / sampled, not proved.
"""
import os
import time

from . import core, cs_stop


def _sharded_run(sc, rs, gen_args, nshards, seed, corpus, timeout):
    """core.diff_run's sharding with one difference: a shard whose executor or driver output is INCOMPLETE (non-zero exit
    status, fewer annotated ops than ops given, a line-count mismatch) is a failure of the harness run, not an
    observation about the tree: it is run once more; only if the second run is incomplete as well it is reported -
    as harness-crash. Its shard-level pseudo-disagreement (first_diff_line < 0) never becomes a violation."""
    from concurrent.futures import ThreadPoolExecutor
    exe = sc.exe(rs["harness"])
    fields = rs.get("fields")

    def once(i):
        if i < 0:
            ops_text = corpus
        else:
            p = core.run([exe, "gen", "-seed", str(seed * 1000 + i)] + gen_args, timeout=timeout)
            if p.returncode != 0:
                raise RuntimeError("generator failed: " + p.stderr[-2000:])
            ops_text = p.stdout
        rc, impl_out, impl_err = core.exec_ops(exe, ops_text, timeout=timeout, args=rs.get("exec_args", ()))
        ann = [l[2:] for l in impl_out.split("\n") if l.startswith("> ")]
        rest = "\n".join(l for l in impl_out.split("\n") if not l.startswith("> "))
        ann_text = "\n".join(ann) + "\n"
        mrc, model_out, model_err = core.model_ops(rs["driver"], ann_text, timeout=timeout)
        r = core.compare(ann_text, rest, model_out, fields, shard=i)
        n_in = sum(1 for l in ops_text.split("\n") if l)
        why = []
        if rc != 0:
            why.append("executor rc=%s: %s" % (rc, impl_err[-1500:]))
        if mrc != 0:
            why.append("driver rc=%s: %s" % (mrc, model_err[-1500:]))
        if len(ann) != n_in:
            why.append("executor echoed %d of %d op lines" % (len(ann), n_in))
        shardlevel = [d for d in r.disagreements if d.get("first_diff_line", -1) < 0]
        for d in shardlevel:
            why.append(d.get("note") or "shard-level mismatch")
        r.disagreements = [d for d in r.disagreements if d.get("first_diff_line", -1) >= 0]
        return r, why

    def one(i):
        r, why = once(i)
        if why:
            r2, why2 = once(i)
            r2.stats.setdefault("retry", {})["shards_rerun"] = 1
            if why2:
                r2.crashes.append({"shard": i, "note": "incomplete harness output on two runs of the shard",
                                   "first": why[:3], "second": why2[:3]})
            return r2
        return r

    total = core.DiffResult()
    t0 = time.time()
    idx = ([-1] if corpus else []) + list(range(nshards))
    with ThreadPoolExecutor(max_workers=core.NCPU) as ex:
        for r in ex.map(one, idx):
            total.merge(r)
    total.wall = time.time() - t0
    return total


def retry_run(sc, rs, tier, seed):
    """Differential run for checks that depend on real time or real scheduling: a case that fails (disagreement or
    direct oracle) is re-executed; it is reported only if it fails on every one of three re-runs (DESIGN 2.6).
    A failure that is a property of the tree (early fire, stale timer, lost close) fails every time; a scheduling
    hiccup of a loaded machine does not."""
    par = rs[tier] if tier in rs else rs["quick"]
    gen_args = ["-n", str(par["n"]), "-tier", tier] + rs.get("gen_args", [])
    corpus = core.load_corpus(rs["corpus"]) if rs.get("corpus") else None
    r = _sharded_run(sc, rs, gen_args, par["shards"], seed, corpus, par.get("timeout", 1500))
    retries = rs.get("retries", 3)

    def persists(case_ops, want_oracle):
        # strip the executor's annotations: a re-run observes its own times
        ops = [" ".join(t for t in l.split(" ") if not t.startswith(("at=", "at2=", "st=", "post=", "env=", "rd=")))
               for l in case_ops]
        text = "\n".join(ops) + "\n"
        for _ in range(retries):
            rc, impl_out, _ = core.exec_ops(sc.exe(rs["harness"]), text, timeout=300, args=rs.get("exec_args", ()))
            ann = [l[2:] for l in impl_out.split("\n") if l.startswith("> ")]
            rest = "\n".join(l for l in impl_out.split("\n") if not l.startswith("> "))
            ann_text = "\n".join(ann) + "\n"
            _, model_out, _ = core.model_ops(rs["driver"], ann_text, timeout=120)
            rr = core.compare(ann_text, rest, model_out, rs.get("fields"))
            bad = bool(rr.oracle_failures) if want_oracle else bool(rr.disagreements)
            if not bad and rc == 0:
                return False
        return True

    import re
    from concurrent.futures import ThreadPoolExecutor
    known = core.load_known().get("findings", [])

    def is_known(o):
        # failures that are listed known findings are deterministic by construction: no need to re-run them
        def one(rep):
            m = re.search(r"oracle=(\S+)", rep)
            name = m.group(1) if m else "?"
            return any(k.get("oracle") == name and re.search(k.get("signature", "$^"), rep) for k in known)
        return all(one(rep) for rep in o["reports"])

    # EVERY disagreement is re-run before it is reported (shard-level ones - truncated or missing output,
    # first_diff_line < 0 - never get here: _sharded_run re-runs the shard and, if it fails again, reports a
    # harness-crash, not a correspondence violation)
    dis = [(d, True) for d in r.disagreements]
    ora = [(o, not is_known(o)) for o in r.oracle_failures]
    # Re-running is for telling a hiccup from a property of the tree. When the first `probe` failing cases all
    # persist, the tree is broken and the remaining failures are kept without spending minutes on re-runs.
    probe = rs.get("retry_probe", 8)

    def confirm(items, want_oracle):
        todo = [i for i, (_, need) in enumerate(items) if need]
        keep = [True] * len(items)
        head, tail = todo[:probe], todo[probe:]
        with ThreadPoolExecutor(max_workers=max(2, core.NCPU)) as ex:
            res = list(ex.map(lambda i: persists(items[i][0]["ops"], want_oracle), head))
            for i, k in zip(head, res):
                keep[i] = k
            if tail and not all(res):
                res2 = list(ex.map(lambda i: persists(items[i][0]["ops"], want_oracle), tail))
                for i, k in zip(tail, res2):
                    keep[i] = k
        return keep

    dres = confirm(dis, False)
    ores = confirm(ora, True)
    dropped = dres.count(False) + ores.count(False)
    r.disagreements = [d for (d, _), keep in zip(dis, dres) if keep]
    r.oracle_failures = [o for (o, _), keep in zip(ora, ores) if keep]
    r.stats.setdefault("retry", {})["transient_failures_dropped"] = dropped
    return r


DL_RUN = {"harness": "hdeadline", "driver": "dldrv", "corpus": "deadline", "fields": ["st", "post", "overdue", "rt", "wt", "bl", "rdl"], "custom": retry_run,
          "quick": {"n": 40, "shards": 12, "timeout": 240}, "thorough": {"n": 96, "shards": 24, "timeout": 600}}

STOP_RUN = {"harness": "hstop", "driver": "stopdrv", "corpus": "stopsim", "fields": ["stop", "opens", "closes", "qa", "qb", "online", "ha", "hb", "wa", "wb", "got", "ra", "rb", "ret", "leak", "attempts", "dialerrs", "panics"] + ["c%d" % i for i in range(64)],
            "custom": retry_run, "quick": {"n": 30, "shards": 12}, "thorough": {"n": 120, "shards": 24}}

WSCB_RUN = {"harness": "hwscb", "driver": "wscbdrv", "corpus": "wscb", "fields": ["log", "run", "ret", "sent", "wire", "ql", "rets", "groups", "whole", "exec"],
            "custom": retry_run, "quick": {"n": 40, "shards": 12}, "thorough": {"n": 150, "shards": 24}}

PROPS = {
    "C14": {
        "manifest": {
            "text": "Lean theorems on (A) the composition of the per-message receive steps with the connection's job queue (C05's "
                    "ExecQ itself, bridge c14_queue_is_execq): completed jobs = prefix of open . msg0..msgk . close, complete "
                    "when no drainer is left, strictly serial start/end log (every callback ends before the next starts; "
                    "the open callback has completed before any message callback starts), close exactly once and last, "
                    "nothing twice, no ws callback at all when the upgrade fails because the conn was closed first; which executor "
                    "Upgrade installs per scenario and epoll mode is a decision table (execOf): every poller-driven scenario uses "
                    "the conn's job queue in every mode, SyncExecutor only on transferred ET+ONESHOT or blocking conns "
                    "(compared end to end through the exec= field on LT / ET / ET+ONESHOT engines); (B) the writer model (direct "
                    "mode and the asynchronous send queue with its drainer, bound, failures and CloseAndClean): for every "
                    "interleaving the conn's frame stream is a prefix of the concatenation of the whole frame groups of the calls "
                    "that returned nil, each at most once, exactly that concatenation when idle and alive; tied to the code by "
                    "gated callbacks / gated conn writes on real websocket.Conn objects and an end-to-end tier over the four "
                    "upgrade paths",
            "note": "proof on the model, partial: the upgrade paths other than the poller-driven one are sampled over real "
                    "sockets, not modelled (except the transferred path's open race, refuted by "
                    "c14_transfer_open_race_counterexample = known finding C14-transfer-open-race); the conn below the ws layer "
                    "accepts a frame whole or fails (C01); the bounded send queue's partial-message defect is repaired by a fix: "
                    "commit (c14_bounded_queue_partial_counterexample documents the pinned behaviour). Not proved / not covered: "
                    "that all fragments of one WriteMessage are written inside a single hold of the ws mutex is not proved: it is "
                    "the model's step granularity, tied by lock-set predicates, by the statement-order predicate "
                    "ws_writemessage_single_hold_across_fragments (one Lock, only the deferred Unlock, nothing between the first "
                    "and the last writeFrame call; writeFrame's own body never touches the mutex) and by the wd oracle; that the "
                    "close job is submitted once per connection is assumed from C03/C18; wire order presupposes a single Parse "
                    "caller per connection (C02); the driver applies flip+notify, finish+next and send+advance as units "
                    "(interleavings inside these pairs are covered by the theorems only, not executed); e2e cases compare "
                    "summaries (callback log, groups, whole, exec); the ownership of the send queue's frame buffers is not in the "
                    "model (SendQ has call ids and fragments): the writer cases run on a tracking allocator whose verdicts (double "
                    "free, free of a non-live buffer, write after release) are reported as c14-lost-dup; wd cases read the order of the critical sections back from "
                    "the implementation's wire; the second conjunct of c14_failed_upgrade_no_callbacks is definitional; the TLS "
                    "upgrade scenarios (2.x) are not run end to end (decision table + source predicate only)",
            "technique": "Lean 4 proof (invariants over two transition systems, one of them embedding C05's ExecQ) + differential "
                         "correspondence with gates at the model's step granularity + sampled real-socket runs"},
        "lean": ["NbioVerif.Properties.C14"], "drivers": ["wscbdrv"], "harness": ["hwscb"], "cs": cs_stop.C14_CS,
        "runs": [WSCB_RUN],
        "oracles": ["c14-"],
        "rule": "cb case = schedule of upgrade / message arrival / close / callback release (normally or with a panic of the message "
                "handler, which nbio recovers) on the real poller-driven path, then everything owed must arrive; wq case "
                "= schedule of WriteMessage calls (1-5 fragments, boundary lengths), drainer conn writes (ok/error) and "
                "CloseAndClean with queue bound 0/2/3/5; wd case = 2-8 concurrent direct-mode callers with an optional failing "
                "conn write; e2e case = upgrade path x send mode x (messages, writers, size); distinct by hash of the schedule "
                "string and outcome; non-trivial iff >= 2 submitters (calls / messages)",
        "assumptions": ["Parse is called by one goroutine at a time per connection (poller or the single read task: C02)",
                        "the connection's job queue is C05's ExecQ (instance conn): WsCb embeds ExecQ.St and every step performs "
                        "one ExecQ.step (c14_queue_is_execq); C05's correspondence ties ExecQ to Conn.Execute/MustExecute",
                        "the close job is submitted once per connection (C03/C18: close callback exactly once)",
                        "WriteMessage is one step of SendQ: that all fragments are written inside one hold of the ws mutex is "
                        "the predicates ws_writemessage_locked / ws_writeframe_only_under_lock plus the wd oracle under "
                        "concurrent callers, not a refinement proof",
                        "wd cases: the order of the critical sections (order=) is read from the implementation's wire; e2e "
                        "cases compare the callback log and (whole, groups) summaries",
                        "a client does not send frames before it has received the 101 response",
                        "scheduling-dependent observations are re-run 3 times before they are reported"],
    },
    "C18": {
        "manifest": {
            "text": "Lean theorems on the Stop model (M4+Stop: addConn's three separate statements, dials, transferred conns, closes "
                    "by anyone, the Async FIFO, Stop's step sequence with the table scanned slot by slot) over every "
                    "interleaving: wait-group = 1 + opens - finished close callbacks and never negative, close callback exactly "
                    "once, every conn in the table at the snapshot is closed and notified before Wait returns, every internal "
                    "step decreases a measure, Stop is never stuck unless a registration raced the snapshot "
                    "(c18_stop_progress_partial; full strength refuted by c18_stop_progress_counterexample = defect #11); tied to "
                    "the code by gated scenarios on real engines compared state by state with the model, plus real-socket "
                    "Stop/Shutdown runs under a watchdog with close-count, goroutine and descriptor census. HTTP engine "
                    "(Model/HttpStop): engine.conns bookkeeping over every interleaving of add paths (non-blocking, blocking, "
                    "transferred), closes, close jobs, closeAllConns, Stop and Shutdown's polling loop: in the map iff inserted "
                    "once and not deleted, every exit path deletes exactly once (transferred => deleted), per-conn progress + "
                    "rank, Stop's statement order, executor stopped only after every registered conn's close job was submitted, "
                    "Shutdown returns nil iff the map drains, wgConn count held only by open registered conns (repaired tree; "
                    "pinned counterexamples for the closeAllConns/AddConn race and the late accept). lmux (Model/Lmux): every "
                    "accepted conn in exactly one place, A budget, Stop hands out or closes everything and unblocks every "
                    "goroutine (pinned counterexample: queued conns stranded). Tied to the code by forced schedules on a real "
                    "nbhttp engine (gated OnOpen, gated listener) and a real ListenerMux with loopback conns, compared with the "
                    "models after every op",
            "note": "proof on the model, partial. Core engine: 'Stop returns' is c18_stop_returns (from a settled state without "
                    "a registration racing the snapshot, every maximal run of engine-internal steps ends returned; runs are "
                    "bounded by the measure) — it lets only engine-internal steps run after its starting state, closes racing "
                    "Stop after that point are covered by the piecewise lemmas (accounting, progress, measure), not by the "
                    "assembled theorem; with a registration racing the snapshot Stop hangs (known finding "
                    "C18-onopen-outlives-snapshot). The core engine's Shutdown is modelled as Stop (its context select is not "
                    "modelled). For the HTTP engine 'Stop / Shutdown returns nil' is one theorem from the point where every conn "
                    "is settled (c18_http_stop_returns_when_settled: the remaining statements all run, result nil), and "
                    "c18_http_stop_returns_fair with this exact scope: repaired tree only; the start state is ASSUMED to be "
                    "Swept (every conn's socket closed, no close job dropped) - no lemma derives Swept from the sweep step "
                    "(c18_http_sweep_closes_all covers the conns in the map only; a conn mid-add-path at the sweep is "
                    "excluded); the continuation consists of conn steps only (no accept, tick, further sweep or ctxExpire: "
                    "Shutdown's context stays live); quiescence of the end state and fairness are hypotheses on the schedule "
                    "(not proved to be reached; at most 11 own steps per conn); the core engine's Stop is three abstract steps "
                    "there (coreBegin/coreWaited/coreFinish), not refined to StopM, so c18_stop_returns' exclusions are neither "
                    "used nor inherited; dropped close jobs and the pinned tree are outside. The case kinds fdlimit and ioblock "
                    "of hstop are not model-checked at all: their driver lines are constants written in the driver, no step of "
                    "StopM / HttpStop / Lmux runs and no theorem applies to them - they are judged by direct oracles (watchdog, "
                    "panic, close-count, census) and, for fdlimit, two source predicates only. "
                    "Listener accepts, dials, in-flight writes and pending timers occur only in the real-engine "
                    "tier, where the model receives the observed opened/closed counts as inputs; that a stopped listener accepts "
                    "nothing further is observed in the real tier only (HttpStop: accept is disabled once the listeners are "
                    "closed; hsim: the late accept); the DialAsync registration-failure path is not a step of the model "
                    "(executed under C03's dialx, not under Stop; tied here by two predicates and a pinned counterexample). "
                    "The sim tier compares collapsed phases (opening/live/closed/done + table bit), applies flip+teardown as a "
                    "unit and does not compare wg/asyncQ/raced/snapIn. Release of poller/listener/executor goroutines and of "
                    "descriptors is measured (one-sided census with settle time), not proved",
            "technique": "Lean 4 proof (invariants + termination measure over three transition systems: core Stop, HTTP engine, "
                         "listener mux) + differential correspondence with gated callbacks and forced schedules + real-engine "
                         "runs under a watchdog"},
        "lean": ["NbioVerif.Properties.C18", "NbioVerif.Properties.C18Http"], "drivers": ["stopdrv"], "harness": ["hstop"], "cs": cs_stop.C18_CS,
        "runs": [STOP_RUN],
        "oracles": ["c18-"],
        "rule": "sim case = op sequence (add, gated new/release, close, eof, hold/release of the close callback, stop) on a "
                "real engine with virtual descriptors, compared with the model after every op; real case = engine config "
                "(core/http, epoll mode, I/O mode, pollers, listeners) x activity mix (accepts, dials, backlogs, timers, "
                "concurrent closers) x stop|shutdown; distinct by hash of (config, op sequence, final state); non-trivial iff "
                ">= 1 conn existed; lmux case = maxOnlineA x op sequence (dial, takeA/B with blocked consumers, dec, stop) on a "
                "real ListenerMux; hsim case = nbhttp I/O mode x forced schedule (conn gated inside OnOpen, release, peer close, "
                "conn accepted after the shutdown flag, request handler held while the conn is closed, stop|shutdown, wait); "
                "ioblock case = Stop racing a read hand-over to the default IO task pool (ET + AsyncReadInPoller): the poller is held "
                "inside TaskPool.Go by the shim's atomic hook until Stop has stopped the pool (state established by probing); "
                "fdlimit case = table limit (MaxOpenFiles 16/32/64, low descriptor numbers padded) x dials x accepts refused at "
                "the door x stop|shutdown",
        "assumptions": ["the Async queue is a plain FIFO list in the model; that timer.Async is one (FIFO, exactly once, completes) is "
                        "C19's c19_async_fifo_exactly_once / c19_async_completes on ExecQ with Kind.async",
                        "HttpStop: closeAllConns is one atomic step (whole loop under engine.mux; its single Close calls touch "
                        "only their own conn and commute with other conns' steps); the executor pool is not saturated (a job "
                        "submitted before onStop runs); lmux: the 65536-slot event channels do not fill up",
                        "hsim / lmux results are read after a settle time (state unchanged for 60 ms, 650 ms while a Shutdown is "
                        "polling): a slower machine only makes the case slower",
                        "user handlers closing the conn inside OnOpen are outside the model (lifecycle, C03)",
                        "goroutine/descriptor release: runtime facts, measured with a settle time of up to 5 s",
                        "fair scheduling of the engine's own goroutines (acceptor continuation, Async drainer, pollers)",
                        "the user's OnOpen/OnClose/OnStop handlers return (a handler that blocks for ever blocks Stop by design)",
                        "real-engine cases: the numbers of registered and already closed conns (opened=/closed=) are "
                        "read from the implementation and given to the model, which then predicts Stop's outcome and the "
                        "final counts; they are inputs, not compared outputs",
                        "DialAsync's addDialer-failure path is executed under C03's dialx (hlife), not under Stop by hstop; "
                        "for C18 it is tied by the predicates adddialer_failure_detaches_conn / "
                        "dial_add_before_register_single_done and c18_dialfail_pinned_counterexample"],
    },
    "C16": {
        "manifest": {
            "text": "Lean theorems on the Deadline model M8 (logical clock, per-direction timer, two-step fire so that a renewal "
                    "racing the callback is representable) over every op/tick/fire/callback sequence: a timeout close stems from "
                    "a timer fired at a tick >= the deadline in force (c16_never_early), a renewal postpones "
                    "(c16_renew_postpones), no stale timer after clear / draining write or flush / close (c16_no_stale + "
                    "*_ends_force), first cause wins, a due deadline is enabled to fire; tied to the code by real-timer "
                    "scenarios on real conns (order/occurrence of events compared, never raw times) and four direct oracles",
            "note": "proof on the model, partial: Go's time.Timer contract (fire not before its duration, Stop/Reset) and the "
                    "bounded lateness of firing are measured (one-sided, generous bound, 3 re-runs), not proved; HTTP/WS "
                    "keep-alive through real engines is sampled in the thorough tier; defect #20 (write timer survives a "
                    "backlog drained by flush) is repaired by a fix: commit, the model describes the repaired code and "
                    "c16_pinned_stale_counterexample documents the pinned behaviour; which error value a timer's closure carries "
                    "(fixed when the timer object is created; Reset keeps it) is not in the model: it is tracked by the driver and "
                    "checked by c16-error-kind; never-early in real time and closing within a bounded time rest on the timer "
                    "contract and the oracles; keep-alive renewals are compared at the op (the expiry the timer is armed for is "
                    "read from the runtime timer object through a version-dependent, self-checked hook: rd= / rdl=, oracle "
                    "c16-renewal) and, as a second line, sampled in real time",
            "technique": "Lean 4 proof (invariant over a transition system with ghost 'deadline in force') + differential "
                         "correspondence on real timers"},
        "lean": ["NbioVerif.Properties.C16"], "drivers": ["dldrv"], "harness": ["hdeadline"], "cs": cs_stop.C16_CS,
        "runs": [DL_RUN],
        "oracles": ["c16-"],
        "rule": "case = op sequence with planned offsets (set/renew/clear/both, writes and flushes with scripted kernel "
                "answers, close, deadlines 40-300 ms, delays at fractions of / around / after the nearest deadline); distinct by "
                "hash of (op sequence, observed kind before/after each op); non-trivial iff a renew or clear ran before expiry",
        "assumptions": ["Go runtime timers: AfterFunc/Reset fire not before their duration; Stop/Reset cancel an unfired timer "
                        "(modelled, checked one-sidedly by c16-early / c16-stale on every run)",
                        "deadlines are taken at their earliest possible value (time before the call + duration) and "
                        "observations at the time the close notification ran, so 'early' is exact and never a false alarm",
                        "'fires' is checked within a generous bound (300-600 ms) and a failing case is re-run 3 times"],
    },
}
