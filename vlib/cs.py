"""Critical-section predicates (DESIGN 2.4c) over the lock-set facts of tools/csfacts.

A predicate is built with `pred(...)` and evaluated on the scratch copy of the repository. It is the
tie for what sequential differential execution cannot see: that a model step is atomic in the code.
Predicates are deliberately coarse (must-hold lock sets per field access / call), so that harmless
refactors rarely break them; a broken predicate is reported as a broken tie."""
import json
import os
import subprocess

from . import core

_cache = {}


def facts(sc, relfile):
    key = (sc.dir, relfile)
    if key not in _cache:
        exe = os.path.join(core.VERIF, "tools", "bin", "csfacts")
        if not os.path.exists(exe):
            core.build_tools()
        p = subprocess.run([exe, os.path.join(sc.dir, "nbio", relfile)], stdout=subprocess.PIPE, stderr=subprocess.PIPE, text=True)
        if p.returncode != 0:
            raise core.TieBroken("csfacts failed on " + relfile, p.stderr[-1000:])
        _cache[key] = json.loads(p.stdout)
    return _cache[key]


def pred(name, relfile, func, guarded=None, unheld_calls=None, held_calls=None, no_go=False, exactly_go=None,
         closure=None, must_access=None):
    """guarded: {mutex: [field exprs]}  every access to the field inside `func` happens with mutex held
    unheld_calls: {mutex: [call exprs]} these calls are made with the mutex NOT held (and must exist)
    held_calls:   {mutex: [call exprs]} these calls are made with the mutex held (and must exist)
    no_go / exactly_go: number of `go` statements
    must_access: [field exprs] that must be accessed at all (guards against a vacuous predicate)"""
    def check(sc):
        fs = facts(sc, relfile)
        if func not in fs:
            return False, "function %s not found in %s" % (func, relfile)
        fl = fs[func]
        if closure is not None:
            fl = [f for f in fl if f["closure"] == closure]
        problems = []
        for mutex, fields in (guarded or {}).items():
            for fld in fields:
                acc = [f for f in fl if f["kind"] == "access" and f["expr"] == fld]
                if not acc:
                    problems.append("%s: no access to %s (predicate vacuous)" % (func, fld))
                for f in acc:
                    if mutex not in f["held"]:
                        problems.append("%s: %s %s at line %d without %s held" % (func, "write of" if f.get("write") else "read of", fld, f["line"], mutex))
        for mutex, calls in (unheld_calls or {}).items():
            for c in calls:
                cs_ = [f for f in fl if f["kind"] == "call" and f["expr"] == c]
                if not cs_:
                    problems.append("%s: call %s not found" % (func, c))
                for f in cs_:
                    if mutex in f["held"]:
                        problems.append("%s: call %s at line %d made with %s held" % (func, c, f["line"], mutex))
        for mutex, calls in (held_calls or {}).items():
            for c in calls:
                cs_ = [f for f in fl if f["kind"] == "call" and f["expr"] == c]
                if not cs_:
                    problems.append("%s: call %s not found" % (func, c))
                for f in cs_:
                    if mutex not in f["held"]:
                        problems.append("%s: call %s at line %d made without %s held" % (func, c, f["line"], mutex))
        ngo = len([f for f in fs[func] if f["kind"] == "go"])
        if no_go and ngo:
            problems.append("%s: %d go statements, expected none" % (func, ngo))
        if exactly_go is not None and ngo != exactly_go:
            problems.append("%s: %d go statements, expected %d" % (func, ngo, exactly_go))
        for fld in must_access or []:
            if not [f for f in fl if f["kind"] == "access" and f["expr"] == fld]:
                problems.append("%s: no access to %s" % (func, fld))
        return (not problems), "; ".join(problems)
    check.__name__ = name
    return check


# ---- predicates per model step (DESIGN 5.1)

JOBQ = [
    pred("execute_submit_atomic", "conn.go", "nbio.Conn.Execute",
         guarded={"recv.mux": ["recv.closed", "recv.jobList"]}, unheld_calls={"recv.mux": ["recv.execute"]}, no_go=True),
    pred("mustexecute_submit_atomic", "conn.go", "nbio.Conn.MustExecute",
         guarded={"recv.mux": ["recv.jobList"]}, unheld_calls={"recv.mux": ["recv.execute"]}, no_go=True),
    pred("execute_next_atomic_job_unlocked", "conn.go", "nbio.Conn.execute",
         guarded={"recv.mux": ["recv.jobList"]}, unheld_calls={"recv.mux": ["job"]}, no_go=True),
]

ASYNC = [
    pred("timer_async_atomic", "timer/timer.go", "timer.Timer.Async",
         guarded={"recv.asyncMux": ["recv.asyncList"]}, unheld_calls={"recv.asyncMux": ["f"]}, exactly_go=1),
]


def callers_hold(name, relfile, callee, mutex, allow_funcs=()):
    """every call of `callee` in any function of the file is made with `mutex` held
    (functions listed in allow_funcs are exempt: they are themselves only called under the lock)"""
    def check(sc):
        fs = facts(sc, relfile)
        problems, n = [], 0
        for fn, fl in fs.items():
            if fn in allow_funcs:
                continue
            for f in fl:
                if f["kind"] == "call" and f["expr"] == callee:
                    n += 1
                    if mutex not in f["held"]:
                        problems.append("%s: call %s at line %d without %s held" % (fn, callee, f["line"], mutex))
        if n == 0:
            problems.append("no call of %s found in %s (predicate vacuous)" % (callee, relfile))
        return (not problems), "; ".join(problems)
    check.__name__ = name
    return check


# Conn write path: one model step = one mutex-protected method body
WRITE = [
    pred("write_atomic", "conn_unix.go", "nbio.Conn.Write", closure=0,
         guarded={"recv.mux": ["recv.closed", "recv.writeList", "recv.wTimer"]},
         held_calls={"recv.mux": ["recv.write", "recv.modWrite"]}, unheld_calls={"recv.mux": ["recv.closeWithErrorWithoutLock"]}),
    pred("writev_atomic", "conn_unix.go", "nbio.Conn.Writev", closure=0,
         guarded={"recv.mux": ["recv.closed", "recv.writeList", "recv.wTimer"]},
         held_calls={"recv.mux": ["recv.writev", "recv.modWrite"]}, unheld_calls={"recv.mux": ["recv.closeWithErrorWithoutLock"]}),
    pred("flush_atomic", "conn_unix.go", "nbio.Conn.flush", closure=0,
         guarded={"recv.mux": ["recv.closed", "recv.writeList"]}),
    pred("sendfile_atomic", "sendfile_unix.go", "nbio.Conn.Sendfile", closure=0,
         guarded={"recv.mux": ["recv.closed", "recv.writeList"]}, held_calls={"recv.mux": ["recv.newToWriteFile", "recv.modWrite"]}),
]

# closed flag: test-and-set inside one locked region; teardown by the flipper after the unlock
CLOSE = [
    pred("close_test_and_set", "conn_unix.go", "nbio.Conn.closeWithError", closure=0,
         guarded={"recv.mux": ["recv.closed", "recv.rTimer", "recv.wTimer"]}, unheld_calls={"recv.mux": ["recv.closeWithErrorWithoutLock"]}),
    pred("read_checks_closed_locked", "conn_unix.go", "nbio.Conn.ReadAndGetConn", closure=0,
         guarded={"recv.mux": ["recv.closed"]}, held_calls={"recv.mux": ["recv.doRead"]}),
]

DEADLINE = [
    pred("setdeadline_locked", "conn_unix.go", "nbio.Conn.SetDeadline", closure=0,
         guarded={"recv.mux": ["recv.closed", "recv.rTimer", "recv.wTimer"]}),
    pred("setdeadline1_locked", "conn_unix.go", "nbio.Conn.setDeadline", closure=0,
         guarded={"recv.mux": ["recv.closed"]}),
]

# websocket: all fragments of one message are written inside one hold of the ws mutex
WSWRITE = [
    pred("ws_writemessage_locked", "nbhttp/websocket/conn.go", "websocket.Conn.WriteMessage", closure=0,
         guarded={"recv.mux": ["recv.closed"]}, held_calls={"recv.mux": ["recv.writeFrame"]}),
    pred("ws_writeframe_locked", "nbhttp/websocket/conn.go", "websocket.Conn.WriteFrame", closure=0,
         guarded={"recv.mux": ["recv.closed"]}, held_calls={"recv.mux": ["recv.writeFrame"]}),
    callers_hold("ws_writeframe_only_under_lock", "nbhttp/websocket/conn.go", "recv.writeFrame", "recv.mux"),
    pred("ws_sendqueue_advance_locked", "nbhttp/websocket/conn.go", "websocket.Conn.writeFrame", closure=1,
         guarded={"recv.mux": ["recv.closed", "recv.sendQueue"]}, unheld_calls={"recv.mux": ["recv.Conn.Write"]}),
]

WSCLOSE = [
    pred("ws_close_test_and_set", "nbhttp/websocket/conn.go", "websocket.Conn.CloseAndClean", closure=0,
         guarded={"recv.mux": ["recv.closed", "recv.sendQueue", "recv.message", "recv.bytesCached"]},
         unheld_calls={"recv.mux": ["recv.onClose"]}),
]

CLIENT = [
    pred("client_onresponse_locked", "nbhttp/client_conn.go", "nbhttp.ClientConn.onResponse", closure=0,
         guarded={"recv.mux": ["recv.closed", "recv.handlers"]}),
    pred("client_close_locked", "nbhttp/client_conn.go", "nbhttp.ClientConn.CloseWithError", closure=0,
         guarded={"recv.mux": ["recv.closed"]}, held_calls={"recv.mux": ["recv.closeWithErrorWithoutLock"]}),
    pred("client_do_locked", "nbhttp/client_conn.go", "nbhttp.ClientConn.Do", closure=0,
         guarded={"recv.mux": ["recv.closed", "recv.handlers"]}),
]

ALL = {"JOBQ": JOBQ, "ASYNC": ASYNC, "WRITE": WRITE, "CLOSE": CLOSE, "DEADLINE": DEADLINE, "WSWRITE": WSWRITE,
       "WSCLOSE": WSCLOSE, "CLIENT": CLIENT}
